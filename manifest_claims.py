# Claimed properties and not-applicable ones (executed by gen_manifest.py).
for _i in range(1, 21):
    na("C%02d" % _i, "check not built yet (see DESIGN.md section 4 for the planned static rules)")
na("C18", "reply equality with a reference Redis model over arbitrary command programs is an input/output fact of data-structure code; no clause of it is a shape of the code that a sound static rule in reach decides (DESIGN.md section 6)")
