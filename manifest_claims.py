# Claimed properties and not-applicable ones (executed by gen_manifest.py).
for _i in range(1, 21):
    na("C%02d" % _i, "check not built yet (see DESIGN.md section 4 for the planned static rules)")

ASSUME = "Trusted base: go/types, x/tools go/ssa + VTA call graph (v0.29.0), and the rule implementations in /verif/checker. Decides the named structural clauses (necessary conditions), not the runtime behaviour; idioms outside the enumerated lists are reported as undecided and fail."

claim("C03", "other",
      "Static rule set on the SSA form: every loop in the framework and example store makes progress on every cycle and has a loop-variant exit (no request can make the connection spin, for all argument shapes at once); in the connection loop every received request reaches exactly one response-writer call before the next read/return on every CFG path; no goroutine/channel hand-off between read and reply; QUIT ends the function after its reply; other handler errors become an error reply and keep the loop. Necessary conditions of the property that tests cannot sample (a spinning request hangs a test).",
      ASSUME + " io.Reader never returns (0, nil) forever; reply contents are not decided.",
      "loop-progress analysis + path automaton over the SSA CFG + call-graph reachability", "DESIGN.md 4 C03")
claim("C20", "proof",
      "All-paths dataflow over the SSA CFG of the connection loop with a finite span automaton (root none/open/finished x child depth), coinductive balanced-callee summaries for every span-touching function reachable from the loop (deferred FinishSpan applied at rundefers, recursion through composed commands included), and a who-may-call table of every span operation in redis/.... Obligations = every span call site classified, every loop exit and back edge in state (root finished-or-none, depth 0), every span-touching callee balanced; all must be discharged.",
      ASSUME + " tracer.Context implements a stack; no panic unwinds through the loop.",
      "path automaton (typestate) over SSA CFG with callee summaries", "DESIGN.md 4 C20")

claim("C01", "other",
      "Static rule set: byte<->type tables mutually inverse and total, parser dispatch bytes and serializer prefixes agree with them; every CFG path of Message.RESPBytes / Array.RESPBytes emits the RESP2 production of its type as abstract tokens (decimal length of the very payload written, bulk payload untouched, null/empty bulk distinct, array count = loop bound, one element per iteration); bulk body read by length only (declared+2 bytes, [0:declared] returned, only the CRLF offsets inspected, full-read idiom); constructors build the type they name with round-trip-safe strconv settings. Necessary conditions of the encode/decode round trip for all values.",
      ASSUME + " Does not decide decode(encode(v)) == v as values.",
      "emission-grammar check by CFG path enumeration over SSA + constant table evaluation + dataflow idiom recognition", "DESIGN.md 4 C01")
claim("C02", "other",
      "Static rule set over every use of the parser's reader: each read is a one-byte read whose byte is used only under its n/err test, or a full-read idiom (io.ReadFull/ReadAtLeast/CopyN, or the accumulate loop with buf[total:], total += n, exit at total == size, short end-of-stream is an error on every path to success); the reader never escapes to a read-ahead consumer; the bulk frame is exactly declared+2 bytes and the line reader consumes exactly one byte after the CR; a stateful parser must be built outside the request loop. Necessary conditions for independence from chunking, for all chunkings at once.",
      ASSUME + " An io.Reader never returns (0,nil) forever.",
      "who-may-use table on the reader field + loop idiom recognition + path-sensitive exit facts on SSA", "DESIGN.md 4 C02")
claim("C06", "other",
      "Static rule set over the call graph of Parser.Next: wire-declared numbers are bounded by constants before any arithmetic and before sizing any allocation (no int overflow on 64-bit and, thorough tier, 32-bit); a (nil,nil) end-of-stream result is nil-tested before it is stored and a pre-sized element slice is returned only after its filling loop completed; every panic-capable instruction in the scope is discharged by an ABCD-style inequality prover (branch facts, phi edges, caller facts); loops make progress and recursion consumes input first. Decides absence of these panic/absent-element shapes for all inputs.",
      ASSUME + " strconv.Atoi reports overflow as an error. Memory use below the constant bounds and stack depth are not decided.",
      "taint-to-sink with dominating constant bounds + ABCD-lite bounds prover on SSA + loop progress", "DESIGN.md 4 C06")


claim("C07", "other",
      "Static rule set making process survival independent of request contents: every goroutine root in redis/... that does client-driven work registers as its first call a defer whose own body calls recover() (a recover one call deeper is ineffective and is reported); no call site in repository packages (thorough tier: nor in the non-stdlib dependencies) reachable from a connection goroutine exits the process; accept loops do no client-controlled work, end only on Accept's own error and never leak an accepted socket. Hence any recoverable panic raised by any request, for every input, ends only the offending connection.",
      ASSUME + " Does not decide the correctness of other clients' replies, unrecoverable runtime faults (stack exhaustion, OOM; concurrent map access is C14's rule), or application handlers that exit.",
      "goroutine-root discovery over the VTA call graph + entry-block defer/recover check + who-may-call (exit sinks) + accept-loop path automaton", "DESIGN.md 4 C07")
claim("C11", "other",
      "Static rule set: end of stream inside an array is an error (nil-tested nested reads; pre-sized slices complete before success); the inventory of end-of-stream-to-success returns in the parser equals the confirmed set and the EOF-tolerant line reader is only used for prefixes that a mandatory read follows; short bulk bodies are errors on every path; the handler is called only with a value tested complete and every fully received request gets exactly one flushed reply before the next read; socket close and registry removal on every exit. Necessary conditions for 'executed only if received completely', for all cut offsets at once.",
      ASSUME + " Requests are arrays of bulk strings (the property's quantifier).",
      "EOF-edge inventory + who-may-call + path automata and path-sensitive exit facts on SSA", "DESIGN.md 4 C11")
claim("C19", "other",
      "Static pairing rules (path automata on the SSA CFG): every path of every client-driven goroutine root closes the accepted socket (Close, registered deferred Close, or hand-over to another checked root) and Conn.Close closes the embedded socket unless flagged; AddConn is followed on every path by a registered deferred RemoveConn of the same connection under the same key; accept loops hand every accepted socket to a goroutine or close it; nothing blocks after the request loop; Stop closes listeners then synchronously sweeps every registered connection; only AddConn/RemoveConn/the constructor write the registry. Decides release on every control-flow path (all ending modes at once).",
      ASSUME + " Does not decide descriptor/goroutine counts at run time, nor a peer that never reads (no write deadline).",
      "acquire/release pairing by path automaton over SSA CFG + who-may-write table", "DESIGN.md 4 C19")


claim("C04", "other",
      "Static rule set: exactly one call site in production packages can write to a client connection and it is the response writer of the connection loop; what it writes is on every path Message.RESPBytes() of a message with its error checked; in the serializer the payload of status/error/integer replies passes a proven CR/LF sanitiser (all return values free of both bytes); every serializer path emits a complete frame of its type into a fresh local buffer (emission grammar, array count = elements written). Together: no client-controlled byte and no handler result can add, split or truncate a frame — for all inputs and handler results of the five declared types.",
      ASSUME + " A handler returning a message of an undeclared type or an array with a nil element is outside what is decided (the latter panics into C07's barrier).",
      "who-may-write table + value provenance on SSA + sanitiser recognition + emission-grammar path enumeration", "DESIGN.md 4 C04")
claim("C08", "other",
      "Static gate rules: in the dispatcher every path to the looked-up executor crosses IsAuthrized()==true on the same connection or key == the registered name of the executor that calls Auth (path automaton with branch-edge events), the executor table is read nowhere else and handler methods are called only behind it; the authorisation flag is written only by the constructor (false) and SetAuthrized, called only with the initial !requirepass state before the loop or with true after Authenticate(conn) returned ok && err==nil on the same connection; presented credentials are stored before Authenticate; password presence does not depend on content; every path of the password authenticator to true crosses absence or exact equality with the configured field; Start registers an authenticator for the configured password before listening; executors do not write variables captured across connections. A complete structural argument for 'no executor before exact AUTH' under the stated assumptions.",
      ASSUME + " String == is exact; requirepass changed at run time without Restart, timing channels and application-supplied handlers are not decided.",
      "typestate/gate path automaton with branch-edge events on SSA + who-may-call/who-may-write tables + backward slices", "DESIGN.md 4 C08")
claim("C09", "other",
      "Static rule set: the generated tls.Config demands RequireAndVerifyClientCert against a fresh pool holding only the configured CA (TLS>=1.2, no verification override) and TLS sockets are used only through tls.Server; the request loop is entered on a TLS connection only after Handshake()==nil, ConnectionState taken after it and Authenticate ok && err==nil (automaton with phi-edge pruning); the common name compared is that of PeerCertificates[0]; accept loops do no handshake/read work, end only on Accept's error, hand over or close every socket, and close only their own listener; failing paths close the socket. Decides the gate and containment structurally for the whole enumerated configuration x credential x fault space.",
      ASSUME + " crypto/tls does chain and expiry validation; an application-supplied tls.Config replaces the generated one.",
      "constant/config-literal evaluation + path automaton with phi-edge pruning + value provenance on SSA", "DESIGN.md 4 C09")


claim("C13", "other",
      "Static scope/ownership rules: a fresh Conn allocation per accepted socket with default state; the same connection value is passed along every hop of the dispatch chain; functions reachable from the request handler store only into locals, the connection, or the enumerated shared state (Config.params) — no server field, package variable, cross-connection captured variable or pooled object; the database id and the authorisation flag are written only by their constructor/setter/handler on their own connection, never on a path that then fails; accessors read their receiver only; nothing reachable from the lifecycle/registry API mutates per-connection state. Decides 'state kept in the wrong scope' for all interleavings at once (a scope fact, not a schedule fact).",
      ASSUME + " Applications do not mutate *Conn values obtained from Server.Conns(); memory-model visibility is C14.",
      "who-may-write tables + effect-scope classification of stores + value identity on SSA", "DESIGN.md 4 C13")
claim("C14", "other",
      "Static race detection by must-locksets (Eraser discipline decided statically): for every field of the server-wide structs and of Conn, every write and every other access that can run in concurrently executing roots (connection/accept goroutines among themselves and against Stop/Restart/Start/registry queries; Conn: owner against a root reaching it through the registry) hold a common mutex, exclusively at the write, with map/slice contents attributed to their field; every lock is released on every path; lock order is acyclic; no lock is held across a blocking transport call. Sufficient for race freedom on those fields because mutexes are the only synchronisation in the framework (checked).",
      ASSUME + " No go/pointer analysis: aliasing by struct type + field; application handlers and the example store are outside (C16).",
      "static must-lockset analysis (path automaton on SSA + call-graph root reachability)", "DESIGN.md 4 C14")
claim("C15", "other",
      "Static lifecycle rules: listener fields written only from the lifecycle API; accept loops receive their listener as a parameter and close only that value; Stop closes listeners before synchronously sweeping every registered connection; the registry is written only by constructor/AddConn/RemoveConn and AddConn/RemoveConn bracket the connection loop; every goroutine the framework starts must be joined by Stop — violated today at the four go statements and recorded as known findings (no join exists). Necessary conditions named in the property's own anchors; scheduling itself is not explored.",
      ASSUME + " Known findings: R15.d x4 (no join).",
      "who-may-write tables + path automaton (ordering) + structural join check on SSA", "DESIGN.md 4 C15")
claim("C16", "other",
      "Narrow claim: the one structural necessary condition of linearizability — a command making more than one handler call, and an example-store handler path making more than one step on shared store state, must run inside a common critical section. No such lock exists in the unchanged tree; the 10 derived commands and 21 handler path-sets that violate it today are recorded known findings keyed by command / handler path signature, so a NEW non-atomic composite (or a changed path signature) is still reported. Linearizability itself is not decided.",
      ASSUME + " Known findings: R16.a x10, R16.b x21.",
      "handler-call counting by path automaton with callee summaries + store-operation path signatures on SSA", "DESIGN.md 4 C16")
claim("C17", "other",
      "Static taint/ownership rules: the string compiled inside redis/glob is built only from constants and regexp.QuoteMeta results (a flow of the pattern bypassing QuoteMeta is reported; the constant skeleton is compiled with regexp/syntax at analysis time, so compiling cannot fail); no raw regexp compilation of non-constant patterns outside redis/glob, and in KEYS and SCAN MATCH the client's pattern flows only into glob.Compile (one interpreter, so they agree); skeleton anchored with ^...$ and '*'->'.*', '?'->'.'; MustCompile only on constants. Given these, equality with a reference glob matcher is a property of package regexp.",
      ASSUME,
      "taint-to-sink with sanitiser (QuoteMeta) on SSA + who-may-call + constant evaluation", "DESIGN.md 4 C17")


claim("C05", "other",
      "Static rule set: for each of the 67 registered commands the handler-call signature extracted symbolically from the executor's SSA (request position -> handler parameter through which conversion; option keyword -> option field; constant options; rest/pairs collectors in cursor order; derived commands as call sequences; the executor's own connection; result passed through) equals the row of an oracle table reviewed against the Redis command reference and the handler interface; command names are looked up upper-cased, registered names and case constants under upper-cased tags are upper case; an unknown command reaches no executor; direct commands return the handler's result unchanged and the connection loop replies with it; parsed payload bytes are owned copies. Decides argument routing for all commands and all argument values at once.",
      ASSUME + " The oracle table (/verif/tables/commands.json) is hand-reviewed; []byte<->string conversion is the identity; strconv corner cases are assumed.",
      "symbolic extraction over SSA (positions by dominance, terms by backward slicing, callee inlining) compared with an independent table", "DESIGN.md 4 C05")
claim("C10", "other",
      "Static error-use discipline over all executors and argument helpers: every extraction result is used only under its nil-error test (default-value, loop-carried and store-then-test idioms recognised); numeric accessors delegate to strconv; no constructed rejection is dropped; the places tolerating end-of-arguments equal the confirmed inventory; collectors are non-empty and later parts of an element / option values are mandatory; SET option stores are dominated by rejecting tests covering their exclusivity group and expiry >= 1; no argument is read after a handler call (no partial execution); rejected requests keep the connection. Decides rejection-before-execution for every command and every argument position at once.",
      ASSUME + " Inventory table /verif/tables/optional_tails.json confirmed by reading; error texts and range rules outside the property are not decided.",
      "error-use dataflow (dominance gates, phi-edge facts) + inventory comparison + path reachability on SSA", "DESIGN.md 4 C10")


claim("C12", "other",
      "Narrow claim (necessary conditions only): the INCR/DECR counter addition and the DECRBY negation are guarded by rejecting comparisons against math.MaxInt/MinInt and a non-integer stored value is rejected before use; the GETRANGE/SUBSTR slice is proven in range for every length/start/end by the inequality prover; CONFIG SET/GET agree on map, key and reply order; ZREVRANGE/ZREVRANGEBYSCORE reverse by 2 exactly on the WITHSCORES edge; the derived commands call the primitives as the oracle table says (operands, order, sign, concatenation order, request-ordered iteration, mirrored ZREVRANGE indexes, swapped bounds and exclusive markers). Reply-value equality with Redis (clamping values, HKEYS/HVALS pairing, LIMIT under reversal) is not decided.",
      ASSUME + " Primitive handler operations behave like Redis (granted by the property).",
      "dominating overflow-guard check + ABCD-lite bounds proof + symbolic signature comparison on SSA", "DESIGN.md 4 C12")


claim("C18", "other",
      "Narrow claim — structural necessary conditions only: stored client data leaves the example handlers only through binary-safe reply constructors (the status-reply constructor is called with constants only), so values come back byte-for-byte whatever bytes they contain; a rename that stores under the new name and deletes the old one deletes first or tests the names for equality (renaming a key onto itself keeps it); SET and HSET store the very value parameter they were given. Reply equality with a reference Redis model over command programs (orders, counts, duplicate suppression) is a value property of the data-structure code and is not decided.",
      ASSUME + " Everything about container contents and orders is undecided.",
      "taint-style constructor-argument check + ordering/guard check + value-identity check on SSA", "DESIGN.md 6 / 8.3")

for _k in list(CLAIMS):
    NA.pop(_k, None)

# Rules added after the second round of seeded changes (DESIGN.md 8.3 / 9.2), appended to the
# claim texts so that each check's entry says what it decides today.
_EXTRA = {
 "C01": " Added: what a setter stores into Message.bytes is its parameter, nil or parser output (an empty payload cannot become the null one), and IsNil tests == nil; the serializer model follows helpers and both the bytes.Buffer and the append idiom. Round 3: the accumulate loop's completeness test is checked in the right direction.",
 "C02": " Added: the error edge of Parser.Next leaves the request loop (no further read on a stream whose position is unknown); the bulk body may also be a full-read of `declared` bytes followed by a checked 2-byte full-read of the delimiter. Round 3: parser state written before a nested Next is restored on every exit.",
 "C03": " Added: no retry after a parser error; the serializer fails only for an undeclared type or a nested failure, never depending on payload content (an unserializable reply is silently dropped); a blocking read counts as loop progress only if its failure leaves the loop. Round 3: a loop bounded only by a client-supplied integer does data-proportional work per cycle (found LPOP/RPOP, repaired in 25cbbf7); every index/slice in executors and argument helpers is proven in range; a goroutine started in a loop owns per-iteration values.",
 "C04": " Added: a connection handed as io.Writer to code outside the repository counts as a write site; a payload written raw is accepted only on paths that excluded CR and LF by a test or validator. Round 3: no write deadline on client connections while the loop continues after a failed write; reply encoders reached through repository interfaces are followed.",
 "C05": " Added: constants chosen because of an argument's value are rendered as such (an explicit 0 is not 'absent'); decoding is chunk-independent (parser read idioms) and replies are built in call-local storage; executor factories, function-valued parameters and option structs filled through helpers are followed. Round 3: the bit size of float conversions is part of the signature (float32(A2) differs from float(A2)); the glob translation rules of C17 are run here too (SCAN MATCH).",
 "C07": " Added: nil results of functions that can return (nil, nil) are tested before any dereference on the request path; no call under a held mutex reaches an acquisition of the same mutex (re-entrant RLock/Lock); no map or field of a mutex-carrying struct is written under its read lock only (framework and example store). Round 3: allocations sized by a client integer are bounded by data length; the accept loop's goroutine captures no variable shared between iterations.",
 "C08": " Added: the framework only appends to the authenticator list (never clears or replaces it); authenticators are read-only below Authenticate (no per-request scratch state shared between connections). Round 3: SetPassword/SetUserName store their argument on every path; password presence is a flag, not derived from content.",
 "C09": " Added: the framework never clears the authenticator list (a dropped common-name rule would admit any certificate of the CA). Round 3: authenticators decide by equality over the whole credential (no prefix, length-only or case-folded comparison).",
 "C10": " Added: expiry stores outside option loops are bounded below by 1 through whichever helper read the value; optional-tail helpers are attributed to the executors calling them. Round 3: every index and slice expression in executors and argument helpers is proven in range by the inequality prover.",
 "C11": " Added: no retry after a parser error; after the handler call the loop is left only through QUIT (a failed reply write does not drop the requests already received); RemoveConn deletes its entry on every path. Round 3: a goroutine started in a loop owns per-iteration values.",
 "C12": " Added: IsNil (how derived commands tell a missing key from an empty value) tests payload == nil. Round 3: CONFIG GET pairs each key with the value read in the same iteration.",
 "C13": " Added: a framework handler never returns an error reply with a nil error and SetDatabase runs only under err == nil; authenticators are read-only below Authenticate. Round 3: the accept loop's goroutine captures no variable shared between iterations; password presence is a flag set unconditionally.",
 "C14": " Added: no write under a read lock, no re-entrant acquisition, read-only authenticators, call-local reply buffers, and no method of a guarded struct returning a slice that another method writes in place. Round 3: executor closures share no captured cell, through nested field addresses.",
 "C15": " Added: an accept loop ends on its listener's closure (net.ErrClosed) whatever any server-wide flag says. Round 3: the registry key is assigned once from uuid.New*; Stop closes the listeners that are open, guarded by nothing but nil tests of the listener and earlier Close errors.",
 "C16": " Added: replies are serialized into call-local storage (a pooled buffer returned before the write lets one client read another's reply). Round 3: executor closures share no captured cell.",
 "C19": " Added: accept loops end with their listener; every loop of the framework makes progress (a spinning parser loop keeps goroutine, socket and registry entry); RemoveConn deletes on every path. Round 3: client-bounded loops; unique registry key; goroutines own per-iteration values.",
 "C20": " Added: on the request path, nil results of (nil, nil)-returning functions are tested before dereference (the one panic class the framework produces itself, which would leave the root span open). Round 3: the span slot Conn.Context is written only by the constructor and SetSpanContext, never from the lifecycle API's goroutine; index safety over executors.",
 "C17": " Round 3: translation by bytes instead of runes is reported; a compiled glob is consulted through Match* only.",
 "C18": " Round 3: an in-place helper (reverse/sort) is never handed a reslice of a container's own field; a loop that stores to a receiver field does not consult a copy of it taken before the loop; float conversions use 64 bits.",
}
for _k, _t in _EXTRA.items():
    if _k in CLAIMS:
        _c = CLAIMS[_k]
        CLAIMS[_k] = (_c[0], _c[1] + _t, _c[2], _c[3], _c[4])
