# Claimed properties and not-applicable ones (executed by gen_manifest.py).
for _i in range(1, 21):
    na("C%02d" % _i, "check not built yet (see DESIGN.md section 4 for the planned static rules)")
na("C18", "reply equality with a reference Redis model over arbitrary command programs is an input/output fact of data-structure code; no clause of it is a shape of the code that a sound static rule in reach decides (DESIGN.md section 6)")

ASSUME = "Trusted base: go/types, x/tools go/ssa + VTA call graph (v0.29.0), and the rule implementations in /verif/checker. Decides the named structural clauses (necessary conditions), not the runtime behaviour; idioms outside the enumerated lists are reported as undecided and fail."

claim("C03", "other",
      "Static rule set on the SSA form: every loop in the framework and example store makes progress on every cycle and has a loop-variant exit (no request can make the connection spin, for all argument shapes at once); in the connection loop every received request reaches exactly one response-writer call before the next read/return on every CFG path; no goroutine/channel hand-off between read and reply; QUIT ends the function after its reply; other handler errors become an error reply and keep the loop. Necessary conditions of the property that tests cannot sample (a spinning request hangs a test).",
      ASSUME + " io.Reader never returns (0, nil) forever; reply contents are not decided.",
      "loop-progress analysis + path automaton over the SSA CFG + call-graph reachability", "DESIGN.md 4 C03")
claim("C20", "proof",
      "All-paths dataflow over the SSA CFG of the connection loop with a finite span automaton (root none/open/finished x child depth), coinductive balanced-callee summaries for every span-touching function reachable from the loop (deferred FinishSpan applied at rundefers, recursion through composed commands included), and a who-may-call table of every span operation in redis/.... Obligations = every span call site classified, every loop exit and back edge in state (root finished-or-none, depth 0), every span-touching callee balanced; all must be discharged.",
      ASSUME + " tracer.Context implements a stack; no panic unwinds through the loop.",
      "path automaton (typestate) over SSA CFG with callee summaries", "DESIGN.md 4 C20")
for _k in list(CLAIMS):
    NA.pop(_k, None)
