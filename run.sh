#!/bin/sh
# usage: run.sh <property> <quick|thorough>
# Runs the static checker for one property against /repo's current working tree.
set -u
PROP="$1"; TIER="${2:-quick}"
export GOFLAGS=-mod=mod GOPROXY=off GOSUMDB=off GOTOOLCHAIN=local GOWORK=off
cd /verif || exit 2
if [ ! -x /verif/bin/verifcheck ] || [ -n "$(find /verif/checker -name '*.go' -newer /verif/bin/verifcheck 2>/dev/null | head -1)" ]; then
  (cd /verif/checker && go build -o /verif/bin/verifcheck .) || { echo "checker build failed"; exit 2; }
fi
if [ "$TIER" = thorough ]; then
  /verif/bin/verifcheck -property "$PROP" -tier thorough -repo /repo -verif /verif
  rc=$?
  [ $rc -ne 0 ] && exit $rc
  # seeded-variant controls (about the checker, never about the tree): see DESIGN.md 2.2
  if [ -x /verif/controls/run_controls.sh ]; then
    /verif/controls/run_controls.sh "$PROP" || exit 1
  fi
  exit 0
fi
exec /verif/bin/verifcheck -property "$PROP" -tier quick -repo /repo -verif /verif
