#!/bin/bash
# usage: mkctl_sed.sh <out.diff> <sed-expr> <file>...   (files relative to /repo)
out="$1"; expr="$2"; shift 2
T=$(mktemp -d /tmp/mkctlsed.XXXXXX); trap 'rm -rf "$T"' EXIT
: > "$out"
for f in "$@"; do
  mkdir -p "$T/a/$(dirname $f)" "$T/b/$(dirname $f)"
  cp "/repo/$f" "$T/a/$f"; sed -E "$expr" "/repo/$f" > "$T/b/$f"; gofmt -w "$T/b/$f"
  (cd "$T" && diff -u "a/$f" "b/$f") >> "$out"
done
echo "wrote $out $(wc -l < $out) lines"
