#!/bin/bash
# usage: run_controls.sh <property>
# Seeded-variant self-test of the checker (thorough tier): every patch under
# /verif/controls/<property>/ is applied to a scratch copy of /repo (under mktemp, removed afterwards)
# and the property's rule set is run on the copy. A file named benign_*.diff must leave the check
# silent; every other patch must make it fire. Patches that no longer apply are skipped.
# The outcome is recorded in the evidence file (coverage.controls); it is about the checker, not
# about the tree, so it never prints a VIOLATION line and never changes the exit status.
set -u
PROP="$1"
DIR=/verif/controls/$PROP
EV=/verif/evidence/$PROP.json
[ -d "$DIR" ] || exit 0
export GOFLAGS=-mod=mod GOPROXY=off GOSUMDB=off GOTOOLCHAIN=local GOWORK=off
TMP=$(mktemp -d /tmp/verif-controls.XXXXXX)
trap 'rm -rf "$TMP"' EXIT INT TERM
run_one() {
  p="$1"; name=$(basename "$p" .diff)
  out=$(/verif/controls/try.sh "$p" "$PROP" 2>&1); rc=$?
  if echo "$out" | grep -q PATCH-DOES-NOT-APPLY; then echo "$name skipped" ; return; fi
  if echo "$out" | grep -q "^ERROR"; then echo "$name error"; return; fi
  case "$name" in
    benign_*) if [ $rc -eq 0 ]; then echo "$name silent-ok"; else echo "$name FALSE-ALARM"; fi ;;
    *) if [ $rc -ne 0 ]; then echo "$name fired-ok"; else echo "$name MISSED"; fi ;;
  esac
}
export -f run_one; export PROP
ls "$DIR"/*.diff 2>/dev/null | xargs -P 4 -I{} bash -c 'run_one {}' > "$TMP/res.txt"
sort "$TMP/res.txt" | sed "s/^/CONTROL $PROP /"
if [ -f "$EV" ]; then
  fired=$(grep -c " fired-ok$" "$TMP/res.txt"); silent=$(grep -c " silent-ok$" "$TMP/res.txt")
  missed=$(grep -c " MISSED$" "$TMP/res.txt"); fa=$(grep -c " FALSE-ALARM$" "$TMP/res.txt"); sk=$(grep -c -E " (skipped|error)$" "$TMP/res.txt")
  list=$(sort "$TMP/res.txt" | jq -R . | jq -s .)
  jq --argjson l "$list" --argjson f "$fired" --argjson s "$silent" --argjson m "$missed" --argjson a "$fa" --argjson k "$sk" \
    '.coverage.controls = {seeded_fired:$f, benign_silent:$s, seeded_missed:$m, benign_false_alarm:$a, skipped:$k, results:$l}' "$EV" > "$TMP/ev.json" && mv "$TMP/ev.json" "$EV"
fi
exit 0
