#!/usr/bin/env python3
"""mkctl.py <out.diff> : reads edit blocks from stdin and writes a unified diff against /repo.
Block syntax:
@@ <relative file>
<old text>
=====
<new text>
@@ ...
The old text must occur exactly once in the file."""
import sys, os, subprocess, tempfile, shutil
out = sys.argv[1]
blocks = []
cur = None
for line in sys.stdin.read().split('\n'):
    if line.startswith('@@ '):
        cur = {'file': line[3:].strip(), 'old': [], 'new': [], 'side': 'old'}
        blocks.append(cur)
    elif line == '=====' and cur is not None:
        cur['side'] = 'new'
    elif cur is not None:
        cur[cur['side']].append(line)
tmp = tempfile.mkdtemp(prefix='mkctl')
try:
    diff = ''
    files = {}
    for b in blocks:
        f = b['file']
        if f not in files:
            files[f] = open(os.path.join('/repo', f)).read()
        old = '\n'.join(b['old']).strip('\n'); new = '\n'.join(b['new']).strip('\n')
        if files[f].count(old) != 1:
            sys.exit("old text occurs %d times in %s:\n%s" % (files[f].count(old), f, old))
        files[f] = files[f].replace(old, new)
    for f, content in files.items():
        os.makedirs(os.path.join(tmp, 'a', os.path.dirname(f)), exist_ok=True)
        os.makedirs(os.path.join(tmp, 'b', os.path.dirname(f)), exist_ok=True)
        shutil.copy(os.path.join('/repo', f), os.path.join(tmp, 'a', f))
        open(os.path.join(tmp, 'b', f), 'w').write(content)
        r = subprocess.run(['gofmt', '-l', os.path.join(tmp, 'b', f)], capture_output=True, text=True)
        if r.stdout.strip() or r.returncode != 0:
            subprocess.run(['gofmt', '-w', os.path.join(tmp, 'b', f)])
        p = subprocess.run(['diff', '-u', 'a/' + f, 'b/' + f], cwd=tmp, capture_output=True, text=True)
        diff += p.stdout
    open(out, 'w').write(diff)
    print("wrote", out, len(diff.splitlines()), "lines")
finally:
    shutil.rmtree(tmp)
