#!/bin/sh
# usage: try.sh <patch-file> <property> [extra verifcheck args...]
# Applies a patch to a scratch copy of /repo (outside /repo and /verif), runs the checker for the
# property on the copy without writing evidence, prints its output, and removes the copy.
# A patch file name ending in .rev.diff is applied in reverse (used to re-create a repaired defect).
set -u
PATCH="$1"; PROP="$2"; shift 2
export GOFLAGS=-mod=mod GOPROXY=off GOSUMDB=off GOTOOLCHAIN=local GOWORK=off
D=$(mktemp -d /tmp/verif-scratch.XXXXXX)
trap 'rm -rf "$D"' EXIT INT TERM
rsync -a --exclude .git --exclude zzdemo /repo/ "$D/" || exit 2
case "$PATCH" in
  *.rev.diff) (cd "$D" && patch -R -p1 -s --no-backup-if-mismatch < "$PATCH") || { echo "PATCH-DOES-NOT-APPLY $PATCH"; exit 4; } ;;
  *) (cd "$D" && patch -p1 -s --no-backup-if-mismatch < "$PATCH") || { echo "PATCH-DOES-NOT-APPLY $PATCH"; exit 4; } ;;
esac
/verif/bin/verifcheck -property "$PROP" -repo "$D" -verif /verif -no-evidence "$@"
