#!/usr/bin/env python3
"""Generates /verif/MANIFEST.json from the tables below (kept in one place so it stays valid)."""
import json, subprocess

ENV = "GOFLAGS=-mod=mod GOPROXY=off GOSUMDB=off GOTOOLCHAIN=local GOWORK=off"

# property -> (level category, text, note, technique, design_ref)
CLAIMS = {}
NA = {}

def claim(pid, cat, text, note, technique, ref):
    CLAIMS[pid] = (cat, text, note, technique, ref)

def na(pid, reason):
    NA[pid] = reason

exec(open('/verif/manifest_claims.py').read())

checks = []
for pid in sorted(CLAIMS):
    cat, text, note, tech, ref = CLAIMS[pid]
    checks.append({
        "property_id": pid,
        "quick_cmd": "/verif/run.sh %s quick" % pid,
        "thorough_cmd": "/verif/run.sh %s thorough" % pid,
        "evidence_file": "/verif/evidence/%s.json" % pid,
        "replay_cmd_template": "/verif/bin/verifcheck -property %s -tier quick -dump  # obligation record: {path}" % pid,
        "engine": "verifcheck",
        "level_claimed": {"category": cat, "text": text, "design_ref": ref},
        "level_note": note,
        "technique": tech,
    })

hooks_commits = []
m = {
    "version": 1,
    "setup_cmd": "cd /verif/checker && %s go build -o /verif/bin/verifcheck ." % ENV,
    "hooks": {
        "guard": "verif",
        "enable": "none: static analysis reads the sources; no instrumentation or hook is compiled into /repo (no source_commits)",
        "baseline_off_cmd": "cd /repo && GOFLAGS=-mod=mod GOPROXY=off GOSUMDB=off go test -json -vet=off -count=1 -timeout 25m ./...",
        "source_commits": hooks_commits,
        "add_only": True,
    },
    "engines": [{
        "name": "verifcheck",
        "path": "/verif/checker",
        "serves_properties": sorted(CLAIMS),
        "kind_free_text": "custom static analyser over go/types + go/ssa + VTA call graph (golang.org/x/tools v0.29.0): path automata on the CFG, dominance gates, who-may-call tables, loop-progress, error-use discipline, must-locksets, taint-to-sink, serializer emission grammar",
    }],
    "checks": checks,
    "notes": "All checks are static: they load and type-check /repo's current working tree on every run and decide structural rules; nothing executes go-redis code. See DESIGN.md. Known findings: /verif/known_findings.json.",
    "not_applicable": [{"property_id": k, "reason": NA[k]} for k in sorted(NA)],
}
json.dump(m, open('/verif/MANIFEST.json', 'w'), indent=1)
print("claimed:", sorted(CLAIMS), "n/a:", sorted(NA))
