// Demonstration for the empty-command-array repair: "*0\r\n" (and "*-1\r\n") made
// handleArrayMessage dereference the nil first element; the panic was swallowed by the connection
// barrier, the connection was dropped without a reply and the request's root span was never
// finished. After the repair the request is answered with an error and the connection lives on.
package zzdemo

import (
	"bufio"
	"net"
	"strings"
	"testing"
	"time"

	exsrv "github.com/cybergarage/go-redis/examples/go-redisd/server"
)

func TestEmptyCommandArrayAnswered(t *testing.T) {
	s := exsrv.NewServer()
	s.SetPort(17995)
	if err := s.Start(); err != nil {
		t.Fatal(err)
	}
	defer s.Stop()
	time.Sleep(50 * time.Millisecond)
	for _, req := range []string{"*0\r\n", "*-1\r\n"} {
		c, err := net.Dial("tcp", "127.0.0.1:17995")
		if err != nil {
			t.Fatal(err)
		}
		r := bufio.NewReader(c)
		c.SetReadDeadline(time.Now().Add(2 * time.Second))
		c.Write([]byte(req + "*1\r\n$4\r\nPING\r\n"))
		l1, err := r.ReadString('\n')
		if err != nil || !strings.HasPrefix(l1, "-") {
			t.Errorf("%q: first reply %q, %v (want an error reply)", req, l1, err)
		}
		l2, err := r.ReadString('\n')
		if err != nil || l2 != "+PONG\r\n" {
			t.Errorf("%q: the connection did not survive: %q, %v", req, l2, err)
		}
		c.Close()
	}
}
