// Demonstration of the known findings R16.a / R16.b (no command-level atomicity):
// concurrent INCR loses updates; concurrent SETNX has several winners; concurrent RPUSH races
// on the list contents (run with -race for the last one).
package zzdemo

import (
	"bufio"
	"fmt"
	"net"
	"strings"
	"sync"
	"testing"

	exsrv "github.com/cybergarage/go-redis/examples/go-redisd/server"
)

func rc(args ...string) string {
	var b strings.Builder
	fmt.Fprintf(&b, "*%d\r\n", len(args))
	for _, a := range args {
		fmt.Fprintf(&b, "$%d\r\n%s\r\n", len(a), a)
	}
	return b.String()
}

func TestKnownIncrLosesUpdates(t *testing.T) {
	s := exsrv.NewServer()
	s.SetPort(17991)
	if err := s.Start(); err != nil {
		t.Fatal(err)
	}
	defer s.Stop()
	const clients, per = 8, 400
	var wg sync.WaitGroup
	winners := make([]int, clients)
	for i := 0; i < clients; i++ {
		wg.Add(1)
		go func(i int) {
			defer wg.Done()
			c, err := net.Dial("tcp", "127.0.0.1:17991")
			if err != nil {
				return
			}
			defer c.Close()
			r := bufio.NewReader(c)
			for j := 0; j < per; j++ {
				c.Write([]byte(rc("INCR", "ctr")))
				r.ReadString('\n')
				c.Write([]byte(rc("RPUSH", "lst", "x")))
				r.ReadString('\n')
				c.Write([]byte(rc("SETNX", fmt.Sprintf("nx%d", j), "v")))
				l, _ := r.ReadString('\n')
				if l == ":1\r\n" {
					winners[i]++
				}
			}
		}(i)
	}
	wg.Wait()
	c, _ := net.Dial("tcp", "127.0.0.1:17991")
	defer c.Close()
	r := bufio.NewReader(c)
	c.Write([]byte(rc("GET", "ctr")))
	l, _ := r.ReadString('\n')
	total := 0
	for _, w := range winners {
		total += w
	}
	if !strings.Contains(l, fmt.Sprint(clients*per)) || total != per {
		t.Fatalf("counter after %d INCRs: %q; SETNX winners for %d keys: %d", clients*per, strings.TrimSpace(l), per, total)
	}
}
