// Demonstration of the known finding R15.d (no join): right after Stop returns, goroutines of
// the framework (accept loop / connection loop) can still be running.
package zzdemo

import (
	"fmt"
	"net"
	"runtime"
	"strings"
	"testing"

	exsrv "github.com/cybergarage/go-redis/examples/go-redisd/server"
)

func TestKnownStopDoesNotJoin(t *testing.T) {
	found := 0
	for i := 0; i < 50 && found == 0; i++ {
		s := exsrv.NewServer()
		s.SetPort(17990)
		if err := s.Start(); err != nil {
			t.Fatal(err)
		}
		var cs []net.Conn
		for k := 0; k < 8; k++ {
			if c, err := net.Dial("tcp", "127.0.0.1:17990"); err == nil {
				cs = append(cs, c)
			}
		}
		s.Stop()
		buf := make([]byte, 1<<20)
		n := runtime.Stack(buf, true)
		st := string(buf[:n])
		if strings.Contains(st, "redis.(*Server).receive") || strings.Contains(st, "redis.(*Server).serve") {
			found++
		}
		for _, c := range cs {
			c.Close()
		}
	}
	if found > 0 {
		t.Fatalf("after Stop returned, framework goroutines were still running (seen in %d run(s))", found)
	}
	fmt.Println("no goroutine seen")
}
