// Demonstrations of the genuine defects repaired by the "fix:" commits in /repo.
// Each test fails on the tree before its fix and passes after it.
// Run: copy into <tree>/zzdemo/ and `go test ./zzdemo/ -run <Name>` (see run.sh).
package zzdemo

import (
	"bufio"
	"crypto/tls"
	"crypto/x509"
	"crypto/x509/pkix"
	"fmt"
	"net"
	"strings"
	"sync"
	"testing"
	"time"

	exsrv "github.com/cybergarage/go-redis/examples/go-redisd/server"
	"github.com/cybergarage/go-redis/redis"
	"github.com/cybergarage/go-redis/redis/auth"
	"github.com/cybergarage/go-redis/redis/glob"
)

var nextPort = 17000
var portMu sync.Mutex

func newServer(t *testing.T) (*exsrv.Server, int) {
	t.Helper()
	portMu.Lock()
	nextPort++
	port := nextPort
	portMu.Unlock()
	s := exsrv.NewServer()
	s.SetPort(port)
	if err := s.Start(); err != nil {
		t.Fatal(err)
	}
	time.Sleep(50 * time.Millisecond)
	return s, port
}

func dial(t *testing.T, port int) net.Conn {
	t.Helper()
	c, err := net.DialTimeout("tcp", fmt.Sprintf("127.0.0.1:%d", port), time.Second)
	if err != nil {
		t.Fatal(err)
	}
	return c
}

func cmd(args ...string) string {
	var b strings.Builder
	fmt.Fprintf(&b, "*%d\r\n", len(args))
	for _, a := range args {
		fmt.Fprintf(&b, "$%d\r\n%s\r\n", len(a), a)
	}
	return b.String()
}

// reply reads one line (enough for status/error/integer/bulk-header replies).
func readLine(t *testing.T, c net.Conn, r *bufio.Reader) string {
	t.Helper()
	c.SetReadDeadline(time.Now().Add(2 * time.Second))
	l, err := r.ReadString('\n')
	if err != nil {
		return "ERR:" + err.Error()
	}
	return l
}

func roundTrip(t *testing.T, port int, reqs ...string) []string {
	t.Helper()
	c := dial(t, port)
	defer c.Close()
	r := bufio.NewReader(c)
	var out []string
	for _, q := range reqs {
		c.Write([]byte(q))
		out = append(out, readLine(t, c, r))
	}
	return out
}

// #1 ZADD option loop spins
func TestZAddOptionSpin(t *testing.T) {
	s, port := newServer(t)
	defer s.Stop()
	got := roundTrip(t, port, cmd("ZADD", "k", "NX", "1", "a"), cmd("PING"))
	if strings.HasPrefix(got[0], "ERR:") || !strings.HasPrefix(got[1], "+PONG") {
		t.Fatalf("no reply: %q", got)
	}
}

// #2 raw bytes for a nil handler result
func TestNilReplyIsFramed(t *testing.T) {
	s, port := newServer(t)
	defer s.Stop()
	got := roundTrip(t, port, "+PING\r\n"+cmd("PING"))
	if !strings.HasPrefix(got[0], "-") {
		t.Fatalf("unframed reply: %q", got)
	}
}

// #3 CR/LF injected into an error reply
func TestErrorReplyNoCRLF(t *testing.T) {
	s, port := newServer(t)
	defer s.Stop()
	c := dial(t, port)
	defer c.Close()
	r := bufio.NewReader(c)
	c.Write([]byte(cmd("foo\r\n+OK\r\nxx") + cmd("ECHO", "marker")))
	l1 := readLine(t, c, r)
	l2 := readLine(t, c, r)
	if !strings.HasPrefix(l1, "-") || !strings.HasPrefix(l2, "$6") {
		t.Fatalf("forged frame in reply stream: %q %q", l1, l2)
	}
}

// #4 truncated array executed
func TestTruncatedArrayNotExecuted(t *testing.T) {
	s, port := newServer(t)
	defer s.Stop()
	roundTrip(t, port, cmd("RPUSH", "l", "a", "b"))
	c := dial(t, port)
	c.Write([]byte("*3\r\n$4\r\nLPOP\r\n$1\r\nl\r\n"))
	c.(*net.TCPConn).CloseWrite()
	time.Sleep(200 * time.Millisecond)
	c.Close()
	got := roundTrip(t, port, cmd("LLEN", "l"))
	if got[0] != ":2\r\n" {
		t.Fatalf("partial request was executed: LLEN=%q", got[0])
	}
}

// #5 absurd declared length kills the process (run in-process: a panic fails the test binary)
func TestHugeBulkLength(t *testing.T) {
	s, port := newServer(t)
	defer s.Stop()
	c := dial(t, port)
	c.Write([]byte("*1\r\n$9223372036854775807\r\n"))
	time.Sleep(200 * time.Millisecond)
	c.Close()
	c = dial(t, port)
	c.Write([]byte("*9223372036854775807\r\n"))
	time.Sleep(200 * time.Millisecond)
	c.Close()
	got := roundTrip(t, port, cmd("PING"))
	if !strings.HasPrefix(got[0], "+PONG") {
		t.Fatalf("%q", got)
	}
}

// #6 empty command array panics the process
func TestEmptyArrayNoCrash(t *testing.T) {
	s, port := newServer(t)
	defer s.Stop()
	c := dial(t, port)
	c.Write([]byte("*0\r\n"))
	time.Sleep(200 * time.Millisecond)
	c.Close()
	got := roundTrip(t, port, cmd("PING"))
	if !strings.HasPrefix(got[0], "+PONG") {
		t.Fatalf("%q", got)
	}
}

// #7 AUTH "" accepted
func TestAuthEmptyPassword(t *testing.T) {
	portMu.Lock()
	nextPort++
	port := nextPort
	portMu.Unlock()
	s := exsrv.NewServer()
	s.SetPort(port)
	s.SetRequirePass("secret")
	if err := s.Start(); err != nil {
		t.Fatal(err)
	}
	defer s.Stop()
	time.Sleep(50 * time.Millisecond)
	got := roundTrip(t, port, cmd("AUTH", ""), cmd("PING"))
	if strings.HasPrefix(got[0], "+OK") || strings.HasPrefix(got[1], "+PONG") {
		t.Fatalf("empty password authorised the connection: %q", got)
	}
	got = roundTrip(t, port, cmd("AUTH", "secret"), cmd("PING"))
	if !strings.HasPrefix(got[0], "+OK") || !strings.HasPrefix(got[1], "+PONG") {
		t.Fatalf("exact password refused: %q", got)
	}
}

// #9 common name found on an intermediate certificate
type fakeAuthConn struct {
	net.Conn
	st *tls.ConnectionState
}

func (f *fakeAuthConn) UserName() (string, bool)  { return "", false }
func (f *fakeAuthConn) Password() (string, bool)  { return "", false }
func (f *fakeAuthConn) IsTLSConnection() bool     { return true }
func (f *fakeAuthConn) TLSConnectionState() (*tls.ConnectionState, bool) { return f.st, true }

func TestCertCommonNameLeafOnly(t *testing.T) {
	a := auth.NewCertificateAuthenticatorWith(auth.WithCommonName("rule"))
	leaf := &x509.Certificate{Subject: pkix.Name{CommonName: "evil"}}
	inter := &x509.Certificate{Subject: pkix.Name{CommonName: "rule"}}
	ok, _ := a.Authenticate(&fakeAuthConn{st: &tls.ConnectionState{PeerCertificates: []*x509.Certificate{leaf, inter}}})
	if ok {
		t.Fatal("leaf CN=evil accepted because an intermediate carries the name")
	}
	ok, _ = a.Authenticate(&fakeAuthConn{st: &tls.ConnectionState{PeerCertificates: []*x509.Certificate{inter, leaf}}})
	if !ok {
		t.Fatal("leaf with the right name refused")
	}
}

// #10 MSET k stores an empty value
func TestMSetDanglingKey(t *testing.T) {
	s, port := newServer(t)
	defer s.Stop()
	got := roundTrip(t, port, cmd("MSET", "k"), cmd("EXISTS", "k"))
	if !strings.HasPrefix(got[0], "-") || got[1] != ":0\r\n" {
		t.Fatalf("%q", got)
	}
}

// #11 DEL without keys / ZADD with a lone score / dangling score reach the handler
func TestEmptyLists(t *testing.T) {
	s, port := newServer(t)
	defer s.Stop()
	got := roundTrip(t, port, cmd("DEL"), cmd("ZADD", "z", "1"), cmd("ZADD", "z", "1", "a", "2"), cmd("MSET"))
	for i, g := range got {
		if !strings.HasPrefix(g, "-") {
			t.Errorf("request %d accepted: %q", i, g)
		}
	}
}

// #12 SCAN TYPE ignored
func TestScanTypeOption(t *testing.T) {
	s, port := newServer(t)
	defer s.Stop()
	got := roundTrip(t, port, cmd("SCAN", "0", "type", "nosuchtype"))
	if !strings.HasPrefix(got[0], "-") {
		t.Fatalf("TYPE option silently ignored: %q", got)
	}
}

// #13 glob metacharacters
func TestGlobLiteral(t *testing.T) {
	if glob.MustCompile("a.c").MatchString("abc") {
		t.Error("'.' acts as an operator")
	}
	if _, err := glob.Compile("a("); err != nil {
		t.Error("compile fails:", err)
	}
	if g, err := glob.Compile("a+b|c$"); err != nil || !g.MatchString("a+b|c$") || g.MatchString("aab") {
		t.Error("metacharacters not literal")
	}
	if !glob.MustCompile("a*c?").MatchString("a..cx") {
		t.Error("wildcards broken")
	}
}

// #14 SCAN MATCH uses a raw regexp
func TestScanMatchGlob(t *testing.T) {
	s, port := newServer(t)
	defer s.Stop()
	got := roundTrip(t, port, cmd("SCAN", "0", "MATCH", "*"))
	if strings.HasPrefix(got[0], "-") {
		t.Fatalf("%q", got)
	}
}

// #19 INCR overflow wraps
func TestIncrOverflow(t *testing.T) {
	s, port := newServer(t)
	defer s.Stop()
	got := roundTrip(t, port, cmd("SET", "k", "9223372036854775807"), cmd("INCR", "k"), cmd("SET", "m", "-9223372036854775808"), cmd("DECR", "m"), cmd("DECRBY", "z", "-9223372036854775808"))
	if !strings.HasPrefix(got[1], "-") || !strings.HasPrefix(got[3], "-") || !strings.HasPrefix(got[4], "-") {
		t.Fatalf("%q", got)
	}
}

// #20 GETRANGE index arithmetic
func TestGetRange(t *testing.T) {
	s, port := newServer(t)
	defer s.Stop()
	c := dial(t, port)
	defer c.Close()
	r := bufio.NewReader(c)
	c.Write([]byte(cmd("SET", "k", "abc")))
	readLine(t, c, r)
	c.Write([]byte(cmd("SET", "e", "")))
	readLine(t, c, r)
	type tc struct{ key, s, e, want string }
	for _, x := range []tc{{"k", "2", "0", ""}, {"k", "0", "-1", "abc"}, {"k", "-2", "-1", "bc"}, {"k", "5", "9", ""}, {"k", "0", "9", "abc"}, {"e", "0", "-1", ""}, {"k", "-9", "-8", "a"}, {"k", "1", "1", "b"}} {
		c.Write([]byte(cmd("GETRANGE", x.key, x.s, x.e)))
		h := readLine(t, c, r)
		if h != fmt.Sprintf("$%d\r\n", len(x.want)) {
			t.Fatalf("GETRANGE %v: header %q", x, h)
		}
		b := readLine(t, c, r)
		if b != x.want+"\r\n" {
			t.Fatalf("GETRANGE %v: body %q", x, b)
		}
	}
}

// #15 CONFIG SET races with connects (run with -race)
func TestConfigRace(t *testing.T) {
	s, port := newServer(t)
	defer s.Stop()
	var wg sync.WaitGroup
	for i := 0; i < 4; i++ {
		wg.Add(1)
		go func(i int) {
			defer wg.Done()
			for j := 0; j < 50; j++ {
				roundTrip(t, port, cmd("CONFIG", "SET", fmt.Sprintf("k%d", i), "v"), cmd("CONFIG", "GET", "k0"))
			}
		}(i)
	}
	wg.Wait()
}

// #16/#17/#21 lifecycle races: Stop/Restart against connects and disconnects (run with -race)
func TestLifecycleRace(t *testing.T) {
	s, port := newServer(t)
	for i := 0; i < 20; i++ {
		c, err := net.DialTimeout("tcp", fmt.Sprintf("127.0.0.1:%d", port), time.Second)
		if err == nil {
			c.Write([]byte(cmd("PING")))
			go func() { time.Sleep(time.Millisecond); c.Close() }()
		}
		if err := s.Restart(); err != nil {
			t.Fatal(err)
		}
		time.Sleep(5 * time.Millisecond)
		got := roundTrip(t, port, cmd("PING"))
		if !strings.HasPrefix(got[0], "+PONG") {
			t.Fatalf("server not accepting after restart %d: %q", i, got)
		}
	}
	s.Stop()
}

// #8 plain-text bytes on the TLS port stop both listeners
func TestTLSHandshakeFailureContained(t *testing.T) {
	portMu.Lock()
	nextPort += 2
	port, tlsPort := nextPort-1, nextPort
	portMu.Unlock()
	s := exsrv.NewServer()
	s.SetPort(port)
	s.SetTLSPort(tlsPort)
	for _, e := range []error{s.SetTLSKeyFile("../redistest/certs/key.pem"), s.SetTLSCertFile("../redistest/certs/cert.pem"), s.SetTLSCaCertFile("../redistest/certs/root_cert.pem")} {
		if e != nil {
			t.Fatal(e)
		}
	}
	if err := s.Start(); err != nil {
		t.Fatal(err)
	}
	defer s.Stop()
	time.Sleep(50 * time.Millisecond)
	c := dial(t, tlsPort)
	c.Write([]byte("GET / HTTP/1.0\r\n\r\n"))
	time.Sleep(200 * time.Millisecond)
	c.Close()
	time.Sleep(100 * time.Millisecond)
	got := roundTrip(t, port, cmd("PING"))
	if !strings.HasPrefix(got[0], "+PONG") {
		t.Fatalf("plain listener stopped serving after a failed TLS handshake: %q", got)
	}
	c2, err := net.DialTimeout("tcp", fmt.Sprintf("127.0.0.1:%d", tlsPort), time.Second)
	if err != nil {
		t.Fatalf("TLS listener stopped accepting: %v", err)
	}
	c2.Close()
}

var _ = redis.DefaultPort
