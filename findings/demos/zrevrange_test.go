package zzdemo

import (
	"bufio"
	"fmt"
	"net"
	"strconv"
	"strings"
	"testing"
	"time"

	exsrv "github.com/cybergarage/go-redis/examples/go-redisd/server"
)

func zcmd(args ...string) string {
	var b strings.Builder
	fmt.Fprintf(&b, "*%d\r\n", len(args))
	for _, a := range args {
		fmt.Fprintf(&b, "$%d\r\n%s\r\n", len(a), a)
	}
	return b.String()
}

func readArray(t *testing.T, r *bufio.Reader) []string {
	l, err := r.ReadString('\n')
	if err != nil {
		t.Fatal(err)
	}
	if l[0] != '*' {
		t.Fatalf("not an array: %q", l)
	}
	n, _ := strconv.Atoi(strings.TrimSpace(l[1:]))
	var out []string
	for i := 0; i < n; i++ {
		r.ReadString('\n')
		v, _ := r.ReadString('\n')
		out = append(out, strings.TrimSpace(v))
	}
	return out
}

// reference: Redis ZREVRANGE
func refRev(members []string, start, stop int) []string {
	n := len(members)
	rev := make([]string, n)
	for i, m := range members {
		rev[n-1-i] = m
	}
	if start < 0 {
		start += n
	}
	if stop < 0 {
		stop += n
	}
	if start < 0 {
		start = 0
	}
	if start > stop || start >= n {
		return nil
	}
	if stop >= n {
		stop = n - 1
	}
	return rev[start : stop+1]
}

func TestZRevRangeMirrorsIndexes(t *testing.T) {
	s := exsrv.NewServer()
	s.SetPort(17995)
	if err := s.Start(); err != nil {
		t.Fatal(err)
	}
	defer s.Stop()
	time.Sleep(50 * time.Millisecond)
	c, err := net.Dial("tcp", "127.0.0.1:17995")
	if err != nil {
		t.Fatal(err)
	}
	defer c.Close()
	r := bufio.NewReader(c)
	bad := 0
	for size := 0; size <= 5; size++ {
		key := fmt.Sprintf("z%d", size)
		var members []string
		for i := 0; i < size; i++ {
			m := fmt.Sprintf("m%d", i)
			members = append(members, m)
			c.Write([]byte(zcmd("ZADD", key, strconv.Itoa(i), m)))
			r.ReadString('\n')
		}
		for start := -7; start <= 7; start++ {
			for stop := -7; stop <= 7; stop++ {
				c.Write([]byte(zcmd("ZREVRANGE", key, strconv.Itoa(start), strconv.Itoa(stop))))
				got := readArray(t, r)
				want := refRev(members, start, stop)
				if strings.Join(got, ",") != strings.Join(want, ",") {
					bad++
					if bad < 6 {
						t.Errorf("ZREVRANGE size=%d %d %d = %v, Redis: %v", size, start, stop, got, want)
					}
				}
				c.Write([]byte(zcmd("ZREVRANGE", key, strconv.Itoa(start), strconv.Itoa(stop), "WITHSCORES")))
				gotS := readArray(t, r)
				var wantS []string
				for _, m := range want {
					wantS = append(wantS, m, strings.TrimPrefix(m, "m"))
				}
				if strings.Join(gotS, ",") != strings.Join(wantS, ",") {
					bad++
					if bad < 6 {
						t.Errorf("ZREVRANGE WITHSCORES size=%d %d %d = %v, Redis: %v", size, start, stop, gotS, wantS)
					}
				}
			}
		}
	}
	if bad > 0 {
		t.Fatalf("%d mismatches", bad)
	}
}
