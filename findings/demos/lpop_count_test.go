// Demonstration for the LPOP/RPOP repair: the example list kept iterating up to the client's
// count after the list had run empty (`continue` instead of `break`), so
// "LPOP k 9223372036854775807" never answered and burned a CPU on that connection.
package zzdemo

import (
	"bufio"
	"net"
	"testing"
	"time"

	exsrv "github.com/cybergarage/go-redis/examples/go-redisd/server"
)

func TestPopWithHugeCountAnswers(t *testing.T) {
	s := exsrv.NewServer()
	s.SetPort(17994)
	if err := s.Start(); err != nil {
		t.Fatal(err)
	}
	defer s.Stop()
	time.Sleep(50 * time.Millisecond)
	for _, cmd := range []string{"LPOP", "RPOP"} {
		c, err := net.Dial("tcp", "127.0.0.1:17994")
		if err != nil {
			t.Fatal(err)
		}
		r := bufio.NewReader(c)
		c.SetDeadline(time.Now().Add(3 * time.Second))
		c.Write([]byte(c18cmd("RPUSH", "l", "a", "b")))
		if l, err := r.ReadString('\n'); err != nil {
			t.Fatalf("RPUSH: %q %v", l, err)
		}
		c.Write([]byte(c18cmd(cmd, "l", "9223372036854775807")))
		l, err := r.ReadString('\n')
		if err != nil || l != "*2\r\n" {
			t.Errorf("%s with a huge count: %q, %v (want the two elements at once)", cmd, l, err)
		}
		c.Close()
	}
}
