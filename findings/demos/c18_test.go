// Demonstrations for the C18 repairs: stored values come back byte-for-byte (GET/HGET reply with a
// bulk string, not a status line), and renaming a key onto itself keeps it.
package zzdemo

import (
	"bufio"
	"fmt"
	"net"
	"strings"
	"testing"
	"time"

	exsrv "github.com/cybergarage/go-redis/examples/go-redisd/server"
)

func c18cmd(args ...string) string {
	var b strings.Builder
	fmt.Fprintf(&b, "*%d\r\n", len(args))
	for _, a := range args {
		fmt.Fprintf(&b, "$%d\r\n%s\r\n", len(a), a)
	}
	return b.String()
}

func TestStoredValuesBinarySafe(t *testing.T) {
	s := exsrv.NewServer()
	s.SetPort(17996)
	if err := s.Start(); err != nil {
		t.Fatal(err)
	}
	defer s.Stop()
	time.Sleep(50 * time.Millisecond)
	c, err := net.Dial("tcp", "127.0.0.1:17996")
	if err != nil {
		t.Fatal(err)
	}
	defer c.Close()
	r := bufio.NewReader(c)
	val := "a\r\nb"
	c.Write([]byte(c18cmd("SET", "k", val)))
	r.ReadString('\n')
	c.Write([]byte(c18cmd("GET", "k")))
	want := fmt.Sprintf("$%d\r\n%s\r\n", len(val), val)
	got := make([]byte, len(want))
	c.SetReadDeadline(time.Now().Add(2 * time.Second))
	n, _ := r.Read(got)
	if string(got[:n]) != want {
		t.Errorf("GET of a value containing CRLF: %q, want %q", got[:n], want)
	}
	for r.Buffered() > 0 {
		r.ReadByte()
	}
	c.Write([]byte(c18cmd("HSET", "h", "f", val)))
	r.ReadString('\n')
	c.Write([]byte(c18cmd("HGET", "h", "f")))
	n, _ = r.Read(got)
	if string(got[:n]) != want {
		t.Errorf("HGET of a value containing CRLF: %q, want %q", got[:n], want)
	}
}

func TestRenameOntoItself(t *testing.T) {
	s := exsrv.NewServer()
	s.SetPort(17997)
	if err := s.Start(); err != nil {
		t.Fatal(err)
	}
	defer s.Stop()
	time.Sleep(50 * time.Millisecond)
	c, err := net.Dial("tcp", "127.0.0.1:17997")
	if err != nil {
		t.Fatal(err)
	}
	defer c.Close()
	r := bufio.NewReader(c)
	c.Write([]byte(c18cmd("SET", "k", "v")))
	r.ReadString('\n')
	c.Write([]byte(c18cmd("RENAME", "k", "k")))
	r.ReadString('\n')
	c.Write([]byte(c18cmd("EXISTS", "k")))
	l, _ := r.ReadString('\n')
	if l != ":1\r\n" {
		t.Fatalf("after RENAME k k the key is gone: EXISTS = %q", l)
	}
}
