// Demonstrations for two defects of the bundled example store's range code.
//
//  1. List.Range / ZSet.Range iterated over the *requested* index range and skipped the
//     positions outside the collection with `continue`: "LRANGE k 0 9223372036854775807"
//     (or ZRANGE) never answered and burned a CPU on that connection (C03, C19).
//  2. ZSet.Range / RangeByScore applied LIMIT as mems[offset:count] — the count used as an end
//     index: "ZRANGEBYSCORE z 0 10 LIMIT 1 5" on three members panicked (the connection
//     barrier closes the connection, the request is never answered), and LIMIT 1 2 on five
//     members returned one member instead of two (C03, C18).
package zzdemo

import (
	"bufio"
	"net"
	"strings"
	"testing"
	"time"

	exsrv "github.com/cybergarage/go-redis/examples/go-redisd/server"
)

func rangeDial(t *testing.T, port string) (net.Conn, *bufio.Reader) {
	t.Helper()
	c, err := net.Dial("tcp", "127.0.0.1:"+port)
	if err != nil {
		t.Fatal(err)
	}
	c.SetDeadline(time.Now().Add(3 * time.Second))
	return c, bufio.NewReader(c)
}

// readReply reads one RESP reply made of an array header and bulk strings (or a single line).
func readReply(r *bufio.Reader) (string, error) {
	l, err := r.ReadString('\n')
	if err != nil {
		return l, err
	}
	out := l
	if strings.HasPrefix(l, "*") {
		n := 0
		for _, ch := range strings.TrimSpace(l[1:]) {
			n = n*10 + int(ch-'0')
		}
		for i := 0; i < n; i++ {
			h, err := r.ReadString('\n')
			if err != nil {
				return out + h, err
			}
			b, err := r.ReadString('\n')
			if err != nil {
				return out + h + b, err
			}
			out += h + b
		}
	}
	return out, nil
}

func TestRangeWithHugeStopAnswers(t *testing.T) {
	s := exsrv.NewServer()
	s.SetPort(17993)
	if err := s.Start(); err != nil {
		t.Fatal(err)
	}
	defer s.Stop()
	time.Sleep(50 * time.Millisecond)
	c, r := rangeDial(t, "17993")
	defer c.Close()
	c.Write([]byte(c18cmd("RPUSH", "l", "a", "b")))
	readReply(r)
	c.Write([]byte(c18cmd("ZADD", "z", "1", "a", "2", "b")))
	readReply(r)
	c.Write([]byte(c18cmd("LRANGE", "l", "0", "9223372036854775807")))
	if got, err := readReply(r); err != nil || got != "*2\r\n$1\r\na\r\n$1\r\nb\r\n" {
		t.Errorf("LRANGE with a huge stop: %q, %v", got, err)
	}
	c2, r2 := rangeDial(t, "17993")
	defer c2.Close()
	c2.Write([]byte(c18cmd("ZRANGE", "z", "-9223372036854775808", "9223372036854775807")))
	if got, err := readReply(r2); err != nil || got != "*2\r\n$1\r\na\r\n$1\r\nb\r\n" {
		t.Errorf("ZRANGE with huge bounds: %q, %v", got, err)
	}
}

func TestRangeLimitIsOffsetAndCount(t *testing.T) {
	s := exsrv.NewServer()
	s.SetPort(17992)
	if err := s.Start(); err != nil {
		t.Fatal(err)
	}
	defer s.Stop()
	time.Sleep(50 * time.Millisecond)
	c, r := rangeDial(t, "17992")
	defer c.Close()
	c.Write([]byte(c18cmd("ZADD", "z", "1", "a", "2", "b", "3", "c", "4", "d", "5", "e")))
	readReply(r)
	for _, tc := range []struct {
		args []string
		want string
	}{
		{[]string{"ZRANGEBYSCORE", "z", "0", "10", "LIMIT", "1", "2"}, "*2\r\n$1\r\nb\r\n$1\r\nc\r\n"},
		{[]string{"ZRANGEBYSCORE", "z", "0", "10", "LIMIT", "1", "50"}, "*4\r\n$1\r\nb\r\n$1\r\nc\r\n$1\r\nd\r\n$1\r\ne\r\n"},
		{[]string{"ZRANGEBYSCORE", "z", "0", "10", "LIMIT", "3", "1"}, "*1\r\n$1\r\nd\r\n"},
		{[]string{"ZRANGEBYSCORE", "z", "0", "10", "LIMIT", "7", "2"}, "*0\r\n"},
		{[]string{"ZRANGEBYSCORE", "z", "0", "10", "LIMIT", "0", "-1"}, "*5\r\n$1\r\na\r\n$1\r\nb\r\n$1\r\nc\r\n$1\r\nd\r\n$1\r\ne\r\n"},
		{[]string{"ZRANGEBYSCORE", "z", "0", "10", "LIMIT", "9223372036854775807", "9223372036854775807"}, "*0\r\n"},
	} {
		c.Write([]byte(c18cmd(tc.args...)))
		got, err := readReply(r)
		if err != nil || got != tc.want {
			t.Errorf("%v: %q, %v; want %q", tc.args, got, err, tc.want)
			if err != nil {
				return
			}
		}
	}
}

// ZRANGE without BYSCORE takes integer indexes: the executor decoded them as floats (so that
// the same two reads could serve BYSCORE) and converted with int(): "ZRANGE z 0 1.5" and
// "ZRANGE z (0 1" were executed instead of rejected, and "ZRANGE z 0 9223372036854775807"
// reached the handler with stop = -9223372036854775808 (C05, C10).
func TestZRangeIndexesAreIntegers(t *testing.T) {
	s := exsrv.NewServer()
	s.SetPort(17991)
	if err := s.Start(); err != nil {
		t.Fatal(err)
	}
	defer s.Stop()
	time.Sleep(50 * time.Millisecond)
	c, r := rangeDial(t, "17991")
	defer c.Close()
	c.Write([]byte(c18cmd("ZADD", "z", "1", "a", "2", "b")))
	readReply(r)
	all := "*2\r\n$1\r\na\r\n$1\r\nb\r\n"
	for _, tc := range []struct {
		args    []string
		want    string
		wantErr bool
	}{
		{[]string{"ZRANGE", "z", "0", "9223372036854775807"}, all, false},
		{[]string{"ZRANGE", "z", "-9223372036854775808", "9223372036854775807"}, all, false},
		{[]string{"ZRANGE", "z", "0", "1.5"}, "", true},
		{[]string{"ZRANGE", "z", "(0", "1"}, "", true},
		{[]string{"ZRANGE", "z", "0", "1e30"}, "", true},
		{[]string{"ZRANGE", "z", "0", "9223372036854775808"}, "", true},
		{[]string{"ZRANGE", "z", "(1", "2", "BYSCORE"}, "*1\r\n$1\r\nb\r\n", false},
		{[]string{"ZRANGE", "z", "1", "1.5", "BYSCORE"}, "*1\r\n$1\r\na\r\n", false},
	} {
		c.Write([]byte(c18cmd(tc.args...)))
		got, err := readReply(r)
		if err != nil {
			t.Fatalf("%v: %q %v", tc.args, got, err)
		}
		if tc.wantErr != strings.HasPrefix(got, "-") || (!tc.wantErr && got != tc.want) {
			t.Errorf("%v: %q; want %q (error reply: %v)", tc.args, got, tc.want, tc.wantErr)
		}
	}
}
