package main
