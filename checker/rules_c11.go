package main

import (
	"fmt"
	"strings"

	"golang.org/x/tools/go/ssa"
)

func init() {
	register(&propInfo{ID: "C11", Level: "other", Run: runC11,
		Explanation: "Static rules: R11.a end of stream inside an array is an error (the (nil,nil) result of a nested read is nil-tested before use; a pre-sized element slice is returned only after its filling loop completed); R11.b the inventory of end-of-stream-to-success returns in the parser equals the confirmed set (clean end between values; partial prefix line) and the EOF-tolerant line reader is called only where its result is a length/count prefix (followed by a mandatory read) or a line-type payload; R11.c short bulk bodies are errors on every path (accumulate loop / full-read idiom); R11.d the handler is called only with a value tested complete, and inside the parser every result is used only under its nil-error test; R11.e the socket is closed and the registry entry removed on every exit. Necessary conditions for 'a request is executed only if received completely', for every cut offset at once."})
}

func runC11(c *Ctx) {
	scope := c.P.parserScope()
	for _, f := range scope {
		c.analysed(f)
	}
	ruleNoAbsentElements(c, "R11.a", scope)
	ruleEOFInventory(c, scope)
	ruleReaderUses(c, "R11.c", "R11.c")
	ruleBulkFrame(c, "R11.c")
	ruleParserErrChecked(c, scope)
	ruleOneResponseOnly(c, "R11.d")
	ruleFlushBeforeRead(c, "R11.d")
	ruleCloseOnEveryExit(c, "R11.e")
	ruleGoroutineOwnsItsIteration(c, "R11.e")
	ruleRegistryBracket(c, "R11.e")
	ruleNoRetryAfterParseError(c, "R11.f")
	c.rule("R11.g", "after the handler call the connection loop is left only through the QUIT sentinel: neither a handler error nor a failed reply write ends it, so every request received completely before the stream ended is executed")
	ruleExitsAfterHandler(c, "R11.g", false, false)
	c.assume("requests are arrays of bulk strings (the property's quantifier): a partial line-type element at end of stream is outside it")
}

// ruleOneResponseOnly: reuse the connection-loop automaton (handler called only with a tested value,
// every fully received request answered exactly once) under another rule id.
func ruleOneResponseOnly(c *Ctx, rid string) {
	before := len(c.Obs)
	ruleOneResponse(c)
	for i := before; i < len(c.Obs); i++ {
		if c.Obs[i].Rule == "R03.b" {
			c.Obs[i].Rule = rid
		}
	}
	c.Rules[rid] = c.Rules["R03.b"]
	delete(c.Rules, "R03.b")
}

// ruleEOFInventory: R11.b.
func ruleEOFInventory(c *Ctx, scope []*ssa.Function) {
	rid := "R11.b"
	c.rule(rid, "inventory of end-of-stream-to-success returns in the parser: {Parser.Next returning (nil,nil) between values; the line reader returning the partial line}; any other such return is a violation. The EOF-tolerant line reader may be called only by Parser.Next (line-type payload) or where its bytes are parsed as the decimal length/count prefix that a mandatory further read follows")
	n := 0
	var lineReaders []*ssa.Function
	for _, f := range scope {
		r := eofTolerant(f)
		if r == nil {
			continue
		}
		n++
		key := fnName(f) + "/eof-success"
		switch {
		case len(r.Results) == 2 && isNilConst(retOperand(r, 0)) && fnName(f) == "(*proto.Parser).Next":
			c.ok(rid, key, c.P.instrPos(r), "clean end of stream between values: (nil, nil)")
		case isLineReader(f):
			lineReaders = append(lineReaders, f)
			c.ok(rid, key, c.P.instrPos(r), "partial line returned at end of stream (tolerated: see callers)")
		default:
			c.bad(rid, key, c.P.instrPos(r), "a new return turns end of stream into success: a frame cut short is accepted as complete")
		}
	}
	c.count("eof-success-returns", n)
	c.floor("eof-success-returns", 1)
	// an EOF test whose true side continues (not returns) with success later is covered by R11.c's path facts
	for _, lr := range lineReaders {
		for i, site := range c.P.staticCallSites(lr) {
			caller := site.Parent()
			key := fmt.Sprintf("%s/caller#%d:%s", fnName(lr), i, fnName(caller))
			call, ok := site.(*ssa.Call)
			if !ok {
				c.bad(rid, key, c.P.instrPos(site), "line reader deferred or started as goroutine")
				continue
			}
			if !inProd(caller) {
				continue
			}
			// result bytes flow into Atoi/ParseInt?
			toAtoi := false
			var visit func(v ssa.Value, d int)
			visit = func(v ssa.Value, d int) {
				if v.Referrers() == nil || d > 5 {
					return
				}
				for _, r := range *v.Referrers() {
					switch x := r.(type) {
					case *ssa.Extract:
						if x.Index == 0 {
							visit(x, d+1)
						}
					case *ssa.Convert:
						visit(x, d+1)
					case *ssa.Call:
						if nameIn(calleeName(x.Common()), "strconv.Atoi", "strconv.ParseInt", "strconv.ParseUint") {
							toAtoi = true
						}
					}
				}
			}
			visit(call, 0)
			switch {
			case toAtoi:
				c.ok(rid, key, c.P.instrPos(site), "the line is a length/count prefix (parsed with Atoi); a mandatory element/body read follows")
			case fnName(caller) == "(*proto.Parser).Next" || linePayloadHelper(c.P, caller, 0):
				c.ok(rid, key, c.P.instrPos(site), "line-type payload read by Parser.Next (outside the property's request grammar)")
			default:
				c.bad(rid, key, c.P.instrPos(site), "the EOF-tolerant line reader is used where nothing forces a further read: a frame cut short before its delimiter is accepted as complete")
			}
		}
	}
}

// linePayloadHelper: an unexported helper reached only by static calls from Parser.Next (through
// such helpers) that parses no length prefix itself: it reads the payload of a line-type value.
func linePayloadHelper(p *Program, f *ssa.Function, depth int) bool {
	if depth > 3 {
		return false
	}
	sites, ok := p.onlyStaticallyCalled(f)
	if !ok {
		return false
	}
	hasAtoi := false
	allInstrs(f, func(ins ssa.Instruction) {
		if cc := callCommon(ins); cc != nil && nameIn(calleeName(cc), "strconv.Atoi", "strconv.ParseInt", "strconv.ParseUint") {
			hasAtoi = true
		}
	})
	if hasAtoi {
		return false
	}
	for _, s := range sites {
		if fnName(s.Parent()) != "(*proto.Parser).Next" && !linePayloadHelper(p, s.Parent(), depth+1) {
			return false
		}
	}
	return true
}

func isLineReader(f *ssa.Function) bool {
	// contains a loop of one-byte reads compared with CR, or a delimited read of a buffered reader
	if call, _ := delimitedLineRead(f); call != nil {
		return true
	}
	found := false
	for _, l := range naturalLoops(f) {
		for b := range l.Blocks {
			for _, ins := range b.Instrs {
				if bo, ok := ins.(*ssa.BinOp); ok {
					if cv, ok := constInt(bo.Y); ok && cv == 13 {
						found = true
					}
				}
			}
		}
	}
	return found
}

// ruleParserErrChecked: inside the parser every (value, error) result is used only under err == nil.
func ruleParserErrChecked(c *Ctx, scope []*ssa.Function) {
	rid := "R11.d"
	sset := scopeSet(scope)
	n := 0
	for _, f := range scope {
		ord := 0
		allInstrs(f, func(ins ssa.Instruction) {
			call, ok := ins.(*ssa.Call)
			if !ok {
				return
			}
			callee := staticCallee(call.Common())
			if callee == nil || !sset[callee] {
				return
			}
			res := callee.Signature.Results()
			if res.Len() < 2 || !isErrorType(res.At(res.Len()-1).Type()) {
				return
			}
			ord++
			n++
			key := fmt.Sprintf("%s/errcheck#%d:%s", fnName(f), ord, strings.TrimPrefix(fnName(callee), "(*proto.Parser)."))
			// pass-through return keeps the tuple intact
			passThrough := false
			if call.Referrers() != nil {
				for _, r := range *call.Referrers() {
					if _, ok := r.(*ssa.Return); ok {
						passThrough = true
					}
				}
			}
			if passThrough {
				c.ok(rid, key, c.P.instrPos(call), "results returned unchanged")
				return
			}
			if okE, why := errCheckedCall(call); okE {
				c.ok(rid, key, c.P.instrPos(call), "value used only where its error is nil")
			} else {
				c.bad(rid, key, c.P.instrPos(call), "a parser result is used although its error may be non-nil: "+why)
			}
		})
	}
	c.count("parser-error-checked-calls", n)
	c.floor("parser-error-checked-calls", 4)
}
