package main

import (
	"fmt"
	"go/token"
	"go/types"
	"regexp/syntax"
	"sort"
	"strings"

	"golang.org/x/tools/go/ssa"
)

func init() {
	register(&propInfo{ID: "C17", Level: "other", Run: runC17,
		Explanation: "Static taint/ownership rules: R17.a the string handed to the regular-expression compiler inside redis/glob is assembled only from constants and regexp.QuoteMeta results (A7: a flow of the pattern that bypasses QuoteMeta is reported; the constant skeleton is compiled by the checker with regexp/syntax to show that compiling cannot fail); R17.b regexp.Compile*/Match* with a non-constant pattern occurs nowhere in production packages outside redis/glob, and in the KEYS handler and the SCAN option parser the client's pattern flows only into glob.Compile (it is interpreted in exactly one place, so KEYS and SCAN MATCH agree); R17.c the constant skeleton starts with ^ (after optional flags), ends with $, and the constants written for '*' and '?' are '.*' and '.'; R17.d glob.MustCompile is called only with constants. Necessary conditions; given them, matching equality with a reference glob is a property of package regexp (trusted)."})
}

func runC17(c *Ctx) {
	ruleQuotedPattern(c)
	rulePatternOneInterpreter(c)
	c.assume("package regexp implements RE2 semantics; QuoteMeta output matches its argument literally")
	// a pattern refused for its size never reaches the matcher at all
	ruleValueRejections(c, "R17.f", "KEYS", "SCAN")
	// the pattern that reaches the compiler is the pattern the client sent
	ruleNoWriteThroughView(c, "R17.g")
}

// cleanPattern: v is built only from constants and QuoteMeta results.
func cleanPattern(p *Program, v ssa.Value, depth int, seen map[ssa.Value]bool) (bool, string) {
	if depth > 12 {
		return false, "too deep"
	}
	if seen[v] {
		return true, ""
	}
	seen[v] = true
	switch x := v.(type) {
	case *ssa.Const:
		return true, ""
	case *ssa.BinOp:
		if x.Op.String() == "+" {
			if ok, w := cleanPattern(p, x.X, depth+1, seen); !ok {
				return false, w
			}
			return cleanPattern(p, x.Y, depth+1, seen)
		}
	case *ssa.Phi:
		for _, e := range x.Edges {
			if ok, w := cleanPattern(p, e, depth+1, seen); !ok {
				return false, w
			}
		}
		return true, ""
	case *ssa.Call:
		n := calleeName(x.Common())
		switch n {
		case "regexp.QuoteMeta":
			return true, ""
		case "(*strings.Builder).String", "(*bytes.Buffer).String":
			return cleanBuilder(p, x.Common().Args[0], depth+1, seen)
		case "strings.ReplaceAll", "strings.Replace":
			// constant operands on an already clean string keep it clean only if the replacement is a constant
			if _, ok := constString(x.Common().Args[1]); ok {
				if _, ok := constString(x.Common().Args[2]); ok {
					return cleanPattern(p, x.Common().Args[0], depth+1, seen)
				}
			}
			return false, "ReplaceAll with non-constant operands"
		case "strings.Join":
			return false, "strings.Join of non-constant parts"
		}
		if callee := staticCallee(x.Common()); callee != nil && inRepo(callee) && callee.Blocks != nil {
			for _, r := range returnsOf(callee) {
				if len(r.Results) < 1 {
					continue
				}
				if ok, w := cleanPattern(p, retOperand(r, 0), depth+1, seen); !ok {
					return false, "in " + fnName(callee) + ": " + w
				}
			}
			return true, ""
		}
		return false, "result of " + n + " reaches the pattern unquoted"
	case *ssa.Parameter:
		return false, "the pattern parameter " + x.Name() + " reaches the regular-expression compiler without regexp.QuoteMeta: its metacharacters act as operators"
	case *ssa.Convert:
		return false, "a character of the pattern (" + x.X.Name() + ") is written unquoted"
	case *ssa.Slice:
		return false, "a substring of the pattern is used unquoted"
	}
	return false, "unrecognised pattern fragment " + v.String()
}

// cleanBuilder: every write into the builder is clean.
func cleanBuilder(p *Program, b ssa.Value, depth int, seen map[ssa.Value]bool) (bool, string) {
	al, ok := b.(*ssa.Alloc)
	if !ok || al.Referrers() == nil {
		return false, "pattern builder is not a local value"
	}
	for _, r := range *al.Referrers() {
		call, ok := r.(*ssa.Call)
		if !ok {
			continue
		}
		n := calleeName(call.Common())
		if !strings.Contains(n, ").Write") {
			continue
		}
		arg := call.Common().Args[1]
		switch {
		case strings.HasSuffix(n, "WriteString"), strings.HasSuffix(n, "Write"):
			if ok, w := cleanPattern(p, arg, depth+1, seen); !ok {
				return false, w
			}
		case strings.HasSuffix(n, "WriteRune"), strings.HasSuffix(n, "WriteByte"):
			if _, isC := constInt(arg); !isC {
				return false, "a character of the pattern is written to the regular expression unquoted (" + n + ")"
			}
		}
	}
	return true, ""
}

func ruleQuotedPattern(c *Ctx) {
	rid := "R17.a"
	c.rule(rid, "A7: every argument of regexp.Compile/MustCompile/CompilePOSIX/Match* in redis/glob is built from string constants and regexp.QuoteMeta results only (concatenation, strings.Builder writes, phi, helper functions summarised)")
	c.rule("R17.c", "the constant fragments: the first fragment written is '^' (optionally preceded by flags such as (?s)), the last is '$'; under the case for '*' the fragment is '.*', under the case for '?' it is '.'; the skeleton ^.*.$ compiles (checked with regexp/syntax on the constants)")
	c.rule("R17.d", "glob.MustCompile is called only with constant patterns in production code")
	n := 0
	// the translator behind KEYS and SCAN MATCH: what glob.Compile / glob.MustCompile reach (R17.b
	// establishes that client patterns flow into these two only). Other entry points of the
	// package that nothing hands a client pattern to are not the glob this property speaks of.
	var entry []*ssa.Function
	for _, nm := range []string{"Compile", "MustCompile"} {
		if sp := c.P.SSAPkgs[pkgGlob]; sp != nil {
			if f := sp.Func(nm); f != nil {
				entry = append(entry, f)
			}
		}
	}
	globScope := c.P.repoReach(entry, func(f *ssa.Function) bool { return fnPkgPath(f) == pkgGlob })
	for f := range globScope {
		for _, a := range f.AnonFuncs {
			globScope[a] = true
		}
	}
	inGlobScope := func(fn *ssa.Function) bool { return len(entry) == 0 || globScope[fn] }
	for _, fn := range c.P.RepoFuncs(pkgGlob) {
		if !inGlobScope(fn) {
			continue
		}
		allInstrs(fn, func(ins ssa.Instruction) {
			call, ok := ins.(*ssa.Call)
			if !ok {
				return
			}
			nme := calleeName(call.Common())
			if !(strings.HasPrefix(nme, "regexp.Compile") || nme == "regexp.MustCompile" || nme == "regexp.MustCompilePOSIX" || strings.HasPrefix(nme, "regexp.Match")) {
				return
			}
			n++
			c.analysed(fn)
			key := fmt.Sprintf("%s/%s", fnName(fn), strings.TrimPrefix(nme, "regexp."))
			ok2, why := cleanPattern(c.P, call.Common().Args[0], 0, map[ssa.Value]bool{})
			if ok2 {
				c.ok(rid, key, c.P.instrPos(call), "pattern built from constants and QuoteMeta results only")
			} else {
				c.bad(rid, key, c.P.instrPos(call), why)
			}
		})
	}
	c.count("glob-compile-sites", n)
	c.floor("glob-compile-sites", 2)
	// the pattern is translated rune by rune (or by substrings): string(b) of a single *byte*
	// re-encodes every byte >= 0x80 as a two-byte rune, so a non-ASCII literal no longer matches itself
	nb := 0
	for _, fn := range c.P.RepoFuncs(pkgGlob) {
		if !inGlobScope(fn) {
			continue
		}
		allInstrs(fn, func(ins ssa.Instruction) {
			cv, ok := ins.(*ssa.Convert)
			if !ok || !isStringType(cv.Type()) {
				return
			}
			if b, ok := cv.X.Type().Underlying().(*types.Basic); ok && b.Kind() == types.Uint8 {
				nb++
				c.bad(rid, fmt.Sprintf("%s/string-of-byte#%d", fnName(fn), nb), c.P.instrPos(cv), "a single byte of the pattern is converted with string(b): bytes of multi-byte characters are re-encoded one by one, so non-ASCII literals in a pattern match the wrong keys")
			}
		})
	}
	if nb == 0 {
		c.ok(rid, "no-string-of-byte", "", "the translator never converts a single byte to a string")
	}
	// R17.c: constants in the translator
	// the translator: the function whose result is handed to the regular-expression compiler
	// (or the compiling function itself when the expression is built in place)
	var tr *ssa.Function
	for _, fn := range c.P.RepoFuncs(pkgGlob) {
		if !inGlobScope(fn) {
			continue
		}
		allInstrs(fn, func(ins ssa.Instruction) {
			call, ok := ins.(*ssa.Call)
			if !ok || tr != nil {
				return
			}
			nme := calleeName(call.Common())
			if !(strings.HasPrefix(nme, "regexp.Compile") || nme == "regexp.MustCompile") {
				return
			}
			if _, isC := constString(call.Common().Args[0]); isC {
				return
			}
			if ac, ok := strip(call.Common().Args[0]).(*ssa.Call); ok {
				if h := staticCallee(ac.Common()); h != nil && inRepo(h) && h.Blocks != nil {
					tr = h
					return
				}
			}
			tr = fn
		})
	}
	if tr != nil && !c.P.reachesCallNamed(tr, "regexp.QuoteMeta") {
		tr = nil
	}
	if tr == nil {
		c.bad("R17.c", "translator", "", "no function of redis/glob calls regexp.QuoteMeta")
		return
	}
	c.analysed(tr)
	// the fragments written into the pattern builder: constants (with the rune test guarding
	// them and whether they come before, inside or after the per-rune loop), directly or as the
	// constant results of a per-rune helper
	type frag struct {
		s     string
		guard int64
		where int // 0 before the loop, 1 inside, 2 after
		order token.Pos
	}
	var frags []frag
	loops := naturalLoops(tr)
	whereOf := func(b *ssa.BasicBlock) int {
		for _, l := range loops {
			if l.Blocks[b] {
				return 1
			}
		}
		for _, l := range loops {
			if b.Dominates(l.Header) {
				return 0
			}
		}
		if len(loops) == 0 {
			// no loop: before = entry block, after = a block that returns
			for _, i2 := range b.Instrs {
				if _, ok := i2.(*ssa.Return); ok {
					return 2
				}
			}
			return 0
		}
		return 2
	}
	guardOf := func(facts []Atom, subject ssa.Value) int64 {
		g := int64(-1)
		for _, at := range facts {
			if at.Kind == "eq" && at.Pos {
				if cv, ok := constInt(at.Y); ok && (subject == nil || strip(at.X) == subject) {
					g = cv
				}
			}
		}
		return g
	}
	allInstrs(tr, func(ins ssa.Instruction) {
		call, ok := ins.(*ssa.Call)
		if !ok || !strings.Contains(calleeName(call.Common()), ").Write") || len(call.Common().Args) < 2 {
			return
		}
		arg := call.Common().Args[1]
		w := whereOf(ins.Block())
		if s, ok := constString(arg); ok {
			frags = append(frags, frag{s, guardOf(factsAt(ins.Block()), nil), w, ins.Pos()})
		} else if cv, ok := constInt(arg); ok {
			frags = append(frags, frag{string(rune(cv)), guardOf(factsAt(ins.Block()), nil), w, ins.Pos()})
		} else if hc, ok := strip(arg).(*ssa.Call); ok {
			if h := staticCallee(hc.Common()); h != nil && inRepo(h) && h.Blocks != nil && len(h.Params) >= 1 {
				for _, r := range returnsOf(h) {
					if len(r.Results) != 1 {
						continue
					}
					if s, ok := constString(retOperand(r, 0)); ok {
						frags = append(frags, frag{s, guardOf(factsAt(r.Block()), ssa.Value(h.Params[len(h.Params)-1])), w, ins.Pos()})
					}
				}
			}
		}
	})
	sort.SliceStable(frags, func(i, j int) bool { return frags[i].order < frags[j].order })
	star, quest, first, last := "", "", "", ""
	for _, k := range frags {
		switch {
		case k.guard == '*':
			star = k.s
		case k.guard == '?':
			quest = k.s
		case k.where == 0:
			first += k.s
		case k.where == 2:
			last += k.s
		}
	}
	// concatenation idiom: "(?s)^" + ReplaceAll(ReplaceAll(QuoteMeta(p), `\*`, ".*"), `\?`, ".") + "$"
	if first == "" && last == "" {
		for _, r := range returnsOf(tr) {
			var walk func(v ssa.Value, d int)
			leftmost, rightmost := "", ""
			var flat []ssa.Value
			walk = func(v ssa.Value, d int) {
				if bo, ok := v.(*ssa.BinOp); ok && bo.Op.String() == "+" && d < 8 {
					walk(bo.X, d+1)
					walk(bo.Y, d+1)
					return
				}
				flat = append(flat, v)
			}
			walk(retOperand(r, 0), 0)
			if len(flat) >= 2 {
				leftmost, _ = constString(flat[0])
				rightmost, _ = constString(flat[len(flat)-1])
				first, last = leftmost, rightmost
				for _, f := range flat {
					cur := f
					for i := 0; i < 6; i++ {
						call, ok := cur.(*ssa.Call)
						if !ok || !(calleeName(call.Common()) == "strings.ReplaceAll") {
							break
						}
						o, _ := constString(call.Common().Args[1])
						nw, _ := constString(call.Common().Args[2])
						if o == `\*` {
							star = nw
						}
						if o == `\?` {
							quest = nw
						}
						cur = call.Common().Args[0]
					}
				}
			}
		}
	}
	key := fnName(tr)
	flagsOK := first == "^" || (strings.HasPrefix(first, "(?") && strings.HasSuffix(first, ")^"))
	c.check(flagsOK, "R17.c", key+"/anchor-start", c.P.pos(tr.Pos()), fmt.Sprintf("starts with %q", first), fmt.Sprintf("the expression does not start with ^ (first fragment %q): the pattern is not anchored at the start of the key", first))
	c.check(last == "$", "R17.c", key+"/anchor-end", c.P.pos(tr.Pos()), "ends with $", fmt.Sprintf("the expression does not end with $ (last fragment %q): a prefix match selects longer keys", last))
	c.check(star == ".*", "R17.c", key+"/star", c.P.pos(tr.Pos()), "'*' -> '.*'", fmt.Sprintf("'*' is rewritten to %q, not '.*'", star))
	c.check(quest == ".", "R17.c", key+"/question", c.P.pos(tr.Pos()), "'?' -> '.'", fmt.Sprintf("'?' is rewritten to %q, not '.'", quest))
	if _, err := syntax.Parse(first+star+quest+last, syntax.Perl); err != nil {
		c.bad("R17.c", key+"/skeleton", c.P.pos(tr.Pos()), "the constant skeleton does not compile: "+err.Error())
	} else {
		c.ok("R17.c", key+"/skeleton", c.P.pos(tr.Pos()), fmt.Sprintf("constant skeleton %q compiles", first+star+quest+last))
	}
	// R17.d
	must := c.P.PkgFunc(pkgGlob, "MustCompile")
	if must != nil {
		nm := 0
		for _, site := range c.P.staticCallSites(must) {
			if !inProd(site.Parent()) {
				continue
			}
			nm++
			_, isC := constString(site.Common().Args[0])
			c.check(isC, "R17.d", fmt.Sprintf("%s/MustCompile#%d", c.P.key(site.Parent()), nm), c.P.instrPos(site.(ssa.Instruction)), "constant pattern", "glob.MustCompile is called with a non-constant pattern: should the translation ever fail, it panics")
		}
	}
}

func rulePatternOneInterpreter(c *Ctx) {
	rid := "R17.b"
	c.rule(rid, "A3: no call of regexp.Compile*/MustCompile*/Match* with a non-constant pattern is located in a production package other than redis/glob; in every implementation of UserCommandHandler.Keys of the repository and in the SCAN option parser the client's pattern string flows only into glob.Compile/MustCompile (it is not inspected, sliced or compared anywhere else)")
	n := 0
	for _, fn := range c.P.RepoFuncs(modPath) {
		if !inProd(fn) || fnPkgPath(fn) == pkgGlob {
			continue
		}
		allInstrs(fn, func(ins ssa.Instruction) {
			cc := callCommon(ins)
			if cc == nil {
				return
			}
			nme := calleeName(cc)
			if !(strings.HasPrefix(nme, "regexp.Compile") || strings.HasPrefix(nme, "regexp.MustCompile") || strings.HasPrefix(nme, "regexp.Match")) {
				return
			}
			if _, isC := constString(cc.Args[0]); isC {
				return
			}
			n++
			c.bad(rid, fmt.Sprintf("%s/%s", c.P.key(fn), nme), c.P.instrPos(ins), "a non-constant pattern is compiled as a raw regular expression outside redis/glob: glob characters are not translated and metacharacters act as operators")
		})
	}
	if n == 0 {
		c.ok(rid, "no-raw-regexp", "", "no raw regexp compilation of non-constant patterns outside redis/glob")
	}
	// pattern flows only into glob.Compile
	sinks := 0
	// flow: how the pattern value is used; helpers of the repository that receive it are followed
	// (a cache keyed by the pattern string hands it on to glob.Compile on a miss).
	var flow func(pat ssa.Value, label string, depth int) (okAll, toGlob bool)
	flow = func(pat ssa.Value, label string, depth int) (okAll, toGlob bool) {
		okAll = true
		if pat.Referrers() == nil || depth > 3 {
			return okAll, false
		}
		var lenUses []ssa.Value
		var globSites []ssa.Instruction
		defer func() {
			for _, lv := range lenUses {
				if lv.Referrers() == nil {
					continue
				}
				for _, u := range *lv.Referrers() {
					cmp, isCmp := u.(*ssa.BinOp)
					if !isCmp || cmp.Referrers() == nil {
						continue
					}
					for _, uu := range *cmp.Referrers() {
						iff, isIf := uu.(*ssa.If)
						if !isIf {
							continue
						}
						b := iff.Block()
						for _, sc := range b.Succs {
							reached := false
							for _, site := range globSites {
								sb := site.Block()
								other := false
								for _, s2 := range b.Succs {
									if s2 != sc && (s2 == sb || s2.Dominates(sb)) && len(s2.Preds) == 1 {
										other = true
									}
								}
								if ((sc == sb || sc.Dominates(sb)) && len(sc.Preds) == 1) || (!other && b.Dominates(sb)) {
									reached = true
								}
							}
							if !reached {
								okAll = false
								c.bad(rid, label+"/length-decides", c.P.instrPos(iff), "the length of the client's pattern decides whether it is handed to the glob compiler at all: on one side of this test the pattern is not compiled")
							}
						}
					}
				}
			}
		}()
		for _, r := range *pat.Referrers() {
			switch x := r.(type) {
			case *ssa.DebugRef:
			case ssa.CallInstruction:
				nme := calleeName(x.Common())
				if nme == pkgGlob+".Compile" || nme == pkgGlob+".MustCompile" {
					toGlob = true
					globSites = append(globSites, r)
					continue
				}
				if strings.HasPrefix(nme, "fmt.") || strings.Contains(nme, "Error") || strings.HasPrefix(nme, "strconv.Quote") || strings.HasPrefix(nme, "strconv.AppendQuote") {
					continue // rendered for a message, a log line or a span tag (%q and strconv.Quote alike)
				}
				if b, isB := x.Common().Value.(*ssa.Builtin); isB && b.Name() == "len" {
					// its size may bound a cache; the text is not looked at — but the size must not
					// decide whether the pattern is compiled at all: checked below against the sites
					// at which the pattern goes on to the glob compiler
					if v, isV := r.(ssa.Value); isV {
						lenUses = append(lenUses, v)
					}
					continue
				}
				if nme == "strings.Clone" {
					if v, isV := r.(ssa.Value); isV {
						ok2, g2 := flow(v, label, depth+1)
						okAll = okAll && ok2
						toGlob = toGlob || g2
					}
					continue
				}
				if h := staticCallee(x.Common()); h != nil && h.Blocks != nil && inRepo(h) && inProd(h) && !x.Common().IsInvoke() {
					followed := false
					for k, a := range x.Common().Args {
						if a == pat && k < len(h.Params) {
							followed = true
							ok2, g2 := flow(h.Params[k], label+">"+h.Name(), depth+1)
							okAll = okAll && ok2
							toGlob = toGlob || g2
							if g2 {
								globSites = append(globSites, r)
							}
						}
					}
					if followed {
						continue
					}
				}
				okAll = false
				c.bad(rid, label+"/other-use", c.P.instrPos(r), "the client's pattern is also interpreted by "+nme+" (outside the glob compiler): KEYS/SCAN can select keys the glob does not")
			case *ssa.MakeInterface:
				// passed to error formatting
			case *ssa.Lookup:
				if x.Index != pat {
					okAll = false
					c.bad(rid, label+"/other-use", c.P.instrPos(r), "the client's pattern is indexed outside the glob compiler")
				} // else: the key of a map lookup (whole-string equality)
			case *ssa.MapUpdate:
				if x.Key != pat {
					okAll = false
					c.bad(rid, label+"/other-use", c.P.instrPos(r), "the client's pattern is stored as a map value outside the glob compiler")
				}
			case *ssa.Phi, *ssa.Store:
				// conservative
				okAll = false
				c.undecided(rid, label+"/flow", c.P.instrPos(r), "the pattern flows through "+r.String()+": not followed")
			default:
				okAll = false
				c.bad(rid, label+"/other-use", c.P.instrPos(r), "the client's pattern is inspected outside the glob compiler ("+r.String()+")")
			}
		}
		return okAll, toGlob
	}
	checkFlow := func(fn *ssa.Function, pat ssa.Value, label string) {
		if pat.Referrers() == nil {
			return
		}
		okAll, toGlob := flow(pat, label, 0)
		if okAll {
			sinks++
			c.check(toGlob, rid, label, c.P.pos(fn.Pos()), "the pattern flows only into glob.Compile", "the client's pattern never reaches glob.Compile")
		}
	}
	// Keys handlers
	for _, fn := range c.P.RepoFuncs(modPath) {
		if !inProd(fn) || fn.Name() != "Keys" || fn.Signature.Recv() == nil || fn.Signature.Params().Len() != 2 {
			continue
		}
		if !strings.HasSuffix(fn.Signature.Params().At(0).Type().String(), "redis.Conn") {
			continue
		}
		c.analysed(fn)
		checkFlow(fn, fn.Params[2], fnName(fn)+"/pattern")
	}
	// SCAN option parser: the value read after the MATCH keyword
	for _, fn := range c.P.RepoFuncs(pkgRedis) {
		allInstrs(fn, func(ins ssa.Instruction) {
			st, ok := ins.(*ssa.Store)
			if !ok {
				return
			}
			if owner, f, _, ok := fieldOf(st.Addr); ok && owner == "redis.ScanOption" && f == "MatchPattern" {
				v := strip(st.Val)
				// Copy() yields an equal expression; a package-level pattern is what its initialiser compiled
				for k := 0; k < 3; k++ {
					if call, ok := v.(*ssa.Call); ok && calleeName(call.Common()) == "(*regexp.Regexp).Copy" {
						v = strip(call.Common().Args[0])
					}
					if ld, ok := v.(*ssa.UnOp); ok && ld.Op == token.MUL {
						if g, ok := ld.X.(*ssa.Global); ok {
							if iv := globalInitValue(g); iv != nil {
								v = iv
							}
						}
					}
				}
				if ex, ok := v.(*ssa.Extract); ok {
					if call, ok := ex.Tuple.(*ssa.Call); ok && calleeName(call.Common()) == pkgGlob+".Compile" {
						pat := strip(call.Common().Args[0])
						c.analysed(fn)
						checkFlow(fn, pat, fnName(fn)+"/MATCH-pattern")
						return
					}
				}
				if call, ok := v.(*ssa.Call); ok && calleeName(call.Common()) == pkgGlob+".MustCompile" {
					return
				}
				c.bad(rid, fnName(fn)+"/MatchPattern-store", c.P.instrPos(st), "ScanOption.MatchPattern is not the result of glob.Compile/MustCompile")
			}
		})
	}
	// verdict: the compiled glob decides by MatchString/Match only
	c.rule("R17.e", "outside redis/glob, production code consults a *regexp.Regexp only through Match/MatchString/MatchReader (and String): the key matches iff the anchored expression matches the whole key; Find*/Replace*/Split* results compared with the key are not that verdict (an unmatched empty key equals the empty 'no match' result)")
	verdicts, otherUses := 0, 0
	for _, fn := range c.P.RepoFuncs(modPath) {
		if !inProd(fn) || fnPkgPath(fn) == pkgGlob {
			continue
		}
		allInstrs(fn, func(ins ssa.Instruction) {
			cc := callCommon(ins)
			if cc == nil {
				return
			}
			nme := calleeName(cc)
			if !strings.HasPrefix(nme, "(*regexp.Regexp).") {
				return
			}
			switch strings.TrimPrefix(nme, "(*regexp.Regexp).") {
			case "MatchString", "Match", "MatchReader":
				verdicts++
				c.analysed(fn)
			case "String", "Copy":
			default:
				otherUses++
				c.bad("R17.e", fmt.Sprintf("%s/%s", fnName(fn), nme), c.P.instrPos(ins), "the compiled glob is consulted through "+nme+" instead of Match*: its result is not the whole-key verdict")
			}
		})
	}
	c.count("glob-verdict-sites", verdicts)
	c.floor("glob-verdict-sites", 2)
	if otherUses == 0 {
		c.ok("R17.e", "verdict-by-Match", "", fmt.Sprintf("%d verdict sites, all Match*", verdicts))
	}
	c.count("pattern-flows", sinks)
	c.floor("pattern-flows", 2)
}
