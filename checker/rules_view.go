package main

import (
	"fmt"
	"go/token"
	"go/types"
	"sort"
	"strings"

	"golang.org/x/tools/go/ssa"
)

// ruleNoWriteThroughView (round 8: R8C01-m1, R8C04-m1, R8C05-m1 — three authors, one pitfall):
// append(x[:k], ...) and bytes.NewBuffer(x[:k]) do not copy. When x has spare room — and x[:k]
// always has, namely the rest of x — what is appended is written over x's own bytes from offset k
// on. For a []byte that is still referenced elsewhere (the payload of a parsed message on its way
// to the handler, the serialised reply on its way to the socket) that changes the data by looking
// at it. The rule is about memory, not about names: in the framework packages a byte slice is
// extended through a shortened view only when
//   - the view is x[:0] (the scratch-reuse idiom: the whole buffer is given up on purpose), or
//   - the view is capacity-limited (x[:k:k]), or
//   - the result is stored back to where x was loaded from (in-place edit of an owned slice:
//     s.f = append(s.f[:i], s.f[i+1:]...)), or is the loop-carried value of x itself, or
//   - x was allocated in this function and is not used again after the call.
//
// A parameter is judged at its static call sites (one level); an exported function's parameter is
// the caller's memory.
func ruleNoWriteThroughView(c *Ctx, rid string) {
	c.rule(rid, "in the production packages no byte slice is extended through a shortened view of memory that stays referenced: append(x[:k], ...) / bytes.NewBuffer(x[:k]) with k not the constant 0 and no capacity limit is accepted only when the result is stored back to where x came from, or x is a local allocation not used afterwards (checked at the static call sites for a parameter of an unexported helper)")
	n := 0
	for _, fn := range c.P.RepoFuncs(modPath) {
		if !inProd(fn) {
			continue
		}
		ord := 0
		allInstrs(fn, func(ins ssa.Instruction) {
			call, ok := ins.(*ssa.Call)
			if !ok {
				return
			}
			var view ssa.Value
			what := ""
			if b, isB := call.Common().Value.(*ssa.Builtin); isB && b.Name() == "append" && len(call.Common().Args) >= 1 {
				view, what = call.Common().Args[0], "append"
			} else if calleeName(call.Common()) == "bytes.NewBuffer" && len(call.Common().Args) == 1 {
				view, what = call.Common().Args[0], "bytes.NewBuffer"
			} else {
				return
			}
			if !isByteSlice(view.Type()) {
				return
			}
			n++
			sl, isSl := view.(*ssa.Slice)
			if !isSl || sl.High == nil || sl.Max != nil {
				return
			}
			if k, isC := constInt(sl.High); isC && k == 0 {
				return
			}
			if _, isArr := deref(sl.X.Type()).Underlying().(*types.Array); isArr {
				// a view of a local array (var buf [N]byte): owned by this frame
				if al, isAl := sl.X.(*ssa.Alloc); isAl && !al.Heap {
					return
				}
			}
			// k == len(x) is the whole slice: plain append
			if ln := linOf(sl.High); ln.isLen && ln.off == 0 && ln.base == sl.X {
				return
			}
			ord++
			key := fmt.Sprintf("%s/%s-on-view#%d", fnName(fn), what, ord)
			why := viewWriteUnsafe(c.P, fn, call, sl.X, 0)
			if why == "" {
				c.ok(rid, key, c.P.instrPos(call), "the memory behind the view is given up or written back")
			} else {
				c.bad(rid, key, c.P.instrPos(call), what+"("+sl.X.Name()+"[:k], ...) writes over the bytes of "+sl.X.Name()+" from offset k on, and "+why+": data is changed by a call that only meant to look at it (log, trace tag, summary, abbreviation)")
			}
		})
	}
	c.count("append-or-newbuffer-sites-on-bytes", n)
}

// sameLocation: two addresses denote the same variable (same Alloc, or the same field of the same base).
func sameLocation(a, b ssa.Value) bool {
	if a == b {
		return true
	}
	fa, ok1 := a.(*ssa.FieldAddr)
	fb, ok2 := b.(*ssa.FieldAddr)
	if ok1 && ok2 && fa.Field == fb.Field {
		return fa.X == fb.X || strip(fa.X) == strip(fb.X)
	}
	return false
}

func viewWriteUnsafe(p *Program, fn *ssa.Function, call *ssa.Call, x ssa.Value, depth int) string {
	// loop-carried: x = phi(..., result)
	if ph, ok := x.(*ssa.Phi); ok {
		for _, e := range ph.Edges {
			if e == ssa.Value(call) {
				return ""
			}
		}
	}
	// stored back to where x was loaded from
	if ld, ok := x.(*ssa.UnOp); ok && ld.Op == token.MUL {
		if call.Referrers() != nil {
			for _, r := range *call.Referrers() {
				if st, isSt := r.(*ssa.Store); isSt && st.Val == ssa.Value(call) && sameLocation(st.Addr, ld.X) {
					return ""
				}
			}
		}
		if owner, f, _, isF := fieldOf(ld.X); isF {
			return "the result is not stored back into " + owner + "." + f + ", which keeps referring to the overwritten bytes"
		}
		if _, isAl := ld.X.(*ssa.Alloc); !isAl {
			return "the result is not stored back to where the slice was loaded from"
		}
	}
	fresh := false
	switch v := x.(type) {
	case *ssa.MakeSlice, *ssa.Convert:
		fresh = true
	case *ssa.Call:
		if cal := staticCallee(v.Common()); cal == nil || !inRepo(cal) {
			if _, isB := v.Common().Value.(*ssa.Builtin); isB || cal != nil {
				fresh = true // append(...) result or a library function's result, held only here
			}
		}
	case *ssa.Extract:
		if tc, isC := v.Tuple.(*ssa.Call); isC {
			if cal := staticCallee(tc.Common()); cal != nil && !inRepo(cal) {
				fresh = true // a library function's result (io.ReadAll, ...), held only here
			}
		}
	case *ssa.Parameter:
		if depth >= 1 {
			return "the slice is a parameter handed down from a caller"
		}
		if fn.Object() != nil && fn.Object().Exported() {
			return "the slice is a parameter of an exported function: the caller's memory"
		}
		cs, only := p.onlyStaticallyCalled(fn)
		if !only || len(cs) == 0 {
			return "the slice is a parameter whose callers are not all known"
		}
		idx := -1
		for i, q := range fn.Params {
			if q == v {
				idx = i
			}
		}
		for _, ci := range cs {
			if idx < 0 || idx >= len(ci.Common().Args) {
				return "the slice is a parameter"
			}
			arg := ci.Common().Args[idx]
			if why := usedAfter(ci, arg); why != "" {
				return "the caller at " + p.instrPos(ci) + " " + why
			}
			if !locallyFresh(arg) {
				return "the caller at " + p.instrPos(ci) + " passes memory it does not own"
			}
		}
		return ""
	}
	if !fresh {
		return "the slice is not a local allocation of this function (" + x.String() + ")"
	}
	if why := usedAfter(call, x); why != "" {
		return why
	}
	return ""
}

func locallyFresh(v ssa.Value) bool {
	switch x := v.(type) {
	case *ssa.MakeSlice, *ssa.Convert:
		return true
	case *ssa.Extract:
		// the bytes returned by the serializer or by a library call: fresh for the caller
		if call, ok := x.Tuple.(*ssa.Call); ok {
			n := calleeName(call.Common())
			return n != "" && !hasSuffixAny(n, ").Bytes", ").Next", ").Peek", ").ReadSlice")
		}
	case *ssa.Call:
		if _, isB := x.Common().Value.(*ssa.Builtin); isB {
			return true
		}
		n := calleeName(x.Common())
		return n != "" && !hasSuffixAny(n, ").Bytes", ").Next", ").Peek", ").ReadSlice")
	}
	return false
}

func hasSuffixAny(s string, suf ...string) bool {
	for _, x := range suf {
		if len(s) >= len(x) && s[len(s)-len(x):] == x {
			return true
		}
	}
	return false
}

// usedAfter: is v referenced by an instruction that can execute after at?
func usedAfter(at ssa.Instruction, v ssa.Value) string {
	if v.Referrers() == nil {
		return ""
	}
	ab := at.Block()
	idxOf := func(b *ssa.BasicBlock, i ssa.Instruction) int {
		for k, x := range b.Instrs {
			if x == i {
				return k
			}
		}
		return -1
	}
	ai := idxOf(ab, at)
	// blocks reachable from ab's successors
	reach := map[*ssa.BasicBlock]bool{}
	st := append([]*ssa.BasicBlock{}, ab.Succs...)
	for len(st) > 0 {
		b := st[len(st)-1]
		st = st[:len(st)-1]
		if reach[b] {
			continue
		}
		reach[b] = true
		st = append(st, b.Succs...)
	}
	for _, r := range *v.Referrers() {
		if r == at {
			continue
		}
		if _, isDbg := r.(*ssa.DebugRef); isDbg {
			continue
		}
		// the view itself and other operands of the same call are consumed by the call
		if rv, isV := r.(ssa.Value); isV {
			operandOfAt := false
			for _, op := range at.Operands(nil) {
				if *op == rv {
					operandOfAt = true
				}
			}
			if operandOfAt {
				continue
			}
		}
		rb := r.Block()
		if rb == nil {
			continue
		}
		if reach[rb] || (rb == ab && idxOf(rb, r) > ai) {
			return "the slice is used again afterwards"
		}
	}
	return ""
}

// rulePointerResultsChecked (mechanical sweep of round 8: deleting `if err != nil { return }` after
// array.NextMessage() in Array.NextBytes/NextArray/NextError survives the suite): wherever framework
// code calls a repository function returning (*T, error), the pointer is used only where that error
// is known to be nil (A5.i applied to every such call, not only to the executors' extraction
// calls). A failed read returns (nil, err); using the pointer anyway is a nil dereference in the
// connection's goroutine — the request gets no reply and the connection is lost.
func rulePointerResultsChecked(c *Ctx, rid string) {
	c.rule(rid, "in redis, redis/proto and redis/auth every call of a repository function returning (*T, error) uses the pointer only under the nil test of that error (pass-through returns and guarded phis accepted)")
	n := 0
	for _, fn := range c.P.RepoFuncs(pkgRedis) {
		if !inFramework(fn) {
			continue
		}
		ord := map[string]int{}
		allInstrs(fn, func(ins ssa.Instruction) {
			call, ok := ins.(*ssa.Call)
			if !ok {
				return
			}
			cal := staticCallee(call.Common())
			if cal == nil || !inRepo(cal) {
				return
			}
			tup, isT := call.Type().(*types.Tuple)
			if !isT || tup.Len() != 2 || !isErrorType(tup.At(1).Type()) {
				return
			}
			if _, isP := tup.At(0).Type().Underlying().(*types.Pointer); !isP {
				return
			}
			if errAlwaysNil(cal) {
				return // (value, nil) producers are covered by the nil-test clause of R10.a
			}
			n++
			sc := shortCallee(call)
			ord[sc]++
			key := fmt.Sprintf("%s/ptr-result:%s#%d", fnName(fn), sc, ord[sc])
			// `arr, _ := NewArrayMessage().Array()`: an accessor on a value constructed just here
			if len(call.Common().Args) > 0 {
				if cc, isC := strip(call.Common().Args[0]).(*ssa.Call); isC {
					if k := staticCallee(cc.Common()); k != nil && inRepo(k) && strings.HasPrefix(k.Name(), "New") {
						c.ok(rid, key, c.P.instrPos(call), "accessor on a value constructed by "+k.Name()+" in this function")
						return
					}
				}
			}
			if okE, why := derefsGuarded(call); okE {
				c.ok(rid, key, c.P.instrPos(call), "pointer dereferenced only where the error is nil")
			} else {
				c.bad(rid, key, c.P.instrPos(call), "the pointer returned with an error is used although the call may have failed (nil on failure: a nil dereference in the connection goroutine, no reply for that request): "+why)
			}
		})
	}
	c.count("pointer-and-error-call-sites", n)
	c.floor("pointer-and-error-call-sites", 40)
}

// derefsGuarded: every dereferencing use (receiver of a method call, field access, load) of the
// pointer result of call happens where the call's error is known to be nil or the pointer itself
// is known to be non-nil. Uses that only pass the pointer on (return, argument, phi, store) are
// not dereferences.
func derefsGuarded(call *ssa.Call) (bool, string) {
	if call.Referrers() == nil {
		return true, ""
	}
	var errEx, val *ssa.Extract
	for _, r := range *call.Referrers() {
		if ex, ok := r.(*ssa.Extract); ok {
			if ex.Index == 1 {
				errEx = ex
			} else {
				val = ex
			}
		}
	}
	if val == nil || val.Referrers() == nil {
		return true, ""
	}
	for _, u := range *val.Referrers() {
		deref := false
		switch x := u.(type) {
		case *ssa.FieldAddr:
			deref = x.X == ssa.Value(val)
		case *ssa.UnOp:
			deref = x.Op == token.MUL && x.X == ssa.Value(val)
		case ssa.CallInstruction:
			cc := x.Common()
			if cc.IsInvoke() {
				deref = cc.Value == ssa.Value(val)
			} else if len(cc.Args) > 0 && cc.Args[0] == ssa.Value(val) && cc.Signature().Recv() != nil {
				deref = true
				// methods that test their receiver against nil first are safe to call on nil
				if cal := staticCallee(cc); cal != nil && cal.Blocks != nil && len(cal.Params) > 0 {
					if iff, ok := cal.Blocks[0].Instrs[len(cal.Blocks[0].Instrs)-1].(*ssa.If); ok {
						for _, at := range atomsOf(iff.Cond, true) {
							if at.Kind == "nil" && at.X == ssa.Value(cal.Params[0]) {
								deref = false
							}
						}
					}
				}
			}
		}
		if !deref {
			continue
		}
		guarded := false
		for _, at := range factsAt(u.Block()) {
			if at.Kind == "nil" && at.Pos && errEx != nil && (at.X == ssa.Value(errEx) || loadOfCellHolding(at.X, errEx)) {
				guarded = true
			}
			if at.Kind == "nil" && !at.Pos && at.X == ssa.Value(val) {
				guarded = true
			}
		}
		if !guarded {
			if errEx == nil {
				return false, "the error result is discarded and the pointer is dereferenced at " + u.String()
			}
			return false, "dereferenced at `" + u.String() + "` where the error may be non-nil"
		}
	}
	return true, ""
}

// ruleConnLoopIndexSafety (R8C10-m1: error statistics keyed by text[:strings.IndexByte(text, ' ')],
// -1 for a one-word error; R8C07-m1: a histogram bucket one past the table): the index and slice
// expressions that the connection goroutine executes in package redis outside the executors
// (the loop itself, dispatch, reply writing, and whatever instrumentation is called from them)
// are proven in range like those of the executors (A8). A panic there is swallowed by the
// connection barrier: no reply for the request, the pipelined requests behind it are dropped —
// and a mutex held without defer at that moment is never released.
func ruleConnLoopIndexSafety(c *Ctx, rid string) {
	c.rule(rid, "A8 over the functions of package redis reachable from the connection loop other than the executors' own scope: every index and slice expression is proven in range by the inequality prover from the dominating tests; the result of strings/bytes Index* is -1 when nothing is found and proves nothing")
	var roots []*ssa.Function
	for _, cl := range c.P.connLoops() {
		roots = append(roots, cl.Fn)
	}
	reach := c.P.repoReach(roots, func(f *ssa.Function) bool { return inFramework(f) && fnPkgPath(f) == pkgRedis })
	execs, _ := c.P.executors()
	var eroots []*ssa.Function
	for _, e := range execs {
		eroots = append(eroots, e.Fn)
	}
	ereach := c.P.repoReach(eroots, func(f *ssa.Function) bool { return inFramework(f) && fnPkgPath(f) == pkgRedis })
	var scope []*ssa.Function
	for f := range reach {
		if f.Blocks != nil && f.Synthetic == "" && !ereach[f] {
			scope = append(scope, f)
		}
	}
	sort.Slice(scope, func(i, j int) bool { return c.P.key(scope[i]) < c.P.key(scope[j]) })
	c.count("conn-loop-scope-functions", len(scope))
	c.floor("conn-loop-scope-functions", 5)
	rulePanicSitesIn(c, rid, scope, "conn-loop-index-sites", 0)
}

// ruleOnlyParserReadsConn (R8C02-m1: a protocol sniffer reads the first bytes of the stream with
// one Read and pushes its whole buffer back, NULs included, when the first segment was shorter):
// who-may-read. In package redis nothing but the parser consumes bytes of a client connection:
// no Read/ReadByte/ReadFull/ReadAll/Copy/bufio use on a net.Conn, *tls.Conn, *redis.Conn or an
// io.Reader in the functions the accept and connection loops run. (The TLS handshake reads inside
// crypto/tls, not here.) What the parser is given is the connection itself or a reader built
// from it by the standard library without consuming it.
func ruleOnlyParserReadsConn(c *Ctx, rid string) {
	c.rule(rid, "who-may-read: in package redis (not redis/proto) no call site reads from a connection or io.Reader (Read, ReadByte, io.ReadFull/ReadAtLeast/ReadAll, io.Copy*, bufio.Reader methods that consume): every byte of the request stream is consumed by the parser, whose reads are decided by R02.a-c whatever the chunking")
	n, bad := 0, 0
	for _, fn := range c.P.RepoFuncs(pkgRedis) {
		if fnPkgPath(fn) != pkgRedis {
			continue
		}
		allInstrs(fn, func(ins ssa.Instruction) {
			cc := callCommon(ins)
			if cc == nil {
				return
			}
			name := calleeName(cc)
			reads := false
			switch {
			case hasSuffixAny(name, "Conn).Read", "Reader).Read", "Reader).ReadByte", "Reader).ReadBytes", "Reader).ReadString", "Reader).ReadSlice", "Reader).ReadLine", "Reader).ReadRune", "Reader).Discard", "Reader).Peek", "Reader).WriteTo", "Conn).ReadFrom"):
				reads = true
			case nameIn(name, "io.ReadFull", "io.ReadAtLeast", "io.ReadAll", "io.Copy", "io.CopyN", "io.CopyBuffer", "io/ioutil.ReadAll"):
				reads = true
			}
			n++
			if !reads {
				return
			}
			// reading a local in-memory reader is not reading the connection
			var src ssa.Value
			if cc.IsInvoke() {
				src = cc.Value
			} else if len(cc.Args) > 0 {
				src = cc.Args[0]
				if nameIn(name, "io.Copy", "io.CopyN", "io.CopyBuffer") && len(cc.Args) > 1 {
					src = cc.Args[1]
				}
			}
			if src != nil {
				if k, isC := strip(src).(*ssa.Call); isC {
					if nameIn(calleeName(k.Common()), "bytes.NewReader", "bytes.NewBuffer", "bytes.NewBufferString", "strings.NewReader", "os.Open") {
						return
					}
				}
				if t := src.Type().String(); strings.Contains(t, "os.File") || strings.Contains(t, "bytes.Buffer") || strings.Contains(t, "bytes.Reader") || strings.Contains(t, "strings.Reader") {
					return
				}
			}
			// a transparent Read wrapper (func (c *Conn) Read(b []byte) (int, error) forwarding b to
			// the embedded connection and returning its n and err unchanged, e.g. to count bytes):
			// whoever calls the wrapper is the reader — the parser, when it is given the *Conn
			if call, isCall := ins.(*ssa.Call); isCall && fn.Name() == "Read" && fn.Signature.Recv() != nil && len(fn.Params) == 2 && isByteSlice(fn.Params[1].Type()) {
				args := cc.Args
				bufArg := ssa.Value(nil)
				if cc.IsInvoke() && len(args) == 1 {
					bufArg = args[0]
				} else if !cc.IsInvoke() && len(args) == 2 {
					bufArg = args[1]
				}
				through := bufArg != nil && strip(bufArg) == ssa.Value(fn.Params[1])
				for _, r := range returnsOf(fn) {
					if len(r.Results) != 2 {
						through = false
						continue
					}
					for i := 0; i < 2; i++ {
						ex, isEx := strip(retOperand(r, i)).(*ssa.Extract)
						if !isEx || ex.Tuple != ssa.Value(call) || ex.Index != i {
							through = false
						}
					}
				}
				if through {
					return
				}
			}
			bad++
			c.bad(rid, fmt.Sprintf("%s/read#%d:%s", fnName(fn), bad, name), c.P.instrPos(ins), "bytes of a client's stream are consumed outside the parser: what the parser then sees depends on how the bytes arrived (a short first read, a boundary inside what was taken)")
		})
	}
	c.count("call-sites-scanned-for-reads", n)
	c.floor("call-sites-scanned-for-reads", 100)
	if bad == 0 {
		c.ok(rid, "no-read-outside-parser", "", "no call site of package redis reads from a connection or reader")
	}
}

// ruleDispatcherHandsReplyOn (R8C12-m1: a slow-command report sizes the reply with
// array.NextMessages(), which advances the reply array's cursor; HKEYS/HVALS/HLEN walk the reply
// of a nested HGETALL with Next() and find it already consumed): between the executor's return
// and the dispatcher's own return, the reply is not modified — no store into a field of the
// proto.Message / proto.Array it consists of, directly or in a function it is handed to. The
// derived commands of the framework call the dispatcher recursively and read that very object.
func ruleDispatcherHandsReplyOn(c *Ctx, rid string) {
	c.rule(rid, "in the dispatcher (the function calling through the executor table) the message returned by the executor reaches the return unmodified: neither the dispatcher nor a function it passes the reply to (followed through static calls, accessors that return the reply's array included) stores into a field of proto.Message or proto.Array reachable from it — reading a reply with the cursor methods (Next*, NextMessages) consumes it for the derived command that asked for it")
	n := 0
	for _, di := range c.P.dispatchers() {
		if di.Call == nil {
			continue
		}
		n++
		var reply ssa.Value
		if di.Call.Referrers() != nil {
			for _, r := range *di.Call.Referrers() {
				if ex, ok := r.(*ssa.Extract); ok && ex.Index == 0 {
					reply = ex
				}
			}
		}
		key := fnName(di.Fn) + "/reply-untouched"
		if reply == nil {
			c.ok(rid, key, c.P.instrPos(di.Call), "the executor's results are returned as they are")
			continue
		}
		why := mutatesMessage(c.P, di.Fn, []ssa.Value{reply}, 0, map[*ssa.Function]bool{})
		c.check(why == "", rid, key, c.P.instrPos(di.Call), "the reply is only tested, passed to read-only code and returned", "the executor's reply is modified before it is returned: "+why+" — a derived command that called the dispatcher for this reply reads a consumed or altered message")
	}
	c.count("dispatchers-with-executor-call", n)
	c.floor("dispatchers-with-executor-call", 1)
}

func isProtoMsgOrArray(t types.Type) bool {
	s := deref(t).String()
	return strings.HasSuffix(s, "proto.Message") || strings.HasSuffix(s, "proto.Array")
}

// mutatesMessage: does fn store into a field of a proto.Message/Array reachable from roots
// (values of fn), directly or through static repository callees?
func mutatesMessage(p *Program, fn *ssa.Function, roots []ssa.Value, depth int, onStack map[*ssa.Function]bool) string {
	if depth > 5 || fn == nil || fn.Blocks == nil {
		return ""
	}
	taint := map[ssa.Value]bool{}
	for _, r := range roots {
		taint[r] = true
	}
	tainted := func(v ssa.Value) bool {
		if v == nil {
			return false
		}
		if taint[v] {
			return true
		}
		s := strip(v)
		return taint[s]
	}
	// propagate to a fixed point (small functions)
	for iter := 0; iter < 6; iter++ {
		changed := false
		allInstrs(fn, func(ins ssa.Instruction) {
			v, isV := ins.(ssa.Value)
			if !isV || taint[v] {
				return
			}
			add := false
			switch x := ins.(type) {
			case *ssa.Phi:
				for _, e := range x.Edges {
					if tainted(e) {
						add = true
					}
				}
			case *ssa.Extract:
				add = tainted(x.Tuple)
			case *ssa.Call:
				// an accessor on a tainted message that returns part of it (Array(), NextMessages(), ...)
				cc := x.Common()
				recvT := false
				if cc.IsInvoke() {
					recvT = tainted(cc.Value)
				} else if len(cc.Args) > 0 {
					recvT = tainted(cc.Args[0])
				}
				if recvT {
					rt := x.Type()
					if tup, ok := rt.(*types.Tuple); ok && tup.Len() > 0 {
						rt = tup.At(0).Type()
					}
					if isProtoMsgOrArray(rt) {
						add = true
					}
					if sl, ok := rt.Underlying().(*types.Slice); ok && isProtoMsgOrArray(sl.Elem()) {
						add = true
					}
				}
			case *ssa.FieldAddr:
				add = tainted(x.X) && false
			case *ssa.UnOp:
				if x.Op == token.MUL {
					if fa, ok := x.X.(*ssa.FieldAddr); ok && tainted(fa.X) && (isProtoMsgOrArray(x.Type()) || func() bool {
						sl, ok := x.Type().Underlying().(*types.Slice)
						return ok && isProtoMsgOrArray(sl.Elem())
					}()) {
						add = true
					}
					if ia, ok := x.X.(*ssa.IndexAddr); ok && tainted(ia.X) {
						add = true
					}
				}
			case *ssa.Next:
				add = tainted(x.Iter)
			case *ssa.Range:
				add = tainted(x.X)
			case *ssa.Index:
				add = tainted(x.X)
			}
			if add {
				taint[v] = true
				changed = true
			}
		})
		if !changed {
			break
		}
	}
	why := ""
	allInstrs(fn, func(ins ssa.Instruction) {
		if why != "" {
			return
		}
		switch x := ins.(type) {
		case *ssa.Store:
			if fa, ok := x.Addr.(*ssa.FieldAddr); ok && tainted(fa.X) && isProtoMsgOrArray(fa.X.Type()) {
				owner, f, _, _ := fieldOf(fa)
				why = fmt.Sprintf("%s stores into %s.%s at %s", fnName(fn), owner, f, p.instrPos(x))
			}
		case ssa.CallInstruction:
			cc := x.Common()
			cal := staticCallee(cc)
			if cal == nil || !inRepo(cal) || cal.Blocks == nil || onStack[cal] {
				return
			}
			var sub []ssa.Value
			for i, a := range cc.Args {
				if tainted(a) && i < len(cal.Params) {
					sub = append(sub, cal.Params[i])
				}
			}
			if len(sub) == 0 {
				return
			}
			onStack[cal] = true
			if w := mutatesMessage(p, cal, sub, depth+1, onStack); w != "" {
				why = fmt.Sprintf("%s (called at %s)", w, p.instrPos(x))
			}
			delete(onStack, cal)
		}
	})
	return why
}

// loadOfCellHolding: v is a load of a local variable cell (an error variable captured by a closure
// lives in one) read right after ex was stored into it: the store dominates the load and is the
// last store to the cell before it in its block.
func loadOfCellHolding(v ssa.Value, ex *ssa.Extract) bool {
	ld, ok := v.(*ssa.UnOp)
	if !ok || ld.Op != token.MUL {
		return false
	}
	al, ok := ld.X.(*ssa.Alloc)
	if !ok || ex.Referrers() == nil {
		return false
	}
	for _, r := range *ex.Referrers() {
		st, isSt := r.(*ssa.Store)
		if !isSt || st.Addr != ssa.Value(al) || st.Val != ssa.Value(ex) {
			continue
		}
		if st.Block() == ld.Block() {
			seenStore := false
			for _, ins := range st.Block().Instrs {
				if ins == ssa.Instruction(st) {
					seenStore = true
					continue
				}
				if ins == ssa.Instruction(ld) {
					return seenStore
				}
				if o, isO := ins.(*ssa.Store); isO && seenStore && o.Addr == ssa.Value(al) {
					return false
				}
			}
			return false
		}
		if st.Block().Dominates(ld.Block()) {
			// no other store to the cell in the load's block before the load
			for _, ins := range ld.Block().Instrs {
				if ins == ssa.Instruction(ld) {
					return true
				}
				if o, isO := ins.(*ssa.Store); isO && o.Addr == ssa.Value(al) {
					return false
				}
			}
		}
	}
	return false
}

// ruleLifecycleErrorsPropagate (mechanical sweep: `return err` -> `return nil` under `if err != nil`
// in Start after open() failed, in close() after Listener.Close failed, survive the suite):
// "after Start returns without error the server accepts connections on every enabled port" — so a
// lifecycle function must not report success from inside the branch in which one of its steps is
// known to have failed.
func ruleLifecycleErrorsPropagate(c *Ctx, rid string) {
	c.rule(rid, "in Server.Start/Stop/Restart and the error-returning framework functions they call (static calls, not goroutine bodies), no return with a nil error lies in a block dominated by the non-nil test of a step's error: a failed open/close/sweep is reported, not swallowed into success")
	var roots []*ssa.Function
	for _, n := range []string{"Start", "Stop", "Restart"} {
		if f := c.P.Method(pkgRedis, "Server", n); f != nil {
			roots = append(roots, f)
		}
	}
	seen := map[*ssa.Function]bool{}
	var scope []*ssa.Function
	st := append([]*ssa.Function{}, roots...)
	for len(st) > 0 {
		f := st[len(st)-1]
		st = st[:len(st)-1]
		if f == nil || seen[f] || f.Blocks == nil || !inFramework(f) || fnPkgPath(f) != pkgRedis {
			continue
		}
		seen[f] = true
		res := f.Signature.Results()
		if res.Len() == 0 || !isErrorType(res.At(res.Len()-1).Type()) {
			continue
		}
		scope = append(scope, f)
		allInstrs(f, func(ins ssa.Instruction) {
			if call, ok := ins.(*ssa.Call); ok {
				if cal := staticCallee(call.Common()); cal != nil {
					st = append(st, cal)
				}
			}
		})
	}
	sort.Slice(scope, func(i, j int) bool { return fnName(scope[i]) < fnName(scope[j]) })
	n := 0
	for _, f := range scope {
		bad := ""
		var at0 ssa.Instruction
		for _, r := range returnsOf(f) {
			n++
			if len(r.Results) == 0 || !isNilConst(retOperand(r, len(r.Results)-1)) {
				continue
			}
			for _, at := range factsAt(r.Block()) {
				if at.Kind != "nil" || at.Pos || at.X == nil || !isErrorType(at.X.Type()) {
					continue
				}
				src := strip(at.X)
				if ex, ok := src.(*ssa.Extract); ok {
					src = ex.Tuple
				}
				if call, ok := src.(*ssa.Call); ok {
					bad = "success is returned at " + c.P.instrPos(r) + " although " + calleeName(call.Common()) + " is known to have failed there"
					at0 = r
				}
			}
		}
		key := fnName(f) + "/errors-propagate"
		if bad == "" {
			c.ok(rid, key, c.P.pos(f.Pos()), "no success return under a failed step")
		} else {
			c.bad(rid, key, c.P.instrPos(at0), bad+": the caller is told the server is started (or stopped) when a listener was not opened (or closed)")
		}
	}
	c.count("lifecycle-returns", n)
	c.floor("lifecycle-returns", 8)
}

// ruleParserNumbersChecked (mechanical sweep: dropping the error test after strconv.Atoi in
// nextBulkMessage survives the suite — "$abc" then parses as an empty bulk string instead of
// being refused): every number the parser decodes from the wire is used only where the decoding
// succeeded.
func ruleParserNumbersChecked(c *Ctx, rid string, scope []*ssa.Function) {
	c.rule(rid, "A5.i in the parser: every strconv.Atoi/ParseInt/ParseUint call in the parser scope has its error tested, and its number is used only under the nil test of that error: a malformed length is a protocol error, never the number 0")
	n := 0
	sset := scopeSet(scope)
	for _, f := range scope {
		ord := 0
		allInstrs(f, func(ins ssa.Instruction) {
			call, ok := ins.(*ssa.Call)
			if !ok {
				return
			}
			if !nameIn(calleeName(call.Common()), "strconv.Atoi", "strconv.ParseInt", "strconv.ParseUint") {
				// a helper of the parser that hands the decoded number on: (int, error)
				cal := staticCallee(call.Common())
				tup, isT := call.Type().(*types.Tuple)
				if cal == nil || !sset[cal] || !isT || tup.Len() != 2 || !isErrorType(tup.At(1).Type()) {
					return
				}
				if b, isB := tup.At(0).Type().Underlying().(*types.Basic); !isB || b.Info()&types.IsInteger == 0 {
					return
				}
			}
			n++
			ord++
			key := fmt.Sprintf("%s/wire-number#%d", fnName(f), ord)
			if okE, why := errCheckedCall(call); okE {
				c.ok(rid, key, c.P.instrPos(call), "number used only where the decoding succeeded")
			} else {
				c.bad(rid, key, c.P.instrPos(call), "a length or count decoded from the wire is used although the decoding may have failed (the value is then 0: a malformed header is accepted as an empty value): "+why)
			}
		})
	}
	c.count("parser-strconv-calls", n)
	c.floor("parser-strconv-calls", 1)
}

// nullOnlyForNegative (written while reading the sweep's survivors around the length tests; the edit
// `num < 0` -> `num <= 0` itself is also caught by the suite — `$0\r\n\r\n` then yields the null
// bulk string and leaves its CRLF in the stream): a test
// of a wire-declared length against a constant that sends both 0 and -1 to the same side may not
// lead straight to a success return: the empty value has a body (its CRLF) to read, the null one
// has none.
func nullOnlyForNegative(c *Ctx, rid string) {
	scope := c.P.parserScope()
	nsset := scopeSet(scope)
	// only where a declared length of 0 still has a body to read: the function that reads the bulk
	// body, and the functions that call it (an array of 0 elements has none: *0 and *-1 may share a way)
	body, _ := bulkBody(c)
	if body == nil {
		return
	}
	readsBulk := map[*ssa.Function]bool{body: true}
	for _, f := range scope {
		for _, cal := range calleesIn(f) {
			if cal == body {
				readsBulk[f] = true
			}
		}
	}
	n := 0
	for _, f := range scope {
		if !readsBulk[f] {
			continue
		}
		ord := 0
		allInstrs(f, func(ins ssa.Instruction) {
			iff, ok := ins.(*ssa.If)
			if !ok {
				return
			}
			bo, ok := iff.Cond.(*ssa.BinOp)
			if !ok {
				return
			}
			fromWire := func(v ssa.Value) bool {
				ex, ok := strip(v).(*ssa.Extract)
				if !ok || ex.Index != 0 {
					return false
				}
				call, ok := ex.Tuple.(*ssa.Call)
				if !ok {
					return false
				}
				if nameIn(calleeName(call.Common()), "strconv.Atoi", "strconv.ParseInt", "strconv.ParseUint") {
					return true
				}
				// the number handed on by a helper of the parser: (int, error)
				if cal := staticCallee(call.Common()); cal != nil && nsset[cal] {
					if tup, isT := call.Type().(*types.Tuple); isT && tup.Len() == 2 && isErrorType(tup.At(1).Type()) {
						if b, isB := tup.At(0).Type().Underlying().(*types.Basic); isB && b.Info()&types.IsInteger != 0 {
							return true
						}
					}
				}
				return false
			}
			var k int64
			numLeft := false
			if kc, isC := constInt(bo.Y); isC && fromWire(bo.X) {
				k, numLeft = kc, true
			} else if kc, isC := constInt(bo.X); isC && fromWire(bo.Y) {
				k = kc
			} else {
				return
			}
			eval := func(num int64) (bool, bool) {
				a, b := num, k
				if !numLeft {
					a, b = k, num
				}
				switch bo.Op {
				case token.LSS:
					return a < b, true
				case token.LEQ:
					return a <= b, true
				case token.GTR:
					return a > b, true
				case token.GEQ:
					return a >= b, true
				case token.EQL:
					return a == b, true
				case token.NEQ:
					return a != b, true
				}
				return false, false
			}
			r0, ok0 := eval(0)
			r1, ok1 := eval(-1)
			if !ok0 || !ok1 {
				return
			}
			n++
			ord++
			key := fmt.Sprintf("%s/length-test#%d", fnName(f), ord)
			bad := false
			if r0 == r1 {
				succ := iff.Block().Succs[0]
				if !r0 {
					succ = iff.Block().Succs[1]
				}
				if ret, isRet := succ.Instrs[len(succ.Instrs)-1].(*ssa.Return); isRet && len(ret.Results) == 2 && isNilConst(retOperand(ret, 1)) && !isNilConst(retOperand(ret, 0)) {
					// a value (message, array, bytes) is returned, not a number handed to the caller
					switch ret.Results[0].Type().Underlying().(type) {
					case *types.Pointer, *types.Slice, *types.Interface:
						bad = true
					}
				}
			}
			c.check(!bad, rid, key, c.P.instrPos(iff), "0 and -1 are told apart before a value is returned without reading a body", "a declared length of 0 takes the same way as -1 to a success return that reads no body: the empty value becomes the null one and its CRLF stays in the stream as the start of the next value")
		})
	}
	c.count("wire-length-tests", n)
	c.floor("wire-length-tests", 1)
}

// ruleReverseByBody (mechanical sweep: either sign of `(l - i - 1) - (step - 1) + j` flipped in
// Array.ReverseBy survives the suite, which never asks for ZREVRANGE ... WITHSCORES): the element
// taken for output position i+j is msgs[l - i - step + j] — the groups in reverse order, each group
// in its own order. Decided on the linear form of the index expression, not on its spelling.
func ruleReverseByBody(c *Ctx, rid string) {
	c.rule(rid, "Array.ReverseBy: the one index expression reading the source elements is, as a linear form over (length, outer counter stepping by step, inner counter stepping by 1, step), exactly length - outer - step + inner with no constant term")
	fn := c.P.Method(pkgProto, "Array", "ReverseBy")
	if !c.anchor(rid, fn, "proto.(*Array).ReverseBy") {
		return
	}
	c.analysed(fn)
	var idxs []*ssa.IndexAddr
	allInstrs(fn, func(ins ssa.Instruction) {
		if ia, ok := ins.(*ssa.IndexAddr); ok && !isVarargsArray(ia.X) {
			if _, isC := ia.Index.(*ssa.Const); !isC {
				idxs = append(idxs, ia)
			}
		}
	})
	if len(idxs) != 1 {
		c.undecided(rid, "Array.ReverseBy/index", c.P.pos(fn.Pos()), fmt.Sprintf("%d computed index expressions found, one expected (the rule reads the nested-loop form)", len(idxs)))
		return
	}
	coef := map[ssa.Value]int64{}
	var k int64
	var walk func(v ssa.Value, sign int64, d int)
	walk = func(v ssa.Value, sign int64, d int) {
		if cv, ok := constInt(v); ok {
			k += sign * cv
			return
		}
		if bo, ok := v.(*ssa.BinOp); ok && d < 12 && (bo.Op == token.ADD || bo.Op == token.SUB) {
			walk(bo.X, sign, d+1)
			if bo.Op == token.ADD {
				walk(bo.Y, sign, d+1)
			} else {
				walk(bo.Y, -sign, d+1)
			}
			return
		}
		coef[v] += sign
	}
	walk(idxs[0].Index, 1, 0)
	problems := []string{}
	if k != 0 {
		problems = append(problems, fmt.Sprintf("constant term %d", k))
	}
	seenLen, seenStep, seenOuter, seenInner := false, false, false, false
	stepsBy := func(ph *ssa.Phi) (byParam bool, byOne bool) {
		for _, e := range ph.Edges {
			if bo, ok := e.(*ssa.BinOp); ok && bo.Op == token.ADD && bo.X == ssa.Value(ph) {
				if _, isP := bo.Y.(*ssa.Parameter); isP {
					byParam = true
				}
				if cv, isC := constInt(bo.Y); isC && cv == 1 {
					byOne = true
				}
			}
		}
		return
	}
	for v, cf := range coef {
		if cf == 0 {
			continue
		}
		switch x := v.(type) {
		case *ssa.Parameter:
			seenStep = true
			if cf != -1 {
				problems = append(problems, fmt.Sprintf("step enters with coefficient %+d, not -1", cf))
			}
		case *ssa.Call:
			if b, isB := x.Common().Value.(*ssa.Builtin); isB && b.Name() == "len" {
				seenLen = true
				if cf != 1 {
					problems = append(problems, fmt.Sprintf("the length enters with coefficient %+d, not +1", cf))
				}
			} else {
				problems = append(problems, "an unexpected term "+x.String())
			}
		case *ssa.Phi:
			byParam, byOne := stepsBy(x)
			switch {
			case byParam:
				seenOuter = true
				if cf != -1 {
					problems = append(problems, fmt.Sprintf("the group counter enters with coefficient %+d, not -1", cf))
				}
			case byOne:
				seenInner = true
				if cf != 1 {
					problems = append(problems, fmt.Sprintf("the position inside the group enters with coefficient %+d, not +1", cf))
				}
			default:
				problems = append(problems, "a loop variable that steps neither by step nor by 1")
			}
		default:
			problems = append(problems, "an unexpected term "+v.String())
		}
	}
	if !(seenLen && seenStep && seenOuter && seenInner) {
		problems = append(problems, "the index does not depend on all of length, step, group counter and position in the group")
	}
	c.check(len(problems) == 0, rid, "Array.ReverseBy/index", c.P.instrPos(idxs[0]), "msgs[len - i - step + j]", "the element read for output position i+j is not msgs[len - i - step + j] ("+strings.Join(problems, "; ")+"): with step 2 the member/score pairs of ZREVRANGE ... WITHSCORES come out in the wrong order or the index leaves the array")
}

// rulePingEchoShapes (mechanical sweep: `len(arg) == 0` -> `!=` in Server.Ping survives the suite):
// PING answers +PONG exactly when it has no argument and the argument as a bulk string otherwise;
// ECHO answers its argument as a bulk string.
func rulePingEchoShapes(c *Ctx, rid string) {
	c.rule(rid, "Server.Ping returns NewStringMessage(\"PONG\") only where its argument is known to be empty and NewBulkMessage(argument) only where it is known not to be; Server.Echo returns NewBulkMessage(argument) on every path")
	emptiness := func(b *ssa.BasicBlock, arg *ssa.Parameter) (empty, nonEmpty bool) {
		isLenArg := func(v ssa.Value) bool {
			call, ok := strip(v).(*ssa.Call)
			if !ok {
				return false
			}
			bi, isB := call.Common().Value.(*ssa.Builtin)
			return isB && bi.Name() == "len" && len(call.Common().Args) == 1 && strip(call.Common().Args[0]) == ssa.Value(arg)
		}
		isK := func(v ssa.Value, k int64) bool { cv, ok := constInt(v); return ok && cv == k }
		isEmptyStr := func(v ssa.Value) bool { s, ok := constString(v); return ok && s == "" }
		for _, at := range factsAt(b) {
			switch at.Kind {
			case "eq":
				if (isLenArg(at.X) && isK(at.Y, 0)) || (isLenArg(at.Y) && isK(at.X, 0)) || (strip(at.X) == ssa.Value(arg) && isEmptyStr(at.Y)) || (strip(at.Y) == ssa.Value(arg) && isEmptyStr(at.X)) {
					if at.Pos {
						empty = true
					} else {
						nonEmpty = true
					}
				}
			case "lt":
				if isK(at.X, 0) && isLenArg(at.Y) { // 0 < len
					if at.Pos {
						nonEmpty = true
					} else {
						empty = true
					}
				}
				if isLenArg(at.X) && isK(at.Y, 1) { // len < 1
					if at.Pos {
						empty = true
					} else {
						nonEmpty = true
					}
				}
			case "le":
				if isLenArg(at.X) && isK(at.Y, 0) { // len <= 0
					if at.Pos {
						empty = true
					} else {
						nonEmpty = true
					}
				}
				if isK(at.X, 1) && isLenArg(at.Y) { // 1 <= len
					if at.Pos {
						nonEmpty = true
					} else {
						empty = true
					}
				}
			}
		}
		return
	}
	for _, name := range []string{"Ping", "Echo"} {
		fn := c.P.Method(pkgRedis, "Server", name)
		if !c.anchor(rid, fn, "redis.(*Server)."+name) {
			continue
		}
		c.analysed(fn)
		var arg *ssa.Parameter
		for _, p := range fn.Params {
			if b, ok := p.Type().Underlying().(*types.Basic); ok && b.Kind() == types.String {
				arg = p
			}
		}
		if arg == nil {
			c.undecided(rid, "Server."+name+"/argument", c.P.pos(fn.Pos()), "no string parameter found")
			continue
		}
		problems := []string{}
		for _, r := range returnsOf(fn) {
			if len(r.Results) != 2 {
				continue
			}
			if !isNilConst(retOperand(r, 1)) {
				continue
			}
			call, ok := strip(retOperand(r, 0)).(*ssa.Call)
			if !ok {
				problems = append(problems, "a reply that is not built by a message constructor at "+c.P.instrPos(r))
				continue
			}
			cn := calleeName(call.Common())
			empty, nonEmpty := emptiness(r.Block(), arg)
			switch {
			case strings.HasSuffix(cn, ".NewStringMessage") && name == "Ping":
				if s, isS := constString(call.Common().Args[0]); !isS || s != "PONG" {
					problems = append(problems, "the status reply is not the constant PONG")
				}
				if !empty {
					problems = append(problems, "+PONG is answered where the argument is not known to be empty")
				}
			case strings.HasSuffix(cn, ".NewBulkMessage"):
				if strip(call.Common().Args[0]) != ssa.Value(arg) {
					problems = append(problems, "the bulk reply is not the argument itself")
				}
				if name == "Ping" && !nonEmpty {
					problems = append(problems, "the argument is echoed where it is not known to be non-empty (PING without argument must answer +PONG)")
				}
			default:
				problems = append(problems, "reply built by "+cn)
			}
		}
		c.check(len(problems) == 0, rid, "Server."+name+"/reply-shape", c.P.pos(fn.Pos()), "reply shape follows the presence of the argument", strings.Join(problems, "; "))
	}
}
