package main

import (
	"fmt"
	"go/token"
	"go/types"

	"golang.org/x/tools/go/ssa"
)

// ruleNoWriteThroughView (round 8: R8C01-m1, R8C04-m1, R8C05-m1 — three authors, one pitfall):
// append(x[:k], ...) and bytes.NewBuffer(x[:k]) do not copy. When x has spare room — and x[:k]
// always has, namely the rest of x — what is appended is written over x's own bytes from offset k
// on. For a []byte that is still referenced elsewhere (the payload of a parsed message on its way
// to the handler, the serialised reply on its way to the socket) that changes the data by looking
// at it. The rule is about memory, not about names: in the framework packages a byte slice is
// extended through a shortened view only when
//   - the view is x[:0] (the scratch-reuse idiom: the whole buffer is given up on purpose), or
//   - the view is capacity-limited (x[:k:k]), or
//   - the result is stored back to where x was loaded from (in-place edit of an owned slice:
//     s.f = append(s.f[:i], s.f[i+1:]...)), or is the loop-carried value of x itself, or
//   - x was allocated in this function and is not used again after the call.
// A parameter is judged at its static call sites (one level); an exported function's parameter is
// the caller's memory.
func ruleNoWriteThroughView(c *Ctx, rid string) {
	c.rule(rid, "in the production packages no byte slice is extended through a shortened view of memory that stays referenced: append(x[:k], ...) / bytes.NewBuffer(x[:k]) with k not the constant 0 and no capacity limit is accepted only when the result is stored back to where x came from, or x is a local allocation not used afterwards (checked at the static call sites for a parameter of an unexported helper)")
	n := 0
	for _, fn := range c.P.RepoFuncs(modPath) {
		if !inProd(fn) {
			continue
		}
		ord := 0
		allInstrs(fn, func(ins ssa.Instruction) {
			call, ok := ins.(*ssa.Call)
			if !ok {
				return
			}
			var view ssa.Value
			what := ""
			if b, isB := call.Common().Value.(*ssa.Builtin); isB && b.Name() == "append" && len(call.Common().Args) >= 1 {
				view, what = call.Common().Args[0], "append"
			} else if calleeName(call.Common()) == "bytes.NewBuffer" && len(call.Common().Args) == 1 {
				view, what = call.Common().Args[0], "bytes.NewBuffer"
			} else {
				return
			}
			if !isByteSlice(view.Type()) {
				return
			}
			n++
			sl, isSl := view.(*ssa.Slice)
			if !isSl || sl.High == nil || sl.Max != nil {
				return
			}
			if k, isC := constInt(sl.High); isC && k == 0 {
				return
			}
			if _, isArr := deref(sl.X.Type()).Underlying().(*types.Array); isArr {
				// a view of a local array (var buf [N]byte): owned by this frame
				if al, isAl := sl.X.(*ssa.Alloc); isAl && !al.Heap {
					return
				}
			}
			// k == len(x) is the whole slice: plain append
			if ln := linOf(sl.High); ln.isLen && ln.off == 0 && ln.base == sl.X {
				return
			}
			ord++
			key := fmt.Sprintf("%s/%s-on-view#%d", fnName(fn), what, ord)
			why := viewWriteUnsafe(c.P, fn, call, sl.X, 0)
			if why == "" {
				c.ok(rid, key, c.P.instrPos(call), "the memory behind the view is given up or written back")
			} else {
				c.bad(rid, key, c.P.instrPos(call), what+"("+sl.X.Name()+"[:k], ...) writes over the bytes of "+sl.X.Name()+" from offset k on, and "+why+": data is changed by a call that only meant to look at it (log, trace tag, summary, abbreviation)")
			}
		})
	}
	c.count("append-or-newbuffer-sites-on-bytes", n)
}

// sameLocation: two addresses denote the same variable (same Alloc, or the same field of the same base).
func sameLocation(a, b ssa.Value) bool {
	if a == b {
		return true
	}
	fa, ok1 := a.(*ssa.FieldAddr)
	fb, ok2 := b.(*ssa.FieldAddr)
	if ok1 && ok2 && fa.Field == fb.Field {
		return fa.X == fb.X || strip(fa.X) == strip(fb.X)
	}
	return false
}

func viewWriteUnsafe(p *Program, fn *ssa.Function, call *ssa.Call, x ssa.Value, depth int) string {
	// loop-carried: x = phi(..., result)
	if ph, ok := x.(*ssa.Phi); ok {
		for _, e := range ph.Edges {
			if e == ssa.Value(call) {
				return ""
			}
		}
	}
	// stored back to where x was loaded from
	if ld, ok := x.(*ssa.UnOp); ok && ld.Op == token.MUL {
		if call.Referrers() != nil {
			for _, r := range *call.Referrers() {
				if st, isSt := r.(*ssa.Store); isSt && st.Val == ssa.Value(call) && sameLocation(st.Addr, ld.X) {
					return ""
				}
			}
		}
		if owner, f, _, isF := fieldOf(ld.X); isF {
			return "the result is not stored back into " + owner + "." + f + ", which keeps referring to the overwritten bytes"
		}
		if _, isAl := ld.X.(*ssa.Alloc); !isAl {
			return "the result is not stored back to where the slice was loaded from"
		}
	}
	fresh := false
	switch v := x.(type) {
	case *ssa.MakeSlice, *ssa.Convert:
		fresh = true
	case *ssa.Call:
		if cal := staticCallee(v.Common()); cal == nil || !inRepo(cal) {
			if _, isB := v.Common().Value.(*ssa.Builtin); isB || cal != nil {
				fresh = true // append(...) result or a library function's result, held only here
			}
		}
	case *ssa.Extract:
		if tc, isC := v.Tuple.(*ssa.Call); isC {
			if cal := staticCallee(tc.Common()); cal != nil && !inRepo(cal) {
				fresh = true // a library function's result (io.ReadAll, ...), held only here
			}
		}
	case *ssa.Parameter:
		if depth >= 1 {
			return "the slice is a parameter handed down from a caller"
		}
		if fn.Object() != nil && fn.Object().Exported() {
			return "the slice is a parameter of an exported function: the caller's memory"
		}
		cs, only := p.onlyStaticallyCalled(fn)
		if !only || len(cs) == 0 {
			return "the slice is a parameter whose callers are not all known"
		}
		idx := -1
		for i, q := range fn.Params {
			if q == v {
				idx = i
			}
		}
		for _, ci := range cs {
			if idx < 0 || idx >= len(ci.Common().Args) {
				return "the slice is a parameter"
			}
			arg := ci.Common().Args[idx]
			if why := usedAfter(ci, arg); why != "" {
				return "the caller at " + p.instrPos(ci) + " " + why
			}
			if !locallyFresh(arg) {
				return "the caller at " + p.instrPos(ci) + " passes memory it does not own"
			}
		}
		return ""
	}
	if !fresh {
		return "the slice is not a local allocation of this function (" + x.String() + ")"
	}
	if why := usedAfter(call, x); why != "" {
		return why
	}
	return ""
}

func locallyFresh(v ssa.Value) bool {
	switch x := v.(type) {
	case *ssa.MakeSlice, *ssa.Convert:
		return true
	case *ssa.Extract:
		// the bytes returned by the serializer or by a library call: fresh for the caller
		if call, ok := x.Tuple.(*ssa.Call); ok {
			n := calleeName(call.Common())
			return n != "" && !hasSuffixAny(n, ").Bytes", ").Next", ").Peek", ").ReadSlice")
		}
	case *ssa.Call:
		if _, isB := x.Common().Value.(*ssa.Builtin); isB {
			return true
		}
		n := calleeName(x.Common())
		return n != "" && !hasSuffixAny(n, ").Bytes", ").Next", ").Peek", ").ReadSlice")
	}
	return false
}

func hasSuffixAny(s string, suf ...string) bool {
	for _, x := range suf {
		if len(s) >= len(x) && s[len(s)-len(x):] == x {
			return true
		}
	}
	return false
}

// usedAfter: is v referenced by an instruction that can execute after at?
func usedAfter(at ssa.Instruction, v ssa.Value) string {
	if v.Referrers() == nil {
		return ""
	}
	ab := at.Block()
	idxOf := func(b *ssa.BasicBlock, i ssa.Instruction) int {
		for k, x := range b.Instrs {
			if x == i {
				return k
			}
		}
		return -1
	}
	ai := idxOf(ab, at)
	// blocks reachable from ab's successors
	reach := map[*ssa.BasicBlock]bool{}
	st := append([]*ssa.BasicBlock{}, ab.Succs...)
	for len(st) > 0 {
		b := st[len(st)-1]
		st = st[:len(st)-1]
		if reach[b] {
			continue
		}
		reach[b] = true
		st = append(st, b.Succs...)
	}
	for _, r := range *v.Referrers() {
		if r == at {
			continue
		}
		if _, isDbg := r.(*ssa.DebugRef); isDbg {
			continue
		}
		// the view itself and other operands of the same call are consumed by the call
		if rv, isV := r.(ssa.Value); isV {
			operandOfAt := false
			for _, op := range at.Operands(nil) {
				if *op == rv {
					operandOfAt = true
				}
			}
			if operandOfAt {
				continue
			}
		}
		rb := r.Block()
		if rb == nil {
			continue
		}
		if reach[rb] || (rb == ab && idxOf(rb, r) > ai) {
			return "the slice is used again afterwards"
		}
	}
	return ""
}
