package main

// emit.go: the emission engine behind A10. It enumerates the CFG paths of a serializer (each
// edge at most once) and, along each path, the sequence of abstract tokens appended to the
// function's output accumulator. Two accumulator idioms are understood:
//   buffer: a *bytes.Buffer (local Alloc, bytes.NewBuffer result, or a parameter of a helper)
//           written with Write/WriteByte/WriteRune/WriteString;
//   slice:  a []byte value threaded through append / strconv.AppendInt / helpers returning it.
// Repository helpers that receive the accumulator are inlined (depth <= 3): their paths are
// spliced into the caller's path, their branch facts are kept, and the nil-ness of the error
// they return is correlated with the caller's test of that error.

import (
	"go/types"
	"strings"

	"golang.org/x/tools/go/ssa"
)

// canonAlias: what a helper's parameter stands for in the top-level serializer ("msg" for a
// forwarded receiver, "msg.bytes" for a forwarded field value). "?" = conflicting call sites.
var canonAlias = map[*ssa.Parameter]string{}

type emitPath struct {
	Toks    []tok
	Facts   []Atom
	Ret     *ssa.Return
	ErrNil  int // 0 unknown / no error result, 1 nil, 2 non-nil
	AccOK   bool
	Blocks  []*ssa.BasicBlock // top-level blocks in order
	RetsAcc bool
}

type emitModel struct {
	Fn       *ssa.Function
	Mode     string // "buffer" | "slice" | ""
	Buf      ssa.Value
	Local    bool
	Paths    []emitPath
	Overflow bool
	Why      string
}

type emitter struct {
	p        *Program
	tt       typeTables
	recvName string
	limit    int
	count    int
	overflow bool
}

// serializerModel builds the model of a top-level serializer method.
func serializerModel(p *Program, fn *ssa.Function, tt typeTables) *emitModel {
	m := &emitModel{Fn: fn}
	if fn == nil || len(fn.Blocks) == 0 || len(fn.Params) == 0 {
		m.Why = "no body"
		return m
	}
	e := &emitter{p: p, tt: tt, recvName: fn.Params[0].Name(), limit: 6000}
	if buf := outputBuffer(fn); buf != nil {
		m.Mode, m.Buf, m.Local = "buffer", buf, true
	} else if res := fn.Signature.Results(); res.Len() >= 1 && isByteSlice(res.At(0).Type()) {
		m.Mode, m.Local = "slice", true
	} else {
		m.Why = "the function neither fills a local bytes.Buffer nor returns a []byte built by append"
		return m
	}
	m.Paths = e.run(fn, m.Mode, m.Buf, nil, 0, nil)
	m.Overflow = e.overflow
	if m.Mode == "slice" {
		// the accumulator must start empty in this call: checked by AccOK on every success path
		for _, pth := range m.Paths {
			if pth.ErrNil != 2 && !pth.AccOK {
				m.Why = "a success return does not return the value built by the append chain of this call"
			}
		}
	}
	return m
}

func isByteSlice(t types.Type) bool {
	s, ok := t.Underlying().(*types.Slice)
	return ok && isByteType(s.Elem())
}

type wstate struct {
	toks   []tok
	facts  []Atom
	errs   map[ssa.Value]int
	cur    ssa.Value
	blocks []*ssa.BasicBlock
}

func (s wstate) clone() wstate {
	n := wstate{cur: s.cur}
	n.toks = append([]tok{}, s.toks...)
	n.facts = append([]Atom{}, s.facts...)
	n.blocks = append([]*ssa.BasicBlock{}, s.blocks...)
	n.errs = map[ssa.Value]int{}
	for k, v := range s.errs {
		n.errs[k] = v
	}
	return n
}

func startish(v ssa.Value) bool {
	v = strip(v)
	if c, ok := v.(*ssa.Const); ok && c.Value == nil {
		return true
	}
	if mk, ok := v.(*ssa.MakeSlice); ok {
		if z, ok := constInt(mk.Len); ok && z == 0 {
			return true
		}
	}
	if sl, ok := v.(*ssa.Slice); ok { // []byte{} literal
		if a, ok := sl.X.(*ssa.Alloc); ok {
			if arr, ok := deref(a.Type()).Underlying().(*types.Array); ok && arr.Len() == 0 {
				return true
			}
		}
	}
	return false
}

func (e *emitter) run(fn *ssa.Function, mode string, buf ssa.Value, start ssa.Value, depth int, top *ssa.BasicBlock) []emitPath {
	var out []emitPath
	type edge struct{ a, b *ssa.BasicBlock }
	isAcc := func(st *wstate, v ssa.Value) bool {
		v = strip(v)
		if st.cur == nil {
			return startish(v)
		}
		if v == st.cur {
			return true
		}
		if ex, ok := v.(*ssa.Extract); ok && ex.Index == 0 && ssa.Value(ex.Tuple) == st.cur {
			return true
		}
		return false
	}
	errState := func(st *wstate, v ssa.Value, facts []Atom) int {
		if v == nil {
			return 0
		}
		if isNilConst(v) {
			return 1
		}
		sv := strip(v)
		if k, ok := st.errs[sv]; ok && k != 0 {
			return k
		}
		if ex, ok := sv.(*ssa.Extract); ok {
			if k, ok := st.errs[ex.Tuple]; ok && k != 0 {
				if tup, ok := ex.Tuple.Type().(*types.Tuple); ok && ex.Index == tup.Len()-1 {
					return k
				}
			}
		}
		for _, at := range facts {
			if at.Kind == "nil" && at.X == sv {
				if at.Pos {
					return 1
				}
				return 2
			}
		}
		if cl, ok := sv.(*ssa.Call); ok {
			if nameIn(calleeName(cl.Common()), "fmt.Errorf", "errors.New") {
				return 2
			}
		}
		return 0
	}
	var walk func(b *ssa.BasicBlock, i int, st wstate, used map[edge]bool)
	walk = func(b *ssa.BasicBlock, i int, st wstate, used map[edge]bool) {
		if e.count >= e.limit {
			e.overflow = true
			return
		}
		tb := top
		if depth == 0 {
			tb = b
			if i == 0 {
				st.blocks = append(st.blocks, b)
			}
		}
		for ; i < len(b.Instrs); i++ {
			ins := b.Instrs[i]
			if r, ok := ins.(*ssa.Return); ok {
				p := emitPath{Toks: st.toks, Facts: st.facts, Ret: r, Blocks: st.blocks}
				if n := len(r.Results); n > 0 && isErrorType(r.Results[n-1].Type()) {
					p.ErrNil = errState(&st, retOperand(r, n-1), st.facts)
				}
				if mode == "slice" && len(r.Results) > 0 {
					p.AccOK = isAcc(&st, retOperand(r, 0))
				} else {
					p.AccOK = true
				}
				e.count++
				out = append(out, p)
				return
			}
			call, ok := ins.(*ssa.Call)
			if !ok {
				continue
			}
			cc := call.Common()
			n := calleeName(cc)
			mk := func(ts []tok) []tok {
				for k := range ts {
					ts[k].Ins, ts[k].B = ins, tb
				}
				return ts
			}
			if mode == "buffer" {
				if strings.HasPrefix(n, "(*bytes.Buffer).Write") && len(cc.Args) >= 2 && cc.Args[0] == buf {
					switch n {
					case "(*bytes.Buffer).WriteByte", "(*bytes.Buffer).WriteRune":
						st.toks = append(st.toks, mk([]tok{e.byteTok(cc.Args[1])})...)
					case "(*bytes.Buffer).WriteString", "(*bytes.Buffer).Write":
						st.toks = append(st.toks, mk(e.seqToks(cc.Args[1]))...)
					default:
						st.toks = append(st.toks, mk([]tok{{K: "Unknown", S: n}})...)
					}
					continue
				}
				if strings.HasPrefix(n, "fmt.Fprint") && len(cc.Args) >= 1 {
					if mi, ok := cc.Args[0].(*ssa.MakeInterface); ok && mi.X == buf {
						st.toks = append(st.toks, mk([]tok{{K: "Unknown", S: n}})...)
						continue
					}
				}
				if (n == "(*bytes.Buffer).Reset" || n == "(*bytes.Buffer).Truncate") && len(cc.Args) >= 1 && cc.Args[0] == buf {
					st.toks = append(st.toks, mk([]tok{{K: "Unknown", S: n}})...)
					continue
				}
			}
			if mode == "slice" {
				if bi, ok := cc.Value.(*ssa.Builtin); ok && bi.Name() == "append" && len(cc.Args) >= 1 && isByteSlice(call.Type()) && isAcc(&st, cc.Args[0]) {
					if len(cc.Args) == 2 {
						st.toks = append(st.toks, mk(e.seqToks(cc.Args[1]))...)
					}
					st.cur = call
					continue
				}
				if nameIn(n, "strconv.AppendInt", "strconv.AppendUint") && len(cc.Args) == 3 && isAcc(&st, cc.Args[0]) {
					if isConstIntVal(cc.Args[2], 10) {
						st.toks = append(st.toks, mk([]tok{e.decTok(cc.Args[1])})...)
					} else {
						st.toks = append(st.toks, mk([]tok{{K: "Unknown", S: n + " with a base other than 10"}})...)
					}
					st.cur = call
					continue
				}
			}
			// a repository helper receiving the accumulator
			callee := staticCallee(cc)
			if callee == nil || callee.Blocks == nil || !inRepo(callee) {
				continue
			}
			j := -1
			retsBytes := callee.Signature.Results().Len() >= 1 && isByteSlice(callee.Signature.Results().At(0).Type())
			for k, a := range cc.Args {
				if mode == "buffer" && a == buf {
					j = k
				}
				if mode == "slice" && isByteSlice(a.Type()) && retsBytes && isAcc(&st, a) {
					j = k
				}
			}
			if j < 0 || j >= len(callee.Params) {
				continue
			}
			// dst = appendSanitised(dst, payload): one safe byte per element, summarised
			if mode == "slice" {
				if si, isSan, _ := appendSanitiser(callee, j); isSan && si < len(cc.Args) {
					if f, ok := canonField(cc.Args[si]); ok {
						st.toks = append(st.toks, mk([]tok{{K: "San", S: f}})...)
						st.cur = call
						continue
					}
				}
			}
			if depth >= 3 {
				st.toks = append(st.toks, mk([]tok{{K: "Unknown", S: "helper nesting deeper than 3: " + fnName(callee)}})...)
				continue
			}
			// parameter aliases
			for k, a := range cc.Args {
				if k == j || k >= len(callee.Params) {
					continue
				}
				name := ""
				if f, ok := canonField(a); ok {
					name = f
				} else if par, ok := strip(a).(*ssa.Parameter); ok {
					name = par.Name()
					if al, ok := canonAlias[par]; ok {
						name = al
					}
				}
				if name == "" {
					name = "?" + fnName(callee) + "#" + callee.Params[k].Name()
				}
				if old, ok := canonAlias[callee.Params[k]]; ok && old != name {
					canonAlias[callee.Params[k]] = "?"
				} else {
					canonAlias[callee.Params[k]] = name
				}
			}
			sub := e.run(callee, mode, callee.Params[j], callee.Params[j], depth+1, tb)
			if len(sub) == 0 {
				st.toks = append(st.toks, mk([]tok{{K: "Unknown", S: "helper without a return: " + fnName(callee)}})...)
				continue
			}
			for _, sp := range sub {
				ns := st.clone()
				for _, t := range sp.Toks {
					ns.toks = append(ns.toks, t)
				}
				ns.facts = append(ns.facts, sp.Facts...)
				ns.errs[call] = sp.ErrNil
				if mode == "slice" {
					if !sp.AccOK {
						ns.toks = append(ns.toks, mk([]tok{{K: "Unknown", S: "helper " + fnName(callee) + " does not return the accumulator it was given"}})...)
					}
					ns.cur = call
				}
				walk(b, i+1, ns, used)
			}
			return
		}
		for idx, s := range b.Succs {
			ed := edge{b, s}
			if used[ed] {
				continue
			}
			ns := st
			if len(b.Succs) == 2 && b.Succs[0] != b.Succs[1] {
				if iff, ok := b.Instrs[len(b.Instrs)-1].(*ssa.If); ok {
					atoms := atomsOf(iff.Cond, idx == 0)
					contradiction := false
					for _, at := range atoms {
						if at.Kind != "nil" {
							continue
						}
						k := 0
						if kk, ok := st.errs[at.X]; ok {
							k = kk
						} else if ex, ok := at.X.(*ssa.Extract); ok {
							if kk, ok := st.errs[ex.Tuple]; ok {
								if tup, ok := ex.Tuple.Type().(*types.Tuple); ok && ex.Index == tup.Len()-1 {
									k = kk
								}
							}
						}
						if (k == 1 && !at.Pos) || (k == 2 && at.Pos) {
							contradiction = true
						}
					}
					if contradiction {
						continue
					}
					ns = st.clone()
					ns.facts = append(ns.facts, atoms...)
				}
			} else {
				ns = st.clone()
			}
			if mode == "slice" {
				pi := -1
				for k, pr := range s.Preds {
					if pr == b {
						pi = k
					}
				}
				for _, ins := range s.Instrs {
					phi, ok := ins.(*ssa.Phi)
					if !ok {
						break
					}
					if pi >= 0 && isByteSlice(phi.Type()) {
						ev := phi.Edges[pi]
						if isAcc(&ns, ev) {
							ns.cur = phi
							break
						}
					}
				}
			}
			used[ed] = true
			walk(s, 0, ns, used)
			delete(used, ed)
		}
	}
	init := wstate{errs: map[ssa.Value]int{}}
	if mode == "slice" && start != nil {
		init.cur = start
	}
	walk(fn.Blocks[0], 0, init, map[edge]bool{})
	return out
}

// byteTok: the token for one byte written.
func (e *emitter) byteTok(arg ssa.Value) tok {
	if cv, ok := constInt(arg); ok {
		return tok{K: "Const", S: string(rune(cv))}
	}
	sv := strip(arg)
	if cv, ok := sv.(*ssa.Convert); ok {
		sv = strip(cv.X)
	}
	if ex, ok := sv.(*ssa.Extract); ok && ex.Index == 0 {
		if cl, ok := ex.Tuple.(*ssa.Call); ok && isTypeToByteFn(staticCallee(cl.Common())) {
			if f, ok := canonField(cl.Common().Args[0]); ok && f == e.recvName+".Type" {
				return tok{K: "TypeByte"}
			}
		}
	}
	if cl, ok := sv.(*ssa.Call); ok && isTypeToByteFn(staticCallee(cl.Common())) && len(cl.Common().Args) == 1 {
		if f, ok := canonField(cl.Common().Args[0]); ok && f == e.recvName+".Type" {
			return tok{K: "TypeByte"}
		}
	}
	return tok{K: "Unknown", S: arg.String()}
}

// decTok: the token for a decimal rendering of v.
func (e *emitter) decTok(v ssa.Value) tok {
	x := strip(v)
	if cv, ok := x.(*ssa.Convert); ok {
		x = strip(cv.X)
	}
	if ln, ok := x.(*ssa.Call); ok {
		if b, ok := ln.Common().Value.(*ssa.Builtin); ok && b.Name() == "len" {
			if f, ok := canonField(ln.Common().Args[0]); ok {
				return tok{K: "DecLen", S: f, V: ln}
			}
		}
		if strings.HasSuffix(calleeName(ln.Common()), "proto.Array).Size") {
			return tok{K: "DecCount", S: ln.Name(), V: ln}
		}
	}
	return tok{K: "Unknown", S: "decimal of " + v.String()}
}

// seqToks: the tokens for a byte sequence (string or []byte) written.
func (e *emitter) seqToks(arg ssa.Value) []tok {
	if s, ok := constString(arg); ok {
		return []tok{{K: "Const", S: s}}
	}
	if s, ok := constBytes(arg); ok {
		return []tok{{K: "Const", S: string(s)}}
	}
	if f, ok := canonField(arg); ok {
		return []tok{{K: "Payload", S: f}}
	}
	sv := strip(arg)
	if cv, ok := sv.(*ssa.Convert); ok { // string(b) / []byte(s)
		if f, ok := canonField(cv.X); ok {
			return []tok{{K: "Payload", S: f}}
		}
		sv = strip(cv.X)
	}
	// []byte{a, b} / append(x, a, b): a slice of a local array with one store per element
	if elems, ok := arrayLitElems(sv); ok {
		var out []tok
		for _, el := range elems {
			out = append(out, e.byteTok(el))
		}
		return out
	}
	if cl, ok := sv.(*ssa.Call); ok {
		cn := calleeName(cl.Common())
		if cn == "strconv.Itoa" || ((cn == "strconv.FormatInt" || cn == "strconv.FormatUint") && len(cl.Common().Args) == 2 && isConstIntVal(cl.Common().Args[1], 10)) {
			return []tok{e.decTok(cl.Common().Args[0])}
		}
		if callee := staticCallee(cl.Common()); callee != nil && len(cl.Common().Args) == 1 {
			if f, ok := canonField(cl.Common().Args[0]); ok {
				si := lineSanitizer(callee)
				if si.Is && si.BytePreserving {
					return []tok{{K: "San", S: f}}
				}
				if si.Is {
					return []tok{{K: "SanRune", S: f}}
				}
				return []tok{{K: "Unknown", S: fnName(callee) + "(" + f + "): " + si.Why}}
			}
		}
	}
	if ex, ok := sv.(*ssa.Extract); ok && ex.Index == 0 {
		if cl, ok := ex.Tuple.(*ssa.Call); ok {
			switch calleeName(cl.Common()) {
			case nArrRESPBytes:
				return []tok{{K: "RecArray", S: cl.Common().Args[0].Name(), V: cl}}
			case nRESPBytes:
				return []tok{{K: "RecElem", S: cl.Common().Args[0].Name(), V: cl}}
			}
		}
	}
	return []tok{{K: "Unknown", S: arg.String()}}
}

// arrayLitElems: the element values of a slice literal lowered to new [N]T + stores + slice.
func arrayLitElems(v ssa.Value) ([]ssa.Value, bool) {
	sl, ok := v.(*ssa.Slice)
	if !ok || sl.Low != nil || sl.High != nil {
		return nil, false
	}
	a, ok := sl.X.(*ssa.Alloc)
	if !ok || a.Referrers() == nil {
		return nil, false
	}
	arr, ok := deref(a.Type()).Underlying().(*types.Array)
	if !ok || arr.Len() == 0 || arr.Len() > 16 {
		return nil, false
	}
	out := make([]ssa.Value, arr.Len())
	for _, r := range *a.Referrers() {
		switch x := r.(type) {
		case *ssa.IndexAddr:
			idx, ok := constInt(x.Index)
			if !ok || idx < 0 || idx >= arr.Len() || x.Referrers() == nil {
				return nil, false
			}
			for _, rr := range *x.Referrers() {
				st, ok := rr.(*ssa.Store)
				if !ok || out[idx] != nil {
					return nil, false
				}
				out[idx] = st.Val
			}
		case *ssa.Slice, *ssa.DebugRef:
		default:
			return nil, false
		}
	}
	for _, el := range out {
		if el == nil {
			return nil, false
		}
	}
	return out, true
}
