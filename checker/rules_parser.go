package main

// rules_parser.go: rules over the RESP parser (scope = call graph of proto.Parser.Next):
// C06 (totality), C02 (chunk independence), parts of C01 and C11.

import (
	"fmt"
	"go/constant"
	"go/token"
	"go/types"
	"math"
	"sort"
	"strings"

	"golang.org/x/tools/go/ssa"
)

// parserScope: functions of redis/proto reachable from Parser.Next through static calls.
func (p *Program) parserScope() []*ssa.Function {
	next := p.Method(pkgProto, "Parser", "Next")
	if next == nil {
		return nil
	}
	seen := map[*ssa.Function]bool{}
	var order []*ssa.Function
	var visit func(f *ssa.Function)
	visit = func(f *ssa.Function) {
		if seen[f] || f.Blocks == nil || fnPkgPath(f) != pkgProto {
			return
		}
		seen[f] = true
		order = append(order, f)
		allInstrs(f, func(ins ssa.Instruction) {
			if cc := callCommon(ins); cc != nil {
				if c := staticCallee(cc); c != nil {
					visit(c)
				}
			}
		})
	}
	visit(next)
	sort.Slice(order, func(i, j int) bool { return fnName(order[i]) < fnName(order[j]) })
	return order
}

// staticCallSites lists the call instructions whose static callee is fn, anywhere in the program.
func (p *Program) staticCallSites(fn *ssa.Function) []ssa.CallInstruction {
	var out []ssa.CallInstruction
	for f := range p.AllFunctions() {
		if f.Blocks == nil || f.Synthetic != "" {
			continue // wrappers for promoted methods are not call sites of their own
		}
		allInstrs(f, func(ins ssa.Instruction) {
			if ci, ok := ins.(ssa.CallInstruction); ok && staticCallee(ci.Common()) == fn {
				out = append(out, ci)
			}
		})
	}
	return out
}

// entryFacts: facts about fn's parameters that hold at every static call site (translated from
// the caller's dominating branch facts). Empty when fn may be called from outside the scope.
func (p *Program) entryFacts(fn *ssa.Function, scope map[*ssa.Function]bool) []Atom {
	if fn.Object() != nil && fn.Object().Exported() {
		// exported API may be called by anyone with any argument
		if recv := fn.Signature.Recv(); recv == nil || true {
			return nil
		}
	}
	sites := p.staticCallSites(fn)
	if len(sites) == 0 {
		return nil
	}
	var common []Atom
	for i, site := range sites {
		if !scope[site.Parent()] {
			return nil
		}
		var here []Atom
		tr := func(v ssa.Value) (ssa.Value, bool) {
			if v == nil {
				return nil, true
			}
			if _, ok := v.(*ssa.Const); ok {
				return v, true
			}
			for k, a := range site.Common().Args {
				if strip(a) == v && k < len(fn.Params) {
					return fn.Params[k], true
				}
			}
			return nil, false
		}
		for _, at := range factsAt(site.Block()) {
			if at.Kind != "lt" && at.Kind != "le" && at.Kind != "eq" && at.Kind != "nil" {
				continue
			}
			x, ok1 := tr(at.X)
			y, ok2 := tr(at.Y)
			if !ok1 || !ok2 {
				continue
			}
			if _, isC := x.(*ssa.Const); isC && (y == nil) {
				continue
			}
			here = append(here, Atom{Kind: at.Kind, X: x, Y: y, Pos: at.Pos})
		}
		// constant bounds the caller has established for an integer argument by other means
		// (a comparison with a limit kept in a field, a helper's result): handed on as facts
		// about the parameter
		for k, a := range site.Common().Args {
			if k >= len(fn.Params) || !isIntType(a.Type()) {
				continue
			}
			if _, isC := a.(*ssa.Const); isC {
				continue
			}
			lo, hi, hasLo, hasHi := constBounds(a, factsAt(site.Block()), 1)
			if hasHi {
				here = append(here, Atom{Kind: "le", X: fn.Params[k], Y: ssa.NewConst(constant.MakeInt64(hi), types.Typ[types.Int]), Pos: true})
			}
			if hasLo {
				here = append(here, Atom{Kind: "le", X: ssa.NewConst(constant.MakeInt64(lo), types.Typ[types.Int]), Y: fn.Params[k], Pos: true})
			}
		}
		if i == 0 {
			common = here
			continue
		}
		var keep []Atom
		for _, c := range common {
			for _, h := range here {
				if c.Kind == h.Kind && c.Pos == h.Pos && sameVal(c.X, h.X) && sameVal(c.Y, h.Y) {
					keep = append(keep, c)
					break
				}
			}
		}
		common = keep
	}
	return common
}

func sameVal(a, b ssa.Value) bool {
	if a == b {
		return true
	}
	ca, ok1 := a.(*ssa.Const)
	cb, ok2 := b.(*ssa.Const)
	if ok1 && ok2 {
		ia, oka := constInt(ca)
		ib, okb := constInt(cb)
		return oka && okb && ia == ib
	}
	return false
}

// constBounds finds constant lower/upper bounds of v from facts (and phis).
func constBounds(v ssa.Value, facts []Atom, depth int) (lo, hi int64, hasLo, hasHi bool) {
	l := linOf(v)
	if l.base == nil {
		return l.off, l.off, true, true
	}
	if intrinsicNonNeg(lin{base: l.base, isLen: l.isLen}) {
		lo, hasLo = l.off, true
	}
	for _, f := range ineqsOf(facts) {
		if sameBase(f.x, l) && f.y.base == nil { // base + f.x.off <= f.y.off
			k := f.y.off - f.x.off + l.off
			if !hasHi || k < hi {
				hi, hasHi = k, true
			}
		}
		if sameBase(f.y, l) && f.x.base == nil { // f.x.off <= base + f.y.off
			k := f.x.off - f.y.off + l.off
			if !hasLo || k > lo {
				lo, hasLo = k, true
			}
		}
	}
	// a fact relating the value to another value whose own bounds are constant (a limit kept in
	// a field that every store keeps below a constant)
	if depth < 3 && (!hasLo || !hasHi) {
		for _, f := range ineqsOf(facts) {
			if !hasHi && sameBase(f.x, l) && f.y.base != nil && !sameBase(f.y, l) { // l.base + f.x.off <= y
				if _, yhi, _, yHasHi := constBounds(linValue(f.y), facts, depth+1); yHasHi {
					hi, hasHi = yhi+f.y.off-f.x.off+l.off, true
				}
			}
			if !hasLo && sameBase(f.y, l) && f.x.base != nil && !sameBase(f.x, l) { // x <= l.base + f.y.off
				if xlo, _, xHasLo, _ := constBounds(linValue(f.x), facts, depth+1); xHasLo {
					lo, hasLo = xlo+f.x.off-f.y.off+l.off, true
				}
			}
		}
	}
	// an unexported field: the bounds that hold for every value ever stored into it (and the
	// zero value it has before any store)
	if !l.isLen && depth < 3 && (!hasLo || !hasHi) {
		if flo, fhi, ok := fieldInvariant(l.base, depth); ok {
			if !hasLo {
				lo, hasLo = flo+l.off, true
			}
			if !hasHi {
				hi, hasHi = fhi+l.off, true
			}
		}
	}
	// result of a repository helper: the bounds that hold at every return of the helper
	if !l.isLen && depth < 4 && (!hasLo || !hasHi) {
		var call *ssa.Call
		idx := 0
		switch x := l.base.(type) {
		case *ssa.Extract:
			call, _ = x.Tuple.(*ssa.Call)
			idx = x.Index
		case *ssa.Call:
			call = x
		}
		if call != nil {
			if h := staticCallee(call.Common()); h != nil && h.Blocks != nil {
				allLo, allHi, first := true, true, true
				var mlo, mhi int64
				// where the caller knows the helper's error to be nil, only its success returns count
				errKnownNil := false
				if tup, ok := call.Type().(*types.Tuple); ok && tup.Len() >= 2 && isErrorType(tup.At(tup.Len()-1).Type()) {
					for _, at := range facts {
						if ex, ok := at.X.(*ssa.Extract); ok && at.Kind == "nil" && at.Pos && ex.Tuple == ssa.Value(call) && ex.Index == tup.Len()-1 {
							errKnownNil = true
						}
					}
				}
				for _, r := range returnsOf(h) {
					if idx >= len(r.Results) {
						allLo, allHi = false, false
						break
					}
					if n := len(r.Results); errKnownNil && n >= 2 {
						last := retOperand(r, n-1)
						if !isNilConst(last) && (definitelyNonNil(strip(last)) || errNonNilAt(r, n-1) || isErrCtorCall(strip(last))) {
							continue
						}
					}
					elo, ehi, eHasLo, eHasHi := constBounds(retOperand(r, idx), factsAt(r.Block()), depth+1)
					if !eHasLo {
						allLo = false
					} else if first || elo < mlo {
						mlo = elo
					}
					if !eHasHi {
						allHi = false
					} else if first || ehi > mhi {
						mhi = ehi
					}
					first = false
				}
				if !first && allLo && !hasLo {
					lo, hasLo = mlo+l.off, true
				}
				if !first && allHi && !hasHi {
					hi, hasHi = mhi+l.off, true
				}
			}
		}
	}
	// x * c for a positive constant c, when x is bounded so that the product cannot overflow
	if bo, ok := l.base.(*ssa.BinOp); ok && !l.isLen && bo.Op == token.MUL && depth < 4 && (!hasLo || !hasHi) {
		x, cst := bo.X, bo.Y
		if _, isC := constInt(cst); !isC {
			x, cst = bo.Y, bo.X
		}
		if cv, isC := constInt(cst); isC && cv > 0 {
			xlo, xhi, xHasLo, xHasHi := constBounds(x, facts, depth+1)
			if xHasLo && xHasHi && xlo >= 0 && xhi <= math.MaxInt64/cv {
				if !hasLo {
					lo, hasLo = xlo*cv+l.off, true
				}
				if !hasHi {
					hi, hasHi = xhi*cv+l.off, true
				}
			}
		}
	}
	if phi, ok := l.base.(*ssa.Phi); ok && !l.isLen && depth < 4 && (!hasLo || !hasHi) {
		allLo, allHi := true, true
		var mlo, mhi int64
		for i, e := range phi.Edges {
			if strip(e) == phi {
				continue
			}
			pred := phi.Block().Preds[i]
			fs := append(append([]Atom{}, facts...), edgeFacts(pred, succIndex(pred, phi.Block()))...)
			elo, ehi, eHasLo, eHasHi := constBounds(e, fs, depth+1)
			if !eHasLo {
				allLo = false
			} else if i == 0 || elo < mlo {
				mlo = elo
			}
			if !eHasHi {
				allHi = false
			} else if i == 0 || ehi > mhi {
				mhi = ehi
			}
		}
		if allLo && !hasLo {
			lo, hasLo = mlo+l.off, true
		}
		if allHi && !hasHi {
			hi, hasHi = mhi+l.off, true
		}
	}
	return
}

// wireTaint computes the values data-dependent on numbers parsed from the wire inside the scope.
func wireTaint(scope []*ssa.Function) (map[ssa.Value]bool, []*ssa.Call) {
	t, src, _ := wireTaintN(scope)
	return t, src
}

// wireTaintN also returns the number of distinct entry points of wire numbers: conversion sites,
// plus the call sites of helpers that return a wire number, minus those forwarding helpers.
func wireTaintN(scope []*ssa.Function) (map[ssa.Value]bool, []*ssa.Call, int) {
	inScope := map[*ssa.Function]bool{}
	for _, f := range scope {
		inScope[f] = true
	}
	t := map[ssa.Value]bool{}
	var sources []*ssa.Call
	var work []ssa.Value
	forwards := map[*ssa.Function]bool{}
	extra := 0
	add := func(v ssa.Value) {
		if v != nil && !t[v] {
			t[v] = true
			work = append(work, v)
		}
	}
	for _, f := range scope {
		allInstrs(f, func(ins ssa.Instruction) {
			if c, ok := isCall(ins, "strconv.Atoi", "strconv.ParseInt", "strconv.ParseUint"); ok {
				sources = append(sources, c)
				add(c)
			}
		})
	}
	for len(work) > 0 {
		v := work[len(work)-1]
		work = work[:len(work)-1]
		refs := v.Referrers()
		if refs == nil {
			continue
		}
		for _, r := range *refs {
			switch x := r.(type) {
			case *ssa.Extract:
				if x.Index == 0 {
					add(x)
				}
			case *ssa.BinOp:
				switch x.Op {
				case token.ADD, token.SUB, token.MUL, token.SHL, token.QUO, token.REM:
					add(x)
				}
			case *ssa.UnOp:
				if x.Op == token.SUB {
					add(x)
				}
			case *ssa.Convert:
				add(x)
			case *ssa.ChangeType:
				add(x)
			case *ssa.Phi:
				add(x)
			case *ssa.Store:
				if a, ok := x.Addr.(*ssa.Alloc); ok && x.Val == v {
					if a.Referrers() != nil {
						for _, rr := range *a.Referrers() {
							if ld, ok := rr.(*ssa.UnOp); ok && ld.Op == token.MUL {
								add(ld)
							}
						}
					}
				}
			case *ssa.Return:
				// a helper returning a wire number: its results at every call site inside the scope
				helper := x.Parent()
				for i, rv := range x.Results {
					if rv != v || !isIntType(rv.Type()) {
						continue
					}
					if !forwards[helper] {
						forwards[helper] = true
						extra--
					}
					for _, g := range scope {
						allInstrs(g, func(ins ssa.Instruction) {
							cl, ok := ins.(*ssa.Call)
							if !ok || staticCallee(cl.Common()) != helper {
								return
							}
							if len(x.Results) == 1 {
								if !t[cl] {
									extra++
								}
								add(cl)
								return
							}
							if cl.Referrers() == nil {
								return
							}
							for _, rr := range *cl.Referrers() {
								if ex, ok := rr.(*ssa.Extract); ok && ex.Index == i {
									if !t[ex] {
										extra++
									}
									add(ex)
								}
							}
						})
					}
				}
			case ssa.CallInstruction:
				callee := staticCallee(x.Common())
				if callee != nil && inScope[callee] {
					for i, a := range x.Common().Args {
						if a == v && i < len(callee.Params) {
							add(callee.Params[i])
						}
					}
				}
			}
		}
	}
	return t, sources, len(sources) + extra
}

// ---------------------------------------------------------------------------------------
// C06

func init() {
	register(&propInfo{ID: "C06", Level: "other", Run: runC06,
		Explanation: "Static rules over the call graph of proto.Parser.Next: R06.a every arithmetic step and every allocation whose operand derives from a wire-declared number is dominated by constant lower/upper bounds on that number that exclude int overflow (64- and, in the thorough tier, 32-bit); R06.b a (nil,nil) end-of-stream result of a nested read is tested before it is stored, and a pre-sized element slice can only be returned after its filling loop completed; R06.c every panic-capable instruction in the scope (index, slice, make, type assertion, division) is discharged by a small ABCD-style inequality prover using dominating branch facts, phi edges and caller facts; R06.d the parser's loops make progress and its recursion consumes input before recursing. Decides absence of these panic/absent-element shapes for all inputs; does not decide memory use below the bounds or strconv itself."})
}

func runC06(c *Ctx) {
	scope := c.P.parserScope()
	c.count("parser-scope-functions", len(scope))
	c.floor("parser-scope-functions", 6)
	for _, f := range scope {
		c.analysed(f)
	}
	ruleWireBounds(c, scope)
	ruleNoAbsentElements(c, "R06.b", scope)
	rulePanicSites(c, scope)
	ruleParserTermination(c, scope)
	ruleReentrantScratch(c, "R06.g", scope)
	ruleParserNumbersChecked(c, "R06.e", scope)
	c.assume("strconv.Atoi returns an error (not a wrapped value) on overflow; bytes.Buffer and io.Reader behave as documented (0 <= n <= len(p))")
}

func scopeSet(scope []*ssa.Function) map[*ssa.Function]bool {
	m := map[*ssa.Function]bool{}
	for _, f := range scope {
		m[f] = true
	}
	return m
}

func ruleWireBounds(c *Ctx, scope []*ssa.Function) {
	rid := "R06.a"
	c.rule(rid, "A7+A2: values derived (def-use, through calls inside the parser) from strconv.Atoi/ParseInt results are (1) bounded below and above by constants, from dominating branch facts, at every arithmetic instruction on them, with the result inside the int range of the target; (2) bounded (0 <= size <= constant) at every make([]T, n)/make(map, n)/Buffer.Grow that they size")
	taint, _, nsrc := wireTaintN(scope)
	c.count("wire-number-sources", nsrc)
	c.floor("wire-number-sources", 2)
	sset := scopeSet(scope)
	intMax := int64(1<<63 - 1)
	if c.P.GOARCH == "386" || c.P.GOARCH == "arm" {
		intMax = 1<<31 - 1
	}
	nAlloc, nArith := 0, 0
	for _, f := range scope {
		entry := c.P.entryFacts(f, sset)
		ordA, ordM := 0, 0
		allInstrs(f, func(ins ssa.Instruction) {
			facts := append(append([]Atom{}, entry...), factsAt(ins.Block())...)
			switch x := ins.(type) {
			case *ssa.BinOp:
				if !taint[x.X] && !taint[x.Y] {
					return
				}
				switch x.Op {
				case token.ADD, token.SUB, token.MUL, token.SHL:
				default:
					return
				}
				ordA++
				nArith++
				key := fmt.Sprintf("%s/arith#%d(%s)", fnName(f), ordA, x.Op)
				okAll := true
				why := ""
				var rlo, rhi int64
				for _, opnd := range []ssa.Value{x.X, x.Y} {
					lo, hi, hasLo, hasHi := constBounds(opnd, facts, 0)
					if !hasLo || !hasHi {
						okAll = false
						why = fmt.Sprintf("operand %s has no constant %s bound at this point: the wire-declared number is used in arithmetic before it is range-checked (the result can wrap around)", opnd.Name(), map[bool]string{true: "upper", false: "lower"}[hasLo])
						break
					}
					if hi > 1<<61 || lo < -(1<<61) {
						okAll = false
						why = fmt.Sprintf("operand %s is only bounded to [%d,%d], too wide to exclude overflow of %s", opnd.Name(), lo, hi, x.Op)
						break
					}
					if x.Op == token.SUB && opnd == x.Y {
						rlo, rhi = rlo-hi, rhi-lo
					} else {
						rlo, rhi = rlo+lo, rhi+hi
					}
				}
				if okAll && (x.Op == token.ADD || x.Op == token.SUB) && (rhi > intMax || rlo < -intMax-1) {
					okAll = false
					why = fmt.Sprintf("the result range [%d,%d] of %s exceeds the int range of this target", rlo, rhi, x.Op)
				}
				if okAll && (x.Op == token.MUL || x.Op == token.SHL) {
					okAll = false
					why = "multiplication/shift of a wire-declared number: bound not computed"
				}
				if okAll {
					c.ok(rid, key, c.P.instrPos(x), fmt.Sprintf("operands bounded; %s cannot overflow (sum of bounds within [%d,%d])", x.Op, rlo, rhi))
				} else {
					c.bad(rid, key, c.P.instrPos(x), why)
				}
			case *ssa.MakeSlice:
				if !taint[x.Len] && !taint[x.Cap] {
					return
				}
				ordM++
				nAlloc++
				key := fmt.Sprintf("%s/make#%d", fnName(f), ordM)
				lo, hi, hasLo, hasHi := constBounds(x.Len, facts, 0)
				clo, chi, cHasLo, cHasHi := constBounds(x.Cap, facts, 0)
				switch {
				case !hasHi || !cHasHi:
					c.bad(rid, key, c.P.instrPos(x), "allocation sized by a wire-declared number with no constant upper bound dominating it (an absurd declared length panics in makeslice or exhausts memory)")
				case !hasLo || lo < 0 || !cHasLo || clo < 0:
					c.bad(rid, key, c.P.instrPos(x), "allocation sized by a wire-declared number that is not proven non-negative")
				case hi > intMax/elemSize(c.P, x) || chi > intMax/elemSize(c.P, x):
					c.bad(rid, key, c.P.instrPos(x), fmt.Sprintf("allocation bound %d elements of %d bytes overflows the byte size on this target", hi, elemSize(c.P, x)))
				default:
					c.ok(rid, key, c.P.instrPos(x), fmt.Sprintf("0 <= len <= %d", hi))
				}
			case *ssa.MakeMap:
				if x.Reserve == nil || !taint[x.Reserve] {
					return
				}
				ordM++
				nAlloc++
				key := fmt.Sprintf("%s/make#%d", fnName(f), ordM)
				_, hi, _, hasHi := constBounds(x.Reserve, facts, 0)
				if !hasHi {
					c.bad(rid, key, c.P.instrPos(x), "map reserve sized by an unbounded wire-declared number")
				} else {
					c.ok(rid, key, c.P.instrPos(x), fmt.Sprintf("reserve <= %d", hi))
				}
			case *ssa.Call:
				if calleeName(x.Common()) == "(*bytes.Buffer).Grow" && len(x.Common().Args) == 2 && taint[x.Common().Args[1]] {
					ordM++
					nAlloc++
					key := fmt.Sprintf("%s/make#%d", fnName(f), ordM)
					lo, hi, hasLo, hasHi := constBounds(x.Common().Args[1], facts, 0)
					if !hasHi || !hasLo || lo < 0 {
						c.bad(rid, key, c.P.instrPos(x), "Buffer.Grow sized by an unbounded wire-declared number")
					} else {
						c.ok(rid, key, c.P.instrPos(x), fmt.Sprintf("grow <= %d", hi))
					}
				}
			}
		})
	}
	c.count("wire-sized-allocations", nAlloc)
	c.count("wire-arithmetic", nArith)
	if nAlloc == 0 {
		// accepted alternative: no wire-sized allocation at all; the numbers must still be bounded
		// where they steer reads — covered by the arithmetic obligations
		c.note("R06.a: no allocation is sized by a wire-declared number")
	}
}

// nilNilProducers: functions of the scope with a Return whose pointer result and error are both nil constants.
func nilNilProducers(scope []*ssa.Function) map[*ssa.Function]*ssa.Return {
	out := map[*ssa.Function]*ssa.Return{}
	for _, f := range scope {
		for _, r := range returnsOf(f) {
			if len(r.Results) == 2 && isNilConst(retOperand(r, 0)) && isNilConst(retOperand(r, 1)) && isErrorType(r.Results[1].Type()) {
				if _, ok := r.Results[0].Type().Underlying().(*types.Pointer); ok {
					out[f] = r
				}
			}
		}
	}
	return out
}

func ruleNoAbsentElements(c *Ctx, rid string, scope []*ssa.Function) {
	c.rule(rid, "no absent elements: every call, inside the parser, of a function that can return (nil, nil) (end of stream) tests the value against nil before storing/returning it; a slice of pointers pre-sized with a wire-declared length reaches a success return only after its filling loop ran to its counter bound")
	prod := nilNilProducers(scope)
	c.count("nil-nil-producers", len(prod))
	c.floor("nil-nil-producers", 1)
	ncalls := 0
	for _, f := range scope {
		ord := 0
		allInstrs(f, func(ins ssa.Instruction) {
			call, ok := ins.(*ssa.Call)
			if !ok {
				return
			}
			callee := staticCallee(call.Common())
			if callee == nil || prod[callee] == nil {
				return
			}
			// direct pass-through `return f()` keeps the tuple: then f's caller is itself a producer
			ord++
			ncalls++
			key := fmt.Sprintf("%s/call#%d:%s", fnName(f), ord, fnName(callee))
			if call.Referrers() == nil {
				return
			}
			bad := ""
			for _, r := range *call.Referrers() {
				ex, ok := r.(*ssa.Extract)
				if !ok {
					if _, isRet := r.(*ssa.Return); isRet {
						continue
					}
					bad = "the result tuple is used in an unrecognised way"
					continue
				}
				if ex.Index != 0 || ex.Referrers() == nil {
					continue
				}
				for _, u := range *ex.Referrers() {
					if isNilCompare(u, ex) {
						continue
					}
					if _, isDbg := u.(*ssa.DebugRef); isDbg {
						continue
					}
					ui := u
					guarded := false
					for _, at := range factsAt(ui.Block()) {
						if at.Kind == "nil" && !at.Pos && at.X == ex {
							guarded = true
						}
					}
					if phi, isPhi := u.(*ssa.Phi); isPhi {
						// guarded on the incoming edge?
						for i, e := range phi.Edges {
							if e == ex {
								pred := phi.Block().Preds[i]
								for _, at := range edgeFacts(pred, succIndex(pred, phi.Block())) {
									if at.Kind == "nil" && !at.Pos && at.X == ex {
										guarded = true
									}
								}
							}
						}
					}
					if !guarded {
						bad = fmt.Sprintf("the value that may be nil at end of stream is used (%s) at %s without a dominating nil test: an array with an absent element can be returned", u.String(), c.P.instrPos(u))
					}
				}
			}
			if bad == "" {
				c.ok(rid, key, c.P.instrPos(call), "value tested against nil before every use")
			} else {
				c.bad(rid, key, c.P.instrPos(call), bad)
			}
		})
	}
	c.count("nil-nil-call-sites", ncalls)
	c.floor("nil-nil-call-sites", 1)

	// pre-sized pointer slices filled by a loop
	taint, _ := wireTaint(scope)
	for _, f := range scope {
		ord := 0
		allInstrs(f, func(ins ssa.Instruction) {
			mk, ok := ins.(*ssa.MakeSlice)
			if !ok {
				return
			}
			st, ok := mk.Type().Underlying().(*types.Slice)
			if !ok {
				return
			}
			if _, isPtr := st.Elem().Underlying().(*types.Pointer); !isPtr {
				return
			}
			if c0, isC := constInt(mk.Len); isC && c0 == 0 {
				return // grown by append: no nil slots
			}
			if !taint[mk.Len] {
				return
			}
			ord++
			key := fmt.Sprintf("%s/presized#%d", fnName(f), ord)
			// find the filling loop: stores through IndexAddr(mk, counter)
			var loop *Loop
			var counter *ssa.Phi
			var slotOff int64 // the slot written is counter+slotOff (0: classic loop; 1: lowered range loop)
			for _, l := range naturalLoops(f) {
				for b := range l.Blocks {
					for _, i2 := range b.Instrs {
						if s, ok := i2.(*ssa.Store); ok {
							if ia, ok := s.Addr.(*ssa.IndexAddr); ok && ia.X == mk {
								il := linOf(ia.Index)
								if ph, ok := il.base.(*ssa.Phi); ok && !il.isLen && l.Blocks[ph.Block()] {
									loop, counter, slotOff = l, ph, il.off
								}
							}
						}
					}
				}
			}
			if loop == nil {
				c.bad(rid, key, c.P.instrPos(mk), "a slice of pointers is pre-sized with the declared count but no loop assigning every slot was found: unassigned slots are absent elements")
				return
			}
			lenLin := linOf(mk.Len)
			problems := []string{}
			// counter: starts at 0, steps by 1
			if !(len(counter.Edges) == 2) {
				problems = append(problems, "counter phi shape not recognised")
			} else {
				init0 := false
				step1 := false
				for _, e := range counter.Edges {
					if c0, ok := constInt(e); ok && c0+slotOff == 0 {
						init0 = true
					}
					if l := linOf(e); l.base == ssa.Value(counter) && l.off == 1 {
						step1 = true
					}
				}
				if !init0 || !step1 {
					problems = append(problems, "the slot counter does not run from 0 in steps of 1")
				}
			}
			for _, b := range loop.sortedBlocks() {
				for idx, s := range b.Succs {
					if loop.Blocks[s] {
						continue
					}
					// counter exit?
					isCounterExit := false
					for _, iq := range ineqsOf(edgeFacts(b, idx)) {
						// len + a <= counter + b with b - a <= slotOff: every slot below len was written
						if sameBase(iq.x, lenLin) && iq.y.base == ssa.Value(counter) && !iq.y.isLen && iq.y.off-(iq.x.off-lenLin.off) <= slotOff {
							isCounterExit = true
						}
					}
					if isCounterExit {
						continue
					}
					// other exit: must not reach a success return, unless re-checked against the count
					for rb := range reachableBlocks(s, nil) {
						for _, i3 := range rb.Instrs {
							r, ok := i3.(*ssa.Return)
							if !ok || len(r.Results) == 0 {
								continue
							}
							last := retOperand(r, len(r.Results)-1)
							if !isNilConst(last) {
								continue
							}
							rechecked := false
							for _, iq := range ineqsOf(factsAt(rb)) {
								if sameBase(iq.x, lenLin) && iq.y.base == ssa.Value(counter) {
									rechecked = true
								}
							}
							if !rechecked {
								problems = append(problems, fmt.Sprintf("the filling loop can be left at %s by an exit other than its counter bound and then reach the success return at %s: the remaining pre-sized slots stay nil", c.P.instrPos(b.Instrs[len(b.Instrs)-1]), c.P.instrPos(r)))
							}
						}
					}
				}
			}
			if len(problems) == 0 {
				c.ok(rid, key, c.P.instrPos(mk), "every success return follows the counter exit of the filling loop")
			} else {
				c.bad(rid, key, c.P.instrPos(mk), strings.Join(problems, "; "))
			}
		})
	}
}

func isNilCompare(u ssa.Instruction, v ssa.Value) bool {
	bo, ok := u.(*ssa.BinOp)
	if !ok || (bo.Op != token.EQL && bo.Op != token.NEQ) {
		return false
	}
	return (bo.X == v && isNilConst(bo.Y)) || (bo.Y == v && isNilConst(bo.X))
}

func rulePanicSites(c *Ctx, scope []*ssa.Function) {
	rid := "R06.c"
	c.rule(rid, "A8: every panic-capable instruction in the parser scope — index, slice, make, unchecked type assertion, integer division, explicit panic — is discharged: index/slice bounds by the inequality prover (branch facts, phi edges, caller facts, len of make), constant cases by constant reasoning; wire-sized make by R06.a")
	rulePanicSitesIn(c, rid, scope, "panic-capable-instructions", 8)
}

// rulePanicSitesIn: the same obligations over another scope.
func rulePanicSitesIn(c *Ctx, rid string, scope []*ssa.Function, counter string, floor int) {
	sset := scopeSet(scope)
	n := 0
	for _, f := range scope {
		entry := c.P.entryFacts(f, sset)
		ord := map[string]int{}
		allInstrs(f, func(ins ssa.Instruction) {
			pv := newProver(c.P.GOARCH)
			mk := func(kind string) string {
				ord[kind]++
				return fmt.Sprintf("%s/%s#%d", fnName(f), kind, ord[kind])
			}
			withEntry := func(i ssa.Instruction) []Atom {
				return append(append([]Atom{}, entry...), factsAt(i.Block())...)
			}
			switch x := ins.(type) {
			case *ssa.IndexAddr:
				n++
				key := mk("index")
				if isVarargsArray(x.X) {
					c.ok(rid, key, c.P.instrPos(x), "compiler-generated varargs array, constant index")
					return
				}
				ok, why := proveIndexWith(pv, x.X, x.Index, withEntry(x))
				if ok {
					c.ok(rid, key, c.P.instrPos(x), why)
				} else {
					c.bad(rid, key, c.P.instrPos(x), "index not proven in range: "+why)
				}
			case *ssa.Index:
				n++
				key := mk("index")
				ok, why := proveIndexWith(pv, x.X, x.Index, withEntry(x))
				if ok {
					c.ok(rid, key, c.P.instrPos(x), why)
				} else {
					c.bad(rid, key, c.P.instrPos(x), "index not proven in range: "+why)
				}
			case *ssa.Slice:
				n++
				key := mk("slice")
				if isVarargsArray(x.X) {
					c.ok(rid, key, c.P.instrPos(x), "compiler-generated varargs array sliced whole")
					return
				}
				ok, why := proveSliceWith(pv, x, withEntry(x))
				if ok {
					c.ok(rid, key, c.P.instrPos(x), why)
				} else {
					c.bad(rid, key, c.P.instrPos(x), "slice bounds not proven: "+why)
				}
			case *ssa.MakeSlice:
				n++
				key := mk("makeslice")
				lo, hi, hasLo, hasHi := constBounds(x.Len, withEntry(x), 0)
				if hasLo && hasHi && lo >= 0 {
					c.ok(rid, key, c.P.instrPos(x), fmt.Sprintf("0 <= len <= %d", hi))
				} else if okD, whyD := boundedByExistingData(pv, x, withEntry(x)); okD {
					c.ok(rid, key, c.P.instrPos(x), whyD)
				} else {
					c.bad(rid, key, c.P.instrPos(x), "make with a length not proven within constant bounds")
				}
			case *ssa.TypeAssert:
				if !x.CommaOk {
					n++
					c.bad(rid, mk("typeassert"), c.P.instrPos(x), "type assertion without comma-ok in the parser")
				}
			case *ssa.BinOp:
				if (x.Op == token.QUO || x.Op == token.REM) && isIntish(x.X) {
					n++
					key := mk("div")
					if cv, ok := constInt(x.Y); ok && cv != 0 {
						c.ok(rid, key, c.P.instrPos(x), "constant non-zero divisor")
					} else {
						c.bad(rid, key, c.P.instrPos(x), "integer division by a value not proven non-zero")
					}
				}
			case *ssa.Panic:
				n++
				c.bad(rid, mk("panic"), c.P.instrPos(x), "explicit panic in the parser")
			case *ssa.Call:
				nme := calleeName(x.Common())
				if strings.Contains(nme, ".Must") {
					n++
					allConst := len(x.Common().Args) > 0
					for _, a := range x.Common().Args {
						if _, isC := a.(*ssa.Const); !isC {
							allConst = false
						}
					}
					if allConst {
						c.ok(rid, mk("must"), c.P.instrPos(x), "Must* call on constants only")
					} else {
						c.bad(rid, mk("must"), c.P.instrPos(x), "Must* call on a value that is not a constant: "+nme)
					}
				}
			}
		})
	}
	c.count(counter, n)
	c.floor(counter, floor)
}

func isVarargsArray(v ssa.Value) bool {
	a, ok := v.(*ssa.Alloc)
	return ok && a.Comment == "varargs"
}

func proveIndexWith(pv *prover, x, idx ssa.Value, facts []Atom) (bool, string) {
	ln := lenOf(x)
	if arr, ok := deref(x.Type()).Underlying().(*types.Array); ok {
		ln = lin{off: arr.Len()}
	}
	i := linOf(idx)
	zero := lin{}
	if !pv.le(zero, i, facts, 0) {
		return false, fmt.Sprintf("no fact establishes 0 <= %s", i)
	}
	i1 := i
	i1.off++
	if !pv.le(i1, ln, facts, 0) {
		return false, fmt.Sprintf("no fact establishes %s < %s", i, ln)
	}
	return true, fmt.Sprintf("0 <= %s < %s", i, ln)
}

func proveSliceWith(pv *prover, s *ssa.Slice, facts []Atom) (bool, string) {
	if wholeCapSlice(s) {
		return true, "0 <= cap(s) <= cap(s)"
	}
	ln := lenOf(s.X)
	if arr, ok := deref(s.X.Type()).Underlying().(*types.Array); ok {
		ln = lin{off: arr.Len()}
	}
	zero := lin{}
	lo := zero
	if s.Low != nil {
		lo = linOf(s.Low)
	}
	hi := ln
	if s.High != nil {
		hi = linOf(s.High)
	}
	if !pv.le(zero, lo, facts, 0) {
		return false, fmt.Sprintf("no fact establishes 0 <= %s", lo)
	}
	if !pv.le(lo, hi, facts, 0) {
		return false, fmt.Sprintf("no fact relates %s <= %s", lo, hi)
	}
	if !pv.le(hi, ln, facts, 0) {
		return false, fmt.Sprintf("no fact establishes %s <= %s", hi, ln)
	}
	return true, fmt.Sprintf("0 <= %s <= %s <= %s", lo, hi, ln)
}

func ruleParserTermination(c *Ctx, scope []*ssa.Function) {
	rid := "R06.d"
	c.rule(rid, "termination: every loop of the parser scope satisfies A4; in every recursive cycle of the scope's static call graph some function performs a blocking read of at least one byte that dominates its calls back into the cycle (recursion depth is bounded by input length)")
	ps := c.P.progressSets()
	for _, f := range scope {
		for k, l := range naturalLoops(f) {
			key := fmt.Sprintf("%s/loop#%d", fnName(f), k)
			v := c.P.checkLoop(f, l, ps)
			if v.OK {
				c.ok(rid, key, c.P.instrPos(l.Header.Instrs[len(l.Header.Instrs)-1]), strings.Join(v.Progress, "; "))
			} else {
				c.bad(rid, key, c.P.instrPos(l.Header.Instrs[len(l.Header.Instrs)-1]), v.Reason, v.Witness...)
			}
			c.count("parser-loops", 1)
		}
	}
	c.floor("parser-loops", 1)
	// recursion: find functions on a static-call cycle
	sset := scopeSet(scope)
	calls := map[*ssa.Function][]*ssa.Call{}
	for _, f := range scope {
		allInstrs(f, func(ins ssa.Instruction) {
			if call, ok := ins.(*ssa.Call); ok {
				if cal := staticCallee(call.Common()); cal != nil && sset[cal] {
					calls[f] = append(calls[f], call)
				}
			}
		})
	}
	reach := func(from *ssa.Function) map[*ssa.Function]bool {
		seen := map[*ssa.Function]bool{}
		var st []*ssa.Function
		for _, cl := range calls[from] {
			st = append(st, staticCallee(cl.Common()))
		}
		for len(st) > 0 {
			x := st[len(st)-1]
			st = st[:len(st)-1]
			if seen[x] {
				continue
			}
			seen[x] = true
			for _, cl := range calls[x] {
				st = append(st, staticCallee(cl.Common()))
			}
		}
		return seen
	}
	var cyc []*ssa.Function
	for _, f := range scope {
		if reach(f)[f] {
			cyc = append(cyc, f)
		}
	}
	c.count("recursive-functions", len(cyc))
	if len(cyc) == 0 {
		c.ok(rid, "recursion", "", "no recursion in the parser scope")
		return
	}
	guarded := false
	var names []string
	inCyc := scopeSet(cyc)
	// a helper outside the cycle that performs a blocking read on every path to its return
	isReadHelper := func(rd *ssa.Call) bool {
		h := staticCallee(rd.Common())
		return h != nil && !inCyc[h] && ps.blocking[h]
	}
	for _, f := range cyc {
		names = append(names, fnName(f))
		// all calls from f into the cycle dominated by a blocking read in f
		okF := true
		any := false
		for _, cl := range calls[f] {
			callee := staticCallee(cl.Common())
			if !reach(callee)[f] && callee != f {
				continue
			}
			any = true
			dom := false
			allInstrs(f, func(ins ssa.Instruction) {
				if rd, ok := ins.(*ssa.Call); ok && (nameIn(calleeName(rd.Common()), blockingReadNames...) || isReadHelper(rd)) {
					if rd.Block() == cl.Block() {
						for _, i2 := range rd.Block().Instrs {
							if i2 == rd {
								dom = true
								break
							}
							if i2 == cl {
								break
							}
						}
					} else if rd.Block().Dominates(cl.Block()) {
						dom = true
					}
				}
			})
			if !dom {
				okF = false
			}
		}
		if any && okF {
			guarded = true
		}
	}
	c.check(guarded, rid, "recursion/"+strings.Join(names, ">"), "", "a blocking one-byte read dominates the recursive descent: depth is bounded by input length", "the recursive cycle of the parser does not consume input before recursing: unbounded recursion on a finite input")
}

// elemSize: size in bytes of the element type of the slice made, under the target's sizes.
func elemSize(p *Program, mk *ssa.MakeSlice) int64 {
	st, ok := mk.Type().Underlying().(*types.Slice)
	if !ok {
		return 8
	}
	arch := p.GOARCH
	if arch == "" {
		arch = "amd64"
	}
	sz := types.SizesFor("gc", arch)
	if sz == nil {
		return 8
	}
	n := sz.Sizeof(st.Elem())
	if n <= 0 {
		return 1
	}
	return n
}

// linValue: the SSA value a linear form without offset stands for (nil for constants and lengths).
func linValue(l lin) ssa.Value {
	if l.base == nil || l.isLen {
		return nil
	}
	return l.base
}

var fieldInvMemo = map[fieldKey][3]int64{}
var fieldInvBusy = map[fieldKey]bool{}

// fieldInvariant: v is a load of an unexported integer field; returns bounds that hold for the
// zero value and for every value stored into that field anywhere in the defining package.
func fieldInvariant(v ssa.Value, depth int) (lo, hi int64, ok bool) {
	if v == nil {
		return 0, 0, false
	}
	fa, k, isLoad := loadKey(v)
	if !isLoad || !isIntType(v.Type()) {
		return 0, 0, false
	}
	fld := k.st.Field(k.idx)
	if fld.Exported() || fld.Pkg() == nil {
		return 0, 0, false
	}
	if m, done := fieldInvMemo[k]; done {
		return m[0], m[1], m[2] == 1
	}
	if fieldInvBusy[k] {
		return 0, 0, false
	}
	fieldInvBusy[k] = true
	defer delete(fieldInvBusy, k)
	prog := fa.Parent().Prog
	lo, hi, ok = 0, 0, true
	var fns []*ssa.Function
	var addFn func(f *ssa.Function)
	addFn = func(f *ssa.Function) {
		if f == nil || f.Blocks == nil {
			return
		}
		fns = append(fns, f)
		for _, a := range f.AnonFuncs {
			addFn(a)
		}
	}
	for _, sp := range prog.AllPackages() {
		if sp.Pkg != fld.Pkg() {
			continue
		}
		for _, m := range sp.Members {
			switch x := m.(type) {
			case *ssa.Function:
				addFn(x)
			case *ssa.Type:
				for _, t := range []types.Type{x.Type(), types.NewPointer(x.Type())} {
					ms := prog.MethodSets.MethodSet(t)
					for i := 0; i < ms.Len(); i++ {
						if f := prog.MethodValue(ms.At(i)); f != nil && f.Pkg == sp {
							addFn(f)
						}
					}
				}
			}
		}
	}
	seen := map[*ssa.Function]bool{}
	for _, f := range fns {
		if seen[f] || !ok {
			continue
		}
		seen[f] = true
		allInstrs(f, func(ins ssa.Instruction) {
			st, isSt := ins.(*ssa.Store)
			if !isSt || !ok {
				return
			}
			fa2, isFA := st.Addr.(*ssa.FieldAddr)
			if !isFA || fa2.Field != k.idx {
				return
			}
			if st2 := derefStruct(fa2.X.Type()); st2 == nil || !types.Identical(st2, k.st) {
				return
			}
			slo, shi, hasLo, hasHi := constBounds(st.Val, factsAt(st.Block()), depth+1)
			if !hasLo || !hasHi {
				ok = false
				return
			}
			if slo < lo {
				lo = slo
			}
			if shi > hi {
				hi = shi
			}
		})
	}
	flag := int64(0)
	if ok {
		flag = 1
	}
	fieldInvMemo[k] = [3]int64{lo, hi, flag}
	return lo, hi, ok
}

// boundedByExistingData: make([]T, n, m) with 0 <= n <= m (or no cap) and the larger of them at
// most len(x)+1 for a slice or string x that already exists: the allocation cannot be negative
// and is no larger than memory the program already holds.
func boundedByExistingData(pv *prover, mk *ssa.MakeSlice, facts []Atom) (bool, string) {
	sizes := []ssa.Value{mk.Len}
	if mk.Cap != nil && mk.Cap != mk.Len {
		sizes = append(sizes, mk.Cap)
	}
	var lens []lin
	seen := map[string]bool{}
	for _, iq := range ineqsOf(facts) {
		for _, l := range []lin{iq.x, iq.y} {
			if l.isLen && !seen[l.String()] {
				seen[l.String()] = true
				lens = append(lens, lin{base: l.base, isLen: true})
			}
		}
	}
	// lengths mentioned in the operands themselves
	var walk func(v ssa.Value, d int)
	walk = func(v ssa.Value, d int) {
		if v == nil || d > 5 {
			return
		}
		l := linOf(v)
		if l.isLen && !seen[l.String()] {
			seen[l.String()] = true
			lens = append(lens, lin{base: l.base, isLen: true})
		}
		switch x := v.(type) {
		case *ssa.BinOp:
			walk(x.X, d+1)
			walk(x.Y, d+1)
		case *ssa.Phi:
			for _, e := range x.Edges {
				walk(e, d+1)
			}
		case *ssa.Convert:
			walk(x.X, d+1)
		case *ssa.Call:
			if bi, ok := x.Common().Value.(*ssa.Builtin); ok && (bi.Name() == "min" || bi.Name() == "max") {
				for _, a := range x.Common().Args {
					walk(a, d+1)
				}
			}
		}
	}
	for _, sz := range sizes {
		walk(sz, 0)
	}
	for _, sz := range sizes {
		l := linOf(sz)
		if !pv.le(lin{}, l, facts, 0) {
			return false, ""
		}
		ok := false
		for _, ln := range lens {
			up := ln
			up.off++
			if pv.le(l, up, facts, 0) {
				ok = true
				break
			}
		}
		if !ok {
			return false, ""
		}
	}
	return true, "0 <= size <= len of existing data + 1"
}
