package main

import (
	"encoding/json"
	"fmt"
	"go/types"
	"os"
	"path/filepath"
	"sort"
	"strings"

	"golang.org/x/tools/go/ssa"
)

func init() {
	register(&propInfo{ID: "C10", Level: "other", Run: runC10,
		Explanation: "Static error-use discipline over every executor and argument helper: R10.a the value of every extraction call (cursor read, message accessor) is used only where that call's error was tested nil (default-value idiom accepted); numeric accessors delegate to strconv so overflow is an error; R10.b no constructed rejection is dropped; R10.c the set of places where end-of-arguments is tolerated equals the confirmed inventory (a new one means a required argument became optional); R10.d collectors are non-empty and the second half of a pair is mandatory; R10.e in the SET option parser every store into an option of an exclusivity group is dominated by tests, failing with an error, that read every option of the group, and expiry values are tested >= 1; R10.f no argument is read after a handler call was made (no partial execution); R10.g a rejected request keeps the connection. Decides that ill-formed argument lists are rejected before the handler for all commands and positions at once; error texts and Redis range rules not in the property are not decided."})
}

func runC10(c *Ctx) {
	x := newExtractor(c.P)
	scope := executorScope(c.P)
	for _, f := range scope {
		c.analysed(f)
	}
	ruleExtractionChecked(c, x, scope)
	ruleNumericAccessors(c)
	ruleAccessorsIdentity(c, "R10.a")
	ruleNoDroppedRejection(c, scope)
	ruleOptionalTails(c, x, scope)
	ruleCollectors(c, x, scope)
	ruleSetExclusivity(c)
	ruleNoReadAfterHandler(c, x, scope)
	ruleHandlerErrorKeepsConn(c, "R10.g")
	ruleArgumentIndexSafety(c, "R10.h")
	ruleIntegersNotThroughFloats(c, scope)
	// "a null where a value is required is rejected": a null argument stays null until it is tested
	rulePayloadStores(c, "R10.j")
	rulePointerResultsChecked(c, "R10.k")
	ruleConnLoopIndexSafety(c, "R10.h")
	// each position is decoded by the decoder the oracle table names: a laxer one accepts ill-formed tokens (R8C10-m2)
	ruleSignatures(c, "R10.l")
	ruleIsNilMeansNull(c, "R10.j")
	ruleRecycledObjectsReset(c, "R10.p")
	c.assume("surplus trailing arguments are ignored by most executors (the property speaks of lacking/ill-formed arguments)")
}

// executorScope: executors, closures nested in them, local closures of the registering functions,
// and framework helpers in package redis they call (not proto, not the dispatcher).
func executorScope(p *Program) []*ssa.Function {
	execs, _ := p.executors()
	seen := map[*ssa.Function]bool{}
	var out []*ssa.Function
	var visit func(f *ssa.Function)
	visit = func(f *ssa.Function) {
		if f == nil || seen[f] || f.Blocks == nil || fnPkgPath(f) != pkgRedis {
			return
		}
		if p.isDispatcher(f) {
			return
		}
		seen[f] = true
		out = append(out, f)
		allInstrs(f, func(ins ssa.Instruction) {
			if cc := callCommon(ins); cc != nil {
				visit(staticCallee(cc))
			}
		})
		for _, a := range f.AnonFuncs {
			visit(a)
		}
	}
	for _, e := range execs {
		visit(e.Fn)
	}
	sort.Slice(out, func(i, j int) bool { return p.key(out[i]) < p.key(out[j]) })
	return out
}

// clientCursor: the cursor value of fn (parameter) if any.
func clientCursor(fn *ssa.Function) ssa.Value {
	for _, p := range fn.Params {
		if isCursorType(p.Type()) && (cursorParamSet == nil || cursorParamSet[p]) {
			return p
		}
	}
	return nil
}

// cursorParamSet: the *proto.Array parameters that receive the client's argument array — the
// executors' own parameter and every parameter it is handed on to — as opposed to arrays taken
// from a handler's reply.
var cursorParamSet map[*ssa.Parameter]bool

func computeCursorParams(p *Program) {
	set := map[*ssa.Parameter]bool{}
	var work []*ssa.Parameter
	add := func(par *ssa.Parameter) {
		if par != nil && isCursorType(par.Type()) && !set[par] {
			set[par] = true
			work = append(work, par)
		}
	}
	execs, _ := p.executors()
	for _, e := range execs {
		for _, par := range e.Fn.Params {
			add(par)
		}
	}
	// the functions between the parsed request and the executors
	for _, fn := range p.RepoFuncs(pkgRedis) {
		if !inFramework(fn) || fn.Signature.Recv() == nil || !strings.HasSuffix(fn.Signature.Recv().Type().String(), "redis.Server") {
			continue
		}
		if res := fn.Signature.Results(); res.Len() == 2 && strings.HasSuffix(res.At(0).Type().String(), "redis.Message") && isErrorType(res.At(1).Type()) {
			for _, par := range fn.Params {
				add(par)
			}
		}
	}
	for len(work) > 0 {
		par := work[len(work)-1]
		work = work[:len(work)-1]
		if par.Referrers() == nil {
			continue
		}
		for _, r := range *par.Referrers() {
			ci, ok := r.(ssa.CallInstruction)
			if !ok {
				continue
			}
			callee := staticCallee(ci.Common())
			if callee == nil || !inRepo(callee) {
				continue
			}
			for i, a := range ci.Common().Args {
				if a == ssa.Value(par) && i < len(callee.Params) {
					add(callee.Params[i])
				}
			}
		}
	}
	cursorParamSet = set
}

// extractionCalls lists calls in fn that read client arguments: reads on the client cursor and
// message accessors applied to such reads.
func extractionCalls(x *extractor, fn *ssa.Function) []*ssa.Call {
	cur := clientCursor(fn)
	var out []*ssa.Call
	allInstrs(fn, func(ins ssa.Instruction) {
		call, ok := ins.(*ssa.Call)
		if !ok {
			return
		}
		if cur != nil {
			if _, _, isRead := x.readWeight(call, cur); isRead {
				out = append(out, call)
				return
			}
		}
		n := calleeName(call.Common())
		if strings.HasPrefix(n, "(*"+pkgProto+".Message).") && (strings.HasSuffix(n, ".String") || strings.HasSuffix(n, ".Integer") || strings.HasSuffix(n, ".Bytes") || strings.HasSuffix(n, ".Array")) {
			// receiver derived from a client cursor read?
			recv := strip(call.Common().Args[0])
			if ex, ok := recv.(*ssa.Extract); ok {
				if c2, ok := ex.Tuple.(*ssa.Call); ok && cur != nil {
					if _, _, isRead := x.readWeight(c2, cur); isRead {
						out = append(out, call)
					}
				}
			}
		}
		if n == "strconv.ParseFloat" || n == "strconv.Atoi" || n == "strconv.ParseInt" {
			out = append(out, call)
		}
	})
	return out
}

// errAlwaysNil: every return of fn has a nil constant error.
func errAlwaysNil(fn *ssa.Function) bool {
	if fn == nil || fn.Blocks == nil {
		return false
	}
	for _, r := range returnsOf(fn) {
		if len(r.Results) == 0 || !isNilConst(retOperand(r, len(r.Results)-1)) {
			return false
		}
	}
	return true
}

func ruleExtractionChecked(c *Ctx, x *extractor, scope []*ssa.Function) {
	rid := "R10.a"
	c.rule(rid, "A5.i use-after-check: for every extraction call (a read from the request cursor, a message accessor on such a read, strconv parsing of it) returning (value, error), every use of the value is dominated by the nil test of that error (through phis on the nil edge; stores into objects only returned under the test; pass-through returns); for reads whose error is structurally always nil (Array.Next) the value is used only under its own non-nil test")
	n := 0
	for _, f := range scope {
		ord := 0
		for _, call := range extractionCalls(x, f) {
			ord++
			n++
			key := fmt.Sprintf("%s/extract#%d:%s", c.P.key(f), ord, shortCallee(call))
			callee := staticCallee(call.Common())
			if callee != nil && errAlwaysNil(callee) {
				// value must be nil-tested
				okV, why := nilTestedBeforeUse(call)
				if okV {
					c.ok(rid, key, c.P.instrPos(call), "end-of-arguments result tested against nil before use")
				} else {
					c.bad(rid, key, c.P.instrPos(call), why)
				}
				continue
			}
			if okE, why := errCheckedCall(call); okE {
				c.ok(rid, key, c.P.instrPos(call), "value used only where the error is nil")
			} else {
				c.bad(rid, key, c.P.instrPos(call), "an argument value is used although its extraction may have failed (missing, null, non-numeric or overflowing token): "+why)
			}
		}
	}
	c.count("extraction-call-sites", n)
	c.floor("extraction-call-sites", 120)
}

func shortCallee(call *ssa.Call) string {
	n := calleeName(call.Common())
	if i := strings.LastIndex(n, "."); i >= 0 {
		n = n[i+1:]
	}
	return n
}

func nilTestedBeforeUse(call *ssa.Call) (bool, string) {
	if call.Referrers() == nil {
		return true, ""
	}
	for _, r := range *call.Referrers() {
		ex, ok := r.(*ssa.Extract)
		if !ok || ex.Index != 0 || ex.Referrers() == nil {
			continue
		}
		for _, u := range *ex.Referrers() {
			if isNilCompare(u, ex) {
				continue
			}
			if _, ok := u.(*ssa.DebugRef); ok {
				continue
			}
			if phi, ok := u.(*ssa.Phi); ok {
				// loop-carried value tested at the header: every use of the phi must be guarded instead
				okPhi := true
				if phi.Referrers() != nil {
					for _, pu := range *phi.Referrers() {
						if isNilCompare(pu, phi) {
							continue
						}
						g := false
						for _, at := range factsAt(pu.Block()) {
							if at.Kind == "nil" && !at.Pos && at.X == ssa.Value(phi) {
								g = true
							}
						}
						if _, isPhi := pu.(*ssa.Phi); isPhi {
							g = true
						}
						if !g {
							okPhi = false
						}
					}
				}
				if okPhi {
					continue
				}
				return false, "a value that is nil at end of arguments is used without a nil test"
			}
			g := false
			for _, at := range factsAt(u.Block()) {
				if at.Kind == "nil" && !at.Pos && at.X == ssa.Value(ex) {
					g = true
				}
			}
			if !g {
				return false, fmt.Sprintf("the message (nil at end of arguments) is used at %s without a nil test", u.String())
			}
		}
	}
	return true, ""
}

// ruleNumericAccessors: numeric decoding delegates to strconv.
func ruleNumericAccessors(c *Ctx) {
	ruleNumericAccessorsAs(c, "R10.a")
}

func ruleNumericAccessorsAs(c *Ctx, rid string) {
	c.rule(rid, "the numeric accessors of proto.Message (Integer, Float, ...) return the value and the error of one strconv.Atoi/ParseInt/ParseFloat call over the payload: overflow and malformed numbers are errors, never wrapped or truncated values (no hand-rolled digit loop)")
	n := 0
	for _, fn := range c.P.RepoFuncs(pkgProto) {
		if fn.Signature.Recv() == nil || !strings.HasSuffix(fn.Signature.Recv().Type().String(), "proto.Message") {
			continue
		}
		res := fn.Signature.Results()
		if res.Len() != 2 || !isErrorType(res.At(1).Type()) {
			continue
		}
		t := res.At(0).Type().Underlying().String()
		if t != "int" && t != "int64" && t != "float64" {
			continue
		}
		n++
		c.analysed(fn)
		key := "numeric-accessor/" + fnName(fn)
		okAll := true
		why := ""
		for _, r := range returnsOf(fn) {
			v := strip(retOperand(r, 0))
			if cv, isC := v.(*ssa.Const); isC {
				_ = cv
				if isNilConst(retOperand(r, 1)) {
					okAll, why = false, "returns a constant number with a nil error"
				}
				continue
			}
			ex, isEx := v.(*ssa.Extract)
			if isEx {
				if call, ok := ex.Tuple.(*ssa.Call); ok && nameIn(calleeName(call.Common()), "strconv.Atoi", "strconv.ParseInt", "strconv.ParseFloat", "strconv.ParseUint") {
					// the same call's error must be what is returned
					e2, ok := strip(retOperand(r, 1)).(*ssa.Extract)
					if ok && e2.Tuple == ex.Tuple {
						continue
					}
					okAll, why = false, "the strconv error is not returned with the value"
					continue
				}
			}
			okAll, why = false, "the number is not the result of strconv parsing (hand-rolled conversion: no overflow/format detection): "+v.String()
		}
		c.check(okAll, rid, key, c.P.pos(fn.Pos()), "numeric value and error come from one strconv call", "numeric accessor: "+why)
	}
	c.count("numeric-accessors", n)
	c.floor("numeric-accessors", 1)
}

func ruleNoDroppedRejection(c *Ctx, scope []*ssa.Function) {
	rid := "R10.b"
	c.rule(rid, "A5.ii: a call of an error constructor of the repository (function returning only error) whose result is unused is a dropped rejection")
	n := 0
	bad := 0
	for _, f := range scope {
		allInstrs(f, func(ins ssa.Instruction) {
			call, ok := ins.(*ssa.Call)
			if !ok || !isErrCtorCall(call) || !buildsErrorOnly(staticCallee(call.Common())) {
				return
			}
			n++
			used := false
			if call.Referrers() != nil {
				for _, r := range *call.Referrers() {
					if _, isDbg := r.(*ssa.DebugRef); !isDbg {
						used = true
					}
				}
			}
			if !used {
				bad++
				c.bad(rid, fmt.Sprintf("%s/dropped:%s#%d", c.P.key(f), shortCallee(call), bad), c.P.instrPos(call), "a rejection is constructed and dropped: the ill-formed request continues with an invented value")
			}
		})
	}
	c.count("error-constructor-calls", n)
	c.floor("error-constructor-calls", 30)
	if bad == 0 {
		c.ok(rid, "no-dropped-rejection", "", fmt.Sprintf("%d error constructor calls, every result is used", n))
	}
}

// isEOMTest: errors.Is(x, proto.ErrEOM) or x == proto.ErrEOM.
func isEOMTest(at Atom) (ssa.Value, bool) {
	switch at.Kind {
	case "call":
		cc := at.Call.Common()
		if calleeName(cc) == "errors.Is" && len(cc.Args) == 2 && isLoadOfGlobal(cc.Args[1], pkgProto, "ErrEOM") {
			return strip(cc.Args[0]), true
		}
	case "eq":
		if isLoadOfGlobal(at.Y, pkgProto, "ErrEOM") {
			return at.X, true
		}
		if isLoadOfGlobal(at.X, pkgProto, "ErrEOM") {
			return at.Y, true
		}
	}
	return nil, false
}

// succeedsFrom: a success return (nil error or handler pass-through) or a handler call is reachable from b.
func succeedsFrom(b *ssa.BasicBlock) bool {
	for rb := range reachableBlocks(b, nil) {
		for _, ins := range rb.Instrs {
			switch x := ins.(type) {
			case *ssa.Return:
				if len(x.Results) == 0 {
					continue
				}
				last := retOperand(x, len(x.Results)-1)
				if isNilConst(last) {
					return true
				}
				if ex, ok := strip(last).(*ssa.Extract); ok {
					if call, ok := ex.Tuple.(*ssa.Call); ok && call.Common().IsInvoke() {
						return true
					}
				}
			case *ssa.Call:
				if x.Common().IsInvoke() && isHandlerIface(x.Common().Value.Type().String()) {
					return true
				}
			}
		}
	}
	return false
}

func ruleOptionalTails(c *Ctx, x *extractor, scope []*ssa.Function) {
	rid := "R10.c"
	c.rule(rid, "A5.iii inventory of optional-tail points: every branch edge on which an end-of-arguments outcome (errors.Is(err, ErrEOM) true / == ErrEOM, or the nil result of Array.Next) continues towards success is enumerated and compared with /verif/tables/optional_tails.json (confirmed by reading: AUTH user, PING message, CONFIG sub-command, list/map/option collector tails, LPOP/RPOP count, EXPIRE flag, ZADD after at least one pair); a point not in the table means a required argument became optional")
	allowed := map[string]string{}
	if b, err := os.ReadFile(filepath.Join(verifRoot, "tables", "optional_tails.json")); err == nil {
		var raw map[string]string
		if json.Unmarshal(b, &raw) == nil {
			allowed = raw
		}
	} else {
		c.undecided(rid, "table", "", "cannot read tables/optional_tails.json")
	}
	n := 0
	found := map[string]bool{}
	// the tolerated-end points of one function, in block order
	type point struct {
		blk  int
		at   ssa.Instruction
		call *ssa.Call // non-nil: a call of a helper whose own points are attributed to its callers
	}
	local := func(f *ssa.Function) []point {
		var out []point
		cur := clientCursor(f)
		for _, b := range f.Blocks {
			if len(b.Instrs) == 0 {
				continue
			}
			iff, ok := b.Instrs[len(b.Instrs)-1].(*ssa.If)
			if !ok {
				continue
			}
			for idx := 0; idx < 2; idx++ {
				for _, at := range atomsOf(iff.Cond, idx == 0) {
					if at.Kind == "call" && at.Call != nil && at.Call.Parent() != f {
						continue // an atom inlined from a predicate helper
					}
					tolerated := false
					if _, isE := isEOMTest(at); isE && at.Pos {
						tolerated = true
					}
					if at.Kind == "nil" && at.Pos && cur != nil {
						if ex, ok := at.X.(*ssa.Extract); ok && ex.Index == 0 {
							if call, ok := ex.Tuple.(*ssa.Call); ok {
								if callee := staticCallee(call.Common()); callee != nil && errAlwaysNil(callee) {
									if _, _, isRead := x.readWeight(call, cur); isRead {
										tolerated = true
									}
								}
							}
						}
					}
					if !tolerated || !succeedsFrom(b.Succs[idx]) {
						continue
					}
					out = append(out, point{blk: b.Index, at: iff})
				}
			}
		}
		return out
	}
	// helpers with tolerated-end points that the inventory does not know by their role: their
	// points count for every function that calls them (an "optional next argument" helper is
	// as optional as each of its uses)
	inScope := scopeSet(scope)
	transparent := map[*ssa.Function]bool{}
	for _, f := range scope {
		if strings.HasPrefix(roleKey(c.P, f), "executor:") {
			continue
		}
		pts := local(f)
		if len(pts) == 0 {
			continue
		}
		known := false
		for i := range pts {
			if _, ok := allowed[fmt.Sprintf("%s/tolerates-end#%d", roleKey(c.P, f), i+1)]; ok {
				known = true
			}
		}
		if _, only := c.P.onlyStaticallyCalled(f); !known && only {
			transparent[f] = true
		}
	}
	// commands added after the inventory was written are outside it: a tolerated end in code
	// that only such commands reach cannot have made a required argument of an inventoried
	// command optional
	table, _ := loadCommandTable(verifRoot)
	oracleReach := map[*ssa.Function]bool{}
	if execs, _ := c.P.executors(); table != nil {
		var roots []*ssa.Function
		for _, e := range execs {
			if _, inTable := table[e.Name]; inTable {
				roots = append(roots, e.Fn)
			}
		}
		for f := range c.P.repoReach(roots, func(g *ssa.Function) bool { return inScope[g] }) {
			oracleReach[f] = true
		}
		// closures nested in reached functions
		for _, f := range scope {
			for p := f.Parent(); p != nil; p = p.Parent() {
				if oracleReach[p] && !strings.HasPrefix(roleKey(c.P, f), "executor:") {
					oracleReach[f] = true
				}
			}
		}
	}
	outside := 0
	for _, f := range scope {
		if transparent[f] {
			continue
		}
		if table != nil && !oracleReach[f] {
			if k := len(local(f)); k > 0 {
				outside += k
				c.ok(rid, roleKey(c.P, f)+"/not-in-inventory-scope", c.P.pos(f.Pos()), fmt.Sprintf("%d tolerated-end point(s) in code reached only by commands added after the inventory was written: not compared", k))
			}
			continue
		}
		pts := local(f)
		allInstrs(f, func(ins ssa.Instruction) {
			if call, ok := ins.(*ssa.Call); ok {
				if callee := staticCallee(call.Common()); callee != nil && inScope[callee] && transparent[callee] {
					for range local(callee) {
						pts = append(pts, point{blk: call.Block().Index, at: call, call: call})
					}
				}
			}
		})
		sort.SliceStable(pts, func(i, j int) bool { return pts[i].blk < pts[j].blk })
		for i, pt := range pts {
			n++
			key := fmt.Sprintf("%s/tolerates-end#%d", roleKey(c.P, f), i+1)
			found[key] = true
			why, ok := allowed[key]
			switch {
			case ok && pt.call != nil:
				c.ok(rid, key, c.P.instrPos(pt.at), "confirmed optional tail (through "+fnName(staticCallee(pt.call.Common()))+"): "+why)
			case ok:
				c.ok(rid, key, c.P.instrPos(pt.at), "confirmed optional tail: "+why)
			default:
				c.bad(rid, key, c.P.instrPos(pt.at), "end of arguments is tolerated here and the command still proceeds; this point is not in the confirmed inventory: a required argument became optional (the handler would run with an invented default)")
			}
		}
	}
	c.count("optional-tail-points", n)
	c.count("optional-tail-points-outside-inventory", outside)
	c.floor("optional-tail-points", 8)
}

func ruleCollectors(c *Ctx, x *extractor, scope []*ssa.Function) {
	rid := "R10.d"
	c.rule(rid, "A5.iv collectors (a loop that reads arguments and appends/stores them into a collection handed on): (1) the collection cannot succeed empty — the success exit is dominated by a len != 0 test, or a mandatory read before the loop feeds the first element; (2) in a loop iteration every read after the first (the second half of a pair, the value of an option) is mandatory: its error edge leads only to error returns")
	ncol := 0
	for _, f := range scope {
		cur := clientCursor(f)
		if cur == nil {
			continue
		}
		pos := x.positions(f, cur)
		for k, l := range naturalLoops(f) {
			// reads in the loop
			var reads []*ssa.Call
			collects := false
			for _, b := range l.sortedBlocks() {
				for _, ins := range b.Instrs {
					if call, ok := ins.(*ssa.Call); ok {
						if _, _, isRead := x.readWeight(call, cur); isRead {
							reads = append(reads, call)
						}
						if bn, ok := call.Common().Value.(*ssa.Builtin); ok && bn.Name() == "append" {
							collects = true
						}
					}
					if _, ok := ins.(*ssa.MapUpdate); ok {
						collects = true
					}
				}
			}
			if len(reads) == 0 {
				continue
			}
			key := fmt.Sprintf("%s/loop#%d", c.P.key(f), k)
			_ = pos
			// (2) reads that are not the start of a new element are mandatory
			for i, r := range reads {
				var must string
				if collects && laterHalf(x, r, cur) {
					must = "it continues an element begun by an earlier read (no completed element lies between them)"
				}
				if kw := keywordOf(r.Block()); kw != "" {
					must = "it is the value of option " + kw
				}
				if must == "" {
					continue
				}
				okM, why := errorEdgeOnlyFails(r)
				rk := fmt.Sprintf("%s/read#%d", key, i+1)
				if okM {
					c.ok(rid, rk, c.P.instrPos(r), "mandatory read ("+must+"): its failure leads only to error returns")
				} else {
					c.bad(rid, rk, c.P.instrPos(r), "a required later part (second half of a pair / value of an option) can be missing and the command still proceeds — "+must+": "+why)
				}
			}
			if !collects {
				continue
			}
			ncol++
			// (1) non-empty
			okNE, why := collectorNonEmpty(c, x, f, l, cur)
			if okNE {
				c.ok(rid, key+"/non-empty", c.P.instrPos(l.Header.Instrs[len(l.Header.Instrs)-1]), why)
			} else {
				c.bad(rid, key+"/non-empty", c.P.instrPos(l.Header.Instrs[len(l.Header.Instrs)-1]), "a list of keys/members/elements/pairs can be empty and the command still proceeds: "+why)
			}
		}
	}
	c.count("collector-loops", ncol)
	c.floor("collector-loops", 3)
}

// errorEdgeOnlyFails: the err != nil edge of the read's error test reaches no success.
func errorEdgeOnlyFails(call *ssa.Call) (bool, string) {
	var errEx ssa.Value
	if isErrorType(call.Type()) {
		errEx = call // a helper returning only the error of its reads
	} else if call.Referrers() != nil {
		for _, r := range *call.Referrers() {
			if ex, ok := r.(*ssa.Extract); ok && isErrorType(ex.Type()) {
				errEx = ex
			}
		}
	}
	if errEx == nil {
		return false, "its error is not read"
	}
	fn := call.Parent()
	tested := false
	// prefer direct tests of this call's error; loop-carried copies (phis) only when there is none
	direct := false
	if errEx.Referrers() != nil {
		for _, r := range *errEx.Referrers() {
			if bo, ok := r.(*ssa.BinOp); ok && isNilCompare(bo, errEx) {
				direct = true
			}
		}
	}
	for _, b := range fn.Blocks {
		if len(b.Instrs) == 0 {
			continue
		}
		iff, ok := b.Instrs[len(b.Instrs)-1].(*ssa.If)
		if !ok {
			continue
		}
		for idx := 0; idx < 2; idx++ {
			for _, at := range atomsOf(iff.Cond, idx == 0) {
				if at.Kind == "nil" && !at.Pos && (at.X == errEx || (!direct && phiOf(at.X, errEx))) {
					tested = true
					if succeedsFrom(b.Succs[idx]) {
						return false, fmt.Sprintf("from its error branch (block %d) a success exit or handler call is reachable", b.Succs[idx].Index)
					}
				}
			}
		}
	}
	if !tested {
		return false, "its error is never tested"
	}
	return true, ""
}

func phiOf(v ssa.Value, e ssa.Value) bool {
	phi, ok := v.(*ssa.Phi)
	if !ok {
		return false
	}
	for _, ed := range phi.Edges {
		if ed == e {
			return true
		}
	}
	return false
}

func collectorNonEmpty(c *Ctx, x *extractor, f *ssa.Function, l *Loop, cur ssa.Value) (bool, string) {
	// (a) every success exit reachable after the loop is dominated by a len(...) != 0 fact
	lenGuard := func(b *ssa.BasicBlock) bool {
		for _, at := range factsAt(b) {
			if at.Kind == "eq" && !at.Pos {
				if ln := linOf(at.X); ln.isLen {
					if z, ok := constInt(at.Y); ok && z == 0 {
						return true
					}
				}
			}
			if at.Kind == "lt" && at.Pos {
				if z, ok := constInt(at.X); ok && z == 0 {
					if ln := linOf(at.Y); ln.isLen {
						return true
					}
				}
			}
		}
		return false
	}
	allGuarded := true
	anySucc := false
	for _, b := range l.sortedBlocks() {
		for _, s := range b.Succs {
			if l.Blocks[s] {
				continue
			}
			for rb := range reachableBlocks(s, nil) {
				if l.Blocks[rb] {
					continue
				}
				for _, ins := range rb.Instrs {
					isSucc := false
					switch x := ins.(type) {
					case *ssa.Return:
						if len(x.Results) > 0 && isNilConst(retOperand(x, len(x.Results)-1)) {
							isSucc = true
						}
					case *ssa.Call:
						if x.Common().IsInvoke() && isHandlerIface(x.Common().Value.Type().String()) {
							isSucc = true
						}
					}
					if isSucc {
						anySucc = true
						if !lenGuard(rb) {
							allGuarded = false
						}
					}
				}
			}
		}
	}
	if anySucc && allGuarded {
		return true, "success only after a len(...) != 0 test"
	}
	// (b) a mandatory read before the loop dominates the header and its error edge only fails
	for _, b := range f.Blocks {
		if l.Blocks[b] || !b.Dominates(l.Header) {
			continue
		}
		for _, ins := range b.Instrs {
			call, ok := ins.(*ssa.Call)
			if !ok {
				continue
			}
			if _, _, isRead := x.readWeight(call, cur); !isRead {
				continue
			}
			if okM, _ := errorEdgeOnlyFails(call); okM {
				// the read is the last one before the loop and its value reaches an append in the loop
				if feedsLoop(call, l) {
					return true, "a mandatory read before the loop provides the first element"
				}
			}
		}
	}
	// (c) the first iteration is certain (the loop's own exit test is decided by what is known
	// before the loop) and every iteration collects before it can leave towards success
	if firstIterationCertain(l) {
		var collectBlocks []*ssa.BasicBlock
		for _, b := range l.sortedBlocks() {
			for _, ins := range b.Instrs {
				switch y := ins.(type) {
				case *ssa.Call:
					if bi, ok := y.Common().Value.(*ssa.Builtin); ok && bi.Name() == "append" {
						collectBlocks = append(collectBlocks, b)
					}
				case *ssa.MapUpdate:
					collectBlocks = append(collectBlocks, b)
				}
			}
		}
		okAll := len(collectBlocks) > 0
		for _, b := range l.sortedBlocks() {
			for _, sx := range b.Succs {
				leaves := !l.Blocks[sx] && b != l.Header
				back := sx == l.Header
				if !leaves && !back {
					continue
				}
				if leaves && !reachesSuccess(sx, l) {
					continue // an error exit
				}
				dom := false
				for _, cb := range collectBlocks {
					if cb == b || cb.Dominates(b) {
						dom = true
					}
				}
				if !dom {
					okAll = false
				}
			}
		}
		if okAll {
			return true, "the first iteration is certain and every iteration collects an element before continuing or leaving"
		}
	}
	return false, "no len != 0 test before success and no mandatory first element"
}

// firstIterationCertain: on the edge entering the loop, the header's exit condition is refuted
// by the facts that hold before the loop (phis read at their entry value).
func firstIterationCertain(l *Loop) bool {
	h := l.Header
	if len(h.Instrs) == 0 {
		return false
	}
	iff, ok := h.Instrs[len(h.Instrs)-1].(*ssa.If)
	if !ok || len(h.Succs) != 2 {
		return false
	}
	exitIdx := -1
	for i, sx := range h.Succs {
		if !l.Blocks[sx] {
			exitIdx = i
		}
	}
	if exitIdx < 0 {
		return false
	}
	var pre *ssa.BasicBlock
	preIdx := -1
	for i, p := range h.Preds {
		if !l.Blocks[p] {
			if pre != nil {
				return false
			}
			pre, preIdx = p, i
		}
	}
	if pre == nil {
		return false
	}
	entryVal := func(v ssa.Value) ssa.Value {
		if phi, ok := v.(*ssa.Phi); ok && phi.Block() == h && preIdx < len(phi.Edges) {
			return strip(phi.Edges[preIdx])
		}
		return v
	}
	known := append(append([]Atom{}, factsAt(pre)...), edgeFacts(pre, succIndex(pre, h))...)
	// the exit is taken when all atoms of the exit direction hold; refuting one of them suffices
	for _, at := range atomsOf(iff.Cond, exitIdx == 0) {
		x, y := entryVal(at.X), at.Y
		if y != nil {
			y = entryVal(y)
		}
		for _, k := range known {
			if k.Kind == at.Kind && k.Pos != at.Pos && strip(k.X) == x && (at.Y == nil || (k.Y != nil && sameVal(strip(k.Y), y))) {
				return true
			}
		}
	}
	return false
}

// reachesSuccess: from block b (outside the loop) a success return or a handler call is reachable.
func reachesSuccess(b *ssa.BasicBlock, l *Loop) bool {
	for rb := range reachableBlocks(b, nil) {
		if l.Blocks[rb] {
			continue
		}
		for _, ins := range rb.Instrs {
			switch x := ins.(type) {
			case *ssa.Return:
				if len(x.Results) > 0 && isNilConst(retOperand(x, len(x.Results)-1)) {
					return true
				}
			case *ssa.Call:
				if x.Common().IsInvoke() && isHandlerIface(x.Common().Value.Type().String()) {
					return true
				}
			}
		}
	}
	return false
}

// feedsLoop: the value of the read flows (through phis/struct literals) into an append or map update in the loop.
func feedsLoop(call *ssa.Call, l *Loop) bool {
	seen := map[ssa.Value]bool{}
	var work []ssa.Value
	if call.Referrers() != nil {
		for _, r := range *call.Referrers() {
			if ex, ok := r.(*ssa.Extract); ok && ex.Index == 0 {
				work = append(work, ex)
			}
		}
	}
	for len(work) > 0 {
		v := work[len(work)-1]
		work = work[:len(work)-1]
		if seen[v] || v.Referrers() == nil {
			continue
		}
		seen[v] = true
		for _, r := range *v.Referrers() {
			switch x := r.(type) {
			case *ssa.Phi:
				work = append(work, x)
			case *ssa.Store:
				if l.Blocks[x.Block()] {
					return true // stored into an element/struct built in the loop
				}
			case *ssa.Call:
				if b, ok := x.Common().Value.(*ssa.Builtin); ok && b.Name() == "append" && l.Blocks[x.Block()] {
					return true
				}
			case *ssa.MapUpdate:
				if l.Blocks[x.Block()] {
					return true
				}
			case *ssa.Convert, *ssa.ChangeType, *ssa.MakeInterface:
				work = append(work, r.(ssa.Value))
			}
		}
	}
	return false
}

func ruleSetExclusivity(c *Ctx) {
	rid := "R10.e"
	c.rule(rid, "A2 in the SET option parser: each store into an option field of an exclusivity group ({NX,XX}; {EX,PX,EXAT,PXAT}; repetition = the field's own group; KEEPTTL, GET: repetition) is dominated by guards, whose other side leads only to error returns, that together read every field of the group; each expiry store is dominated by value >= 1; SETEX's seconds likewise")
	groups := map[string][]string{"NX": {"NX", "XX"}, "XX": {"NX", "XX"}, "EX": {"EX", "PX", "EXAT", "PXAT"}, "PX": {"EX", "PX", "EXAT", "PXAT"}, "EXAT": {"EX", "PX", "EXAT", "PXAT"}, "PXAT": {"EX", "PX", "EXAT", "PXAT"}, "KEEPTTL": {"KEEPTTL"}, "GET": {"GET"}}
	n := 0
	inLoopOf := func(fn *ssa.Function, b *ssa.BasicBlock) bool {
		for _, l := range naturalLoops(fn) {
			if l.Blocks[b] {
				return true
			}
		}
		return false
	}
	for _, fn := range c.P.RepoFuncs(pkgRedis) {
		allInstrs(fn, func(ins ssa.Instruction) {
			st, ok := ins.(*ssa.Store)
			if !ok {
				return
			}
			owner, f, base, ok := fieldOf(st.Addr)
			if !ok || owner != "redis.SetOption" || groups[f] == nil {
				return
			}
			// only stores under a keyword (in the option loop): into the loop function's own
			// option variable, or through a pointer parameter of a helper called only from
			// inside such a loop with that variable's address
			inLoop := false
			switch bv := strip(base).(type) {
			case *ssa.Alloc:
				inLoop = inLoopOf(fn, st.Block())
			case *ssa.Parameter:
				sites, only := c.P.onlyStaticallyCalled(fn)
				inLoop = only
				for _, site := range sites {
					okSite := inLoopOf(site.Parent(), site.Block())
					for i, a := range site.Common().Args {
						if i < len(fn.Params) && fn.Params[i] == bv {
							if _, isAlloc := strip(a).(*ssa.Alloc); !isAlloc {
								okSite = false
							}
						}
					}
					if !okSite {
						inLoop = false
					}
				}
			}
			if !inLoop {
				return
			}
			n++
			c.analysed(fn)
			key := fmt.Sprintf("%s/store:%s", fnName(fn), f)
			covered := map[string]bool{}
			for _, g := range guardsOf(st.Block()) {
				// the other edge must only fail
				other := 1
				if !g.True {
					other = 0
				}
				if succeedsFrom(g.If.Block().Succs[other]) {
					continue
				}
				for _, fld := range fieldsReadBy(g.Cond, strip(base)) {
					covered[fld] = true
				}
			}
			var missing []string
			for _, m := range groups[f] {
				if !covered[m] {
					missing = append(missing, m)
				}
			}
			if len(missing) > 0 {
				c.bad(rid, key, c.P.instrPos(st), fmt.Sprintf("option %s is set without a dominating rejecting test of %s: the exclusive options can be combined or repeated", f, strings.Join(missing, ", ")))
				return
			}
			// expiry >= 1
			if f == "EX" || f == "PX" || f == "EXAT" || f == "PXAT" {
				src := intSource(st.Val, 0)
				okPos := false
				if src != nil {
					for _, iq := range ineqsOf(factsAt(st.Block())) {
						if iq.x.base == nil && iq.x.off >= 1 && sameBase(iq.y, linOf(src)) && iq.y.off <= 0 {
							okPos = true
						}
					}
				}
				if !okPos {
					c.bad(rid, key, c.P.instrPos(st), "the expiry value is stored without a dominating test that it is >= 1 (a zero or negative expiry is accepted)")
					return
				}
			}
			c.ok(rid, key, c.P.instrPos(st), "dominated by rejecting tests of "+strings.Join(groups[f], ","))
		})
	}
	c.count("set-option-stores", n)
	c.floor("set-option-stores", 6)
	// expiry stores outside an option loop (SETEX-style executors): the stored number is >= 1 by
	// the tests of whichever helper read it
	nex := 0
	for _, fn := range c.P.RepoFuncs(pkgRedis) {
		allInstrs(fn, func(ins ssa.Instruction) {
			st, ok := ins.(*ssa.Store)
			if !ok {
				return
			}
			owner, f, base, ok := fieldOf(st.Addr)
			if !ok || owner != "redis.SetOption" || !(f == "EX" || f == "PX" || f == "EXAT" || f == "PXAT") {
				return
			}
			if _, isAlloc := strip(base).(*ssa.Alloc); !isAlloc || inLoopOf(fn, st.Block()) {
				return
			}
			if cv, isC := st.Val.(*ssa.Const); isC && cv.IsNil() {
				return
			}
			if _, isC := constInt(st.Val); isC {
				return // the zero default
			}
			nex++
			key := fmt.Sprintf("%s/expiry:%s", c.P.key(fn), f)
			src := intSource(st.Val, 0)
			if src == nil {
				c.bad(rid, key, c.P.instrPos(st), "the expiry stored is not derived from a checked argument")
				return
			}
			lo, _, hasLo, _ := constBounds(src, factsAt(st.Block()), 0)
			c.check(hasLo && lo >= 1, rid, key, c.P.instrPos(st), "the expiry argument is >= 1 wherever it is stored", "the expiry value is stored without a test that it is >= 1 on the way from the argument (a zero or negative expiry is accepted)")
		})
	}
	c.count("executor-expiry-stores", nex)
	c.floor("executor-expiry-stores", 1)
	// SETEX seconds
	for _, fn := range c.P.RepoFuncs(pkgRedis) {
		if !strings.Contains(fn.Name(), "SetEx") {
			continue
		}
		res := fn.Signature.Results()
		for i := 0; i < res.Len(); i++ {
			if res.At(i).Type().Underlying().String() != "int" {
				continue
			}
			okAll := true
			for _, r := range returnsOf(fn) {
				if !isNilConst(retOperand(r, res.Len()-1)) {
					continue
				}
				v := retOperand(r, i)
				okPos := false
				for _, iq := range ineqsOf(factsAt(r.Block())) {
					if iq.x.base == nil && iq.x.off >= 1 && sameBase(iq.y, linOf(v)) && iq.y.off <= 0 {
						okPos = true
					}
				}
				// or the bound established by the helper that read the value
				if lo, _, hasLo, _ := constBounds(v, factsAt(r.Block()), 0); hasLo && lo >= 1 {
					okPos = true
				}
				if !okPos {
					okAll = false
				}
			}
			c.check(okAll, rid, fnName(fn)+"/seconds", c.P.pos(fn.Pos()), "seconds >= 1 on every success return", "SETEX seconds are returned without a >= 1 test")
		}
	}
}

// fieldsReadBy: names of fields of struct base read in the backward slice of cond.
func fieldsReadBy(cond ssa.Value, base ssa.Value) []string {
	var out []string
	seen := map[ssa.Value]bool{}
	var walk func(v ssa.Value, d int)
	walk = func(v ssa.Value, d int) {
		if v == nil || seen[v] || d > 8 {
			return
		}
		seen[v] = true
		if _, f, b, ok := fieldOf(v); ok && strip(b) == base {
			out = append(out, f)
		}
		if fa, ok := v.(*ssa.FieldAddr); ok && strip(fa.X) == base {
			out = append(out, derefStruct(fa.X.Type()).Field(fa.Field).Name())
		}
		if ins, ok := v.(ssa.Instruction); ok {
			var ops []*ssa.Value
			for _, o := range ins.Operands(ops) {
				if o != nil && *o != nil {
					walk(*o, d+1)
				}
			}
		}
	}
	walk(cond, 0)
	return out
}

// intSource follows conversions/multiplications/calls back to the integer that was read.
func intSource(v ssa.Value, d int) ssa.Value {
	if d > 6 {
		return nil
	}
	switch x := v.(type) {
	case *ssa.Convert:
		return intSource(x.X, d+1)
	case *ssa.ChangeType:
		return intSource(x.X, d+1)
	case *ssa.BinOp:
		if _, ok := x.Y.(*ssa.Const); ok {
			return intSource(x.X, d+1)
		}
		if _, ok := x.X.(*ssa.Const); ok {
			return intSource(x.Y, d+1)
		}
	case *ssa.Call:
		if len(x.Common().Args) > 0 {
			return intSource(x.Common().Args[0], d+1)
		}
	case *ssa.Extract:
		return x
	}
	return v
}

func ruleNoReadAfterHandler(c *Ctx, x *extractor, scope []*ssa.Function) {
	rid := "R10.f"
	c.rule(rid, "A1: in no executor (or closure it calls) is a read of the client's arguments reachable after a handler call: all extraction, and therefore every rejection, precedes execution")
	n := 0
	for _, f := range scope {
		cur := clientCursor(f)
		if cur == nil {
			continue
		}
		var handlers []*ssa.Call
		var reads []*ssa.Call
		allInstrs(f, func(ins ssa.Instruction) {
			call, ok := ins.(*ssa.Call)
			if !ok {
				return
			}
			if call.Common().IsInvoke() && isHandlerIface(call.Common().Value.Type().String()) {
				handlers = append(handlers, call)
			}
			if _, _, isRead := x.readWeight(call, cur); isRead && !c.P.isDispatcherCall(call.Common()) {
				reads = append(reads, call)
			}
		})
		if len(handlers) == 0 {
			continue
		}
		n++
		key := c.P.key(f) + "/extract-before-execute"
		bad := ""
		for _, h := range handlers {
			after := reachableBlocks(h.Block(), nil)
			for _, r := range reads {
				later := false
				if r.Block() == h.Block() {
					for _, ins := range h.Block().Instrs {
						if ins == ssa.Instruction(h) {
							later = true
						} else if ins == ssa.Instruction(r) {
							break
						}
					}
					// in a loop the block is reachable from itself
					if !later {
						for _, s := range h.Block().Succs {
							if reachableBlocks(s, nil)[r.Block()] {
								later = true
							}
						}
					}
				} else if after[r.Block()] {
					later = true
				}
				if later {
					bad = fmt.Sprintf("the argument read at %s can execute after the handler call at %s: a request rejected there has already been partly executed", c.P.instrPos(r), c.P.instrPos(h))
				}
			}
		}
		if bad == "" {
			c.ok(rid, key, c.P.pos(f.Pos()), fmt.Sprintf("%d reads all precede the %d handler call(s)", len(reads), len(handlers)))
		} else {
			c.bad(rid, key, c.P.pos(f.Pos()), bad)
		}
	}
	c.count("executors-with-handler-calls", n)
	c.floor("executors-with-handler-calls", 40)
}

// buildsErrorOnly: every return of fn is a freshly formatted error (fmt.Errorf / errors.New).
func buildsErrorOnly(fn *ssa.Function) bool {
	if fn == nil || fn.Blocks == nil {
		return false
	}
	for _, r := range returnsOf(fn) {
		if len(r.Results) != 1 {
			return false
		}
		call, ok := strip(retOperand(r, 0)).(*ssa.Call)
		if !ok || !nameIn(calleeName(call.Common()), "fmt.Errorf", "errors.New") {
			return false
		}
	}
	return true
}

// keywordOf: the block runs under a `case "KW"` of a switch over an upper-cased request string.
func keywordOf(b *ssa.BasicBlock) string {
	for _, at := range factsAt(b) {
		if at.Kind == "eq" && at.Pos {
			if k, ok := constString(at.Y); ok {
				if call, ok := strip(at.X).(*ssa.Call); ok && calleeName(call.Common()) == "strings.ToUpper" {
					return k
				}
			}
		}
	}
	// multi-constant case: entered from several equality tests
	if len(b.Preds) > 1 {
		var ks []string
		for _, p := range b.Preds {
			if len(p.Instrs) == 0 || p.Succs[0] != b {
				continue
			}
			if iff, ok := p.Instrs[len(p.Instrs)-1].(*ssa.If); ok {
				for _, at := range atomsOf(iff.Cond, true) {
					if at.Kind == "eq" && at.Pos {
						if k, ok := constString(at.Y); ok {
							if call, ok := strip(at.X).(*ssa.Call); ok && calleeName(call.Common()) == "strings.ToUpper" {
								ks = append(ks, k)
							}
						}
					}
				}
			}
		}
		if len(ks) == len(b.Preds) && len(ks) > 0 {
			return strings.Join(ks, "|")
		}
	}
	// dominated by such a block
	for d := b.Idom(); d != nil; d = d.Idom() {
		if len(d.Preds) > 1 {
			if k := keywordOfPreds(d); k != "" {
				return k
			}
		}
	}
	return ""
}

func keywordOfPreds(b *ssa.BasicBlock) string {
	var ks []string
	for _, p := range b.Preds {
		if len(p.Instrs) == 0 || p.Succs[0] != b {
			return ""
		}
		iff, ok := p.Instrs[len(p.Instrs)-1].(*ssa.If)
		if !ok {
			return ""
		}
		found := false
		for _, at := range atomsOf(iff.Cond, true) {
			if at.Kind == "eq" && at.Pos {
				if k, ok := constString(at.Y); ok {
					if call, ok := strip(at.X).(*ssa.Call); ok && calleeName(call.Common()) == "strings.ToUpper" {
						ks = append(ks, k)
						found = true
					}
				}
			}
		}
		if !found {
			return ""
		}
	}
	return strings.Join(ks, "|")
}

// laterHalf: walking backwards from read r along every CFG path, another read of the same cursor
// is met before any instruction that completes an element (append, map update).
func laterHalf(x *extractor, r *ssa.Call, cur ssa.Value) bool {
	type pt struct {
		b *ssa.BasicBlock
		i int
	}
	seen := map[*ssa.BasicBlock]bool{}
	var bad bool
	var walk func(b *ssa.BasicBlock, from int)
	walk = func(b *ssa.BasicBlock, from int) {
		if bad {
			return
		}
		for i := from; i >= 0; i-- {
			switch y := b.Instrs[i].(type) {
			case *ssa.Call:
				if y == r {
					continue
				}
				if bn, ok := y.Common().Value.(*ssa.Builtin); ok && bn.Name() == "append" {
					return
				}
				if _, _, isRead := x.readWeight(y, cur); isRead {
					bad = true
					return
				}
			case *ssa.MapUpdate:
				return
			}
		}
		for _, p := range b.Preds {
			if seen[p] {
				continue
			}
			seen[p] = true
			walk(p, len(p.Instrs)-1)
		}
	}
	idx := 0
	for i, ins := range r.Block().Instrs {
		if ins == ssa.Instruction(r) {
			idx = i
		}
	}
	walk(r.Block(), idx-1)
	return bad
}

// roleKey names a function for the inventory table independently of its identifier: executors by
// their command, argument helpers by the types they return (unique per helper kind).
func roleKey(p *Program, f *ssa.Function) string {
	k := p.key(f)
	if strings.HasPrefix(k, "executor:") {
		return k
	}
	res := f.Signature.Results()
	var ts []string
	for i := 0; i < res.Len(); i++ {
		ts = append(ts, typeName(res.At(i).Type()))
	}
	return "helper->(" + strings.Join(ts, ",") + ")"
}

// ruleArgumentIndexSafety: R10.h — the argument helpers and executors index and slice the
// client's strings (exclusive-bound marker, sub-ranges). An index that is not provably inside
// the string panics on an empty or short argument: the barrier then drops the connection
// without the error reply the property demands.
func ruleArgumentIndexSafety(c *Ctx, rid string) {
	c.rule(rid, "A8 over the executors and the argument helpers they call (redis/..., not the parser): every index and slice expression is proven in range by the inequality prover from the dominating tests (len(s) != 0, i < len(s), ...)")
	execs, _ := c.P.executors()
	var roots []*ssa.Function
	for _, e := range execs {
		roots = append(roots, e.Fn)
	}
	reach := c.P.repoReach(roots, func(f *ssa.Function) bool { return inFramework(f) && fnPkgPath(f) == pkgRedis })
	var scope []*ssa.Function
	for f := range reach {
		if f.Blocks != nil && f.Synthetic == "" {
			scope = append(scope, f)
		}
	}
	sort.Slice(scope, func(i, j int) bool { return c.P.key(scope[i]) < c.P.key(scope[j]) })
	rulePanicSitesIn(c, rid, scope, "argument-index-sites", 3)
}

// ruleIntegersNotThroughFloats: R10.i — a position that takes an integer must reject fractional,
// exponent and out-of-range tokens. Decoding it with ParseFloat and converting with int()
// accepts "1.5" and "1e3", and turns 9223372036854775807 into an implementation-defined value.
func ruleIntegersNotThroughFloats(c *Ctx, scope []*ssa.Function) {
	rid := "R10.i"
	c.rule(rid, "in the executors and the argument helpers of package redis no floating-point value is converted to an integer type: integer arguments are decoded by the integer accessors / strconv.Atoi / ParseInt, never by ParseFloat followed by int()")
	n, bad := 0, 0
	for _, fn := range scope {
		allInstrs(fn, func(ins ssa.Instruction) {
			cv, ok := ins.(*ssa.Convert)
			if !ok {
				return
			}
			from, isB := cv.X.Type().Underlying().(*types.Basic)
			to, isB2 := cv.Type().Underlying().(*types.Basic)
			if !isB || !isB2 {
				return
			}
			if from.Info()&types.IsFloat != 0 && to.Info()&types.IsInteger != 0 {
				if _, isC := cv.X.(*ssa.Const); isC {
					return
				}
				if !derivesFromParseFloat(cv.X, 0, map[ssa.Value]bool{}) {
					return // a duration in seconds, a ratio: not a decoded argument
				}
				n++
				bad++
				c.bad(rid, fmt.Sprintf("%s/float-to-int#%d", c.P.key(fn), bad), c.P.instrPos(cv), "a floating-point value is converted to an integer on the way to the handler: fractional and exponent tokens are accepted where an integer is required, and values beyond 2^63 convert to an arbitrary integer")
			}
		})
	}
	c.count("float-to-int-conversions", n)
	if bad == 0 {
		c.ok(rid, "no-float-to-int", "", "no integer argument is derived from a floating-point value")
	}
}

// derivesFromParseFloat: the value is (computed from) a result of strconv.ParseFloat, possibly
// returned through repository helpers.
func derivesFromParseFloat(v ssa.Value, d int, seen map[ssa.Value]bool) bool {
	if v == nil || d > 6 || seen[v] {
		return false
	}
	seen[v] = true
	switch x := v.(type) {
	case *ssa.Extract:
		return derivesFromParseFloat(x.Tuple, d+1, seen)
	case *ssa.Call:
		if calleeName(x.Common()) == "strconv.ParseFloat" {
			return true
		}
		if h := staticCallee(x.Common()); h != nil && h.Blocks != nil && inRepo(h) {
			for _, r := range returnsOf(h) {
				for _, res := range r.Results {
					if isFloatType(res.Type()) && derivesFromParseFloat(res, d+1, seen) {
						return true
					}
				}
			}
		}
	case *ssa.Phi:
		for _, e := range x.Edges {
			if derivesFromParseFloat(e, d+1, seen) {
				return true
			}
		}
	case *ssa.BinOp:
		return derivesFromParseFloat(x.X, d+1, seen) || derivesFromParseFloat(x.Y, d+1, seen)
	case *ssa.UnOp:
		return derivesFromParseFloat(x.X, d+1, seen)
	case *ssa.Convert:
		return derivesFromParseFloat(x.X, d+1, seen)
	case *ssa.Parameter:
		// a float parameter of a helper: conservatively an argument if any caller passes one
		return isFloatType(x.Type())
	}
	return false
}

func isFloatType(t types.Type) bool {
	b, ok := t.Underlying().(*types.Basic)
	return ok && b.Info()&types.IsFloat != 0
}
