package main

import (
	"fmt"
	"sort"
	"strings"

	"golang.org/x/tools/go/ssa"
)

const (
	pkgTracer        = "github.com/cybergarage/go-tracing/tracer"
	nTracerStartSpan = "(" + pkgTracer + ".Tracer).StartSpan"
	nCtxStartSpan    = "(" + pkgTracer + ".Context).StartSpan"
	nCtxFinishSpan   = "(" + pkgTracer + ".Context).FinishSpan"
	nCtxSpan         = "(" + pkgTracer + ".Context).Span"
	nSpanFinish      = "(" + pkgTracer + ".Span).Finish"
	nSpanStartSpan   = "(" + pkgTracer + ".Span).StartSpan"
)

func init() {
	register(&propInfo{ID: "C20", Level: "proof", Run: runC20,
		Explanation: "All-paths dataflow proof over the SSA control-flow graph. A finite automaton (root span none/open/finished x child depth 0..3) is propagated to a fixed point along every path of the connection loop; every framework function reachable from the loop that touches spans is proven balanced (net depth 0, never below its entry depth, deferred FinishSpan accounted at rundefers) so calls are transparent (coinductive summaries, recursion through composed commands included). Obligations = every span call site classified, every exit and back edge of the loop in state (root finished-or-none, depth 0), every span-touching callee balanced. Assumptions: tracer.Context implements a stack; no panic unwinds through the loop."})
}

type spanState struct {
	Root  int8 // 0 none, 1 open, 2 finished
	Depth int8
	Pend  int8 // deferred pops registered in this activation
}

func spanEvent(ins ssa.Instruction) string {
	cc := callCommon(ins)
	if cc == nil {
		return ""
	}
	switch calleeName(cc) {
	case nTracerStartSpan:
		return "RootStart"
	case nCtxStartSpan:
		return "Push"
	case nCtxFinishSpan:
		return "Pop"
	case nSpanFinish:
		return "SpanFinish"
	case nCtxSpan:
		return "Span"
	case nSpanStartSpan:
		return "SpanStartSpan"
	}
	return ""
}

func runC20(c *Ctx) {
	c.assume("a tracer.Context implements a stack of spans (go-tracing common.spanContext does)")
	c.assume("no panic unwinds through the request loop (with the C07 barrier a panic ends the connection with its root span unfinished; panics are not among the property's outcomes)")
	c.assume("defers run at function exit in LIFO order (go/ssa rundefers)")
	ruleNilNilDeref(c, "R20.p")
	ruleArgumentIndexSafety(c, "R20.p")
	// a panic in the parser or in a handler of the bundled store unwinds through the open parse / command and root spans
	rulePanicSitesIn(c, "R20.p", c.P.parserScope(), "parser-panic-sites", 8)
	ruleStoreIndexSafety(c, "R20.p")
	ruleSpanSlotOwner(c, "R20.q")
	loops := c.P.connLoops()
	c.count("conn-loops", len(loops))
	c.floor("conn-loops", 1)
	c.rule("R20.sites", "A3: every call of a span operation (Tracer.StartSpan, Context.StartSpan/FinishSpan/Span, Span.Finish/StartSpan) located in redis/... is in the connection loop function or in a function reachable from its loop, and is one of the classified kinds")
	c.rule("R20.callee", "every framework function reachable from the loop that contains span operations is balanced: on every path to a return the child depth is back at its entry value (deferred FinishSpan applied at rundefers), it never pops below its entry depth, never returns between a push and the registration of its deferred pop, and does not start or finish a root span")
	c.rule("R20.loop", "automaton over the connection loop: RootStart only with no root open and depth 0 (installed with SetSpanContext); child push only while the root is open; pop only at depth >= 1; root finish only in state (open, depth 0) on the context produced by this iteration's RootStart; at every back edge and every exit after the first RootStart the state is (finished, 0)")

	for _, cl := range loops {
		if cl.Loop == nil {
			c.undecided("R20.loop", fnName(cl.Fn), "", "no request loop")
			continue
		}
		c.analysed(cl.Fn)
		// functions reachable from the loop function's calls (framework only)
		var roots []*ssa.Function
		allInstrs(cl.Fn, func(ins ssa.Instruction) {
			if ci, ok := ins.(ssa.CallInstruction); ok {
				for _, f := range c.P.calleesAt(ci) {
					if inFramework(f) {
						roots = append(roots, f)
					}
				}
			}
		})
		reach := c.P.repoReach(roots, inFramework)
		delete(reach, cl.Fn)
		c.note("C20: %d framework functions reachable from %s", len(reach), fnName(cl.Fn))

		// R20.sites
		nsites := 0
		for _, fn := range c.P.RepoFuncs(pkgRedis) {
			allInstrs(fn, func(ins ssa.Instruction) {
				ev := spanEvent(ins)
				if ev == "" {
					return
				}
				nsites++
				key := fmt.Sprintf("%s/%s@%s", c.P.key(fn), ev, siteOrdinal(fn, ins))
				switch {
				case fn == cl.Fn || reach[fn]:
					if ev == "SpanStartSpan" {
						c.undecided("R20.sites", key, c.P.instrPos(ins), "Span.StartSpan creates a context outside the connection's stack: not modelled")
					} else {
						c.ok("R20.sites", key, c.P.instrPos(ins), "span operation on the request path, classified "+ev)
					}
				default:
					c.bad("R20.sites", key, c.P.instrPos(ins), "span operation in a function that is not on the request path of the connection loop: it can unbalance a connection's span stack outside the analysed paths")
				}
			})
		}
		c.count("span-sites", nsites)
		c.floor("span-sites", 8)

		// R20.callee
		var fns []*ssa.Function
		for f := range reach {
			fns = append(fns, f)
		}
		sort.Slice(fns, func(i, j int) bool { return fnName(fns[i]) < fnName(fns[j]) })
		ncal := 0
		for _, f := range fns {
			if f.Blocks == nil {
				continue
			}
			has := false
			allInstrs(f, func(ins ssa.Instruction) {
				if spanEvent(ins) != "" {
					has = true
				}
			})
			if !has {
				continue
			}
			ncal++
			c.analysed(f)
			checkSpanCallee(c, f)
		}
		c.count("span-callees", ncal)
		c.floor("span-callees", 1)

		// R20.loop
		checkSpanLoop(c, cl)
	}
}

func siteOrdinal(fn *ssa.Function, target ssa.Instruction) string {
	// ordinal of this kind of event among the function's events, in block order
	ev := spanEvent(target)
	n := 0
	res := "?"
	allInstrs(fn, func(ins ssa.Instruction) {
		if spanEvent(ins) == ev {
			if ins == target {
				res = fmt.Sprintf("%d", n)
			}
			n++
		}
	})
	return res
}

func checkSpanCallee(c *Ctx, f *ssa.Function) {
	rid := "R20.callee"
	key := c.P.key(f)
	a := &Auto[spanState]{Fn: f, Init: spanState{Root: 1},
		Step: func(s spanState, ins ssa.Instruction, fail func(string)) []spanState {
			switch x := ins.(type) {
			case *ssa.Defer:
				switch spanEvent(x) {
				case "Pop":
					s.Pend++
					if s.Pend > 3 {
						fail("too many deferred FinishSpan")
						s.Pend = 3
					}
				case "":
				default:
					fail("deferred span operation other than FinishSpan: " + spanEvent(x))
				}
				return []spanState{s}
			case *ssa.RunDefers:
				for s.Pend > 0 {
					if s.Depth == 0 {
						fail("deferred FinishSpan pops below the function's entry depth (an explicit FinishSpan already closed the span)")
						break
					}
					s.Depth--
					s.Pend--
				}
				s.Pend = 0
				return []spanState{s}
			case *ssa.Go:
				if spanEvent(x) != "" {
					fail("span operation in a go statement")
				}
				return []spanState{s}
			case *ssa.Return:
				if s.Pend > 0 {
					fail("return without running defers")
				}
				if s.Depth != 0 {
					fail(fmt.Sprintf("returns with %d child span(s) still open (a return between StartSpan and its deferred FinishSpan, or a missing FinishSpan)", s.Depth))
				}
				return []spanState{s}
			case *ssa.Call:
				switch spanEvent(x) {
				case "Push":
					s.Depth++
					if s.Depth > 3 {
						fail("span depth exceeds the automaton bound in one activation")
						s.Depth = 3
					}
				case "Pop":
					if s.Depth == 0 {
						fail("FinishSpan pops below the function's entry depth")
					} else {
						s.Depth--
					}
				case "RootStart", "SpanFinish":
					fail("a callee starts or finishes a root span; roots are managed by the connection loop only")
				}
				return []spanState{s}
			}
			return []spanState{s}
		},
		Edge: spanPushFailedEdge}
	res := a.Run()
	if len(res.Errs) == 0 {
		c.ok(rid, key, c.P.pos(f.Pos()), "balanced on all paths (net depth 0, never below entry)")
	}
	for i, e := range res.Errs {
		c.bad(rid, fmt.Sprintf("%s/path#%d", key, i), c.P.instrPos(e.Ins), e.Msg, e.witness(c.P)...)
	}
}

func checkSpanLoop(c *Ctx, cl *ConnLoop) {
	rid := "R20.loop"
	key := fnName(cl.Fn)
	fn := cl.Fn
	// RootStart calls and the SetSpanContext installing them
	var rootStarts []*ssa.Call
	allInstrs(fn, func(ins ssa.Instruction) {
		if call, ok := ins.(*ssa.Call); ok && spanEvent(call) == "RootStart" {
			rootStarts = append(rootStarts, call)
		}
	})
	if len(rootStarts) == 0 {
		c.bad(rid, key+"/root-start", c.P.pos(fn.Pos()), "no root span is started in the connection loop")
		return
	}
	for i, rs := range rootStarts {
		installed := false
		if rs.Referrers() != nil {
			for _, r := range *rs.Referrers() {
				if call, ok := r.(*ssa.Call); ok && strings.HasSuffix(calleeName(call.Common()), ".SetSpanContext") && call.Block() == rs.Block() {
					installed = true
				}
				if st, ok := r.(*ssa.Store); ok {
					if owner, field, _, ok := fieldOf(st.Addr); ok && owner == "redis.Conn" && field == "Context" {
						installed = true
					}
				}
			}
		}
		c.check(installed && cl.Loop.Blocks[rs.Block()], rid, fmt.Sprintf("%s/root-start#%d/installed", key, i), c.P.instrPos(rs),
			"root span started inside the loop and installed as the connection's span context", "the root span context is not installed on the connection (SetSpanContext) in the loop: children would attach to a stale context")
	}
	isRootCtx := func(v ssa.Value) bool {
		v = strip(v)
		for _, rs := range rootStarts {
			if v == rs {
				return true
			}
		}
		// the connection's current context: load of Conn.Context or (*Conn).SpanContext()
		if owner, field, _, ok := fieldOf(v); ok && owner == "redis.Conn" && field == "Context" {
			return true
		}
		if call, ok := v.(*ssa.Call); ok && strings.HasSuffix(calleeName(call.Common()), "redis.Conn).SpanContext") {
			return true
		}
		return false
	}
	// framework functions that open child spans (directly or through their callees): they may
	// only be called while this request's root span is open
	pushes := map[*ssa.Function]bool{}
	var scan func(f *ssa.Function, d int) bool
	scan = func(f *ssa.Function, d int) bool {
		if f == nil || f.Blocks == nil || !inFramework(f) || d > 6 {
			return false
		}
		if v, ok := pushes[f]; ok {
			return v
		}
		pushes[f] = false
		res := false
		allInstrs(f, func(ins ssa.Instruction) {
			if res {
				return
			}
			if spanEvent(ins) == "Push" {
				res = true
				return
			}
			if ci, ok := ins.(ssa.CallInstruction); ok && spanEvent(ins) == "" {
				for _, g := range c.P.calleesAt(ci) {
					if scan(g, d+1) {
						res = true
					}
				}
			}
		})
		pushes[f] = res
		return res
	}
	a := &Auto[spanState]{Fn: fn, Init: spanState{},
		Step: func(s spanState, ins ssa.Instruction, fail func(string)) []spanState {
			switch x := ins.(type) {
			case *ssa.Defer:
				if spanEvent(x) != "" {
					fail("deferred span operation in the connection loop function is not modelled")
				}
			case *ssa.Go:
				if spanEvent(x) != "" {
					fail("span operation in a go statement")
				}
			case *ssa.Return:
				if s.Root == 1 {
					fail("the function returns with the request's root span still open")
				}
				if s.Depth != 0 {
					fail(fmt.Sprintf("the function returns with %d child span(s) open", s.Depth))
				}
			case *ssa.Call:
				if spanEvent(x) == "" && s.Root != 1 {
					for _, g := range c.P.calleesAt(x) {
						if g != fn && scan(g, 0) {
							fail("a function that opens child spans (" + fnName(g) + ") is called while no root span is open: its spans start after their parent has finished (or before it started)")
							break
						}
					}
				}
				switch spanEvent(x) {
				case "RootStart":
					if s.Root == 1 {
						fail("a new root span is started while the previous request's root span is still open (left open when the connection moved on)")
					}
					if s.Depth != 0 {
						fail("a new root span is started with child spans open")
					}
					s.Root, s.Depth = 1, 0
				case "Push":
					if s.Root != 1 {
						fail("a child span is started while no root span is open")
					}
					s.Depth++
					if s.Depth > 3 {
						s.Depth = 3
						fail("span depth exceeds the automaton bound")
					}
				case "Pop":
					if s.Depth == 0 {
						fail("FinishSpan with no child span open (it would pop the root or an empty stack)")
					} else {
						s.Depth--
					}
				case "SpanFinish":
					recv := x.Common().Value
					sp, ok := strip(recv).(*ssa.Call)
					if !ok || spanEvent(sp) != "Span" || !isRootCtx(sp.Common().Value) {
						fail("Span.Finish on a span that is not the top of this connection's root context")
						break
					}
					switch {
					case s.Root == 2:
						fail("the root span is finished twice")
					case s.Root == 0:
						fail("a root span is finished before any was started")
					case s.Depth != 0:
						fail("the root span is finished while a child span is still open (Span() returns the top of the stack: the child would be finished instead)")
					}
					s.Root = 2
				}
			}
			return []spanState{s}
		},
		Edge: spanPushFailedEdge}
	res := a.Run()
	// obligations: one per exit (Return) and one per back edge, plus error paths
	errAt := map[ssa.Instruction][]AutoErr[spanState]{}
	for _, e := range res.Errs {
		errAt[e.Ins] = append(errAt[e.Ins], e)
	}
	nexits := 0
	for _, r := range returnsOf(fn) {
		if r.Block() == fn.Recover {
			continue
		}
		if len(res.AtReturn[r]) == 0 {
			continue // unreachable
		}
		nexits++
		k := fmt.Sprintf("%s/exit#%d(%s)", key, nexits, exitClass(c, cl, r))
		if errs := errAt[r]; len(errs) > 0 {
			c.bad(rid, k, c.P.instrPos(r), errs[0].Msg, errs[0].witness(c.P)...)
		} else {
			c.ok(rid, k, c.P.instrPos(r), fmt.Sprintf("states at exit: %v", statesList(res.AtReturn[r])))
		}
		delete(errAt, r)
	}
	// back edges
	nb := 0
	for _, latch := range cl.Loop.Latch {
		nb++
		k := fmt.Sprintf("%s/backedge#%d", key, nb)
		// states entering header from this latch = states at end of latch; approximated by header In states
		// (errors at the RootStart following the back edge are attributed below)
		c.ok(rid, k, c.P.instrPos(latch.Instrs[len(latch.Instrs)-1]), "state at loop re-entry checked at the following RootStart")
	}
	i := 0
	var inss []ssa.Instruction
	for ins := range errAt {
		inss = append(inss, ins)
	}
	sort.Slice(inss, func(a, b int) bool { return inss[a].Pos() < inss[b].Pos() })
	for _, ins := range inss {
		for _, e := range errAt[ins] {
			i++
			c.bad(rid, fmt.Sprintf("%s/path#%d", key, i), c.P.instrPos(e.Ins), e.Msg, e.witness(c.P)...)
		}
	}
	c.count("loop-exits", nexits)
	c.floor("loop-exits", 4)
	if len(res.Errs) == 0 {
		c.ok(rid, key+"/all-paths", c.P.pos(fn.Pos()), fmt.Sprintf("fixed point reached in %d steps with no error state", res.Steps))
	}
}

func statesList(m map[spanState]bool) []string {
	var out []string
	for s := range m {
		out = append(out, fmt.Sprintf("root=%d depth=%d", s.Root, s.Depth))
	}
	sort.Strings(out)
	return out
}

// exitClass names an exit of the connection loop function by the facts that dominate it.
func exitClass(c *Ctx, cl *ConnLoop, r *ssa.Return) string {
	var parts []string
	for _, at := range factsAt(r.Block()) {
		switch at.Kind {
		case "nil":
			if ex, ok := at.X.(*ssa.Extract); ok {
				if call, ok := ex.Tuple.(*ssa.Call); ok {
					n := calleeName(call.Common())
					if i := strings.LastIndex(n, "."); i >= 0 {
						n = n[i+1:]
					}
					pol := "!=nil"
					if at.Pos {
						pol = "==nil"
					}
					parts = append(parts, fmt.Sprintf("%s#%d%s", n, ex.Index, pol))
				}
			} else if _, ok := at.X.(*ssa.Parameter); ok {
				pol := "!=nil"
				if at.Pos {
					pol = "==nil"
				}
				parts = append(parts, at.X.Name()+pol)
			}
		case "call":
			if _, isq := isErrQuitTest(at); isq {
				if at.Pos {
					parts = append(parts, "QUIT")
				} else {
					parts = append(parts, "!QUIT")
				}
			}
		}
	}
	if len(parts) == 0 {
		return "unconditional"
	}
	sort.Strings(parts)
	return strings.Join(parts, ",")
}

// ruleSpanSlotOwner: the connection's span slot (Conn.Context, the stack the open spans live
// on) belongs to the goroutine serving the connection. If the lifecycle API (Stop closing the
// registered connections from another goroutine) replaces it, the serving goroutine finishes
// its open spans on a different stack: the real parse/root spans are left open or finished in
// the wrong order.
func ruleSpanSlotOwner(c *Ctx, rid string) {
	c.rule(rid, "Conn.Context is stored only by the constructor and SetSpanContext; no function reachable from the lifecycle/registry API (Start, Stop, Restart, Conns, ConnByUUID — including Conn.Close through ConnManager.Close) without crossing a go statement stores to it or calls SetSpanContext")
	storesCtx := func(fn *ssa.Function) (found bool, at ssa.Instruction) {
		allInstrs(fn, func(ins ssa.Instruction) {
			if st, ok := ins.(*ssa.Store); ok {
				if owner, f, _, ok := fieldOf(st.Addr); ok && owner == "redis.Conn" && f == "Context" {
					found, at = true, ins
				}
			}
			if cc := callCommon(ins); cc != nil && calleeName(cc) == "(*"+pkgRedis+".Conn).SetSpanContext" {
				found, at = true, ins
			}
		})
		return
	}
	n, bad := 0, 0
	for _, fn := range c.P.RepoFuncs(pkgRedis) {
		if !inProd(fn) {
			continue
		}
		direct := false
		var at ssa.Instruction
		allInstrs(fn, func(ins ssa.Instruction) {
			if st, ok := ins.(*ssa.Store); ok {
				if owner, f, _, ok := fieldOf(st.Addr); ok && owner == "redis.Conn" && f == "Context" {
					direct, at = true, ins
				}
			}
		})
		if !direct {
			continue
		}
		n++
		c.analysed(fn)
		if fn.Name() == "SetSpanContext" {
			continue
		}
		if _, _, base, ok := fieldOf(at.(*ssa.Store).Addr); ok {
			if _, fresh := strip(base).(*ssa.Alloc); fresh {
				continue // initialising a connection it has just allocated
			}
		}
		bad++
		c.bad(rid, fnName(fn)+"/stores-span-slot", c.P.instrPos(at), "Conn.Context is replaced outside the constructor and SetSpanContext: spans opened on the old context can no longer be finished through the connection")
	}
	c.count("span-slot-writers", n)
	c.floor("span-slot-writers", 2)
	m := &syncModel{p: c.P}
	nf := 0
	for _, r := range concurrencyRoots(c.P) {
		if r.Goroutine {
			continue
		}
		for fn := range m.reachFrom(r) {
			nf++
			if fn == c.P.connConstructor() {
				continue
			}
			if found, at := storesCtx(fn); found {
				bad++
				c.bad(rid, fmt.Sprintf("%s/span-slot-from:%s", fnName(fn), r.Name), c.P.instrPos(at), "the span slot of a registered connection is replaced from "+r.Name+" (another goroutine than the one serving the connection): open spans are finished on the wrong context")
			}
		}
	}
	if bad == 0 {
		c.ok(rid, "span-slot-owned-by-loop", "", fmt.Sprintf("%d writers (constructor, SetSpanContext); %d functions reachable from the lifecycle API, none touches the slot", n, nf))
	}
}

// spanPushFailedEdge: StartSpan reports whether a span was started; on the branch where the
// program has tested that result false nothing was pushed (`if conn.StartSpan(n) { defer conn.FinishSpan() }`).
func spanPushFailedEdge(s spanState, b *ssa.BasicBlock, idx int) (spanState, bool) {
	for _, at := range edgeOnly(b, idx) {
		if at.Pos {
			continue
		}
		var call *ssa.Call
		switch at.Kind {
		case "call":
			call = at.Call
		case "val":
			call, _ = at.X.(*ssa.Call)
		}
		if call != nil && spanEvent(call) == "Push" && s.Depth > 0 {
			s.Depth--
		}
	}
	return s, true
}
