package main

// normalize.go: one source-level normalisation applied before the analysis, for one shape only.
//
// The loop-anchored rules (C03, C04, C08, C09, C11, C13, C20) need the request loop, the call
// of Parser.Next, the handler call and the response call in one function. A maintainer may
// move the whole loop body into a helper ("receiveNext") that the loop calls. Rather than
// making every rule interprocedural, the loader inlines exactly that helper back into the loop:
//
//	x, y := g(a, b)         =>   var x T1; var y T2
//	                              {
//	                                  p, q := a, b
//	                              L:  for { <body of g, each `return e1, e2` replaced by
//	                                         { x, y = e1, e2; break L }> }
//	                              }
//
// which is semantically the same program (no defer/recover/goto/named results in g, g is
// unexported, not recursive and has this single call site; arguments are evaluated once, in
// order, before the body). Moved nodes keep their positions, so reports still point into g.
// The rewritten package is type-checked again; if anything about the shape is unexpected, or
// the result does not type-check, the program is analysed as it is (and the loop-anchored
// rules report "undecided").

import (
	"fmt"
	"go/ast"
	"go/parser"
	"go/token"
	"go/types"
	"os"
	"reflect"
	"strings"

	"golang.org/x/tools/go/ast/astutil"
	"golang.org/x/tools/go/packages"
)

type inlinePlan struct {
	File       string // absolute file name holding both functions
	Callee     string // name of g
	Recv       string // receiver type name of g ("" for a function)
	Caller     string // name of the function holding the loop
	CallerRecv string
	Why        string
}

func recvTypeName(fd *ast.FuncDecl) string {
	if fd.Recv == nil || len(fd.Recv.List) == 0 {
		return ""
	}
	t := fd.Recv.List[0].Type
	if st, ok := t.(*ast.StarExpr); ok {
		t = st.X
	}
	if id, ok := t.(*ast.Ident); ok {
		return id.Name
	}
	return "?"
}

// findOutlinedLoopBody looks, in package redis, for an unexported function g that calls
// (*proto.Parser).Next outside any loop of its own and whose only use is a call statement
// inside a for loop of another function in the same file.
func findOutlinedLoopBody(pkgs map[string]*packages.Package) *inlinePlan {
	pk := pkgs[pkgRedis]
	if pk == nil || pk.TypesInfo == nil {
		return nil
	}
	info := pk.TypesInfo
	isParserNext := func(call *ast.CallExpr) bool {
		sel, ok := call.Fun.(*ast.SelectorExpr)
		if !ok || sel.Sel.Name != "Next" {
			return false
		}
		fn, ok := info.Uses[sel.Sel].(*types.Func)
		if !ok {
			return false
		}
		sig, _ := fn.Type().(*types.Signature)
		return sig != nil && sig.Recv() != nil && strings.HasSuffix(sig.Recv().Type().String(), "proto.Parser")
	}
	for _, file := range pk.Syntax {
		for _, d := range file.Decls {
			g, ok := d.(*ast.FuncDecl)
			if !ok || g.Body == nil || g.Name.IsExported() {
				continue
			}
			// Next called in g, not inside a loop of g
			nextOutsideLoop, nextInLoop := false, false
			var walk func(n ast.Node, inLoop bool)
			walk = func(n ast.Node, inLoop bool) {
				ast.Inspect(n, func(x ast.Node) bool {
					switch y := x.(type) {
					case *ast.FuncLit:
						return false
					case *ast.ForStmt:
						if y != n {
							walk(y.Body, true)
							return false
						}
					case *ast.RangeStmt:
						if y != n {
							walk(y.Body, true)
							return false
						}
					case *ast.CallExpr:
						if isParserNext(y) {
							if inLoop {
								nextInLoop = true
							} else {
								nextOutsideLoop = true
							}
						}
					}
					return true
				})
			}
			walk(g.Body, false)
			if !nextOutsideLoop || nextInLoop {
				continue
			}
			gobj := info.Defs[g.Name]
			if gobj == nil {
				continue
			}
			// uses of g
			var uses []*ast.Ident
			for id, obj := range info.Uses {
				if obj == gobj {
					uses = append(uses, id)
				}
			}
			if len(uses) != 1 {
				continue
			}
			use := uses[0]
			if pk.Fset.File(use.Pos()) == nil || pk.Fset.File(use.Pos()).Name() != pk.Fset.File(g.Pos()).Name() {
				return &inlinePlan{Why: "the loop body helper " + g.Name.Name + " is defined in another file than its call"}
			}
			// the enclosing function and statement
			path, _ := astutil.PathEnclosingInterval(file, use.Pos(), use.End())
			var caller *ast.FuncDecl
			inFor := false
			var stmt ast.Stmt
			for _, n := range path {
				switch y := n.(type) {
				case *ast.FuncDecl:
					if caller == nil {
						caller = y
					}
				case *ast.FuncLit:
					if caller == nil {
						return &inlinePlan{Why: "the loop body helper is called from a function literal"}
					}
				case *ast.ForStmt:
					if caller == nil {
						inFor = true
					}
				case *ast.AssignStmt:
					if stmt == nil && caller == nil {
						stmt = y
					}
				case *ast.ExprStmt:
					if stmt == nil && caller == nil {
						stmt = y
					}
				}
			}
			if caller == nil || !inFor || stmt == nil || caller == g {
				continue
			}
			if why := inlinable(g); why != "" {
				return &inlinePlan{Why: "the loop body helper " + g.Name.Name + " cannot be normalised: " + why}
			}
			return &inlinePlan{File: pk.Fset.File(g.Pos()).Name(), Callee: g.Name.Name, Recv: recvTypeName(g), Caller: caller.Name.Name, CallerRecv: recvTypeName(caller)}
		}
	}
	return nil
}

// inlinable: the preconditions under which the rewriting preserves behaviour.
func inlinable(g *ast.FuncDecl) string {
	why := ""
	if g.Type.Results != nil {
		for _, f := range g.Type.Results.List {
			if len(f.Names) > 0 {
				why = "named results"
			}
		}
	}
	if g.Type.TypeParams != nil {
		why = "type parameters"
	}
	for _, f := range g.Type.Params.List {
		if _, variadic := f.Type.(*ast.Ellipsis); variadic {
			why = "variadic parameter"
		}
	}
	ast.Inspect(g.Body, func(n ast.Node) bool {
		switch y := n.(type) {
		case *ast.FuncLit:
			return false
		case *ast.DeferStmt:
			why = "defer in the helper"
		case *ast.BranchStmt:
			if y.Tok == token.GOTO {
				why = "goto in the helper"
			}
		case *ast.LabeledStmt:
			if y.Label.Name == "verifRequestLoop" {
				why = "label clash"
			}
		case *ast.CallExpr:
			if id, ok := y.Fun.(*ast.Ident); ok && id.Name == "recover" {
				why = "recover in the helper"
			}
			if id, ok := y.Fun.(*ast.Ident); ok && id.Name == g.Name.Name {
				why = "recursive helper"
			}
		}
		return true
	})
	return why
}

// rewriteOutlined applies the plan to a freshly parsed file. donors are further parses of the
// same bytes (positions already shifted into file's range): donor 0 provides the helper's body,
// donor j >= 1 provides the j-th copy of the caller's continuation K (the statements of the
// loop body after the call). Every `return e...` of the helper becomes
//
//	{ results = e...; K; continue requestLoop }
//
// so that the tests the caller makes on the results sit, as in a hand-written loop, directly
// under the branch that produced them. The helper's declaration is removed (it has no other use).
func rewriteOutlined(plan *inlinePlan, file *ast.File, donors []*ast.File) error {
	find := func(f *ast.File, name, recv string) *ast.FuncDecl {
		for _, d := range f.Decls {
			if fd, ok := d.(*ast.FuncDecl); ok && fd.Name.Name == name && recvTypeName(fd) == recv {
				return fd
			}
		}
		return nil
	}
	isPlanCall := func(st ast.Stmt) (*ast.CallExpr, []ast.Expr, bool, ast.Expr) {
		var call *ast.CallExpr
		var lhs []ast.Expr
		define := false
		switch x := st.(type) {
		case *ast.AssignStmt:
			if len(x.Rhs) == 1 {
				call, _ = x.Rhs[0].(*ast.CallExpr)
				lhs, define = x.Lhs, x.Tok == token.DEFINE
			}
		case *ast.ExprStmt:
			call, _ = x.X.(*ast.CallExpr)
		}
		if call == nil {
			return nil, nil, false, nil
		}
		name := ""
		var recvExpr ast.Expr
		switch f := call.Fun.(type) {
		case *ast.Ident:
			name = f.Name
		case *ast.SelectorExpr:
			name = f.Sel.Name
			recvExpr = f.X
		}
		if name != plan.Callee || (plan.Recv != "") != (recvExpr != nil) {
			return nil, nil, false, nil
		}
		return call, lhs, define, recvExpr
	}
	// locate, in a parse, the for statement whose body directly holds the call, and the index
	locate := func(f *ast.File) (*ast.ForStmt, int) {
		caller := find(f, plan.Caller, plan.CallerRecv)
		if caller == nil {
			return nil, -1
		}
		var loop *ast.ForStmt
		idx := -1
		ast.Inspect(caller.Body, func(n ast.Node) bool {
			if _, isLit := n.(*ast.FuncLit); isLit {
				return false
			}
			if fs, ok := n.(*ast.ForStmt); ok && loop == nil {
				for i, st := range fs.Body.List {
					if c, _, _, _ := isPlanCall(st); c != nil {
						loop, idx = fs, i
					}
				}
			}
			return true
		})
		return loop, idx
	}
	caller := find(file, plan.Caller, plan.CallerRecv)
	if caller == nil || len(donors) == 0 {
		return fmt.Errorf("functions of the plan not found")
	}
	g := find(donors[0], plan.Callee, plan.Recv)
	loop, idx := locate(file)
	if g == nil || loop == nil {
		return fmt.Errorf("the call of the helper is not a statement directly in the body of a for loop")
	}
	call, lhs, define, recvExpr := isPlanCall(loop.Body.List[idx])
	const loopLabel = "verifRequestLoop"
	// parameters
	var pnames []*ast.Ident
	if g.Recv != nil && len(g.Recv.List) == 1 {
		if len(g.Recv.List[0].Names) == 1 {
			pnames = append(pnames, g.Recv.List[0].Names[0])
		} else {
			pnames = append(pnames, ast.NewIdent("_"))
		}
	}
	for _, f := range g.Type.Params.List {
		if len(f.Names) == 0 {
			pnames = append(pnames, ast.NewIdent("_"))
		}
		pnames = append(pnames, f.Names...)
	}
	var rtypes []ast.Expr
	if g.Type.Results != nil {
		for _, f := range g.Type.Results.List {
			n := len(f.Names)
			if n == 0 {
				n = 1
			}
			for k := 0; k < n; k++ {
				rtypes = append(rtypes, f.Type)
			}
		}
	}
	if len(lhs) != 0 && len(lhs) != len(rtypes) {
		return fmt.Errorf("result arity mismatch")
	}
	var results []ast.Expr
	var pre []ast.Stmt
	for i, rt := range rtypes {
		var target ast.Expr = ast.NewIdent("_")
		if i < len(lhs) {
			target = lhs[i]
		}
		if id, ok := target.(*ast.Ident); ok && define && id.Name != "_" {
			pre = append(pre, &ast.DeclStmt{Decl: &ast.GenDecl{Tok: token.VAR, Specs: []ast.Spec{&ast.ValueSpec{Names: []*ast.Ident{ast.NewIdent(id.Name)}, Type: rt}}}})
			pre = append(pre, &ast.AssignStmt{Lhs: []ast.Expr{ast.NewIdent("_")}, Tok: token.ASSIGN, Rhs: []ast.Expr{ast.NewIdent(id.Name)}})
		}
		results = append(results, target)
	}
	var args []ast.Expr
	if recvExpr != nil {
		args = append(args, recvExpr)
	}
	args = append(args, call.Args...)
	if len(args) != len(pnames) {
		return fmt.Errorf("argument arity mismatch")
	}
	var inner []ast.Stmt
	if len(args) > 0 {
		var l []ast.Expr
		allBlank := true
		for _, p := range pnames {
			l = append(l, ast.NewIdent(p.Name))
			if p.Name != "_" {
				allBlank = false
			}
		}
		tok := token.DEFINE
		if allBlank {
			tok = token.ASSIGN
		}
		inner = append(inner, &ast.AssignStmt{Lhs: l, Tok: tok, Rhs: args})
		for _, p := range pnames {
			if p.Name != "_" {
				inner = append(inner, &ast.AssignStmt{Lhs: []ast.Expr{ast.NewIdent("_")}, Tok: token.ASSIGN, Rhs: []ast.Expr{ast.NewIdent(p.Name)}})
			}
		}
	}
	// copies of the continuation, one per return (and one for falling off the end)
	nextDonor := 1
	continuation := func() ([]ast.Stmt, error) {
		if nextDonor >= len(donors) {
			return nil, fmt.Errorf("more return statements than prepared copies")
		}
		dl, di := locate(donors[nextDonor])
		nextDonor++
		if dl == nil || di != idx {
			return nil, fmt.Errorf("continuation not found in a copy")
		}
		k := append([]ast.Stmt{}, dl.Body.List[di+1:]...)
		// unlabelled break/continue of the request loop get its label (they now sit inside the
		// helper's own statements)
		for _, st := range k {
			labelLoopJumps(st, loopLabel)
		}
		return k, nil
	}
	var rerr error
	body := g.Body
	astutil.Apply(body, func(c2 *astutil.Cursor) bool {
		if _, isLit := c2.Node().(*ast.FuncLit); isLit {
			return false
		}
		ret, ok := c2.Node().(*ast.ReturnStmt)
		if !ok {
			return true
		}
		var stmts []ast.Stmt
		if len(ret.Results) > 0 {
			var l []ast.Expr
			for _, r := range results {
				if id, ok := r.(*ast.Ident); ok {
					l = append(l, ast.NewIdent(id.Name))
				} else {
					l = append(l, r)
				}
			}
			stmts = append(stmts, &ast.AssignStmt{Lhs: l, Tok: token.ASSIGN, Rhs: ret.Results, TokPos: ret.Pos()})
		}
		k, err := continuation()
		if err != nil {
			rerr = err
			return false
		}
		stmts = append(stmts, k...)
		stmts = append(stmts, &ast.BranchStmt{Tok: token.CONTINUE, Label: ast.NewIdent(loopLabel), TokPos: ret.Pos()})
		c2.Replace(&ast.BlockStmt{List: stmts, Lbrace: ret.Pos()})
		return false
	}, nil)
	if rerr != nil {
		return rerr
	}
	inner = append(inner, body.List...)
	if len(rtypes) == 0 {
		// a helper without results can fall off its end: then the continuation runs
		k, err := continuation()
		if err != nil {
			return err
		}
		inner = append(inner, k...)
	}
	nl := append([]ast.Stmt{}, loop.Body.List[:idx]...)
	nl = append(nl, pre...)
	nl = append(nl, &ast.BlockStmt{List: inner})
	loop.Body.List = nl
	// label the request loop
	labelled := false
	astutil.Apply(caller.Body, func(c *astutil.Cursor) bool {
		if ls, ok := c.Node().(*ast.LabeledStmt); ok && ls.Stmt == ast.Stmt(loop) {
			labelled = true // already labelled: reuse would need renaming our jumps
			return false
		}
		if c.Node() == ast.Node(loop) && !labelled {
			c.Replace(&ast.LabeledStmt{Label: ast.NewIdent(loopLabel), Stmt: loop})
			labelled = true
			return false
		}
		return true
	}, nil)
	// the helper has no use left
	for i, d := range file.Decls {
		if fd, ok := d.(*ast.FuncDecl); ok && fd.Name.Name == plan.Callee && recvTypeName(fd) == plan.Recv {
			file.Decls = append(file.Decls[:i:i], file.Decls[i+1:]...)
			break
		}
	}
	return nil
}

// labelLoopJumps gives the unlabelled break/continue statements of st that bind to the
// enclosing request loop (not to a loop/switch/select nested in st) the loop's label.
func labelLoopJumps(st ast.Stmt, label string) {
	var walk func(n ast.Node, inLoop, inBreakable bool)
	walk = func(n ast.Node, inLoop, inBreakable bool) {
		ast.Inspect(n, func(x ast.Node) bool {
			if x == nil || x == n {
				return true
			}
			switch y := x.(type) {
			case *ast.FuncLit:
				return false
			case *ast.ForStmt:
				walk(y.Body, true, true)
				return false
			case *ast.RangeStmt:
				walk(y.Body, true, true)
				return false
			case *ast.SwitchStmt:
				walk(y.Body, inLoop, true)
				return false
			case *ast.TypeSwitchStmt:
				walk(y.Body, inLoop, true)
				return false
			case *ast.SelectStmt:
				walk(y.Body, inLoop, true)
				return false
			case *ast.BranchStmt:
				if y.Label == nil {
					if y.Tok == token.BREAK && !inBreakable {
						y.Label = ast.NewIdent(label)
					}
					if y.Tok == token.CONTINUE && !inLoop {
						y.Label = ast.NewIdent(label)
					}
				}
			}
			return true
		})
	}
	if bs, ok := st.(*ast.BranchStmt); ok && bs.Label == nil && (bs.Tok == token.BREAK || bs.Tok == token.CONTINUE) {
		bs.Label = ast.NewIdent(label)
		return
	}
	walk(st, false, false)
}

// normalisingParseFile returns a ParseFile hook applying the plan to its file.
func normalisingParseFile(plan *inlinePlan, failed *string) func(fset *token.FileSet, filename string, src []byte) (*ast.File, error) {
	return func(fset *token.FileSet, filename string, src []byte) (*ast.File, error) {
		const mode = parser.AllErrors | parser.ParseComments
		f, err := parser.ParseFile(fset, filename, src, mode)
		if err != nil || filename != plan.File {
			return f, err
		}
		tf := fset.File(f.Pos())
		var donors []*ast.File
		for k := 0; k < 24; k++ {
			d, err2 := parser.ParseFile(fset, filename, src, mode)
			if err2 != nil || tf == nil {
				return f, err
			}
			// the donors' nodes must carry positions inside f's file (the type checker looks
			// the file of a position up among the files it was given): all parses are of the
			// same bytes, so positions differ by the difference of the file bases
			shiftPositions(d, token.Pos(tf.Base()-fset.File(d.Pos()).Base()))
			donors = append(donors, d)
		}
		if e := rewriteOutlined(plan, f, donors); e != nil {
			*failed = e.Error()
			f2, err3 := parser.ParseFile(fset, filename, src, mode)
			return f2, err3
		}
		return f, nil
	}
}

// shiftPositions adds delta to every token.Pos field below n.
func shiftPositions(n ast.Node, delta token.Pos) {
	posType := reflect.TypeOf(token.NoPos)
	ast.Inspect(n, func(x ast.Node) bool {
		if x == nil {
			return true
		}
		v := reflect.ValueOf(x)
		if v.Kind() != reflect.Ptr || v.IsNil() {
			return true
		}
		v = v.Elem()
		if v.Kind() != reflect.Struct {
			return true
		}
		for i := 0; i < v.NumField(); i++ {
			f := v.Field(i)
			if f.Type() == posType && f.CanSet() && f.Int() != 0 {
				f.SetInt(f.Int() + int64(delta))
			}
		}
		return true
	})
}

var normaliseNote string

func debugNormalise(format string, a ...any) {
	if os.Getenv("DEBUGNORM") != "" {
		fmt.Fprintf(os.Stderr, "normalise: "+format+"\n", a...)
	}
}
