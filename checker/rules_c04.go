package main

import (
	"fmt"
	"go/token"
	"sort"
	"strings"

	"golang.org/x/tools/go/ssa"
)

func init() {
	register(&propInfo{ID: "C04", Level: "other", Run: runC04,
		Explanation: "Static rules: R04.a exactly one call site in the repository's production packages can put bytes on a client connection, and it is in the response writer called by the connection loop (handlers and executors cannot write frames of their own); R04.b what that site writes is, on every path, the result of Message.RESPBytes() of some message with its error checked — never a raw payload; R04.c in the serializer the payload of status/error/integer replies reaches the output only through a recognised CR/LF-removing transformation (ReplaceAll chains, Replacer, Map with a checked rune filter, or a Contains/IndexByte guard covering both bytes); R04.d every serializer path emits a complete frame of its type into a fresh local buffer (emission grammar of C01, array count = elements written). Together: client-controlled bytes and handler results cannot add, split or truncate a reply frame. A handler returning a message of an undeclared type, or an array with a nil element (a panic, contained by C07), is outside what is decided."})
}

func runC04(c *Ctx) {
	ruleSingleWriteSite(c)
	ruleWriteIsSerialized(c)
	ruleLineSanitised(c)
	ruleEmissionGrammar(c, "R04.d", false)
	ruleNoWriteAfterFailedWrite(c, "R04.e")
	ruleNoWriteThroughView(c, "R04.f")
}

func ruleSingleWriteSite(c *Ctx) { ruleSingleWriteSiteAs(c, "R04.a") }

func ruleSingleWriteSiteAs(c *Ctx, rid string) {
	c.rule(rid, "A3 who-may-write: call sites located in production packages of the repository that write to a client connection (Write/WriteString/ReadFrom on net.Conn, io.Writer, *tls.Conn, *redis.Conn; io.Copy*/io.WriteString/fmt.Fprint* onto such a value; writes into local buffers excluded) — exactly one may exist and it must be in the response writer that the connection loop calls")
	respWriters := map[*ssa.Function]bool{}
	writersAll := c.P.connWriters()
	for _, cl := range c.P.connLoops() {
		for _, r := range cl.Resp {
			if f := staticCallee(r.Common()); f != nil {
				// the writer itself, or the writer(s) reached through a wrapping helper
				var visit func(g *ssa.Function, d int)
				seen := map[*ssa.Function]bool{}
				visit = func(g *ssa.Function, d int) {
					if g == nil || seen[g] || d > 4 || !inFramework(g) {
						return
					}
					seen[g] = true
					if writersAll[g] {
						respWriters[g] = true
					}
					for _, cal := range calleesIn(g) {
						visit(cal, d+1)
					}
				}
				visit(f, 0)
			}
		}
	}
	n := 0
	for _, fn := range c.P.RepoFuncs(modPath) {
		if !inProd(fn) {
			continue
		}
		ord := 0
		allInstrs(fn, func(ins ssa.Instruction) {
			cc := callCommon(ins)
			if cc == nil || !isConnWriteCall(cc) {
				return
			}
			if cc.IsInvoke() && isLocalBuffer(cc.Value) {
				return
			}
			if !cc.IsInvoke() && len(cc.Args) > 0 && isLocalBuffer(cc.Args[0]) {
				return
			}
			// io.Writer values that provably are local buffers / hash / builder were excluded; everything
			// else of writer type counts
			ord++
			n++
			key := fmt.Sprintf("%s/write#%d", c.P.key(fn), ord)
			if respWriters[fn] {
				c.ok(rid, key, c.P.instrPos(ins), "the connection write site of the response writer")
			} else {
				c.bad(rid, key, c.P.instrPos(ins), "bytes are written to a connection outside the single response writer: a frame of its own making bypasses the serializer and the one-reply-per-request discipline")
			}
		})
	}
	c.count("connection-write-sites", n)
	c.floor("connection-write-sites", 1)
	if n > 1 {
		c.bad(rid, "site-count", "", fmt.Sprintf("%d connection write sites exist; exactly one is allowed", n))
	}
}

func ruleWriteIsSerialized(c *Ctx) {
	rid := "R04.b"
	c.rule(rid, "on every path of the response writer the bytes handed to Write are the first result of (*Message).RESPBytes() of a message, and the Write is dominated by the nil test of that call's error")
	for w := range c.P.connWriters() {
		if !inFramework(w) {
			continue
		}
		c.analysed(w)
		ord := 0
		allInstrs(w, func(ins ssa.Instruction) {
			call, ok := ins.(*ssa.Call)
			if !ok || !isConnWriteCall(call.Common()) {
				return
			}
			ord++
			key := fmt.Sprintf("%s/write#%d/provenance", fnName(w), ord)
			args := callArgs(call.Common())
			if len(args) < 2 {
				c.undecided(rid, key, c.P.instrPos(call), "write call shape not recognised")
				return
			}
			data := args[1]
			var problems []string
			var errs []ssa.Value
			var visit func(v ssa.Value, d int)
			visit = func(v ssa.Value, d int) {
				if d > 6 {
					problems = append(problems, "provenance too deep")
					return
				}
				if phi, ok := v.(*ssa.Phi); ok {
					for _, e := range phi.Edges {
						visit(e, d+1)
					}
					return
				}
				sv := strip(v)
				if phi, ok := sv.(*ssa.Phi); ok && sv != v {
					visit(phi, d+1)
					return
				}
				ex, ok := sv.(*ssa.Extract)
				if ok && ex.Index == 0 {
					if cl, ok := ex.Tuple.(*ssa.Call); ok && calleeName(cl.Common()) == nRESPBytes {
						errs = append(errs, cl)
						return
					}
					// the same serializer reached through an unexported interface of the
					// repository: every implementation the call graph resolves is a proto serializer
					if cl, ok := ex.Tuple.(*ssa.Call); ok && cl.Common().IsInvoke() && cl.Common().Method.Name() == "RESPBytes" {
						targets := c.P.calleesAt(cl)
						okAll := len(targets) > 0
						for _, t := range targets {
							if n := fnName(t); !(strings.HasSuffix(n, "proto.Message).RESPBytes") || strings.HasSuffix(n, "proto.Array).RESPBytes")) {
								okAll = false
							}
						}
						if okAll {
							errs = append(errs, cl)
							return
						}
					}
				}
				problems = append(problems, fmt.Sprintf("bytes written come from %s, not from Message.RESPBytes()", describeValue(sv)))
			}
			visit(data, 0)
			// error checked: the write's block has a nil fact on an error value that is (a phi of) the RESPBytes errors
			errOK := false
			for _, at := range factsAt(call.Block()) {
				if at.Kind != "nil" || !at.Pos {
					continue
				}
				if coversErrs(at.X, errs, 0) {
					errOK = true
				}
			}
			if len(problems) == 0 && !errOK {
				problems = append(problems, "the Write is not dominated by a nil test of the serializer's error: a partially serialized reply could be written")
			}
			if len(problems) == 0 {
				c.ok(rid, key, c.P.instrPos(call), fmt.Sprintf("all %d sources are Message.RESPBytes() results; error tested before the write", len(errs)))
			} else {
				c.bad(rid, key, c.P.instrPos(call), strings.Join(problems, "; "))
			}
		})
	}
}

func describeValue(v ssa.Value) string {
	if ex, ok := v.(*ssa.Extract); ok {
		if cl, ok := ex.Tuple.(*ssa.Call); ok {
			return calleeName(cl.Common()) + "()"
		}
	}
	if cl, ok := v.(*ssa.Call); ok {
		return calleeName(cl.Common()) + "()"
	}
	return v.String()
}

// coversErrs: v is the error result of every call in calls (directly or through a phi).
func coversErrs(v ssa.Value, calls []ssa.Value, d int) bool {
	if d > 4 {
		return false
	}
	if phi, ok := v.(*ssa.Phi); ok {
		for _, e := range phi.Edges {
			if !coversErrs(e, calls, d+1) {
				return false
			}
		}
		return len(phi.Edges) > 0
	}
	ex, ok := strip(v).(*ssa.Extract)
	if !ok || ex.Index != 1 {
		return false
	}
	for _, cl := range calls {
		if ex.Tuple == cl {
			return true
		}
	}
	return false
}

func ruleLineSanitised(c *Ctx) {
	rid := "R04.c"
	c.rule(rid, "A7: on every status/error/integer path of Message.RESPBytes the payload is written only through a CR/LF sanitiser — a function all of whose return values are proven free of both CR and LF (ReplaceAll/Replace(-1)/Replacer chains with constant operands, Map with a rune filter that never returns CR/LF, or the argument itself under Contains*/Index* tests covering both bytes)")
	tt := readTypeTables(c.P)
	fn := c.P.Method(pkgProto, "Message", "RESPBytes")
	if !c.anchor(rid, fn, "proto.(*Message).RESPBytes") {
		return
	}
	m := serializerModel(c.P, fn, tt)
	if m.Mode == "" {
		c.undecided(rid, "Message.RESPBytes/buffer", c.P.pos(fn.Pos()), "no output accumulator found: the serializer does not build its frame in a fresh local buffer or append chain (a shared or pooled buffer can be overwritten before the reply is written): "+m.Why)
		return
	}
	typeField := fn.Params[0].Name() + ".Type"
	type site struct {
		ins  ssa.Instruction
		good bool
		msg  string
	}
	sites := map[ssa.Instruction]*site{}
	for _, pth := range m.Paths {
		line := false
		for _, k := range feasibleTypes(pth.Facts, typeField, tt) {
			if b, ok := tt.typeToByte[k]; ok && (b == '+' || b == '-' || b == ':') {
				line = true
			}
		}
		for _, t := range pth.Toks {
			switch t.K {
			case "San", "SanRune":
				if sites[t.Ins] == nil {
					sites[t.Ins] = &site{ins: t.Ins, good: true, msg: "payload written through a proven CR/LF sanitiser"}
				}
			case "Unknown":
				if strings.Contains(t.S, ".bytes") || strings.Contains(t.S, "msg") {
					sites[t.Ins] = &site{ins: t.Ins, msg: "payload written through a function that is not a proven CR/LF sanitiser: " + t.S}
				}
			case "Payload":
				// a raw payload write on a path some line type can take
				if line && payloadValidated(pth.Facts, t.S) {
					if sites[t.Ins] == nil {
						sites[t.Ins] = &site{ins: t.Ins, good: true, msg: "payload written only where a test excluded CR and LF (a payload containing them is refused)"}
					}
				} else if line {
					sites[t.Ins] = &site{ins: t.Ins, msg: "the payload of a status/error/integer reply is written verbatim: a CR or LF in it ends the frame early and lets the rest be read as further replies"}
				}
			}
		}
	}
	var order []*site
	for _, st := range sites {
		order = append(order, st)
	}
	sort.Slice(order, func(i, j int) bool { return order[i].ins.Pos() < order[j].ins.Pos() })
	n := 0
	for _, st := range order {
		n++
		key := fmt.Sprintf("Message.RESPBytes/line-payload#%d", n)
		if st.good {
			c.ok(rid, key, c.P.instrPos(st.ins), st.msg)
		} else {
			c.bad(rid, key, c.P.instrPos(st.ins), st.msg)
		}
	}
	c.count("line-payload-writes", n)
	c.floor("line-payload-writes", 1)
}

// feasibleTypes: the declared message types consistent with the type tests among facts.
func feasibleTypes(facts []Atom, typeField string, tt typeTables) []int64 {
	var out []int64
	for _, k := range tt.consts {
		ok := true
		for _, at := range facts {
			if at.Kind != "eq" {
				continue
			}
			f, isT := canonField(at.X)
			if !isT || f != typeField {
				continue
			}
			cv, isC := constInt(at.Y)
			if !isC {
				continue
			}
			if at.Pos != (cv == k) {
				ok = false
			}
		}
		if ok {
			out = append(out, k)
		}
	}
	return out
}

// feasibleTypesAt: message types for which block b of the serializer is reachable, from dominating facts.
func feasibleTypesAt(b *ssa.BasicBlock, fn *ssa.Function, tt typeTables) []int64 {
	recv := fn.Params[0].Name()
	var out []int64
	for _, k := range tt.consts {
		ok := true
		for _, at := range factsAt(b) {
			if at.Kind != "eq" {
				continue
			}
			f, isT := canonField(at.X)
			if !isT || f != recv+".Type" {
				continue
			}
			cv, isC := constInt(at.Y)
			if !isC {
				continue
			}
			if at.Pos != (cv == k) {
				ok = false
			}
		}
		if ok {
			out = append(out, k)
		}
	}
	return out
}

// ruleSerializerTotal: a reply that cannot be serialized is not written at all (responseMessage
// returns before the write), so the request stays unanswered and later replies shift. The
// serializer may therefore fail only for a message type outside the table (never built by the
// constructors) or by passing on the failure of a nested element — never depending on the
// payload's content.
func ruleSerializerTotal(c *Ctx, rid string) {
	c.rule(rid, "every error return of Message.RESPBytes is either under the failed lookup of the message type in the type table or hands on the error of the nested array/element serialization: no payload content makes a reply unserializable")
	tt := readTypeTables(c.P)
	fn := c.P.Method(pkgProto, "Message", "RESPBytes")
	if !c.anchor(rid, fn, "proto.(*Message).RESPBytes") {
		return
	}
	m := serializerModel(c.P, fn, tt)
	if m.Mode == "" {
		c.undecided(rid, "Message.RESPBytes/buffer", c.P.pos(fn.Pos()), "no output accumulator found: "+m.Why)
		return
	}
	n, bad := 0, 0
	seen := map[string]bool{}
	for _, p := range m.Paths {
		if len(p.Ret.Results) != 2 || isNilConst(retOperand(p.Ret, 1)) {
			continue
		}
		n++
		okPath := false
		for _, at := range p.Facts {
			// failed type lookup
			if at.Kind == "val" && !at.Pos {
				if ex, ok := at.X.(*ssa.Extract); ok && ex.Index == 1 {
					if cl, ok := ex.Tuple.(*ssa.Call); ok && isTypeToByteFn(staticCallee(cl.Common())) {
						okPath = true
					}
				}
			}
			// error of the nested array accessor / serializer
			if at.Kind == "nil" && !at.Pos {
				if ex, ok := at.X.(*ssa.Extract); ok {
					if cl, ok := ex.Tuple.(*ssa.Call); ok {
						nme := calleeName(cl.Common())
						if nme == nArrRESPBytes || nme == nRESPBytes || strings.HasSuffix(nme, "proto.Message).Array") {
							okPath = true
						}
					}
				}
			}
		}
		if !okPath {
			pos := c.P.instrPos(p.Ret)
			if !seen[pos] {
				seen[pos] = true
				bad++
				c.bad(rid, fmt.Sprintf("Message.RESPBytes/error-return#%d", bad), pos, "the serializer can fail for a message of a declared type depending on its payload: the reply is dropped without anything being written, the request stays unanswered")
			}
		}
	}
	if bad == 0 {
		c.ok(rid, "Message.RESPBytes/error-returns", c.P.pos(fn.Pos()), fmt.Sprintf("%d error paths, all for an undeclared type or a nested failure", n))
	}
}

// payloadValidated: the path facts exclude CR and LF from the payload field: a negative
// bytes.ContainsAny/Contains*/Index* test on it, or the nil result of a repository validator
// (a function returning an error that is nil only where such tests on its parameter hold).
func payloadValidated(facts []Atom, field string) bool {
	isField := func(v ssa.Value) bool {
		v = strip(v)
		if cv, ok := v.(*ssa.Convert); ok {
			v = strip(cv.X)
		}
		f, ok := canonField(v)
		return ok && f == field
	}
	absent := map[byte]bool{}
	for _, at := range facts {
		switch at.Kind {
		case "call":
			cc := at.Call.Common()
			if at.Pos || len(cc.Args) < 2 || !isField(cc.Args[0]) {
				continue
			}
			switch calleeName(cc) {
			case "bytes.ContainsAny", "strings.ContainsAny":
				if s, ok := constString(cc.Args[1]); ok {
					for _, ch := range []byte(s) {
						absent[ch] = true
					}
				}
			case "bytes.ContainsRune", "strings.ContainsRune":
				if cv, ok := constInt(cc.Args[1]); ok {
					absent[byte(cv)] = true
				}
			case "bytes.Contains", "strings.Contains":
				if bs, ok := constBytes(cc.Args[1]); ok && len(bs) == 1 {
					absent[bs[0]] = true
				}
			}
		case "nil":
			if !at.Pos {
				continue
			}
			call, ok := at.X.(*ssa.Call)
			if !ok || !isErrorType(call.Type()) {
				continue
			}
			h := staticCallee(call.Common())
			if h == nil || !inRepo(h) || h.Blocks == nil || len(h.Params) != 1 || len(call.Common().Args) != 1 || !isField(call.Common().Args[0]) {
				continue
			}
			okAll, any := true, false
			for _, r := range returnsOf(h) {
				if len(r.Results) != 1 || !isNilConst(retOperand(r, 0)) {
					if len(r.Results) == 1 && !definitelyNonNil(strip(retOperand(r, 0))) && !isErrCtorCall(strip(retOperand(r, 0))) {
						if cl, isCall := strip(retOperand(r, 0)).(*ssa.Call); !isCall || !nameIn(calleeName(cl.Common()), "fmt.Errorf", "errors.New") {
							okAll = false
						}
					}
					continue
				}
				any = true
				ab := absentByFacts(h.Params[0], factsAt(r.Block()))
				if !(ab['\r'] && ab['\n']) {
					okAll = false
				}
			}
			if any && okAll {
				absent['\r'], absent['\n'] = true, true
			}
		}
	}
	return absent['\r'] && absent['\n']
}

// ruleNoWriteAfterFailedWrite: the connection loop logs a failed reply write and goes on (so
// that requests already received are still executed). That is harmless only because a write
// on a TCP connection fails for good: nothing written later can reach the client. A write
// deadline changes this — a write can time out after part of the frame went out, and the next
// reply is then appended to the truncated frame. So: either no deadline that covers writes is
// ever armed on a client connection, or the failed-write edge leaves the loop.
func ruleNoWriteAfterFailedWrite(c *Ctx, rid string) {
	c.rule(rid, "no SetDeadline/SetWriteDeadline is called on a client connection anywhere in the framework while the request loop continues after a failed reply write (a timed-out partial write followed by further replies corrupts the frame stream)")
	var sites []ssa.Instruction
	closedAfter := 0
	for _, fn := range c.P.RepoFuncs(pkgRedis) {
		if !inFramework(fn) {
			continue
		}
		allInstrs(fn, func(ins ssa.Instruction) {
			cc := callCommon(ins)
			if cc == nil {
				return
			}
			n := calleeName(cc)
			if strings.HasSuffix(n, ".SetDeadline") || strings.HasSuffix(n, ".SetWriteDeadline") {
				recv := cc.Value
				if !cc.IsInvoke() && len(cc.Args) > 0 {
					recv = cc.Args[0]
				}
				if recv != nil && (isConnLikeType(recv.Type()) || isConnLikeType(strip(recv).Type())) {
					if closedOnEveryWayOut(ins, recv) {
						closedAfter++
						return // the connection is closed before the function returns: it is never served afterwards
					}
					sites = append(sites, ins)
				}
			}
		})
	}
	c.count("write-deadlines-on-connections-closed-at-once", closedAfter)
	if len(sites) == 0 {
		c.ok(rid, "no-write-deadline", "", "no deadline covering writes is armed on a client connection that is served afterwards: a failed write is final")
		return
	}
	// deadlines exist: the loop must not write again after a failed write
	continues := false
	for _, cl := range c.P.connLoops() {
		if cl.Loop == nil {
			continue
		}
		for _, r := range cl.Resp {
			for _, b := range cl.Loop.sortedBlocks() {
				for idx, s := range b.Succs {
					if deadEdge(b, idx) || !cl.Loop.Blocks[s] {
						continue
					}
					for _, at := range edgeOnly(b, idx) {
						if at.Kind == "nil" && !at.Pos && at.X == ssa.Value(r) {
							if reachableBlocks(s, nil)[cl.Loop.Header] {
								continues = true
							}
						}
					}
				}
			}
			// the error is not even tested: the loop certainly continues
			tested := false
			if r.Referrers() != nil {
				for _, u := range *r.Referrers() {
					if bo, ok := u.(*ssa.BinOp); ok && isNilCompare(bo, r) {
						tested = true
					}
				}
			}
			if !tested {
				continues = true
			}
		}
	}
	for i, s := range sites {
		key := fmt.Sprintf("%s/write-deadline#%d", c.P.key(s.Parent()), i+1)
		if continues {
			c.bad(rid, key, c.P.instrPos(s), "a deadline that covers writes is armed on the client connection, and the request loop keeps replying after a failed write: a reply cut by the timeout is followed by further frames")
		} else {
			c.ok(rid, key, c.P.instrPos(s), "write deadline armed; a failed reply write ends the request loop")
		}
	}
}

// closedOnEveryWayOut: every path from ins to a return of its function passes a Close() call on
// the same connection (the deadline dies with the connection: a refusal written to a client
// that is then dropped).
func closedOnEveryWayOut(ins ssa.Instruction, conn ssa.Value) bool {
	want := connObjectOf(conn)
	isClose := func(x ssa.Instruction) bool {
		cc := callCommon(x)
		if cc == nil || !strings.HasSuffix(calleeName(cc), ".Close") {
			return false
		}
		recv := cc.Value
		if !cc.IsInvoke() && len(cc.Args) > 0 {
			recv = cc.Args[0]
		}
		return recv != nil && connObjectOf(recv) == want
	}
	b0 := ins.Block()
	// a deferred Close registered on the way to the site runs at every return
	deferred := false
	allInstrs(ins.Parent(), func(x ssa.Instruction) {
		if d, ok := x.(*ssa.Defer); ok && isClose(d) && (d.Block() == b0 || d.Block().Dominates(b0)) {
			deferred = true
		}
	})
	if deferred {
		return true
	}
	start := instrIndex(ins) + 1
	seen := map[*ssa.BasicBlock]bool{}
	var walk func(b *ssa.BasicBlock, from int) bool
	walk = func(b *ssa.BasicBlock, from int) bool {
		for i := from; i < len(b.Instrs); i++ {
			if isClose(b.Instrs[i]) {
				return true
			}
			if _, isRet := b.Instrs[i].(*ssa.Return); isRet {
				return false
			}
		}
		if len(b.Succs) == 0 {
			return false
		}
		for _, s := range b.Succs {
			if seen[s] {
				continue
			}
			seen[s] = true
			if !walk(s, 0) {
				return false
			}
		}
		return true
	}
	return walk(b0, start)
}

// ruleNoReadDeadlineLeftArmed: a deadline that covers reads, armed on a client connection that is
// served afterwards, turns a client that is merely idle or slow into one whose next request is
// never answered (the parser's Read times out and the loop closes the connection). Arming one is
// accepted only when the same function clears it again on every way out — directly or by a
// deferred call — with SetReadDeadline or SetDeadline of the zero time. (SetDeadline arms both
// directions: clearing the write side alone leaves the read side armed.)
func ruleNoReadDeadlineLeftArmed(c *Ctx, rid string) {
	c.rule(rid, "every SetDeadline/SetReadDeadline with a non-zero time on a client connection that is served afterwards is followed, on every path to the function's return (or by a deferred call), by SetReadDeadline or SetDeadline with the zero time on the same connection")
	isZeroTime := func(v ssa.Value) bool {
		v = strip(v)
		if k, ok := v.(*ssa.Const); ok {
			return k.Value == nil
		}
		if ld, ok := v.(*ssa.UnOp); ok && ld.Op == token.MUL {
			if a, ok := ld.X.(*ssa.Alloc); ok && len(allocStores(a)) == 0 {
				return true
			}
		}
		return false
	}
	n, bad, configured := 0, 0, 0
	for _, fn := range c.P.RepoFuncs(pkgRedis) {
		if !inFramework(fn) {
			continue
		}
		type site struct {
			ins  ssa.Instruction
			recv ssa.Value
		}
		var arms []site
		clears := func(ins ssa.Instruction, recv ssa.Value) bool {
			cc := callCommon(ins)
			if cc == nil {
				return false
			}
			nme := calleeName(cc)
			if !(strings.HasSuffix(nme, ".SetDeadline") || strings.HasSuffix(nme, ".SetReadDeadline")) {
				return false
			}
			args := cc.Args
			r := cc.Value
			if !cc.IsInvoke() && len(args) > 0 {
				r, args = args[0], args[1:]
			}
			return len(args) == 1 && isZeroTime(args[0]) && connObjectOf(r) == connObjectOf(recv)
		}
		allInstrs(fn, func(ins ssa.Instruction) {
			if _, isDefer := ins.(*ssa.Defer); isDefer {
				return
			}
			cc := callCommon(ins)
			if cc == nil {
				return
			}
			nme := calleeName(cc)
			if !(strings.HasSuffix(nme, ".SetDeadline") || strings.HasSuffix(nme, ".SetReadDeadline")) {
				return
			}
			args := cc.Args
			recv := cc.Value
			if !cc.IsInvoke() && len(args) > 0 {
				recv, args = args[0], args[1:]
			}
			if recv == nil || len(args) != 1 || isZeroTime(args[0]) {
				return
			}
			if !(isConnLikeType(recv.Type()) || isConnLikeType(strip(recv).Type())) {
				return
			}
			if closedOnEveryWayOut(ins, recv) {
				return
			}
			if derivesFromConfig(args[0], 0) {
				// an idle timeout the operator configures (Redis' `timeout`): closing idle clients
				// is then the configured behaviour, not a side effect of another change
				configured++
				return
			}
			arms = append(arms, site{ins, recv})
		})
		for i, a := range arms {
			n++
			c.analysed(fn)
			key := fmt.Sprintf("%s/read-deadline#%d", fnName(fn), i)
			cleared := mustPassThroughFrom(fn, a.ins, func(ins ssa.Instruction) bool { return clears(ins, a.recv) })
			if !cleared {
				// a deferred clearing call registered anywhere in the function
				allInstrs(fn, func(ins ssa.Instruction) {
					if d, ok := ins.(*ssa.Defer); ok && clears(d, a.recv) {
						cleared = true
					}
				})
			}
			if cleared {
				c.ok(rid, key, c.P.instrPos(a.ins), "the deadline is cleared for reads before the function returns")
			} else {
				bad++
				c.bad(rid, key, c.P.instrPos(a.ins), "a deadline covering reads is armed on a client connection and not cleared for reads on every way out: an idle or slow client's next request is cut off and never answered")
			}
		}
	}
	c.count("read-deadline-sites", n)
	c.count("operator-configured-idle-deadlines", configured)
	if n == 0 {
		c.ok(rid, "no-read-deadline", "", "no deadline covering reads is armed on a client connection that is served afterwards")
	}
}

// mustPassThroughFrom: every path from just after `from` to a return of fn executes an instruction accepted by hit.
func mustPassThroughFrom(fn *ssa.Function, from ssa.Instruction, hit func(ssa.Instruction) bool) bool {
	type st struct{ Live, Hit bool }
	ok := true
	a := &Auto[st]{Fn: fn, Init: st{},
		Step: func(s st, ins ssa.Instruction, fail func(string)) []st {
			if ins == from {
				return []st{{Live: true}}
			}
			if !s.Live {
				return []st{s}
			}
			if hit(ins) {
				s.Hit = true
			}
			if r, isRet := ins.(*ssa.Return); isRet && r.Block() != fn.Recover && !s.Hit {
				ok = false
			}
			return []st{s}
		}}
	a.Run()
	return ok
}

// derivesFromConfig: the time value is computed (time.Now().Add(d), arithmetic, conversions)
// from the result of a Config* accessor of the server configuration.
func derivesFromConfig(v ssa.Value, d int) bool {
	if v == nil || d > 8 {
		return false
	}
	v = strip(v)
	switch x := v.(type) {
	case *ssa.Call:
		cc := x.Common()
		if n := calleeName(cc); strings.Contains(n, ").Config") || strings.Contains(n, ".Config") && cc.IsInvoke() {
			return true
		}
		for _, a := range cc.Args {
			if derivesFromConfig(a, d+1) {
				return true
			}
		}
	case *ssa.Extract:
		return derivesFromConfig(x.Tuple, d+1)
	case *ssa.BinOp:
		return derivesFromConfig(x.X, d+1) || derivesFromConfig(x.Y, d+1)
	case *ssa.Convert:
		return derivesFromConfig(x.X, d+1)
	case *ssa.Phi:
		for _, e := range x.Edges {
			if derivesFromConfig(e, d+1) {
				return true
			}
		}
	case *ssa.Parameter:
		fn := x.Parent()
		if theProgram == nil {
			return false
		}
		// (an exported setter may also be called by the application: then the timeout is the
		// application's choice, like the operator's)
		idx := -1
		for i, q := range fn.Params {
			if q == x {
				idx = i
			}
		}
		sites := theProgram.staticCallSites(fn)
		if len(sites) == 0 || idx < 0 {
			return false
		}
		for _, ci := range sites {
			if idx >= len(ci.Common().Args) || !derivesFromConfig(ci.Common().Args[idx], d+1) {
				return false
			}
		}
		return true
	}
	return false
}
