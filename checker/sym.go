package main

// sym.go: A6 — symbolic extraction of what an executor passes to the command handler, in terms of
// the positions of the request array (A1 = first element after the command name).

import (
	"fmt"
	"go/constant"
	"go/token"
	"go/types"
	"os"
	"sort"
	"strconv"
	"strings"

	"golang.org/x/tools/go/ssa"
)

type term struct {
	K  string // kind
	S  string
	A  []*term
	F  *ssa.Function          // K == "sym", S == "func": the function or closure the value is
	FB map[*ssa.FreeVar]*term // ... and what its captured variables hold
	// loop reads ("A*k"): the wire position of the loop's first read in its first iteration
	// (0 = unknown) and the number of reads one iteration makes. Not printed.
	LoopBase, Period int
}

func tConst(s string) *term          { return &term{K: "const", S: s} }
func tUnknown(s string) *term        { return &term{K: "?", S: s} }
func tOp(n string, a ...*term) *term { return &term{K: "op", S: n, A: a} }

func (t *term) String() string {
	if t == nil {
		return "<nil>"
	}
	switch t.K {
	case "const", "sym":
		return t.S
	case "arg":
		return t.S
	case "?":
		return "?" + t.S
	case "alt":
		var ss []string
		for _, a := range t.A {
			ss = append(ss, a.String())
		}
		sort.Strings(ss)
		return strings.Join(ss, "|")
	case "struct":
		var ss []string
		for _, a := range t.A {
			ss = append(ss, a.S+":"+a.A[0].String())
		}
		sort.Strings(ss)
		return "{" + strings.Join(ss, ",") + "}"
	case "op":
		var ss []string
		for _, a := range t.A {
			ss = append(ss, a.String())
		}
		return t.S + "(" + strings.Join(ss, ",") + ")"
	}
	return t.K
}

func (t *term) hasUnknown() bool {
	if t == nil {
		return false
	}
	if t.K == "?" {
		return true
	}
	for _, a := range t.A {
		if a.hasUnknown() {
			return true
		}
	}
	return false
}

func tAlt(ts ...*term) *term {
	seen := map[string]bool{}
	var out []*term
	var add func(t *term)
	add = func(t *term) {
		if t == nil {
			return
		}
		if t.K == "alt" {
			for _, a := range t.A {
				add(a)
			}
			return
		}
		s := t.String()
		if !seen[s] {
			seen[s] = true
			out = append(out, t)
		}
	}
	for _, t := range ts {
		add(t)
	}
	if len(out) == 1 {
		return out[0]
	}
	if len(out) == 0 {
		return tUnknown("empty")
	}
	return &term{K: "alt", A: out}
}

// symEnv is the evaluation context of one function activation.
type symEnv struct {
	p         *Program
	fn        *ssa.Function
	bind      map[*ssa.Parameter]*term
	fbind     map[*ssa.FreeVar]*term
	base      int  // wire position of the first read of this activation minus 1
	baseOK    bool // false: positions are not known (after a variadic read / inside an option loop)
	cursor    ssa.Value
	relBase   int // >= 0: this activation runs inside a loop iteration of a caller, after relBase reads
	depth     int
	x         *extractor
	memo      map[ssa.Value]*term
	busy      map[ssa.Value]bool
	children  map[*ssa.Call]*symEnv
	pendingFB map[*ssa.FreeVar]*term // captured-variable values for the closure about to be inlined
}

// HandlerCall is one call of a command-handler interface method found during extraction.
type HandlerCall struct {
	Method string
	Args   []*term
	Ins    ssa.Instruction
	Ord    int
}

type extractor struct {
	p        *Program
	calls    []*HandlerCall
	callSeen map[string]bool
	consume  map[*ssa.Function]*consumeInfo
	execBy   map[string]*ssa.Function
	nresult  int
}

// consumeInfo summarises how a function consumes the cursor.
type consumeInfo struct {
	CursorParam int  // index of the cursor parameter
	Mandatory   int  // reads that dominate every success return
	Variadic    bool // reads inside a loop (consumes "the rest")
	Reads       []*ssa.Call
}

func isCursorType(t types.Type) bool {
	s := t.String()
	return s == "*"+pkgProto+".Array" || strings.HasSuffix(s, "redis.Arguments")
}

var cursorPrims = map[string]string{
	"(*" + pkgProto + ".Array).Next":        "msg",
	"(*" + pkgProto + ".Array).NextMessage": "msg",
	"(*" + pkgProto + ".Array).NextString":  "str",
	"(*" + pkgProto + ".Array).NextInteger": "int",
	"(*" + pkgProto + ".Array).NextBytes":   "bytes",
	"(*" + pkgProto + ".Array).NextArray":   "array",
	"(*" + pkgProto + ".Array).NextError":   "error",
}

// consumeOf computes (memoised) how fn consumes its cursor parameter.
func (x *extractor) consumeOf(fn *ssa.Function) *consumeInfo {
	if ci, ok := x.consume[fn]; ok {
		return ci
	}
	x.consume[fn] = nil
	if fn == nil || fn.Blocks == nil {
		return nil
	}
	cp := -1
	for i, p := range fn.Params {
		if isCursorType(p.Type()) {
			cp = i
		}
	}
	if cp < 0 {
		return nil
	}
	cur := fn.Params[cp]
	ci := &consumeInfo{CursorParam: cp}
	inLoop := map[*ssa.BasicBlock]bool{}
	for _, l := range naturalLoops(fn) {
		for b := range l.Blocks {
			inLoop[b] = true
		}
	}
	type site struct {
		c *ssa.Call
		n int
		v bool
	}
	var sites []site
	allInstrs(fn, func(ins ssa.Instruction) {
		call, ok := ins.(*ssa.Call)
		if !ok {
			return
		}
		n, v, isRead := x.readWeight(call, cur)
		if !isRead {
			return
		}
		sites = append(sites, site{call, n, v})
		ci.Reads = append(ci.Reads, call)
	})
	if len(sites) == 0 {
		return nil
	}
	// success returns
	var succ []*ssa.Return
	for _, r := range returnsOf(fn) {
		if len(r.Results) > 0 && isErrorType(r.Results[len(r.Results)-1].Type()) && !isNilConst(retOperand(r, len(r.Results)-1)) {
			// may still be a success return if the value is known nil — keep conservative: treat non-const as success too when no error constructor
			if !definitelyNonNil(strip(retOperand(r, len(r.Results)-1))) && !errNonNilAt(r, len(r.Results)-1) {
				succ = append(succ, r)
			}
			continue
		}
		succ = append(succ, r)
	}
	for _, s := range sites {
		if inLoop[s.c.Block()] || s.v {
			ci.Variadic = true
			continue
		}
		domAll := len(succ) > 0
		for _, r := range succ {
			if !(s.c.Block() == r.Block() || s.c.Block().Dominates(r.Block())) {
				domAll = false
			}
		}
		if domAll {
			ci.Mandatory += s.n
		}
	}
	x.consume[fn] = ci
	return ci
}

// errNonNilAt: the error operand of the return is known non-nil by dominating facts.
func errNonNilAt(r *ssa.Return, i int) bool {
	v := strip(retOperand(r, i))
	for _, at := range factsAt(r.Block()) {
		if at.Kind == "nil" && !at.Pos && at.X == v {
			return true
		}
	}
	return false
}

// readWeight: is call a read from cursor cur? how many mandatory reads, variadic?
func (x *extractor) readWeight(call *ssa.Call, cur ssa.Value) (int, bool, bool) {
	cc := call.Common()
	n := calleeName(cc)
	if _, ok := cursorPrims[n]; ok {
		if len(cc.Args) > 0 && strip(cc.Args[0]) == cur {
			return 1, false, true
		}
		return 0, false, false
	}
	if n == "(*"+pkgProto+".Array).NextMessages" && len(cc.Args) > 0 && strip(cc.Args[0]) == cur {
		return 0, true, true
	}
	callee := staticCallee(cc)
	if callee == nil || !inFramework(callee) {
		return 0, false, false
	}
	passes := false
	for _, a := range cc.Args {
		if strip(a) == cur {
			passes = true
		}
	}
	if !passes {
		return 0, false, false
	}
	if x.p.isDispatcherCall(cc) {
		return 0, true, true // re-entering the dispatcher hands the rest of the arguments over
	}
	ci := x.consumeOf(callee)
	if ci == nil {
		return 0, false, false
	}
	return ci.Mandatory, ci.Variadic, true
}

// positions computes, for every read call of fn on cursor cur, the wire position of its first read
// relative to the activation (1-based), or -1 when unknown (in a loop or after a variadic read).
func (x *extractor) positions(fn *ssa.Function, cur ssa.Value) map[*ssa.Call]int {
	pos, _, _ := x.positionsX(fn, cur)
	return pos
}

// positionsX also returns, for reads inside a loop, the activation-relative position of the
// loop's first read in its first iteration (0 = unknown) and the reads per iteration.
func (x *extractor) positionsX(fn *ssa.Function, cur ssa.Value) (map[*ssa.Call]int, map[*ssa.Call]int, map[*ssa.Call]int) {
	pos := map[*ssa.Call]int{}
	lbase := map[*ssa.Call]int{}
	period := map[*ssa.Call]int{}
	type site struct {
		c *ssa.Call
		n int
		v bool
	}
	var sites []site
	inLoop := map[*ssa.BasicBlock]bool{}
	for _, l := range naturalLoops(fn) {
		for b := range l.Blocks {
			inLoop[b] = true
		}
	}
	allInstrs(fn, func(ins ssa.Instruction) {
		if call, ok := ins.(*ssa.Call); ok {
			if n, v, isRead := x.readWeight(call, cur); isRead {
				sites = append(sites, site{call, n, v})
			}
		}
	})
	before := func(a, b *ssa.Call) bool { // a strictly dominates b
		if a == b {
			return false
		}
		if a.Block() == b.Block() {
			for _, ins := range a.Block().Instrs {
				if ins == ssa.Instruction(a) {
					return true
				}
				if ins == ssa.Instruction(b) {
					return false
				}
			}
		}
		return a.Block().Dominates(b.Block())
	}
	loops := naturalLoops(fn)
	for _, s := range sites {
		if inLoop[s.c.Block()] {
			// relative position within one iteration: -(k) = k-th read of the iteration
			rel := 1
			for _, o := range sites {
				if o.c != s.c && inLoop[o.c.Block()] && before(o.c, s.c) {
					same := false
					for _, l := range loops {
						if l.Blocks[o.c.Block()] && l.Blocks[s.c.Block()] {
							same = true
						}
					}
					if same {
						rel += o.n
					}
				}
			}
			pos[s.c] = -rel
			// the innermost loop holding the read: reads before it fix where it starts
			var in *Loop
			for _, l := range loops {
				if l.Blocks[s.c.Block()] && (in == nil || len(l.Blocks) < len(in.Blocks)) {
					in = l
				}
			}
			if in != nil {
				start, okStart, per := 1, true, 0
				for _, o := range sites {
					if in.Blocks[o.c.Block()] {
						per += o.n
						if o.v {
							per += 100
						}
						continue
					}
					if o.c.Block().Dominates(in.Header) {
						if o.v || inLoop[o.c.Block()] {
							okStart = false
						}
						start += o.n
					} else if !in.Header.Dominates(o.c.Block()) {
						// a read on some path to the loop but not all: the start varies
						for b := range reachableBlocks(o.c.Block(), nil) {
							if b == in.Header {
								okStart = false
							}
						}
					}
				}
				if okStart {
					lbase[s.c] = start
				}
				period[s.c] = per
			}
			continue
		}
		p := 1
		ok := true
		for _, o := range sites {
			if before(o.c, s.c) {
				if o.v || inLoop[o.c.Block()] {
					ok = false
				}
				p += o.n
			}
			// a read inside a loop that precedes s (the loop's header dominates s): s's position varies
			if inLoop[o.c.Block()] {
				for _, l := range loops {
					if l.Blocks[o.c.Block()] && !l.Blocks[s.c.Block()] && l.Header.Dominates(s.c.Block()) {
						ok = false
					}
				}
			}
		}
		if !ok {
			p = 0 // position depends on how many reads a preceding loop made
		}
		pos[s.c] = p
	}
	return pos, lbase, period
}

func newEnv(x *extractor, fn *ssa.Function, base int, baseOK bool, depth int) *symEnv {
	e := &symEnv{relBase: -1, p: x.p, fn: fn, bind: map[*ssa.Parameter]*term{}, fbind: map[*ssa.FreeVar]*term{}, base: base, baseOK: baseOK, depth: depth, x: x, memo: map[ssa.Value]*term{}, busy: map[ssa.Value]bool{}}
	for _, p := range fn.Params {
		if isCursorType(p.Type()) {
			e.cursor = p
		}
	}
	return e
}

func argName(k int, known bool) string {
	if !known || k <= 0 {
		return "A*"
	}
	return fmt.Sprintf("A%d", k)
}

// relName: k-th read of a loop iteration.
func relName(rel int) string { return fmt.Sprintf("A*%d", rel) }

func wrapKind(kind string, a string) *term {
	switch kind {
	case "str":
		return &term{K: "arg", S: a}
	case "msg":
		return &term{K: "arg", S: "msg(" + a + ")"}
	default:
		return &term{K: "arg", S: kind + "(" + a + ")"}
	}
}

// argOf extracts "A<k>" from a term rendered by wrapKind.
func argOf(t *term) (string, string, bool) {
	if t == nil || t.K != "arg" {
		return "", "", false
	}
	s := t.S
	if i := strings.Index(s, "("); i >= 0 && strings.HasSuffix(s, ")") {
		return s[:i], s[i+1 : len(s)-1], true
	}
	return "str", s, true
}

func (e *symEnv) eval(v ssa.Value) *term {
	if v == nil {
		return tConst("nil")
	}
	if t, ok := e.memo[v]; ok {
		if t.K == "tuple" && len(t.A) > 0 {
			if _, isTuple := v.Type().(*types.Tuple); !isTuple {
				return t.A[0] // a single-result call first evaluated for its effects
			}
		}
		return t
	}
	if e.busy[v] {
		return &term{K: "sym", S: "loop"}
	}
	e.busy[v] = true
	t := e.eval1(v)
	delete(e.busy, v)
	e.memo[v] = t
	return t
}

// evalOnEdge evaluates a phi operand knowing which edge carries it: a result of a framework
// helper is taken over the helper's returns consistent with the tests of its boolean results
// that hold on the edge (token, present := optional(); if present { use token }).
func (e *symEnv) evalOnEdge(v ssa.Value, pred, succ *ssa.BasicBlock) *term {
	ex, ok := strip(v).(*ssa.Extract)
	if !ok {
		return e.eval(v)
	}
	call, ok := ex.Tuple.(*ssa.Call)
	if !ok || call.Common().IsInvoke() {
		return e.eval(v)
	}
	callee := staticCallee(call.Common())
	if callee == nil || callee.Blocks == nil || !inFramework(callee) || e.p.isDispatcherCall(call.Common()) || e.depth > 5 {
		return e.eval(v)
	}
	req := map[int]bool{}
	for _, at := range edgeFacts(pred, succIndex(pred, succ)) {
		if at.Kind != "val" {
			continue
		}
		if fx, ok := at.X.(*ssa.Extract); ok && fx.Tuple == ssa.Value(call) {
			req[fx.Index] = at.Pos
		}
	}
	if len(req) == 0 {
		return e.eval(v)
	}
	e.eval(v) // records the helper's effects once, unrestricted
	ts := e.childEnv(call, callee).resultsWhere(callee, req)
	if ex.Index < len(ts) {
		return ts[ex.Index]
	}
	return e.eval(v)
}

// argConditionOf: the innermost branch condition under which control reaches succ through pred,
// when that condition compares a value read from the request (not an error, not a keyword).
func (e *symEnv) argConditionOf(pred, succ *ssa.BasicBlock) *term {
	var cond ssa.Value
	pos := true
	if len(pred.Instrs) > 0 {
		if iff, ok := pred.Instrs[len(pred.Instrs)-1].(*ssa.If); ok && len(pred.Succs) == 2 && pred.Succs[0] != pred.Succs[1] {
			cond, pos = iff.Cond, pred.Succs[0] == succ
		}
	}
	if cond == nil {
		// only when pred exists solely because of one branch
		if len(pred.Preds) != 1 {
			return nil
		}
		found := false
		for _, g := range guardsOf(pred) {
			if g.If.Block() == pred.Preds[0] {
				cond, pos, found = g.Cond, g.True, true
			}
		}
		if !found {
			return nil
		}
	}
	bo, ok := cond.(*ssa.BinOp)
	if !ok {
		return nil
	}
	switch bo.Op {
	case token.EQL, token.NEQ, token.LSS, token.LEQ, token.GTR, token.GEQ:
	default:
		return nil
	}
	if isNilConst(bo.X) || isNilConst(bo.Y) {
		return nil
	}
	t := e.eval(cond)
	if os.Getenv("DEBUGSYM") != "" {
		fmt.Fprintf(os.Stderr, "argConditionOf %s: %s\n", fnName(e.fn), t.String())
	}
	hasNumArg := false
	var walk func(x *term)
	walk = func(x *term) {
		if x == nil {
			return
		}
		if k, _, ok := argOf(x); ok && (k == "int" || k == "float" || k == "num") {
			hasNumArg = true
		}
		for _, a := range x.A {
			walk(a)
		}
	}
	walk(t)
	if !hasNumArg || t.hasUnknown() {
		return nil
	}
	if !pos {
		return tOp("not", t)
	}
	return t
}

func constTerm(c *ssa.Const) *term {
	if c.Value == nil {
		if _, ok := c.Type().Underlying().(*types.Struct); ok {
			return &term{K: "struct"}
		}
		return tConst("nil")
	}
	switch c.Value.Kind() {
	case constant.String:
		return tConst(fmt.Sprintf("%q", constant.StringVal(c.Value)))
	case constant.Bool:
		return tConst(fmt.Sprint(constant.BoolVal(c.Value)))
	}
	return tConst(c.Value.ExactString())
}

func (e *symEnv) eval1(v ssa.Value) *term {
	switch x := v.(type) {
	case *ssa.Const:
		return constTerm(x)
	case *ssa.Parameter:
		if t, ok := e.bind[x]; ok {
			return t
		}
		if strings.HasSuffix(x.Type().String(), "redis.Conn") {
			return &term{K: "sym", S: "conn"}
		}
		if isCursorType(x.Type()) {
			return &term{K: "sym", S: "args"}
		}
		return &term{K: "sym", S: x.Name()}
	case *ssa.FreeVar:
		if t, ok := e.fbind[x]; ok {
			return t
		}
		if strings.HasSuffix(x.Type().String(), "redis.Server") {
			return &term{K: "sym", S: "server"}
		}
		return tUnknown("freevar " + x.Name())
	case *ssa.Extract:
		ts := e.evalTuple(x.Tuple)
		if x.Index < len(ts) {
			return ts[x.Index]
		}
		return tUnknown("extract")
	case *ssa.Call:
		ts := e.evalTuple(x)
		if len(ts) > 0 {
			return ts[0]
		}
		return tUnknown("call")
	case *ssa.Phi:
		var alts []*term
		isList := false
		for k, ed := range x.Edges {
			t := e.evalOnEdge(ed, x.Block().Preds[k], x.Block())
			if t.K == "sym" && t.S == "loop" {
				continue
			}
			// a constant chosen because of what an argument's value is (not because it is
			// absent): "cnt == 0 -> 1" differs from "no count given -> 1"
			if t.K == "const" {
				if cond := e.argConditionOf(x.Block().Preds[k], x.Block()); cond != nil {
					t = tOp("when["+cond.String()+"]", t)
				}
			}
			if t.K == "op" && (t.S == "list" || t.S == "rest") {
				isList = true
			}
			alts = append(alts, t)
		}
		if isList {
			var elems []*term
			for _, a := range alts {
				if a.K == "op" && a.S == "rest" {
					return a
				}
				elems = append(elems, listElems(a)...)
			}
			return mkList(elems)
		}
		// boolean selected by a test on a request element: ite(cond, a, b)
		if len(x.Edges) == 2 && len(alts) == 2 && alts[0].K == "const" && alts[1].K == "const" && alts[0].S != alts[1].S {
			if d := x.Block().Idom(); d != nil && len(d.Instrs) > 0 {
				if iff, ok := d.Instrs[len(d.Instrs)-1].(*ssa.If); ok {
					cond := e.eval(iff.Cond)
					// which edge is the true side
					tv, fv := alts[0], alts[1]
					p0 := x.Block().Preds[0]
					if !(p0 == d.Succs[0] || d.Succs[0].Dominates(p0)) {
						tv, fv = alts[1], alts[0]
					}
					if !cond.hasUnknown() {
						return normIte(cond, tv, fv)
					}
				}
			}
		}
		return tAlt(alts...)
	case *ssa.BinOp:
		a, b := e.eval(x.X), e.eval(x.Y)
		switch x.Op {
		case token.ADD:
			if strings.HasSuffix(x.Type().String(), "string") {
				return tOp("cat", a, b)
			}
			return tOp("add", a, b)
		case token.SUB:
			return tOp("sub", a, b)
		case token.MUL:
			if b.K == "const" && b.S == "1000000000" {
				return tOp("sec", a)
			}
			if b.K == "const" && b.S == "1000000" {
				return tOp("msec", a)
			}
			return tOp("mul", a, b)
		case token.EQL:
			return tOp("eq", a, b)
		case token.NEQ:
			return tOp("ne", a, b)
		case token.LSS:
			return tOp("lt", a, b)
		case token.GTR:
			return tOp("lt", b, a)
		case token.LEQ:
			return tOp("le", a, b)
		case token.GEQ:
			return tOp("le", b, a)
		}
		return tOp(x.Op.String(), a, b)
	case *ssa.UnOp:
		switch x.Op {
		case token.SUB:
			return tOp("neg", e.eval(x.X))
		case token.NOT:
			return tOp("not", e.eval(x.X))
		case token.MUL:
			return e.evalLoad(x)
		}
	case *ssa.Convert:
		in := e.eval(x.X)
		from, to := x.X.Type().Underlying().String(), x.Type().Underlying().String()
		if strings.HasPrefix(from, "float") && strings.HasPrefix(to, "int") {
			return tOp("int", in)
		}
		return in
	case *ssa.ChangeType:
		return e.eval(x.X)
	case *ssa.ChangeInterface:
		return e.eval(x.X)
	case *ssa.MakeInterface:
		return e.eval(x.X)
	case *ssa.Alloc:
		return e.evalAlloc(x)
	case *ssa.Field:
		st := e.eval(x.X)
		name := x.X.Type().Underlying().(*types.Struct).Field(x.Field).Name()
		return selectField(st, name)
	case *ssa.MakeClosure:
		f, _ := x.Fn.(*ssa.Function)
		t := &term{K: "sym", S: "func", F: f, FB: map[*ssa.FreeVar]*term{}}
		if f != nil {
			for i, fv := range f.FreeVars {
				if i >= len(x.Bindings) {
					break
				}
				if al, ok := x.Bindings[i].(*ssa.Alloc); ok {
					if sv := singleStore(al); sv != nil {
						t.FB[fv] = e.eval(sv)
					}
				} else {
					t.FB[fv] = e.eval(x.Bindings[i])
				}
			}
		}
		return t
	case *ssa.Function:
		return &term{K: "sym", S: "func", F: x}
	case *ssa.Slice:
		// a slice of a local array literal (variadic arguments, []T{...}): its elements
		if al, ok := x.X.(*ssa.Alloc); ok {
			if _, isArr := deref(al.Type()).Underlying().(*types.Array); isArr && x.Low == nil && x.High == nil {
				var elems []*term
				if al.Referrers() != nil {
					for _, r := range *al.Referrers() {
						if ia, ok := r.(*ssa.IndexAddr); ok && ia.Referrers() != nil {
							for _, rr := range *ia.Referrers() {
								if st, ok := rr.(*ssa.Store); ok {
									elems = append(elems, e.eval(st.Val))
								}
							}
						}
					}
				}
				return tOp("list", elems...)
			}
		}
		return tOp("slice", e.eval(x.X), e.eval(x.Low), e.eval(x.High))
	case *ssa.Lookup:
		return tOp("index", e.eval(x.X), e.eval(x.Index))
	case *ssa.Index:
		return tOp("index", e.eval(x.X), e.eval(x.Index))
	case *ssa.MakeSlice:
		return &term{K: "sym", S: "newslice"}
	case *ssa.MakeMap:
		// a map filled in place: collect the key/value terms of its updates
		var ks, vs []*term
		if x.Referrers() != nil {
			for _, r := range *x.Referrers() {
				if mu, ok := r.(*ssa.MapUpdate); ok && mu.Map == ssa.Value(x) {
					ks = append(ks, e.eval(mu.Key))
					vs = append(vs, e.eval(mu.Value))
				}
			}
		}
		if len(ks) == 0 {
			return &term{K: "sym", S: "newmap"}
		}
		k, v := tAlt(ks...), tAlt(vs...)
		// pairs(Ak): keys are the reads at k, k+2, ... and values the reads following them —
		// either the first key read before a two-read loop (value, next key), or a loop of
		// (key, value) reads starting at k
		if v.K == "arg" && v.S == "A*1" && v.Period == 2 && k.K == "alt" && len(k.A) == 2 {
			a, b := k.A[0], k.A[1]
			if strings.HasPrefix(a.S, "A*") {
				a, b = b, a
			}
			if b.K == "arg" && b.S == "A*2" && a.K == "arg" && strings.HasPrefix(a.S, "A") && !strings.HasPrefix(a.S, "A*") && !strings.Contains(a.S, "(") {
				if n, err := strconv.Atoi(a.S[1:]); err == nil && v.LoopBase == n+1 {
					return tOp("pairs", &term{K: "arg", S: a.S})
				}
			}
		}
		if k.K == "arg" && k.S == "A*1" && v.K == "arg" && v.S == "A*2" && k.Period == 2 && k.LoopBase > 0 {
			return tOp("pairs", &term{K: "arg", S: fmt.Sprintf("A%d", k.LoopBase)})
		}
		return tOp("map", k, v)
	case *ssa.Next:
		return tOp("iter", e.eval(x.Iter))
	case *ssa.Range:
		return e.eval(x.X)
	case *ssa.Global:
		return &term{K: "sym", S: x.Name()}
	case *ssa.TypeAssert:
		return e.eval(x.X)
	}
	return tUnknown(fmt.Sprintf("%T", v))
}

func selectField(st *term, name string) *term {
	if st.K == "struct" {
		for _, f := range st.A {
			if f.S == name {
				return f.A[0]
			}
		}
		return tConst("zero")
	}
	if st.K == "alt" {
		var alts []*term
		for _, a := range st.A {
			alts = append(alts, selectField(a, name))
		}
		return tAlt(alts...)
	}
	return tOp("field:"+name, st)
}

// evalLoad: *addr
func (e *symEnv) evalLoad(ld *ssa.UnOp) *term {
	switch a := ld.X.(type) {
	case *ssa.Alloc:
		return e.evalAlloc(a)
	case *ssa.FieldAddr:
		base := e.evalAddr(a.X)
		name := derefStruct(a.X.Type()).Field(a.Field).Name()
		// fields of conn / server objects: symbolic
		if base.K == "sym" {
			return &term{K: "sym", S: base.S + "." + name}
		}
		return selectField(base, name)
	case *ssa.FreeVar:
		if t, ok := e.fbind[a]; ok {
			return t
		}
		// captured variable of the enclosing function: resolve single store
		if s := freeVarSingleStore(a); s != nil {
			if mc, ok := s.(*ssa.MakeClosure); ok {
				_ = mc
				return &term{K: "sym", S: "func"}
			}
			if c, ok := s.(*ssa.Const); ok {
				return constTerm(c)
			}
		}
		if strings.HasSuffix(a.Type().String(), "*"+pkgRedis+".Server") {
			return &term{K: "sym", S: "server"}
		}
		return tUnknown("captured " + a.Name())
	case *ssa.Global:
		// a package-level pattern compiled once: its value is what the initialiser computes
		if iv := globalInitValue(a); iv != nil {
			if call, ok := iv.(*ssa.Call); ok && strings.HasPrefix(calleeName(call.Common()), pkgGlob+".") {
				return e.eval(call)
			}
		}
		return &term{K: "sym", S: a.Name()}
	case *ssa.IndexAddr:
		return tOp("elem", e.eval(a.X))
	}
	return tUnknown("load " + ld.X.String())
}

func (e *symEnv) evalAddr(v ssa.Value) *term {
	switch a := v.(type) {
	case *ssa.Alloc:
		return e.evalAlloc(a)
	case *ssa.FieldAddr:
		base := e.evalAddr(a.X)
		name := derefStruct(a.X.Type()).Field(a.Field).Name()
		if base.K == "sym" {
			return &term{K: "sym", S: base.S + "." + name}
		}
		return selectField(base, name)
	}
	return e.eval(v)
}

// keywordShift: when the keyword guarding block b was read earlier in the same loop iteration
// (loop written `for { kw := read(); switch kw {...} }`), the number of reads of the iteration up
// to and including the keyword read: option values are named by their distance from their
// keyword, whichever way the loop is rotated. 0 when the keyword came from the previous
// iteration / before the loop.
func (e *symEnv) keywordShift(b *ssa.BasicBlock) int {
	cur := e.cursorValue()
	if cur == nil {
		return 0
	}
	var kwRead *ssa.Call
	for _, at := range factsAt(b) {
		if at.Kind != "eq" {
			continue
		}
		for _, pr := range [][2]ssa.Value{{at.X, at.Y}, {at.Y, at.X}} {
			if _, ok := constString(pr[1]); !ok {
				continue
			}
			if t := e.eval(pr[0]); !(t.K == "op" && t.S == "upper") {
				continue
			}
			// upper(x): x is the string result of a cursor read
			v := strip(pr[0])
			for d := 0; d < 4 && v != nil; d++ {
				switch x := v.(type) {
				case *ssa.Call:
					if _, _, isRead := e.x.readWeight(x, cur); isRead {
						kwRead = x
						v = nil
					} else if len(x.Common().Args) > 0 {
						v = strip(x.Common().Args[0])
					} else {
						v = nil
					}
				case *ssa.Extract:
					v = x.Tuple
				default:
					v = nil
				}
			}
		}
	}
	if kwRead == nil {
		return 0
	}
	pos := e.x.positions(e.fn, cur)[kwRead]
	if pos >= 0 {
		return 0
	}
	same := false
	for _, l := range naturalLoops(e.fn) {
		if l.Blocks[kwRead.Block()] && l.Blocks[b] {
			same = true
		}
	}
	if !same || !(kwRead.Block() == b || kwRead.Block().Dominates(b)) {
		return 0
	}
	return -pos
}

// shiftRel renames the loop reads A*n inside t to A*(n-delta).
func shiftRel(t *term, delta int) *term {
	if t == nil || delta == 0 {
		return t
	}
	nt := *t
	if t.K == "arg" {
		if i := strings.Index(t.S, "A*"); i >= 0 {
			j := i + 2
			for j < len(t.S) && t.S[j] >= '0' && t.S[j] <= '9' {
				j++
			}
			if n, err := strconv.Atoi(t.S[i+2 : j]); err == nil && n > delta {
				nt.S = t.S[:i+2] + strconv.Itoa(n-delta) + t.S[j:]
			}
		}
		return &nt
	}
	nt.A = nil
	for _, a := range t.A {
		nt.A = append(nt.A, shiftRel(a, delta))
	}
	return &nt
}

// keywordGuard: the keyword constants under which block b executes (switch over an upper-cased read).
func (e *symEnv) keywordGuard(b *ssa.BasicBlock) []string {
	var kws []string
	for _, at := range factsAt(b) {
		if at.Kind != "eq" || !at.Pos {
			continue
		}
		for _, pr := range [][2]ssa.Value{{at.X, at.Y}, {at.Y, at.X}} {
			k, ok := constString(pr[1])
			if !ok {
				continue
			}
			t := e.eval(pr[0])
			if t.K == "op" && t.S == "upper" {
				kws = append(kws, k)
			} else if _, _, isArg := argOf(t); isArg {
				kws = append(kws, "exact:"+k)
			}
		}
	}
	if len(kws) == 0 {
		// the remaining alternative of a multi-constant case: entered under K1|K2|..., with all
		// but one excluded by the negative tests dominating b
		neg := map[string]bool{}
		for _, at := range factsAt(b) {
			if at.Kind != "eq" || at.Pos {
				continue
			}
			for _, pr := range [][2]ssa.Value{{at.X, at.Y}, {at.Y, at.X}} {
				if k, ok := constString(pr[1]); ok {
					if t := e.eval(pr[0]); t.K == "op" && t.S == "upper" {
						neg[k] = true
					}
				}
			}
		}
		for d := b; d != nil && len(neg) > 0; d = d.Idom() {
			ck := e.caseKeywords(d)
			if len(ck) < 2 {
				continue
			}
			var rem []string
			for _, k := range ck {
				if !neg[k] {
					rem = append(rem, k)
				}
			}
			if len(rem) == 1 {
				kws = append(kws, rem[0])
			}
			break
		}
	}
	return kws
}

// disjunctiveKeywords: block b is entered from a multi-constant case ("EX", "PX", ...).
func (e *symEnv) caseKeywords(b *ssa.BasicBlock) []string {
	// predecessors ending in If on eq(upper(x), "K") whose true edge leads to b
	var out []string
	for _, p := range b.Preds {
		if len(p.Instrs) == 0 {
			continue
		}
		iff, ok := p.Instrs[len(p.Instrs)-1].(*ssa.If)
		if !ok || p.Succs[0] != b {
			continue
		}
		for _, at := range atomsOf(iff.Cond, true) {
			if at.Kind == "eq" && at.Pos {
				if k, ok := constString(at.Y); ok {
					if t := e.eval(at.X); t.K == "op" && t.S == "upper" {
						out = append(out, k)
					}
				}
			}
		}
	}
	return out
}

// evalAlloc: value of a local variable: single store -> that value; struct -> fields with guards.
func (e *symEnv) evalAlloc(a *ssa.Alloc) *term {
	if t, ok := e.memo[a]; ok {
		return t
	}
	st, isStruct := deref(a.Type()).Underlying().(*types.Struct)
	if !isStruct {
		stores := allocStores(a)
		if len(stores) == 0 {
			return tConst("zero")
		}
		var alts []*term
		for _, s := range stores {
			// evaluate in the storing function's context only when it is this function
			if s.Parent() == e.fn {
				alts = append(alts, e.eval(s.Val))
			} else {
				alts = append(alts, tUnknown("stored in closure"))
			}
		}
		return tAlt(alts...)
	}
	res := &term{K: "struct"}
	e.memo[a] = res
	byField := map[string][]*term{}
	if a.Referrers() != nil {
		for _, r := range *a.Referrers() {
			switch x := r.(type) {
			case *ssa.FieldAddr:
				name := st.Field(x.Field).Name()
				if x.Referrers() == nil {
					continue
				}
				for _, rr := range *x.Referrers() {
					s, ok := rr.(*ssa.Store)
					if !ok || s.Addr != ssa.Value(x) {
						continue
					}
					val := e.eval(s.Val)
					kws := e.keywordGuard(s.Block())
					if len(kws) > 0 {
						val = tOp("kw["+strings.Join(kws, "+")+"]", shiftRel(val, e.keywordShift(s.Block())))
					}
					byField[name] = append(byField[name], val)
				}
			case *ssa.Call:
				// the struct's address handed to a framework helper that fills fields in
				callee := staticCallee(x.Common())
				if callee == nil || callee.Blocks == nil || !inFramework(callee) || e.depth > 5 {
					continue
				}
				ne := e.childEnv(x, callee)
				outer := e.keywordGuard(x.Block())
				for i, arg := range x.Common().Args {
					if arg != ssa.Value(a) || i >= len(callee.Params) || callee.Params[i].Referrers() == nil {
						continue
					}
					for _, pr := range *callee.Params[i].Referrers() {
						fa, ok := pr.(*ssa.FieldAddr)
						if !ok || fa.Referrers() == nil {
							continue
						}
						name := st.Field(fa.Field).Name()
						for _, rr := range *fa.Referrers() {
							s, ok := rr.(*ssa.Store)
							if !ok || s.Addr != ssa.Value(fa) {
								continue
							}
							val := ne.eval(s.Val)
							kws := append(append([]string{}, outer...), ne.keywordGuard(s.Block())...)
							if len(kws) > 0 {
								val = tOp("kw["+strings.Join(kws, "+")+"]", shiftRel(val, e.keywordShift(x.Block())))
							}
							byField[name] = append(byField[name], val)
						}
					}
				}
			case *ssa.Store:
				if x.Addr == ssa.Value(a) {
					// whole-struct store: literal or call result
					whole := e.eval(x.Val)
					if whole.K == "struct" {
						for _, f := range whole.A {
							byField[f.S] = append(byField[f.S], f.A[0])
						}
					} else {
						byField["*"] = append(byField["*"], whole)
					}
				}
			}
		}
	}
	if os.Getenv("DEBUGSYM") != "" {
		fmt.Fprintf(os.Stderr, "evalAlloc %s in %s: fields=%v\n", a.Name(), fnName(e.fn), byField)
	}
	for _, name := range sortedKeys(byField) {
		t := tAlt(byField[name]...)
		if isZeroTerm(t) {
			continue
		}
		res.A = append(res.A, &term{K: "field", S: name, A: []*term{t}})
	}
	return res
}

func isZeroTerm(t *term) bool {
	if t.K == "const" {
		switch t.S {
		case "false", "0", `""`, "nil", "zero":
			return true
		}
	}
	if t.K == "struct" && len(t.A) == 0 {
		return true
	}
	if t.K == "alt" {
		for _, a := range t.A {
			if !isZeroTerm(a) {
				return false
			}
		}
		return true
	}
	return false
}

func (e *symEnv) evalArgs(vs []ssa.Value) []*term {
	var out []*term
	for _, v := range vs {
		out = append(out, e.eval(v))
	}
	return out
}

// evalTuple evaluates a call and returns its results.
func (e *symEnv) evalTuple(v ssa.Value) []*term {
	call, ok := v.(*ssa.Call)
	if !ok {
		if nx, ok := v.(*ssa.Next); ok {
			it := e.eval(nx.Iter)
			return []*term{tConst("ok"), tOp("key", it), tOp("val", it)}
		}
		if lk, ok := v.(*ssa.Lookup); ok {
			return []*term{tOp("index", e.eval(lk.X), e.eval(lk.Index)), tConst("ok")}
		}
		if ta, ok := v.(*ssa.TypeAssert); ok {
			return []*term{e.eval(ta.X), tConst("ok")}
		}
		return []*term{tUnknown(fmt.Sprintf("tuple %T", v))}
	}
	key := ssa.Value(call)
	if t, ok := e.memo[key]; ok && t.K == "tuple" {
		return t.A
	}
	ts := e.evalCall(call)
	e.memo[key] = &term{K: "tuple", A: ts}
	return ts
}

func (e *symEnv) evalCall(call *ssa.Call) []*term {
	cc := call.Common()
	n := calleeName(cc)
	errT := &term{K: "sym", S: "err"}
	// cursor primitives
	if kind, ok := cursorPrims[n]; ok && len(cc.Args) > 0 {
		recv := e.eval(cc.Args[0])
		if recv.K == "sym" && recv.S == "args" {
			posm, lbm, perm := e.x.positionsX(e.fn, e.cursorValue())
			pos := posm[call]
			if pos < 0 {
				t := wrapKind(kind, relName(-pos))
				t.Period = perm[call]
				if e.baseOK && lbm[call] > 0 {
					t.LoopBase = e.base + lbm[call]
				}
				return []*term{t, errT}
			}
			if !e.baseOK && e.relBase >= 0 && pos > 0 {
				return []*term{wrapKind(kind, relName(e.relBase+pos)), errT}
			}
			known := e.baseOK && pos > 0
			return []*term{wrapKind(kind, argName(e.base+pos, known)), errT}
		}
		// reading from a handler result array
		return []*term{tOp("next:"+kind, recv), errT}
	}
	switch n {
	case "(*" + pkgProto + ".Message).String":
		return []*term{convArg(e.eval(cc.Args[0]), "str"), errT}
	case "(*" + pkgProto + ".Message).Integer":
		return []*term{convArg(e.eval(cc.Args[0]), "int"), errT}
	case "(*" + pkgProto + ".Message).Bytes":
		return []*term{convArg(e.eval(cc.Args[0]), "bytes"), errT}
	case "(*" + pkgProto + ".Message).Array":
		return []*term{tOp("Array", e.eval(cc.Args[0])), errT}
	case "(*" + pkgProto + ".Message).IsNil":
		return []*term{tOp("IsNil", e.eval(cc.Args[0]))}
	case "(*" + pkgProto + ".Array).Size":
		return []*term{tOp("Size", e.eval(cc.Args[0]))}
	case "(*" + pkgProto + ".Array).Reverse":
		return []*term{tOp("ReverseBy", e.eval(cc.Args[0]), tConst("1"))}
	case "(*" + pkgProto + ".Array).ReverseBy":
		return []*term{tOp("ReverseBy", e.eval(cc.Args[0]), e.eval(cc.Args[1]))}
	case "strconv.ParseFloat":
		// the bit size is part of the conversion: 32 rounds the client's number to float32
		if bits, ok := constInt(cc.Args[1]); !ok || bits != 64 {
			return []*term{tOp(fmt.Sprintf("float%d", bits), e.eval(cc.Args[0])), errT}
		}
		return []*term{convArg(e.eval(cc.Args[0]), "float"), errT}
	case "strconv.Atoi":
		return []*term{convArg(e.eval(cc.Args[0]), "int"), errT}
	case "strconv.ParseInt":
		if base, ok := constInt(cc.Args[1]); !ok || base != 10 {
			return []*term{tOp(fmt.Sprintf("intbase%d", base), e.eval(cc.Args[0])), errT}
		}
		return []*term{convArg(e.eval(cc.Args[0]), "int"), errT}
	case "strconv.Itoa":
		return []*term{tOp("itoa", e.eval(cc.Args[0]))}
	case "strings.HasPrefix":
		// the exclusive-bound marker test, written with the strings package
		if k, ok := constString(cc.Args[1]); ok && k == "(" {
			if _, a, isArg := argOf(e.eval(cc.Args[0])); isArg {
				return []*term{wrapKind("excl", a)}
			}
		}
		return []*term{tOp("hasprefix", e.eval(cc.Args[0]), e.eval(cc.Args[1]))}
	case "strings.CutPrefix":
		// after, found := strings.CutPrefix(s, "("): the exclusive-bound marker test and the read
		// without its first byte in one call
		if k, ok := constString(cc.Args[1]); ok && k == "(" {
			if _, a, isArg := argOf(e.eval(cc.Args[0])); isArg {
				return []*term{tAlt(e.eval(cc.Args[0]), tOp("slice", e.eval(cc.Args[0]), tConst("0|1"), tConst("nil"))), wrapKind("excl", a)}
			}
		}
		return []*term{tOp("cutprefix", e.eval(cc.Args[0]), e.eval(cc.Args[1])), tOp("hasprefix", e.eval(cc.Args[0]), e.eval(cc.Args[1]))}
	case "strings.TrimPrefix":
		// dropping the exclusive-bound marker: the read without its first byte, as str[1:]
		if k, ok := constString(cc.Args[1]); ok && k == "(" {
			return []*term{tOp("slice", e.eval(cc.Args[0]), tConst("0|1"), tConst("nil"))}
		}
		return []*term{tOp("trimprefix", e.eval(cc.Args[0]), e.eval(cc.Args[1]))}
	case "strings.ToUpper":
		return []*term{tOp("upper", e.eval(cc.Args[0]))}
	case "strings.ToLower":
		return []*term{tOp("lower", e.eval(cc.Args[0]))}
	case "time.Unix":
		return []*term{tOp("unix", e.eval(cc.Args[0]), e.eval(cc.Args[1]))}
	case "time.UnixMilli":
		return []*term{tOp("unixmilli", e.eval(cc.Args[0]))}
	case "time.Now":
		return []*term{{K: "sym", S: "now"}}
	case "(time.Time).Add":
		return []*term{tOp("timeadd", e.eval(cc.Args[0]), e.eval(cc.Args[1]))}
	case "(*regexp.Regexp).Copy":
		return []*term{e.eval(cc.Args[0])} // an equal expression of its own
	case "errors.Is":
		return []*term{tOp("errIs", e.eval(cc.Args[0]), e.eval(cc.Args[1]))}
	case "errors.New", "fmt.Errorf":
		return []*term{errT}
	case "builtin:len":
		return []*term{tOp("len", e.eval(cc.Args[0]))}
	case "builtin:append":
		var elems []*term
		for _, a := range e.evalArgs(cc.Args) {
			elems = append(elems, listElems(a)...)
		}
		return []*term{mkList(elems)}
	}
	if strings.HasPrefix(n, pkgGlob+".") {
		return []*term{tOp("glob", e.eval(cc.Args[0])), errT}
	}
	// handler interface
	if cc.IsInvoke() && isHandlerIface(cc.Value.Type().String()) {
		args := e.evalArgs(cc.Args)
		for i := range args {
			args[i] = canonCollectedStructs(args[i])
		}
		e.x.nresult++
		hc := &HandlerCall{Method: cc.Method.Name(), Args: args, Ins: call, Ord: e.x.nresult}
		sig := hc.Method + fmt.Sprint(args) + e.p.instrPos(call)
		if !e.x.callSeen[sig] {
			e.x.callSeen[sig] = true
			e.x.calls = append(e.x.calls, hc)
		}
		r := &term{K: "sym", S: fmt.Sprintf("%s#", hc.Method)}
		return []*term{r, &term{K: "sym", S: "herr"}}
	}
	callee := staticCallee(cc)
	var closureFB map[*ssa.FreeVar]*term
	if callee == nil && !cc.IsInvoke() {
		// a function value handed in by the caller (func-typed parameter bound to a closure)
		if t := e.eval(cc.Value); t.K == "sym" && t.S == "func" && t.F != nil && t.F.Blocks != nil && inFramework(t.F) {
			callee = t.F
			n = fnName(callee)
			closureFB = t.FB
		}
	}
	if callee != nil && (strings.HasPrefix(n, pkgRedis+".New") || strings.HasPrefix(n, pkgProto+".New")) && strings.Contains(n, "Message") {
		return []*term{tOp(strings.TrimPrefix(strings.TrimPrefix(n, pkgRedis+"."), pkgProto+"."), e.evalArgs(cc.Args)...)}
	}
	if callee != nil && inFramework(callee) && callee.Blocks != nil {
		if e.p.isDispatcherCall(cc) && len(cc.Args) >= 4 {
			name := e.eval(cc.Args[2])
			rest := e.eval(cc.Args[3])
			e.x.nresult++
			hc := &HandlerCall{Method: "exec", Args: []*term{e.eval(cc.Args[1]), name, rest}, Ins: call, Ord: e.x.nresult}
			sig := "exec" + fmt.Sprint(hc.Args) + e.p.instrPos(call)
			if !e.x.callSeen[sig] {
				e.x.callSeen[sig] = true
				e.x.calls = append(e.x.calls, hc)
			}
			return []*term{tOp("exec", name), &term{K: "sym", S: "herr"}}
		}
		if closureFB != nil {
			e.pendingFB = closureFB
		}
		return e.inline(call, callee)
	}
	res := []*term{tUnknown(n)}
	if tup, ok := call.Type().(*types.Tuple); ok {
		res = nil
		for i := 0; i < tup.Len(); i++ {
			res = append(res, tUnknown(n))
		}
	}
	return res
}

func convArg(t *term, kind string) *term {
	if t.K == "alt" {
		var alts []*term
		for _, a := range t.A {
			alts = append(alts, convArg(a, kind))
		}
		// the read itself or the read without its exclusive marker: the marker-skipping number
		if kind == "float" && len(alts) == 2 {
			k0, a0, ok0 := argOf(alts[0])
			k1, a1, ok1 := argOf(alts[1])
			if ok0 && ok1 && a0 == a1 && ((k0 == "float" && k1 == "num") || (k0 == "num" && k1 == "float")) {
				return wrapKind("num", a0)
			}
		}
		return tAlt(alts...)
	}
	if k, a, ok := argOf(t); ok {
		if k == "msg" || k == "str" || k == "bytes" {
			return wrapKind(kind, a)
		}
	}
	// slices of a read (skipping an exclusive marker)
	if t.K == "op" && t.S == "slice" {
		if _, a, ok := argOf(t.A[0]); ok && kind == "float" {
			return wrapKind("num", a)
		}
	}
	if kind == "str" {
		return tOp("String", t)
	}
	if kind == "int" {
		return tOp("Integer", t)
	}
	return tOp(kind, t)
}

func (e *symEnv) cursorValue() ssa.Value {
	if e.cursor != nil {
		return e.cursor
	}
	// closures: the cursor may be a free variable; not supported
	return nil
}

// inline evaluates a framework function call in a fresh environment.
func (e *symEnv) inline(call *ssa.Call, callee *ssa.Function) []*term {
	if e.depth > 6 {
		return []*term{tUnknown("inline depth")}
	}
	ne := e.childEnv(call, callee)
	return ne.results(callee)
}

// childEnv: the environment of callee activated by call (cursor positions carried over,
// parameters bound to the evaluated arguments).
func (e *symEnv) childEnv(call *ssa.Call, callee *ssa.Function) *symEnv {
	if ne, ok := e.children[call]; ok {
		return ne
	}
	cc := call.Common()
	base, baseOK := e.base, e.baseOK
	relBase := -1
	passesCursor := false
	for _, a := range cc.Args {
		if t := e.eval(a); t.K == "sym" && t.S == "args" {
			passesCursor = true
		}
	}
	if passesCursor {
		pos := e.x.positions(e.fn, e.cursorValue())[call]
		if pos > 0 {
			base = e.base + pos - 1
		} else if pos < 0 {
			baseOK = false
			relBase = -pos - 1
		} else {
			baseOK = false
		}
	}
	ne := newEnv(e.x, callee, base, baseOK, e.depth+1)
	ne.relBase = relBase
	if e.relBase >= 0 && relBase < 0 && !baseOK {
		ne.relBase = e.relBase
		if passesCursor {
			if pos := e.x.positions(e.fn, e.cursorValue())[call]; pos > 0 {
				ne.relBase = e.relBase + pos - 1
			}
		}
	}
	for i, p := range callee.Params {
		if i < len(cc.Args) {
			ne.bind[p] = e.eval(cc.Args[i])
		}
	}
	for fv, t := range e.pendingFB {
		ne.fbind[fv] = t
	}
	e.pendingFB = nil
	// free variables of a closure callee: bind from the closure's bindings when resolvable
	if mc, ok := strip(cc.Value).(*ssa.MakeClosure); ok {
		for i, fv := range callee.FreeVars {
			if i < len(mc.Bindings) {
				b := mc.Bindings[i]
				if al, ok := b.(*ssa.Alloc); ok {
					if s := singleStore(al); s != nil {
						if par, ok := s.(*ssa.Parameter); ok && strings.HasSuffix(par.Type().String(), "redis.Server") {
							ne.fbind[fv] = &term{K: "sym", S: "server"}
						}
					}
				}
			}
		}
	}
	if e.children == nil {
		e.children = map[*ssa.Call]*symEnv{}
	}
	e.children[call] = ne
	ne.evalEffects()
	return ne
}

// results: the alternatives of each result over the success returns of the activation.
func (ne *symEnv) results(callee *ssa.Function) []*term {
	return ne.resultsWhere(callee, nil)
}

// resultsWhere: as results, over the returns whose boolean results agree with req (the caller
// is on a branch where it tested those results).
func (ne *symEnv) resultsWhere(callee *ssa.Function, req map[int]bool) []*term {
	nres := callee.Signature.Results().Len()
	results := make([][]*term, nres)
	any := false
	for _, r := range returnsOf(callee) {
		if r.Block() == callee.Recover || len(r.Results) != nres {
			continue
		}
		skip := false
		for j, want := range req {
			if j < nres {
				if cb, ok := constBool(retOperand(r, j)); ok && cb != want {
					skip = true
				}
			}
		}
		if skip {
			continue
		}
		// skip error returns
		if nres > 0 && isErrorType(callee.Signature.Results().At(nres-1).Type()) {
			last := retOperand(r, nres-1)
			if !isNilConst(last) && (definitelyNonNil(strip(last)) || errNonNilAt(r, nres-1) || isErrCtorCall(strip(last))) {
				continue
			}
			// `return x, err` where err is a tested-non-nil... otherwise treat as success
			if !isNilConst(last) {
				if ne.onlyErrorPath(r) {
					continue
				}
			}
		}
		any = true
		for i := 0; i < nres; i++ {
			results[i] = append(results[i], ne.eval(retOperand(r, i)))
		}
	}
	if !any {
		out := make([]*term, nres)
		for i := range out {
			out[i] = tUnknown("no success return in " + fnName(callee))
		}
		return out
	}
	out := make([]*term, nres)
	for i := range out {
		out[i] = tAlt(results[i]...)
	}
	return out
}

func isErrCtorCall(v ssa.Value) bool {
	call, ok := v.(*ssa.Call)
	if !ok {
		return false
	}
	callee := staticCallee(call.Common())
	if callee == nil || !inFramework(callee) {
		return false
	}
	res := callee.Signature.Results()
	return res.Len() == 1 && isErrorType(res.At(0).Type())
}

// onlyErrorPath: the return is dominated by a test that the returned error is non-nil.
func (e *symEnv) onlyErrorPath(r *ssa.Return) bool {
	n := len(r.Results)
	v := strip(retOperand(r, n-1))
	for _, at := range factsAt(r.Block()) {
		if at.Kind == "nil" && !at.Pos && (at.X == v) {
			return true
		}
		// errors.Is(err, X) false  => err != nil is not implied; skip
	}
	return false
}

// evalEffects evaluates, in instruction order, every handler call of the function and every call
// into framework functions that make handler calls (so that calls whose results are not part of
// the returned value are recorded too).
func (e *symEnv) evalEffects() {
	memo := map[*ssa.Function]*hcSummary{}
	for _, b := range e.fn.Blocks {
		if e.deadBlock(b) {
			continue
		}
		for _, ins := range b.Instrs {
			call, ok := ins.(*ssa.Call)
			if !ok {
				continue
			}
			cc := call.Common()
			if cc.IsInvoke() && isHandlerIface(cc.Value.Type().String()) {
				e.evalTuple(call)
				continue
			}
			if callee := staticCallee(cc); callee != nil && inFramework(callee) {
				takesFunc := false
				for _, a := range cc.Args {
					if _, isSig := a.Type().Underlying().(*types.Signature); isSig {
						if t := e.eval(a); t.K == "sym" && t.S == "func" && t.F != nil {
							takesFunc = true
						}
					}
				}
				if e.p.isDispatcherCall(cc) || takesFunc || handlerCalls(e.p, callee, e.x.execBy, memo, 0).Max > 0 {
					e.evalTuple(call)
				}
			} else if callee == nil && !cc.IsInvoke() {
				// a function value handed in by the caller
				if _, isBuiltin := cc.Value.(*ssa.Builtin); !isBuiltin {
					if t := e.eval(cc.Value); t.K == "sym" && t.S == "func" && t.F != nil && inFramework(t.F) {
						e.evalTuple(call)
					}
				}
			}
		}
	}
}

// deadBlock: b is dominated by a branch whose condition is a known constant (a captured factory
// parameter, a bound argument) taken the other way.
func (e *symEnv) deadBlock(b *ssa.BasicBlock) bool {
	if len(e.fbind) == 0 {
		return false
	}
	for _, g := range guardsOf(b) {
		t := e.eval(g.Cond)
		if t.K == "op" && (t.S == "eq" || t.S == "ne") && len(t.A) == 2 && t.A[0].K == "const" && t.A[1].K == "const" {
			same := t.A[0].S == t.A[1].S
			t = tConst(fmt.Sprint(same == (t.S == "eq")))
		}
		if t.K == "const" && (t.S == "true" || t.S == "false") {
			if (t.S == "true") != g.True {
				return true
			}
		}
	}
	return false
}

// listElems: the element alternatives of a list-valued term.
func listElems(t *term) []*term {
	switch {
	case t.K == "op" && t.S == "list":
		var out []*term
		for _, a := range t.A {
			if a.K == "alt" {
				out = append(out, a.A...)
			} else {
				out = append(out, a)
			}
		}
		return out
	case t.K == "op" && t.S == "rest":
		return []*term{t.A[0], {K: "arg", S: "A*1"}}
	case t.K == "alt":
		var out []*term
		for _, a := range t.A {
			out = append(out, listElems(a)...)
		}
		return out
	case t.K == "sym" && (t.S == "loop" || t.S == "newslice"):
		return nil
	case t.K == "op" && t.S == "slice":
		return nil // literal empty slice
	case t.K == "const":
		return nil
	}
	return []*term{t}
}

func mkList(elems []*term) *term {
	seen := map[string]bool{}
	var out []*term
	for _, e := range elems {
		if s := e.String(); !seen[s] {
			seen[s] = true
			out = append(out, e)
		}
	}
	sort.Slice(out, func(i, j int) bool { return out[i].String() < out[j].String() })
	// rest(Ak): every argument from position k on, one per iteration — either the read at Ak
	// followed by a one-read loop starting at k+1, or a one-read loop starting at k
	isAbs := func(t *term) (int, bool) {
		if t.K != "arg" || !strings.HasPrefix(t.S, "A") || strings.HasPrefix(t.S, "A*") || strings.Contains(t.S, "(") {
			return 0, false
		}
		k, err := strconv.Atoi(t.S[1:])
		return k, err == nil
	}
	isLoop1 := func(t *term) bool { return t.K == "arg" && t.S == "A*1" && t.Period == 1 }
	if len(out) == 2 {
		x, y := out[0], out[1]
		if isLoop1(x) {
			x, y = y, x
		}
		if k, ok := isAbs(x); ok && isLoop1(y) && y.LoopBase == k+1 {
			return tOp("rest", &term{K: "arg", S: x.S})
		}
	}
	if len(out) == 1 && isLoop1(out[0]) && out[0].LoopBase > 0 {
		return tOp("rest", &term{K: "arg", S: fmt.Sprintf("A%d", out[0].LoopBase)})
	}
	return tOp("list", out...)
}

// normIte renders a boolean chosen by a test; the exclusive-range marker gets its own name.
func normIte(cond, tv, fv *term) *term {
	// eq(index(Ak,0),40) ? true : false  => excl(Ak)
	if cond.K == "op" && cond.S == "eq" && len(cond.A) == 2 && tv.S == "true" && fv.S == "false" {
		if ix := cond.A[0]; ix.K == "op" && ix.S == "index" && len(ix.A) == 2 && ix.A[1].String() == "0" && cond.A[1].String() == "40" {
			if _, a, ok := argOf(ix.A[0]); ok {
				return wrapKind("excl", a)
			}
		}
	}
	return tOp("ite", cond, tv, fv)
}

// canonCollectedStructs: the elements of a list of structs collected by argument loops (ZADD's
// score/member pairs) come from reads whose positions depend on how many options preceded them
// and on how the loops are rotated. Their fields are rendered position-free: every read is
// "A*", and the zero value a variable held before its first assignment is dropped.
func canonCollectedStructs(t *term) *term {
	if t == nil || !(t.K == "op" && t.S == "list") {
		return t
	}
	hasStruct := false
	for _, el := range t.A {
		if el.K == "struct" {
			hasStruct = true
		}
	}
	if !hasStruct {
		return t
	}
	var anon func(x *term) *term
	anon = func(x *term) *term {
		if x == nil {
			return x
		}
		nx := *x
		if x.K == "arg" {
			k, _, _ := argOf(x)
			nx = *wrapKind(k, "A*")
			return &nx
		}
		nx.A = nil
		for _, a := range x.A {
			nx.A = append(nx.A, anon(a))
		}
		if nx.K == "alt" {
			var keep []*term
			for _, a := range nx.A {
				if !isZeroTerm(a) {
					keep = append(keep, a)
				}
			}
			if len(keep) > 0 {
				return tAlt(keep...)
			}
		}
		return &nx
	}
	out := &term{K: "op", S: "list"}
	seen := map[string]bool{}
	for _, el := range t.A {
		if el.K != "struct" {
			out.A = append(out.A, el)
			continue
		}
		ne := anon(el)
		if k := ne.String(); !seen[k] {
			seen[k] = true
			out.A = append(out.A, ne)
		}
	}
	return out
}

// globalInitValue: the value stored into a package-level variable by its package initialiser,
// when that is the only store to it anywhere in the program's source functions.
func globalInitValue(g *ssa.Global) ssa.Value {
	if g.Pkg == nil || theProgram == nil {
		return nil
	}
	var val ssa.Value
	n := 0
	for fn := range theProgram.AllFunctions() {
		if fn.Blocks == nil || fn.Pkg != g.Pkg {
			continue
		}
		allInstrs(fn, func(ins ssa.Instruction) {
			if st, ok := ins.(*ssa.Store); ok && st.Addr == ssa.Value(g) {
				n++
				if fn.Name() == "init" {
					val = strip(st.Val)
				}
			}
		})
	}
	if n != 1 {
		return nil
	}
	return val
}
