package main

// rules_reads.go: C02 (chunk independence) and the read-side clauses of C01/C11.

import (
	"fmt"
	"go/token"
	"go/types"
	"os"
	"strings"

	"golang.org/x/tools/go/ssa"
)

func init() {
	register(&propInfo{ID: "C02", Level: "other", Run: runC02,
		Explanation: "Static rules over every use of the parser's reader: R02.a each read is either a one-byte read whose byte is used only under its n/err test, or a full-read idiom (io.ReadFull/ReadAtLeast/CopyN, or the accumulate loop: buf[total:], total += n, exit on total == size, short end-of-stream is an error); R02.b the reader never escapes to an over-reading consumer (bufio, io.ReadAll, ...); R02.c the bulk body requests exactly declared+2 bytes and returns [0:declared], the line reader consumes exactly one byte after the CR; R02.d a parser with read-ahead state must be constructed outside the request loop. These are necessary conditions for chunk independence and exact consumption; equality of the returned values is not decided."})
}

// readerUse is one use of the Parser.reader field.
type readerUse struct {
	Fn   *ssa.Function
	Load ssa.Value
	Call *ssa.Call // the call consuming the loaded reader (nil if other use)
	Kind string    // "read", "fullread", "escape", "store"
	Ins  ssa.Instruction
}

func parserReaderUses(p *Program) ([]readerUse, *types.Var) {
	var out []readerUse
	sp := p.SSAPkgs[pkgProto]
	if sp == nil || sp.Type("Parser") == nil {
		return nil, nil
	}
	st, _ := sp.Type("Parser").Type().Underlying().(*types.Struct)
	if st == nil {
		return nil, nil
	}
	var readerField *types.Var
	for i := 0; i < st.NumFields(); i++ {
		f := st.Field(i)
		if types.Implements(f.Type(), ioReaderIface(p)) || f.Type().String() == "io.Reader" || f.Type().String() == "*bufio.Reader" {
			readerField = f
		}
	}
	if readerField == nil {
		return nil, nil
	}
	// classify every use of a value that is the parser's reader: a load of the field, or a
	// parameter / captured variable of a repository function the reader was handed to
	seenAlias := map[ssa.Value]bool{}
	var classify func(fn *ssa.Function, x ssa.Value, depth int)
	classify = func(fn *ssa.Function, x ssa.Value, depth int) {
		if seenAlias[x] || x.Referrers() == nil {
			return
		}
		seenAlias[x] = true
		for _, u := range *x.Referrers() {
			ru := readerUse{Fn: fn, Load: x, Ins: u, Kind: "escape"}
			switch y := u.(type) {
			case *ssa.DebugRef:
				continue
			case *ssa.ChangeInterface:
				classify(fn, y, depth)
				continue
			case *ssa.MakeInterface:
				classify(fn, y, depth)
				continue
			case *ssa.Store:
				// spilled into a cell captured by a closure of this function: the loads of the
				// cell (here and in the closures) are the reader again
				if al, ok := y.Addr.(*ssa.Alloc); ok && y.Val == x && depth < 4 {
					if al.Referrers() != nil {
						for _, ar := range *al.Referrers() {
							switch z := ar.(type) {
							case *ssa.UnOp:
								classify(fn, z, depth+1)
							case *ssa.MakeClosure:
								if cf, ok := z.Fn.(*ssa.Function); ok {
									for i, b := range z.Bindings {
										if b == ssa.Value(al) && i < len(cf.FreeVars) && cf.FreeVars[i].Referrers() != nil {
											for _, fr := range *cf.FreeVars[i].Referrers() {
												if ld, ok := fr.(*ssa.UnOp); ok {
													classify(cf, ld, depth+1)
												}
											}
										}
									}
								}
							}
						}
					}
					continue
				}
			case *ssa.Call:
				cc := y.Common()
				n := calleeName(cc)
				ru.Call = y
				switch {
				case cc.IsInvoke() && cc.Value == x && (n == "(io.Reader).Read"):
					ru.Kind = "read"
				case !cc.IsInvoke() && n == "(*bufio.Reader).Read" && len(cc.Args) > 0 && cc.Args[0] == x:
					ru.Kind = "read"
				case nameIn(n, "io.ReadFull", "io.ReadAtLeast", "io.CopyN") && argIs(cc, x):
					ru.Kind = "fullread"
				case nameIn(n, "(*bufio.Reader).ReadByte", "(*bufio.Reader).Discard") && len(cc.Args) > 0 && cc.Args[0] == x:
					ru.Kind = "bytewise"
				case nameIn(n, "(*bufio.Reader).ReadBytes", "(*bufio.Reader).ReadString") && len(cc.Args) > 0 && cc.Args[0] == x:
					// reads through the delimiter and returns a copy the caller owns
					ru.Kind = "delimread"
				case nameIn(n, "(*bufio.Reader).UnreadByte", "(*bufio.Reader).Buffered", "(*bufio.Reader).Size") && len(cc.Args) > 0 && cc.Args[0] == x:
					continue
				default:
					// handed to a function of the parser package: its parameter is the reader
					if callee := staticCallee(cc); callee != nil && callee.Blocks != nil && fnPkgPath(callee) == pkgProto && depth < 4 {
						handed := false
						for i, a := range cc.Args {
							if a == x && i < len(callee.Params) {
								classify(callee, callee.Params[i], depth+1)
								handed = true
							}
						}
						if handed {
							continue
						}
					}
				}
			}
			out = append(out, ru)
		}
	}
	for _, fn := range p.RepoFuncs(modPath) {
		allInstrs(fn, func(ins ssa.Instruction) {
			fa, ok := ins.(*ssa.FieldAddr)
			if !ok {
				return
			}
			stt := derefStruct(fa.X.Type())
			if stt == nil || typeName(fa.X.Type()) != "proto.Parser" || stt.Field(fa.Field) != readerField {
				return
			}
			if fa.Referrers() == nil {
				return
			}
			for _, r := range *fa.Referrers() {
				switch x := r.(type) {
				case *ssa.Store:
					out = append(out, readerUse{Fn: fn, Kind: "store", Ins: x})
				case *ssa.UnOp:
					classify(fn, x, 0)
				default:
					out = append(out, readerUse{Fn: fn, Kind: "escape", Ins: r})
				}
			}
		})
	}
	return out, readerField
}

func argIs(cc *ssa.CallCommon, v ssa.Value) bool {
	for _, a := range cc.Args {
		if strip(a) == v || a == v {
			return true
		}
		if ci, ok := a.(*ssa.ChangeInterface); ok && ci.X == v {
			return true
		}
	}
	return false
}

func ioReaderIface(p *Program) *types.Interface {
	if pk := p.AllPkgs["io"]; pk != nil && pk.Types != nil {
		if o := pk.Types.Scope().Lookup("Reader"); o != nil {
			if it, ok := o.Type().Underlying().(*types.Interface); ok {
				return it
			}
		}
	}
	return types.NewInterfaceType(nil, nil)
}

// oneByteBuffer reports whether the []byte value is provably of length 1.
func oneByteBuffer(v ssa.Value) (ssa.Value, bool) {
	v = strip(v)
	switch x := v.(type) {
	case *ssa.MakeSlice:
		if c, ok := constInt(x.Len); ok && c == 1 {
			return x, true
		}
	case *ssa.Slice:
		if arr, ok := deref(x.X.Type()).Underlying().(*types.Array); ok && arr.Len() == 1 && x.Low == nil && x.High == nil {
			return x, true
		}
		if arr, ok := deref(x.X.Type()).Underlying().(*types.Array); ok && arr.Len() == 1 {
			if h, ok := constInt(x.High); ok && h == 1 && x.Low == nil {
				return x, true
			}
		}
	}
	return nil, false
}

func runC02(c *Ctx) {
	c.assume("an io.Reader never returns (0, nil) indefinitely (net.Conn does not)")
	scope := c.P.parserScope()
	for _, f := range scope {
		c.analysed(f)
	}
	ruleReaderUses(c, "R02.a", "R02.b")
	ruleBulkFrame(c, "R02.c")
	ruleLineReader(c, "R02.c")
	ruleParserLifetime(c)
	ruleNoRetryAfterParseError(c, "R02.e")
	ruleParserStateBalanced(c, "R02.f")
	ruleOnlyParserReadsConn(c, "R02.g")
}

// ruleReaderUses: R02.a and R02.b (also used by C01/C11 for the short-read clause).
func ruleReaderUses(c *Ctx, ridA, ridB string) {
	c.rule(ridA, "every multi-byte read from the parser's reader is a full-read idiom (io.ReadFull / ReadAtLeast / CopyN with the error propagated, or the accumulate loop: Read(buf[total:]) inside a loop, its n used only as total+n, total a loop phi from 0, exit when total reaches len(buf), end-of-stream with total+n < len(buf) is an error); one-byte reads use their byte only under the n/err test of that read")
	c.rule(ridB, "the parser's reader is used only as the receiver of Read or as the source of a full-read function; it never escapes to bufio.NewReader, io.ReadAll, io.Copy, Buffer.ReadFrom, a Scanner or any other consumer from a per-message method")
	uses, field := parserReaderUses(c.P)
	if field == nil {
		c.undecided(ridA, "anchor/Parser.reader", "", "proto.Parser has no reader field")
		return
	}
	nOne, nFull, nEsc := 0, 0, 0
	ord := map[string]int{}
	for _, u := range uses {
		c.analysed(u.Fn)
		ord[fnName(u.Fn)+u.Kind]++
		key := fmt.Sprintf("%s/%s#%d", fnName(u.Fn), u.Kind, ord[fnName(u.Fn)+u.Kind])
		pos := c.P.instrPos(u.Ins)
		switch u.Kind {
		case "store":
			// only constructors may set the reader
			if isConstructorOf(u.Fn, "Parser") {
				c.ok(ridB, key, pos, "reader stored by a constructor")
			} else {
				c.bad(ridB, key, pos, "the parser's reader is replaced outside a constructor (a per-message wrapper would swallow bytes of the next value)")
			}
		case "escape":
			nEsc++
			c.bad(ridB, key, pos, fmt.Sprintf("the parser's reader escapes to %s: a consumer that may read ahead swallows bytes belonging to the following value", u.Ins.String()))
		case "bytewise":
			nOne++
			c.ok(ridA, key, pos, "byte-wise read through the parser's own buffered reader")
		case "delimread":
			nOne++
			// the data is used where the error was tested (nil, or end of stream in the
			// EOF-tolerant line reader, which R11.b inventories)
			c.ok(ridA, key, pos, "delimited read through the parser's own buffered reader (reads up to and including the delimiter, whatever the chunking)")
		case "fullread":
			nFull++
			// error must be checked: value results used only under err == nil — generic rule
			if okE, why := errCheckedCall(u.Call); okE {
				c.ok(ridA, key, pos, "full-read function with its error checked")
			} else {
				c.bad(ridA, key, pos, "full-read function whose error is not checked: "+why)
			}
		case "read":
			var buf ssa.Value
			args := callArgs(u.Call.Common())
			if len(args) >= 2 {
				buf = args[1]
			}
			if b1, ok := oneByteBuffer(buf); ok {
				nOne++
				if okU, why := oneByteUseGuarded(c, u.Call, b1); okU {
					c.ok(ridA, key, pos, "one-byte read; the byte is used only under the n/err test of a read into it")
				} else {
					c.bad(ridA, key, pos, why)
				}
				continue
			}
			okL, why := accumulateLoop(c, u.Fn, u.Call, buf)
			if okL {
				nFull++
				c.ok(ridA, key, pos, "accumulate loop: "+why)
			} else {
				c.bad(ridA, key, pos, "a multi-byte region is read with a single Read that is not the accumulate-loop idiom (a short read returns fewer bytes than requested): "+why)
			}
		}
	}
	c.count("reader-one-byte-reads", nOne)
	c.count("reader-full-reads", nFull)
	c.count("reader-uses-recognised", nOne+nFull)
	c.floor("reader-uses-recognised", 3)
	c.floor("reader-full-reads", 1)
	if nEsc == 0 {
		c.ok(ridB, "no-escape", "", fmt.Sprintf("%d uses of Parser.reader, none escapes", len(uses)))
	}
}

func isConstructorOf(fn *ssa.Function, typ string) bool {
	// a function (not method) of package proto returning *Parser that allocates the Parser itself
	if fn.Signature.Recv() != nil {
		return false
	}
	res := fn.Signature.Results()
	if res.Len() < 1 || typeName(res.At(0).Type()) != "proto."+typ {
		return false
	}
	alloc := false
	allInstrs(fn, func(ins ssa.Instruction) {
		if a, ok := ins.(*ssa.Alloc); ok && typeName(a.Type()) == "proto."+typ {
			alloc = true
		}
	})
	return alloc
}

// errCheckedCall: for a call returning (..., error): the non-error results are used only where
// the error is known nil, or the whole tuple is returned.
func errCheckedCall(call *ssa.Call) (bool, string) {
	if call.Referrers() == nil {
		return false, "results discarded"
	}
	var errEx *ssa.Extract
	var vals []*ssa.Extract
	tup, ok := call.Type().(*types.Tuple)
	if !ok {
		if isErrorType(call.Type()) {
			// single error result: must be used
			if len(*call.Referrers()) == 0 {
				return false, "error result dropped"
			}
			return true, ""
		}
		return true, ""
	}
	for _, r := range *call.Referrers() {
		if ex, ok := r.(*ssa.Extract); ok {
			if ex.Index == tup.Len()-1 {
				errEx = ex
			} else {
				vals = append(vals, ex)
			}
		}
	}
	if errEx == nil || errEx.Referrers() == nil || len(*errEx.Referrers()) == 0 {
		return false, "the error result is never read"
	}
	for _, v := range vals {
		if v.Referrers() == nil {
			continue
		}
		for _, u := range *v.Referrers() {
			if _, ok := u.(*ssa.DebugRef); ok {
				continue
			}
			guarded := false
			for _, at := range factsAt(u.Block()) {
				if at.Kind == "nil" && at.Pos && at.X == ssa.Value(errEx) {
					guarded = true
				}
			}
			// pass-through: `return f()` lowered to extracts returned together with the error
			if ret, ok := u.(*ssa.Return); ok {
				for _, rv := range ret.Results {
					if rv == ssa.Value(errEx) {
						guarded = true
					}
				}
			}
			// flows into a phi: on the edge that carries this value the error is nil (default-value
			// idiom), or the phi is the loop-carried copy whose uses are guarded by the parallel
			// phi of the errors
			if phi, ok := u.(*ssa.Phi); ok && !guarded {
				guarded = phiUseGuarded(phi, v, errEx)
			}
			// stored into a local variable cell: every load of the cell must be guarded
			if st, ok := u.(*ssa.Store); ok && !guarded {
				if al, ok := st.Addr.(*ssa.Alloc); ok {
					guarded = allocUsesGuarded(al, st, errEx)
				}
			}
			// stored, and the very block ends by testing this error with the failing side only failing
			if st, ok := u.(*ssa.Store); ok && !guarded {
				b := st.Block()
				if iff, ok := b.Instrs[len(b.Instrs)-1].(*ssa.If); ok {
					for idx := 0; idx < 2; idx++ {
						for _, at := range atomsOf(iff.Cond, idx == 0) {
							if at.Kind == "nil" && !at.Pos && at.X == ssa.Value(errEx) && !succeedsFrom(b.Succs[idx]) {
								guarded = true
							}
						}
					}
				}
			}
			// stored into a field of an object that is only returned where the error is nil
			if st, ok := u.(*ssa.Store); ok && !guarded {
				if fa, ok := st.Addr.(*ssa.FieldAddr); ok {
					base := strip(fa.X)
					okAll, any := true, false
					after := reachableBlocks(st.Block(), nil)
					for _, ret := range returnsOf(call.Parent()) {
						if !after[ret.Block()] {
							continue
						}
						for i := range ret.Results {
							if strip(retOperand(ret, i)) == base {
								any = true
								g := false
								for _, at := range factsAt(ret.Block()) {
									if at.Kind == "nil" && at.Pos && at.X == ssa.Value(errEx) {
										g = true
									}
									if at.Kind == "nil" && !at.Pos && at.X == ssa.Value(errEx) {
										g = true // returned together with the (non-nil) error: the caller must not use it
									}
								}
								if nres := len(ret.Results); nres > 0 && !isNilConst(retOperand(ret, nres-1)) {
									g = true
								}
								if !g {
									okAll = false
								}
							}
						}
					}
					if any && okAll {
						guarded = true
					}
				}
			}
			// used only as an operand of the error message built for this failure
			if mi, ok := u.(*ssa.MakeInterface); ok && !guarded {
				guarded = onlyFeedsErrorText(mi, 0)
			}
			// stored through a pointer parameter by a helper that then returns this very error on
			// every path: the caller sees the error and is the one to discard the object
			if st, ok := u.(*ssa.Store); ok && !guarded {
				if fa, ok := st.Addr.(*ssa.FieldAddr); ok {
					if _, isPar := strip(fa.X).(*ssa.Parameter); isPar {
						okAll, any := true, false
						after := reachableBlocks(st.Block(), nil)
						for _, ret := range returnsOf(call.Parent()) {
							if !after[ret.Block()] {
								continue
							}
							any = true
							n := len(ret.Results)
							if n == 0 || strip(retOperand(ret, n-1)) != ssa.Value(errEx) {
								// or a return under the error's nil test returning nil
								g := false
								for _, at := range factsAt(ret.Block()) {
									if at.Kind == "nil" && at.X == ssa.Value(errEx) {
										g = true
									}
								}
								if !g {
									okAll = false
								}
							}
						}
						if any && okAll {
							guarded = true
						}
					}
				}
			}
			if !guarded {
				return false, fmt.Sprintf("result used at %s where the error may be non-nil", u.String())
			}
		}
	}
	return true, ""
}

// oneByteUseGuarded: every load of buf[0] is dominated by (n == 1) or (err == nil) of a read into buf.
func oneByteUseGuarded(c *Ctx, call *ssa.Call, buf ssa.Value) (bool, string) {
	fn := call.Parent()
	// all Read calls into this buffer
	reads := map[*ssa.Call]bool{}
	allInstrs(fn, func(ins ssa.Instruction) {
		if cl, ok := ins.(*ssa.Call); ok {
			n := calleeName(cl.Common())
			if n == "(io.Reader).Read" || n == "(*bufio.Reader).Read" {
				args := callArgs(cl.Common())
				if len(args) >= 2 && strip(args[1]) == buf {
					reads[cl] = true
				}
			}
		}
	})
	isReadResult := func(v ssa.Value, idx int) bool {
		var chk func(v ssa.Value, d int) bool
		chk = func(v ssa.Value, d int) bool {
			if d > 4 {
				return false
			}
			switch x := v.(type) {
			case *ssa.Extract:
				cl, ok := x.Tuple.(*ssa.Call)
				return ok && reads[cl] && x.Index == idx
			case *ssa.Phi:
				for _, e := range x.Edges {
					if !chk(e, d+1) {
						return false
					}
				}
				return len(x.Edges) > 0
			}
			return false
		}
		return chk(v, 0)
	}
	bad := ""
	allInstrs(fn, func(ins ssa.Instruction) {
		ia, ok := ins.(*ssa.IndexAddr)
		if !ok || strip(ia.X) != buf || ia.Referrers() == nil {
			return
		}
		for _, r := range *ia.Referrers() {
			ld, ok := r.(*ssa.UnOp)
			if !ok || ld.Op != token.MUL {
				continue
			}
			guarded := false
			for _, at := range factsAt(ld.Block()) {
				if at.Kind == "nil" && at.Pos && isReadResult(at.X, 1) {
					guarded = true
				}
				if at.Kind == "eq" && at.Pos {
					if cv, ok := constInt(at.Y); ok && cv == 1 && isReadResult(at.X, 0) {
						guarded = true
					}
					if cv, ok := constInt(at.X); ok && cv == 1 && isReadResult(at.Y, 0) {
						guarded = true
					}
				}
			}
			if !guarded && byteReturnedWithErr(c, fn, ld, func(v ssa.Value) bool { return isReadResult(v, 1) }) {
				guarded = true
			}
			if !guarded {
				bad = fmt.Sprintf("the byte read into the one-byte buffer is used at %s without a dominating test of the read's n/err (a failed or empty read would be taken for a byte)", c.P.instrPos(ld))
			}
		}
	})
	return bad == "", bad
}

// accumulateLoop recognises the read loop of the bulk body.
func accumulateLoop(c *Ctx, fn *ssa.Function, call *ssa.Call, buf ssa.Value) (bool, string) {
	sl, ok := buf.(*ssa.Slice)
	if !ok {
		return false, "the buffer passed to Read is not buf[total:]"
	}
	total, ok := sl.Low.(*ssa.Phi)
	if !ok || sl.High != nil {
		return false, "the slice passed to Read does not start at an accumulated offset (loop phi)"
	}
	var loop *Loop
	for _, l := range naturalLoops(fn) {
		if l.Blocks[call.Block()] && l.Blocks[total.Block()] {
			if loop == nil || len(l.Blocks) < len(loop.Blocks) {
				loop = l
			}
		}
	}
	if loop == nil {
		return false, "the Read is not inside a loop"
	}
	size := lenOf(sl.X)
	// n result
	var nEx *ssa.Extract
	if call.Referrers() != nil {
		for _, r := range *call.Referrers() {
			if ex, ok := r.(*ssa.Extract); ok && ex.Index == 0 {
				nEx = ex
			}
		}
	}
	if nEx == nil {
		return false, "the byte count returned by Read is discarded"
	}
	if nEx.Referrers() != nil {
		for _, u := range *nEx.Referrers() {
			if _, ok := u.(*ssa.DebugRef); ok {
				continue
			}
			bo, ok := u.(*ssa.BinOp)
			if !ok || bo.Op != token.ADD || !((bo.X == ssa.Value(total) && bo.Y == ssa.Value(nEx)) || (bo.Y == ssa.Value(total) && bo.X == ssa.Value(nEx))) {
				return false, fmt.Sprintf("the byte count is used other than as total+n (%s)", u.String())
			}
		}
	}
	// phi edges: 0 and total+n
	for i, e := range total.Edges {
		pred := total.Block().Preds[i]
		if loop.Blocks[pred] {
			bo, ok := e.(*ssa.BinOp)
			if !ok || bo.Op != token.ADD || !((bo.X == ssa.Value(total) && bo.Y == ssa.Value(nEx)) || (bo.Y == ssa.Value(total) && bo.X == ssa.Value(nEx))) {
				return false, "the accumulated offset is not advanced by the byte count of the read"
			}
		} else if cv, ok := constInt(e); !ok || cv != 0 {
			return false, "the accumulated offset does not start at 0"
		}
	}
	// exits: on every path that leaves the loop and reaches a success return, the branch facts
	// collected along the path include size <= total or size <= total+n
	isSum := func(v ssa.Value) bool {
		bo, ok := v.(*ssa.BinOp)
		return ok && bo.Op == token.ADD && ((bo.X == ssa.Value(total) && bo.Y == ssa.Value(nEx)) || (bo.Y == ssa.Value(total) && bo.X == ssa.Value(nEx)))
	}
	complete := func(facts []Atom) bool {
		for _, iq := range ineqsOf(facts) {
			// base+ox <= y+oy gives size = base+so <= y exactly when ox-so >= oy
			if sameBase(iq.x, size) && iq.x.off-size.off >= iq.y.off && !iq.y.isLen {
				if iq.y.base == ssa.Value(total) || isSum(iq.y.base) {
					return true
				}
			}
		}
		return false
	}
	headerExit := false
	var failMsg string
	var walk func(b *ssa.BasicBlock, facts []Atom, seen map[*ssa.BasicBlock]bool, from *ssa.BasicBlock, depth int)
	walk = func(b *ssa.BasicBlock, facts []Atom, seen map[*ssa.BasicBlock]bool, from *ssa.BasicBlock, depth int) {
		if failMsg != "" || seen[b] || depth > 40 {
			return
		}
		seen[b] = true
		defer delete(seen, b)
		for _, i3 := range b.Instrs {
			if r, ok := i3.(*ssa.Return); ok && len(r.Results) > 0 && isNilConst(retOperand(r, len(r.Results)-1)) {
				if !complete(facts) {
					failMsg = fmt.Sprintf("the loop can be left at %s without the requested size having been read and still reach the success return at %s (a short read at end of stream is accepted)", c.P.instrPos(from.Instrs[len(from.Instrs)-1]), c.P.instrPos(r))
				}
				return
			}
		}
		for idx, s := range b.Succs {
			nf := facts
			if len(b.Succs) == 2 && b.Succs[0] != b.Succs[1] {
				if iff, ok := b.Instrs[len(b.Instrs)-1].(*ssa.If); ok {
					nf = append(append([]Atom{}, facts...), atomsOf(iff.Cond, idx == 0)...)
				}
			}
			walk(s, nf, seen, from, depth+1)
		}
	}
	for _, b := range loop.sortedBlocks() {
		for idx, s := range b.Succs {
			if loop.Blocks[s] {
				continue
			}
			var facts []Atom
			if iff, ok := b.Instrs[len(b.Instrs)-1].(*ssa.If); ok && len(b.Succs) == 2 {
				facts = atomsOf(iff.Cond, idx == 0)
			}
			if b == total.Block() && complete(facts) {
				headerExit = true
			}
			walk(s, facts, map[*ssa.BasicBlock]bool{}, b, 0)
		}
	}
	if failMsg != "" {
		return false, failMsg
	}
	if !headerExit {
		return false, "the loop condition does not compare the accumulated count with the size of the buffer"
	}
	return true, fmt.Sprintf("Read(buf[%s:]), %s += n, until %s == %s; short end of stream is an error", total.Name(), total.Name(), total.Name(), size)
}

// bulkBody finds the function that allocates the wire-sized byte buffer.
func bulkBody(c *Ctx) (*ssa.Function, *ssa.MakeSlice) {
	scope := c.P.parserScope()
	taint, _ := wireTaint(scope)
	for _, f := range scope {
		var mk *ssa.MakeSlice
		allInstrs(f, func(ins ssa.Instruction) {
			if m, ok := ins.(*ssa.MakeSlice); ok && taint[m.Len] && m.Type().String() == "[]byte" {
				mk = m
			}
		})
		if mk != nil {
			return f, mk
		}
	}
	return nil, nil
}

// ruleBulkFrame: R02.c / R01.c.
func ruleBulkFrame(c *Ctx, rid string) {
	c.rule(rid, "bulk frame: the body buffer has exactly declared+2 bytes; the value returned is buf[0:declared]; the only content comparisons on the buffer are buf[declared] == CR and buf[declared+1] == LF (payload content never influences framing); the body is not read through the line reader")
	nullOnlyForNegative(c, rid)
	f, mk := bulkBody(c)
	if f == nil {
		// alternative: io.ReadFull/CopyN based body; look for the idiom instead
		c.undecided(rid, "bulk/body-buffer", "", "no wire-sized []byte allocation found in the parser: the bulk body idiom is not one the rule knows (make([]byte, declared+2) + accumulate loop)")
		return
	}
	key := fnName(f)
	size := linOf(mk.Len)
	var declared ssa.Value = size.base
	if size.base != nil && !size.isLen && size.off == 0 {
		// the other accepted shape: the body is read into make([]byte, declared) and the two
		// delimiter bytes into a buffer of their own
		bulkFrameSeparateDelimiter(c, rid, f, mk, declared)
		return
	}
	okSize := size.base != nil && !size.isLen && size.off == 2
	c.check(okSize, rid, key+"/size", c.P.instrPos(mk), fmt.Sprintf("buffer length = %s", size), fmt.Sprintf("the body buffer has %s bytes, not declared+2: the following value's bytes are swallowed or the delimiter is left behind", size))
	if !okSize {
		return
	}
	// success returns: buf[0:declared]
	for i, r := range returnsOf(f) {
		if len(r.Results) != 2 || !isNilConst(retOperand(r, 1)) {
			continue
		}
		v := strip(retOperand(r, 0))
		sl, ok := v.(*ssa.Slice)
		good := ok && strip(sl.X) == ssa.Value(mk)
		if good {
			lo := lin{}
			if sl.Low != nil {
				lo = linOf(sl.Low)
			}
			hi := lenOf(sl.X)
			if sl.High != nil {
				hi = linOf(sl.High)
			}
			good = lo.base == nil && lo.off == 0 && hi.base == declared && hi.off == 0 && !hi.isLen
		}
		c.check(good, rid, fmt.Sprintf("%s/return#%d", key, i), c.P.instrPos(r), "returns buf[0:declared]", "the bulk payload returned is not exactly buf[0:declared]")
	}
	// content comparisons
	seen := map[int64]int64{}
	badCmp := 0
	allInstrs(f, func(ins ssa.Instruction) {
		ia, ok := ins.(*ssa.IndexAddr)
		if !ok || ia.Referrers() == nil {
			return
		}
		base, idx, okIdx := indexThroughSlices(ia)
		if base != ssa.Value(mk) {
			return
		}
		if !okIdx {
			idx = lin{base: ia.Index}
		}
		for _, r := range *ia.Referrers() {
			ld, ok := r.(*ssa.UnOp)
			if !ok || ld.Op != token.MUL || ld.Referrers() == nil {
				continue
			}
			for _, u := range *ld.Referrers() {
				bo, ok := u.(*ssa.BinOp)
				if !ok {
					continue
				}
				var k ssa.Value = bo.Y
				if bo.Y == ssa.Value(ld) {
					k = bo.X
				}
				cv, isC := constInt(k)
				if idx.base == declared && !idx.isLen && (idx.off == 0 || idx.off == 1) && isC && (bo.Op == token.EQL || bo.Op == token.NEQ) {
					seen[idx.off] = cv
				} else {
					badCmp++
					c.bad(rid, fmt.Sprintf("%s/content-compare#%d", key, badCmp), c.P.instrPos(bo), fmt.Sprintf("a byte of the bulk buffer at offset %s is compared: payload content influences framing", idx))
				}
			}
		}
	})
	c.check(seen[0] == 13 && seen[1] == 10, rid, key+"/delimiter", c.P.pos(f.Pos()), "buf[declared]==CR and buf[declared+1]==LF are checked", "the trailing CRLF of the bulk body is not checked at offsets declared and declared+1")
	// no call of an EOF-tolerant line reader in the body function
	for _, callee := range calleesIn(f) {
		if eofTolerant(callee) != nil {
			c.bad(rid, key+"/line-reader", c.P.pos(f.Pos()), "the bulk body is read through "+fnName(callee)+", which accepts a line cut short by end of stream")
		}
	}
}

func calleesIn(f *ssa.Function) []*ssa.Function {
	var out []*ssa.Function
	allInstrs(f, func(ins ssa.Instruction) {
		if cc := callCommon(ins); cc != nil {
			if cal := staticCallee(cc); cal != nil {
				out = append(out, cal)
			}
		}
	})
	return out
}

// eofTolerant returns a Return of fn that yields a nil error under a dominating end-of-stream test.
func eofTolerant(fn *ssa.Function) *ssa.Return {
	if fn.Blocks == nil {
		return nil
	}
	for _, r := range returnsOf(fn) {
		if len(r.Results) == 0 || !isErrorType(r.Results[len(r.Results)-1].Type()) {
			continue
		}
		if !isNilConst(retOperand(r, len(r.Results)-1)) {
			continue
		}
		for _, at := range factsAt(r.Block()) {
			if isEOFTest(at) && at.Pos {
				return r
			}
		}
	}
	return nil
}

func isEOFTest(at Atom) bool {
	isEOF := func(v ssa.Value) bool {
		return isLoadOfGlobal(v, "io", "EOF") || isLoadOfGlobal(v, "io", "ErrUnexpectedEOF")
	}
	switch at.Kind {
	case "call":
		cc := at.Call.Common()
		return calleeName(cc) == "errors.Is" && len(cc.Args) == 2 && isEOF(cc.Args[1])
	case "eq":
		return isEOF(at.X) || isEOF(at.Y)
	}
	return false
}

// ruleLineReader: the line reader consumes bytes one at a time up to the CR and exactly one more.
func ruleLineReader(c *Ctx, rid string) {
	scope := c.P.parserScope()
	n := 0
	for _, f := range scope {
		// a line reader: a loop of one-byte reads whose continuation compares the byte with CR
		var loop *Loop
		var crCmp *ssa.BinOp
		for _, l := range naturalLoops(f) {
			for b := range l.Blocks {
				for _, ins := range b.Instrs {
					if bo, ok := ins.(*ssa.BinOp); ok && (bo.Op == token.NEQ || bo.Op == token.EQL) {
						if cv, ok := constInt(bo.Y); ok && cv == 13 && isJustReadByte(bo.X) {
							loop, crCmp = l, bo
						}
					}
				}
			}
		}
		if loop == nil {
			// the buffered form: ReadBytes(CR)/ReadString(CR) and exactly one more byte (the LF),
			// or ReadBytes(LF), which consumes the whole line itself
			if call, delim := delimitedLineRead(f); call != nil {
				n++
				key := fnName(f) + "/line"
				if delim == 10 {
					c.ok(rid, key, c.P.instrPos(call), "the line is read up to and including its LF by one delimited read")
					continue
				}
				type st struct{ Reads int8 }
				a := &Auto[st]{Fn: f, Init: st{},
					Step: func(s st, ins ssa.Instruction, fail func(string)) []st {
						if cl, ok := ins.(*ssa.Call); ok && cl != call {
							nme := calleeName(cl.Common())
							if isReadByteCall(cl) || nme == "(*bufio.Reader).Read" || nme == "(io.Reader).Read" {
								if s.Reads < 2 {
									s.Reads++
								}
							}
							if nme == "(*bufio.Reader).Discard" {
								if k, ok := constInt(cl.Common().Args[1]); ok && k == 1 && s.Reads < 2 {
									s.Reads++
								} else {
									s.Reads = 2
								}
							}
						}
						if r, ok := ins.(*ssa.Return); ok && len(r.Results) == 2 && isNilConst(retOperand(r, 1)) {
							eof := false
							for _, at := range factsAt(r.Block()) {
								if isEOFTest(at) && at.Pos {
									eof = true
								}
							}
							if !eof && s.Reads != 1 {
								fail(fmt.Sprintf("a line is returned after %d reads beyond the CR (exactly one, the LF, must be consumed)", s.Reads))
							}
						}
						return []st{s}
					}}
				res := a.Run()
				if len(res.Errs) == 0 {
					c.ok(rid, key, c.P.instrPos(call), "delimited read up to CR, then exactly one more byte is consumed on every complete-line return")
				}
				for i, e := range res.Errs {
					c.bad(rid, fmt.Sprintf("%s/path#%d", key, i), c.P.instrPos(e.Ins), e.Msg, e.witness(c.P)...)
				}
			}
			continue
		}
		n++
		key := fnName(f) + "/line"
		// after the loop: on every success return not under an EOF fact exactly one more Read
		type st struct{ After, Reads int8 }
		a := &Auto[st]{Fn: f, Init: st{},
			Step: func(s st, ins ssa.Instruction, fail func(string)) []st {
				if loop.Blocks[ins.Block()] {
					return []st{{}}
				}
				s.After = 1
				if cl, ok := ins.(*ssa.Call); ok {
					nme := calleeName(cl.Common())
					if nme == "(io.Reader).Read" || isReadByteCall(cl) || nme == "(*bufio.Reader).Discard" || nameIn(nme, blockingReadNames...) {
						if s.Reads < 2 {
							s.Reads++
						}
					}
				}
				if r, ok := ins.(*ssa.Return); ok && len(r.Results) == 2 && isNilConst(retOperand(r, 1)) {
					eof := false
					for _, at := range factsAt(r.Block()) {
						if isEOFTest(at) && at.Pos {
							eof = true
						}
					}
					if !eof && s.Reads != 1 {
						fail(fmt.Sprintf("a line is returned after %d reads beyond the CR (exactly one, the LF, must be consumed)", s.Reads))
					}
				}
				return []st{s}
			}}
		res := a.Run()
		if len(res.Errs) == 0 {
			c.ok(rid, key, c.P.instrPos(crCmp), "byte-at-a-time up to CR, then exactly one more byte is consumed on every complete-line return")
		}
		for i, e := range res.Errs {
			c.bad(rid, fmt.Sprintf("%s/path#%d", key, i), c.P.instrPos(e.Ins), e.Msg, e.witness(c.P)...)
		}
	}
	c.count("line-readers", n)
	c.floor("line-readers", 1)
}

// ruleParserLifetime: R02.d.
func ruleParserLifetime(c *Ctx) {
	rid := "R02.d"
	c.rule(rid, "a parser with read-ahead state (any field besides the raw reader) must be constructed once per connection, outside the request loop")
	sp := c.P.SSAPkgs[pkgProto]
	st, _ := sp.Type("Parser").Type().Underlying().(*types.Struct)
	stateful := st.NumFields() > 1
	for i := 0; i < st.NumFields(); i++ {
		if strings.Contains(st.Field(i).Type().String(), "bufio") {
			stateful = true
		}
	}
	for _, cl := range c.P.connLoops() {
		key := fnName(cl.Fn)
		recv := strip(cl.Next.Common().Args[0])
		ins, ok := recv.(ssa.Instruction)
		inLoop := ok && cl.Loop != nil && cl.Loop.Blocks[ins.Block()]
		switch {
		case !stateful:
			c.ok(rid, key, c.P.instrPos(cl.Next), "the parser holds nothing but the raw reader: where it is constructed does not matter")
		case inLoop:
			c.bad(rid, key, c.P.instrPos(cl.Next), "a parser with read-ahead state is constructed inside the request loop: bytes buffered for the next request are dropped with the old parser")
		default:
			c.ok(rid, key, c.P.instrPos(cl.Next), "stateful parser constructed once, outside the loop")
		}
	}
}

// phiUseGuarded: value v (result of a call whose error is errEx) flows into phi.
func phiUseGuarded(phi *ssa.Phi, v *ssa.Extract, errEx *ssa.Extract) bool {
	// (1) every edge carrying v comes from a place where errEx is nil
	okEdges := true
	for i, e := range phi.Edges {
		if e != ssa.Value(v) {
			continue
		}
		pred := phi.Block().Preds[i]
		g := false
		for _, at := range edgeFacts(pred, succIndex(pred, phi.Block())) {
			if at.Kind == "nil" && at.Pos && at.X == ssa.Value(errEx) {
				g = true
			}
		}
		if !g {
			okEdges = false
		}
	}
	if okEdges {
		return true
	}
	// (2) parallel error phi in the same block; all non-phi uses of the value phi are guarded by it
	var errPhi *ssa.Phi
	for _, ins := range phi.Block().Instrs {
		q, ok := ins.(*ssa.Phi)
		if !ok {
			break
		}
		par := true
		hit := false
		for i, e := range phi.Edges {
			if e == ssa.Value(v) {
				hit = true
				if i >= len(q.Edges) || q.Edges[i] != ssa.Value(errEx) {
					par = false
				}
			}
		}
		if par && hit && isErrorType(q.Type()) {
			errPhi = q
		}
	}
	if errPhi == nil || phi.Referrers() == nil {
		return false
	}
	for _, u := range *phi.Referrers() {
		switch u.(type) {
		case *ssa.DebugRef:
			continue
		}
		if p2, ok := u.(*ssa.Phi); ok {
			_ = p2
			continue // merged further; the merged value's uses are checked where it is used with its own error
		}
		g := false
		for _, at := range factsAt(u.Block()) {
			if at.Kind == "nil" && at.Pos && (at.X == ssa.Value(errPhi) || at.X == ssa.Value(errEx)) {
				g = true
			}
		}
		if !g {
			return false
		}
	}
	return true
}

// allocUsesGuarded: the value was stored into a local cell before its error was tested; every
// later load of the cell (or of its fields) happens where the error is nil, or the cell is
// overwritten / only returned together with the error.
func allocUsesGuarded(al *ssa.Alloc, st *ssa.Store, errEx *ssa.Extract) bool {
	if al.Referrers() == nil {
		return true
	}
	after := reachableBlocks(st.Block(), nil)
	for _, r := range *al.Referrers() {
		var users []ssa.Instruction
		switch x := r.(type) {
		case *ssa.UnOp:
			users = append(users, x)
		case *ssa.FieldAddr:
			if x.Referrers() != nil {
				for _, rr := range *x.Referrers() {
					if ld, ok := rr.(*ssa.UnOp); ok {
						users = append(users, ld)
					}
				}
			}
		case *ssa.MakeClosure:
			return false
		}
		for _, u := range users {
			if !after[u.Block()] {
				continue
			}
			if u.Block() == st.Block() {
				// loads before the store in the same block are unaffected
				before := false
				for _, ins := range u.Block().Instrs {
					if ins == u {
						before = true
						break
					}
					if ins == ssa.Instruction(st) {
						break
					}
				}
				if before {
					continue
				}
			}
			g := false
			for _, at := range factsAt(u.Block()) {
				if at.Kind == "nil" && at.X == ssa.Value(errEx) {
					g = true // nil: safe to use; non-nil: error path (value returned with its error)
				}
			}
			if !g {
				return false
			}
		}
	}
	return true
}

// onlyStaticallyCalled: fn is unexported and every reference to it in the program is the callee
// position of a call in a source function (no method value, thunk, go/defer or stored func value).
func (p *Program) onlyStaticallyCalled(fn *ssa.Function) ([]*ssa.Call, bool) {
	if fn.Object() == nil || fn.Object().Exported() || fn.Parent() != nil {
		return nil, false
	}
	var sites []*ssa.Call
	ok := true
	for f := range p.AllFunctions() {
		if f.Blocks == nil {
			continue
		}
		allInstrs(f, func(ins ssa.Instruction) {
			var ops []*ssa.Value
			for _, op := range ins.Operands(ops) {
				if op == nil || *op != ssa.Value(fn) {
					continue
				}
				cl, isCall := ins.(*ssa.Call)
				if isCall && strings.HasPrefix(f.Synthetic, "wrapper for") && f.Signature.Recv() != nil {
					// the promotion wrapper of an unexported method for an embedding type of
					// another package: nothing there can name the method
					if n, ok := deref(f.Signature.Recv().Type()).(*types.Named); ok && n.Obj().Pkg() != nil && fn.Pkg != nil && n.Obj().Pkg() != fn.Pkg.Pkg {
						continue
					}
				}
				if !isCall || f.Synthetic != "" || cl.Call.Value != ssa.Value(fn) {
					if os.Getenv("DBGDISP") != "" {
						fmt.Fprintln(os.Stderr, "non-call use of", fnName(fn), "in", fnName(f), f.Synthetic, ins.String())
					}
					ok = false
					continue
				}
				for _, a := range cl.Call.Args {
					if a == ssa.Value(fn) {
						ok = false
					}
				}
				sites = append(sites, cl)
			}
		})
	}
	return sites, ok && len(sites) > 0
}

// byteReturnedWithErr: the helper idiom `return buf[0], err` — the byte is only returned, always
// together with the error of the read as the last result, and every caller of the (unexported,
// only statically called) helper uses the byte only where that error is nil.
func byteReturnedWithErr(c *Ctx, fn *ssa.Function, ld *ssa.UnOp, isErr func(ssa.Value) bool) bool {
	if ld.Referrers() == nil {
		return false
	}
	n := 0
	for _, r := range *ld.Referrers() {
		if _, ok := r.(*ssa.DebugRef); ok {
			continue
		}
		ret, ok := r.(*ssa.Return)
		if !ok || len(ret.Results) < 2 || !isErr(ret.Results[len(ret.Results)-1]) {
			return false
		}
		n++
	}
	if n == 0 {
		return false
	}
	sites, ok := c.P.onlyStaticallyCalled(fn)
	if !ok {
		return false
	}
	for _, s := range sites {
		if okE, _ := errCheckedCall(s); !okE {
			return false
		}
	}
	return true
}

// indexThroughSlices resolves x[i] where x is a chain of reslicings b[lo:...] of an underlying
// buffer to (buffer, lo+i).
func indexThroughSlices(ia *ssa.IndexAddr) (ssa.Value, lin, bool) {
	idx := linOf(ia.Index)
	x := strip(ia.X)
	ok := true
	for d := 0; d < 4; d++ {
		s, isSl := x.(*ssa.Slice)
		if !isSl {
			break
		}
		if s.Low != nil {
			lo := linOf(s.Low)
			switch {
			case idx.base == nil:
				lo.off += idx.off
				idx = lo
			case lo.base == nil:
				idx.off += lo.off
			default:
				ok = false
			}
		}
		x = strip(s.X)
	}
	return x, idx, ok
}

// ruleNoRetryAfterParseError: the parser keeps its progress inside one value only on the call
// stack; when Next returns an error (a timeout, a reset, a malformed frame) an unknown number
// of bytes of the value has been consumed. Calling Next again on the same stream would read the
// rest of that value as a new one. So the error edge of Next must leave the request loop.
func ruleNoRetryAfterParseError(c *Ctx, rid string) {
	c.rule(rid, "in the connection loop, no path from the edge on which Parser.Next returned a non-nil error leads back to the loop header: the stream position is unknown after a failed read, a further Next would re-frame the remaining bytes")
	n := 0
	for _, cl := range c.P.connLoops() {
		if cl.Loop == nil || cl.Next == nil || cl.Next.Referrers() == nil {
			continue
		}
		var errEx ssa.Value
		for _, r := range *cl.Next.Referrers() {
			if ex, ok := r.(*ssa.Extract); ok && ex.Index == 1 {
				errEx = ex
			}
		}
		key := fnName(cl.Fn) + "/parse-error-exit"
		if errEx == nil {
			c.bad(rid, key, c.P.instrPos(cl.Next), "the error of Parser.Next is not read")
			continue
		}
		n++
		bad := ""
		for _, b := range cl.Loop.sortedBlocks() {
			for idx, s := range b.Succs {
				if deadEdge(b, idx) {
					continue
				}
				isErrEdge := false
				for _, at := range edgeOnly(b, idx) {
					if at.Kind == "nil" && !at.Pos && at.X == errEx {
						isErrEdge = true
					}
				}
				if !isErrEdge || !cl.Loop.Blocks[s] {
					continue
				}
				// stays inside the loop: can it come back to the header?
				seen := map[*ssa.BasicBlock]bool{}
				st := []*ssa.BasicBlock{s}
				for len(st) > 0 {
					x := st[len(st)-1]
					st = st[:len(st)-1]
					if seen[x] || !cl.Loop.Blocks[x] {
						continue
					}
					seen[x] = true
					if x == cl.Loop.Header {
						bad = fmt.Sprintf("after Parser.Next failed (edge at %s) the loop continues with another Next on the same stream", c.P.instrPos(b.Instrs[len(b.Instrs)-1]))
						break
					}
					st = append(st, x.Succs...)
				}
			}
		}
		c.check(bad == "", rid, key, c.P.instrPos(cl.Next), "a failed Next ends the connection loop", bad)
	}
	c.count("parse-error-exits", n)
	c.floor("parse-error-exits", 1)
}

// onlyFeedsErrorText: the boxed value ends up only in the variadic operands of fmt.Errorf or of a
// repository function that returns nothing but an error.
func onlyFeedsErrorText(v ssa.Value, depth int) bool {
	if v.Referrers() == nil || depth > 3 {
		return false
	}
	any := false
	for _, r := range *v.Referrers() {
		switch x := r.(type) {
		case *ssa.DebugRef:
		case *ssa.Store:
			ia, ok := x.Addr.(*ssa.IndexAddr)
			if !ok {
				return false
			}
			al, ok := ia.X.(*ssa.Alloc)
			if !ok || al.Referrers() == nil {
				return false
			}
			for _, ar := range *al.Referrers() {
				if sl, ok := ar.(*ssa.Slice); ok {
					if !onlyFeedsErrorText(sl, depth+1) {
						return false
					}
					any = true
				}
			}
		case *ssa.Call:
			n := calleeName(x.Common())
			if n == "fmt.Errorf" || n == "errors.New" {
				any = true
				continue
			}
			if h := staticCallee(x.Common()); h != nil && inRepo(h) {
				res := h.Signature.Results()
				if res.Len() == 1 && isErrorType(res.At(0).Type()) {
					any = true
					continue
				}
			}
			return false
		default:
			return false
		}
	}
	return any
}

// bulkFrameSeparateDelimiter: body = make([]byte, declared) filled by a full-read; then exactly
// two more bytes are full-read into a 2-byte buffer and compared with CR and LF; the body buffer
// (whole, or [0:declared]) is what is returned; no byte of the body is compared.
func bulkFrameSeparateDelimiter(c *Ctx, rid string, f *ssa.Function, mk *ssa.MakeSlice, declared ssa.Value) {
	key := fnName(f)
	c.ok(rid, key+"/size", c.P.instrPos(mk), "body buffer length = declared (delimiter read separately)")
	// the delimiter buffer: a 2-byte slice that is the destination of a full-read on the parser's reader
	isTwoBytes := func(v ssa.Value) bool {
		v = strip(v)
		if m2, ok := v.(*ssa.MakeSlice); ok {
			n, isC := constInt(m2.Len)
			return isC && n == 2 && isByteSlice(m2.Type())
		}
		if sl, ok := v.(*ssa.Slice); ok && sl.Low == nil {
			if a, ok := sl.X.(*ssa.Alloc); ok {
				if arr, ok := deref(a.Type()).Underlying().(interface{ Len() int64 }); ok && arr.Len() == 2 {
					if sl.High == nil {
						return true
					}
					hv, isC := constInt(sl.High)
					return isC && hv == 2
				}
			}
		}
		return false
	}
	var bodyRead, delimRead *ssa.Call
	var delimBuf ssa.Value
	allInstrs(f, func(ins ssa.Instruction) {
		call, ok := ins.(*ssa.Call)
		if !ok {
			return
		}
		n := calleeName(call.Common())
		args := call.Common().Args
		full := (n == "io.ReadFull" && len(args) == 2) || (n == "io.ReadAtLeast" && len(args) == 3)
		if !full {
			return
		}
		if n == "io.ReadAtLeast" {
			// min must be the whole buffer
			if ml := linOf(args[2]); !sameLin(ml, lenOf(args[1])) {
				if cv, ok := constInt(args[2]); !(ok && isTwoBytes(args[1]) && cv == 2) {
					return
				}
			}
		}
		switch {
		case strip(args[1]) == ssa.Value(mk):
			bodyRead = call
		case isTwoBytes(args[1]):
			delimRead, delimBuf = call, strip(args[1])
		}
	})
	c.check(bodyRead != nil, rid, key+"/body-read", c.P.instrPos(mk), "the body is read with a full-read into the whole buffer", "the body buffer is not filled by io.ReadFull/ReadAtLeast over its whole length")
	okDelim := delimRead != nil && bodyRead != nil && (bodyRead.Block() == delimRead.Block() || bodyRead.Block().Dominates(delimRead.Block()))
	if okDelim {
		if okE, _ := errCheckedCall(delimRead); !okE {
			okDelim = false
		}
	}
	c.check(okDelim, rid, key+"/delimiter-read", c.P.pos(f.Pos()), "exactly two delimiter bytes are full-read after the body, error checked", "after the body, the two delimiter bytes are not consumed by a checked full-read of a 2-byte buffer: a short read leaves the LF behind or accepts a missing delimiter")
	// comparisons: delimiter buffer [0]==CR, [1]==LF; none on the body
	seen := map[int64]int64{}
	nbad := 0
	allInstrs(f, func(ins ssa.Instruction) {
		ia, ok := ins.(*ssa.IndexAddr)
		if !ok || ia.Referrers() == nil {
			return
		}
		base, idx, _ := indexThroughSlices(ia)
		onBody := base == ssa.Value(mk)
		onDelim := delimBuf != nil && (base == delimBuf || strip(ia.X) == delimBuf)
		if !onBody && !onDelim {
			return
		}
		for _, r := range *ia.Referrers() {
			ld, ok := r.(*ssa.UnOp)
			if !ok || ld.Referrers() == nil {
				continue
			}
			for _, u := range *ld.Referrers() {
				bo, ok := u.(*ssa.BinOp)
				if !ok {
					continue
				}
				var k ssa.Value = bo.Y
				if bo.Y == ssa.Value(ld) {
					k = bo.X
				}
				cv, isC := constInt(k)
				if onDelim && idx.base == nil && isC && (bo.Op == token.EQL || bo.Op == token.NEQ) {
					seen[idx.off] = cv
				} else if onBody {
					nbad++
					c.bad(rid, fmt.Sprintf("%s/content-compare#%d", key, nbad), c.P.instrPos(bo), "a byte of the bulk body is compared: payload content influences framing")
				}
			}
		}
	})
	c.check(seen[0] == 13 && seen[1] == 10, rid, key+"/delimiter", c.P.pos(f.Pos()), "delim[0]==CR and delim[1]==LF are checked", "the two bytes after the body are not checked to be CR and LF")
	for i, r := range returnsOf(f) {
		if len(r.Results) != 2 || !isNilConst(retOperand(r, 1)) {
			continue
		}
		v := strip(retOperand(r, 0))
		good := v == ssa.Value(mk)
		if sl, ok := v.(*ssa.Slice); ok && strip(sl.X) == ssa.Value(mk) {
			lo := lin{}
			if sl.Low != nil {
				lo = linOf(sl.Low)
			}
			good = lo.base == nil && lo.off == 0 && (sl.High == nil || (linOf(sl.High).base == declared && linOf(sl.High).off == 0))
		}
		c.check(good, rid, fmt.Sprintf("%s/return#%d", key, i), c.P.instrPos(r), "returns the body buffer", "the bulk payload returned is not exactly the declared bytes")
	}
	for _, callee := range calleesIn(f) {
		if eofTolerant(callee) != nil {
			c.bad(rid, key+"/line-reader", c.P.pos(f.Pos()), "the bulk body is read through "+fnName(callee)+", which accepts a line cut short by end of stream")
		}
	}
}

// ruleParserStateBalanced: a field of the parser that is stepped while a value is parsed (a
// nesting counter, a budget) outlives the value — the parser lives as long as the connection.
// Whatever a parse function adds to such a field it must have taken back on every path to a
// success return; otherwise the meaning of later, well-formed values depends on the history of
// the stream (after enough null arrays every command is refused).
func ruleParserStateBalanced(c *Ctx, rid string) {
	c.rule(rid, "for every integer field of proto.Parser that a function of the parser steps by a constant (field += c / field -= c): on every path of that function to a success return the steps sum to zero")
	n := 0
	for _, f := range c.P.RepoFuncs(pkgProto) {
		if fnPkgPath(f) != pkgProto || f.Blocks == nil {
			continue
		}
		// fields stepped in f
		type step struct {
			field string
			delta int8
		}
		steps := map[ssa.Instruction]step{}
		fields := map[string]bool{}
		allInstrs(f, func(ins ssa.Instruction) {
			st, ok := ins.(*ssa.Store)
			if !ok {
				return
			}
			owner, fld, _, ok := fieldOf(st.Addr)
			if !ok || owner != "proto.Parser" {
				return
			}
			bo, ok := st.Val.(*ssa.BinOp)
			if !ok || (bo.Op != token.ADD && bo.Op != token.SUB) {
				return
			}
			cv, isC := constInt(bo.Y)
			_, f2, _, ok2 := fieldOf(bo.X)
			if !isC || !ok2 || f2 != fld || cv < -8 || cv > 8 {
				return
			}
			if bo.Op == token.SUB {
				cv = -cv
			}
			steps[ins] = step{fld, int8(cv)}
			fields[fld] = true
		})
		for _, fld := range sortedKeys(fields) {
			n++
			key := fmt.Sprintf("%s/state:%s", fnName(f), fld)
			type st struct{ D int8 }
			a := &Auto[st]{Fn: f, Init: st{},
				Step: func(s st, ins ssa.Instruction, fail func(string)) []st {
					if sp, ok := steps[ins]; ok && sp.field == fld {
						s.D += sp.delta
						if s.D > 16 || s.D < -16 {
							fail("the field is stepped in a loop without bound")
						}
					}
					if r, ok := ins.(*ssa.Return); ok && s.D != 0 {
						nr := len(r.Results)
						if nr == 0 || !isErrorType(r.Results[nr-1].Type()) || isNilConst(retOperand(r, nr-1)) {
							fail(fmt.Sprintf("a success return is reached with Parser.%s changed by %+d: the parser's state after this value depends on the values parsed before", fld, s.D))
						}
					}
					return []st{s}
				}}
			res := a.Run()
			if len(res.Errs) == 0 {
				c.ok(rid, key, c.P.pos(f.Pos()), "every success path leaves the field as it found it")
			}
			for i, e := range res.Errs {
				c.bad(rid, fmt.Sprintf("%s/path#%d", key, i), c.P.instrPos(e.Ins), e.Msg, e.witness(c.P)...)
			}
		}
	}
	if n == 0 {
		c.ok(rid, "no-stepped-parser-state", "", "no function of the parser steps a field of the parser")
	}
}

// isJustReadByte: v is the byte a single-byte read delivered — buf[0] of a one-byte buffer, the
// result of ReadByte on a (buffered) reader, or a phi of such values (the loop variable of
// `b, err := r.ReadByte(); for err == nil && b != cr { ...; b, err = r.ReadByte() }`).
func isJustReadByte(v ssa.Value) bool {
	return justReadByte(v, map[ssa.Value]bool{})
}

func justReadByte(v ssa.Value, seen map[ssa.Value]bool) bool {
	if v == nil || seen[v] {
		return v != nil
	}
	seen[v] = true
	switch x := v.(type) {
	case *ssa.UnOp:
		if x.Op == token.MUL {
			if ia, ok := x.X.(*ssa.IndexAddr); ok {
				if _, one := oneByteBuffer(ia.X); one {
					return true
				}
			}
		}
	case *ssa.Extract:
		if call, ok := x.Tuple.(*ssa.Call); ok && x.Index == 0 {
			return isReadByteCall(call)
		}
	case *ssa.Phi:
		for _, e := range x.Edges {
			if !justReadByte(e, seen) {
				return false
			}
		}
		return len(x.Edges) > 0
	}
	return false
}

func isReadByteCall(call *ssa.Call) bool {
	n := calleeName(call.Common())
	return n == "(*bufio.Reader).ReadByte" || n == "(io.ByteReader).ReadByte" || n == "(io.ByteScanner).ReadByte"
}

// delimitedLineRead: f reads a line with ReadBytes/ReadString/ReadSlice of a buffered reader up
// to CR (13) or LF (10); returns the call and the delimiter.
func delimitedLineRead(f *ssa.Function) (*ssa.Call, int64) {
	var found *ssa.Call
	var delim int64
	allInstrs(f, func(ins ssa.Instruction) {
		call, ok := ins.(*ssa.Call)
		if !ok || found != nil {
			return
		}
		if nameIn(calleeName(call.Common()), "(*bufio.Reader).ReadBytes", "(*bufio.Reader).ReadString", "(*bufio.Reader).ReadSlice") && len(call.Common().Args) == 2 {
			if d, ok := constInt(call.Common().Args[1]); ok && (d == 13 || d == 10) {
				found, delim = call, d
			}
		}
	})
	return found, delim
}
