package main

// rules_serial.go: A10 — serializer emission grammar, CR/LF sanitiser recognition, type tables,
// constructors (C01, and the serializer clauses of C04).

import (
	"fmt"
	"go/constant"
	"go/token"
	"go/types"
	"sort"
	"strings"

	"golang.org/x/tools/go/ssa"
)

// ---------------------------------------------------------------------------------------
// CR/LF sanitiser recognition (A7 idioms)

type sanInfo struct {
	Is             bool // removes/rejects both CR and LF on every path
	BytePreserving bool // leaves every other byte untouched
	Why            string
}

var sanMemo = map[*ssa.Function]sanInfo{}

// lineSanitizer decides whether fn (taking one []byte/string and returning the same) returns on
// every path a value that cannot contain CR or LF.
func lineSanitizer(fn *ssa.Function) sanInfo {
	if s, ok := sanMemo[fn]; ok {
		return s
	}
	sanMemo[fn] = sanInfo{}
	res := sanInfo{Is: true, BytePreserving: true}
	if fn == nil || fn.Blocks == nil || len(fn.Params) != 1 {
		res = sanInfo{Why: "not a one-argument function with a body"}
		sanMemo[fn] = res
		return res
	}
	par := fn.Params[0]
	nret := 0
	for _, r := range returnsOf(fn) {
		if len(r.Results) != 1 {
			res = sanInfo{Why: "unexpected result arity"}
			break
		}
		nret++
		rem, bp, why := removedSet(retOperand(r, 0), par, r.Block(), 0)
		if !(rem['\r'] && rem['\n']) {
			res.Is = false
			res.Why = fmt.Sprintf("a return value may still contain %s (%s)", missing(rem), why)
		}
		if !bp {
			res.BytePreserving = false
		}
	}
	if nret == 0 {
		res = sanInfo{Why: "no return"}
	}
	sanMemo[fn] = res
	return res
}

func missing(rem map[byte]bool) string {
	var m []string
	if !rem['\r'] {
		m = append(m, "CR")
	}
	if !rem['\n'] {
		m = append(m, "LF")
	}
	return strings.Join(m, " and ")
}

// removedSet: which of CR/LF are certainly absent from v (derived from parameter par) at block b.
func removedSet(v ssa.Value, par *ssa.Parameter, b *ssa.BasicBlock, depth int) (map[byte]bool, bool, string) {
	none := map[byte]bool{}
	if depth > 8 {
		return none, false, "too deep"
	}
	switch x := v.(type) {
	case *ssa.Parameter:
		if x == par {
			return absentByFacts(par, factsAt(b)), true, "parameter returned under the dominating tests"
		}
	case *ssa.Const:
		if s, ok := constString(x); ok {
			return map[byte]bool{'\r': !strings.Contains(s, "\r"), '\n': !strings.Contains(s, "\n")}, true, "constant"
		}
		if x.Value == nil {
			return map[byte]bool{'\r': true, '\n': true}, true, "nil"
		}
	case *ssa.Phi:
		var acc map[byte]bool
		bp := true
		for i, e := range x.Edges {
			pred := x.Block().Preds[i]
			r, ebp, _ := removedSet(e, par, pred, depth+1)
			// facts on the edge
			if p, ok := e.(*ssa.Parameter); ok && p == par {
				r = absentByFacts(par, edgeFacts(pred, succIndex(pred, x.Block())))
			}
			if !ebp {
				bp = false
			}
			if acc == nil {
				acc = r
			} else {
				acc = map[byte]bool{'\r': acc['\r'] && r['\r'], '\n': acc['\n'] && r['\n']}
			}
		}
		if acc == nil {
			acc = none
		}
		return acc, bp, "phi"
	case *ssa.Convert:
		return removedSet(x.X, par, b, depth+1)
	case *ssa.ChangeType:
		return removedSet(x.X, par, b, depth+1)
	case *ssa.MakeSlice:
		return sanitiserLoop(x, par)
	case *ssa.Call:
		cc := x.Common()
		n := calleeName(cc)
		switch n {
		case "bytes.ReplaceAll", "strings.ReplaceAll", "bytes.Replace", "strings.Replace":
			if (n == "bytes.Replace" || n == "strings.Replace") && len(cc.Args) == 4 {
				if k, ok := constInt(cc.Args[3]); !ok || k >= 0 {
					return none, true, "Replace with a bounded count"
				}
			}
			old, ok1 := constBytes(cc.Args[1])
			nw, ok2 := constBytes(cc.Args[2])
			in, bp, _ := removedSet(cc.Args[0], par, b, depth+1)
			if !ok1 || !ok2 {
				return none, false, "non-constant replacement operands"
			}
			out := map[byte]bool{'\r': in['\r'], '\n': in['\n']}
			if len(old) == 1 && (old[0] == '\r' || old[0] == '\n') {
				out[old[0]] = true
			}
			for _, ch := range nw {
				if ch == '\r' || ch == '\n' {
					out[ch] = false
				}
			}
			if len(old) != 1 || len(nw) != 1 {
				// length-changing replacement of CR/LF only still preserves other bytes
				if !(len(old) == 1 && (old[0] == '\r' || old[0] == '\n')) {
					bp = false
				}
			}
			return out, bp, "ReplaceAll chain"
		case "bytes.Map", "strings.Map":
			if f, ok := cc.Args[0].(*ssa.Function); ok {
				return runeFilter(f), false, "rune-based Map (re-encodes bytes that are not valid UTF-8)"
			}
			if mc, ok := cc.Args[0].(*ssa.MakeClosure); ok {
				if f, ok := mc.Fn.(*ssa.Function); ok {
					return runeFilter(f), false, "rune-based Map (re-encodes bytes that are not valid UTF-8)"
				}
			}
		case "(*strings.Replacer).Replace":
			if pairs, ok := replacerPairs(cc.Args[0]); ok {
				in, bp, _ := removedSet(cc.Args[1], par, b, depth+1)
				out := map[byte]bool{'\r': in['\r'], '\n': in['\n']}
				for i := 0; i+1 < len(pairs); i += 2 {
					if pairs[i] == "\r" || pairs[i] == "\n" {
						out[pairs[i][0]] = true
					}
				}
				for i := 1; i < len(pairs); i += 2 {
					if strings.Contains(pairs[i], "\r") {
						out['\r'] = false
					}
					if strings.Contains(pairs[i], "\n") {
						out['\n'] = false
					}
				}
				return out, bp, "strings.Replacer"
			}
		case "strconv.Itoa", "strconv.FormatInt", "strconv.FormatFloat", "strconv.FormatUint":
			return map[byte]bool{'\r': true, '\n': true}, true, "decimal formatting"
		}
		// repository helper that is itself a sanitiser
		if callee := staticCallee(cc); callee != nil && inRepo(callee) && len(cc.Args) == 1 {
			si := lineSanitizer(callee)
			if si.Is {
				return map[byte]bool{'\r': true, '\n': true}, si.BytePreserving, "sanitiser " + fnName(callee)
			}
		}
	}
	return none, false, "unrecognised producer " + v.String()
}

func constBytes(v ssa.Value) ([]byte, bool) {
	if s, ok := constString(v); ok {
		return []byte(s), true
	}
	if cv, ok := v.(*ssa.Convert); ok {
		if s, ok := constString(cv.X); ok {
			return []byte(s), true
		}
	}
	// []byte{c} literal: slice of an alloc'd array with constant stores
	if sl, ok := v.(*ssa.Slice); ok {
		if a, ok := sl.X.(*ssa.Alloc); ok && a.Referrers() != nil {
			arr, ok := deref(a.Type()).Underlying().(*types.Array)
			if !ok {
				return nil, false
			}
			out := make([]byte, arr.Len())
			set := 0
			for _, r := range *a.Referrers() {
				if ia, ok := r.(*ssa.IndexAddr); ok && ia.Referrers() != nil {
					idx, ok := constInt(ia.Index)
					if !ok {
						return nil, false
					}
					for _, rr := range *ia.Referrers() {
						if st, ok := rr.(*ssa.Store); ok {
							c, ok := constInt(st.Val)
							if !ok {
								return nil, false
							}
							out[idx] = byte(c)
							set++
						}
					}
				}
			}
			if int64(set) == arr.Len() {
				return out, true
			}
		}
	}
	return nil, false
}

func replacerPairs(v ssa.Value) ([]string, bool) {
	v = strip(v)
	if ld, ok := v.(*ssa.UnOp); ok && ld.Op == token.MUL {
		if g, ok := ld.X.(*ssa.Global); ok {
			// find the store in the package init
			init := g.Pkg.Func("init")
			var val ssa.Value
			if init != nil {
				allInstrs(init, func(ins ssa.Instruction) {
					if st, ok := ins.(*ssa.Store); ok && st.Addr == ssa.Value(g) {
						val = st.Val
					}
				})
			}
			if val != nil {
				v = val
			}
		}
	}
	call, ok := v.(*ssa.Call)
	if !ok || calleeName(call.Common()) != "strings.NewReplacer" {
		return nil, false
	}
	// variadic: slice of alloc with stores
	if len(call.Common().Args) != 1 {
		return nil, false
	}
	sl, ok := call.Common().Args[0].(*ssa.Slice)
	if !ok {
		return nil, false
	}
	a, ok := sl.X.(*ssa.Alloc)
	if !ok || a.Referrers() == nil {
		return nil, false
	}
	arr, ok := deref(a.Type()).Underlying().(*types.Array)
	if !ok {
		return nil, false
	}
	out := make([]string, arr.Len())
	for _, r := range *a.Referrers() {
		if ia, ok := r.(*ssa.IndexAddr); ok && ia.Referrers() != nil {
			idx, _ := constInt(ia.Index)
			for _, rr := range *ia.Referrers() {
				if st, ok := rr.(*ssa.Store); ok {
					s, ok := constString(st.Val)
					if !ok {
						return nil, false
					}
					out[idx] = s
				}
			}
		}
	}
	return out, true
}

// runeFilter: for func(r rune) rune, which of CR/LF can never be returned.
func runeFilter(f *ssa.Function) map[byte]bool {
	out := map[byte]bool{'\r': true, '\n': true}
	if f.Blocks == nil || len(f.Params) != 1 {
		return map[byte]bool{}
	}
	par := f.Params[0]
	for _, r := range returnsOf(f) {
		v := retOperand(r, 0)
		if c, ok := constInt(v); ok {
			if c == '\r' {
				out['\r'] = false
			}
			if c == '\n' {
				out['\n'] = false
			}
			continue
		}
		if strip(v) == ssa.Value(par) {
			ne := map[int64]bool{}
			for _, at := range factsAt(r.Block()) {
				if at.Kind == "eq" && !at.Pos {
					if at.X == ssa.Value(par) {
						if c, ok := constInt(at.Y); ok {
							ne[c] = true
						}
					}
					if at.Y == ssa.Value(par) {
						if c, ok := constInt(at.X); ok {
							ne[c] = true
						}
					}
				}
			}
			if !ne['\r'] {
				out['\r'] = false
			}
			if !ne['\n'] {
				out['\n'] = false
			}
			continue
		}
		return map[byte]bool{}
	}
	return out
}

// absentByFacts: CR/LF known absent from par by tests like bytes.IndexByte(p, c) < 0,
// !bytes.Contains*(p, ...), bytes.ContainsAny(p, "\r\n") == false.
func absentByFacts(par *ssa.Parameter, facts []Atom) map[byte]bool {
	out := map[byte]bool{}
	isPar := func(v ssa.Value) bool {
		v = strip(v)
		if v == ssa.Value(par) {
			return true
		}
		if cv, ok := v.(*ssa.Convert); ok {
			return strip(cv.X) == ssa.Value(par)
		}
		return false
	}
	for _, at := range facts {
		switch at.Kind {
		case "call":
			cc := at.Call.Common()
			n := calleeName(cc)
			if at.Pos || len(cc.Args) < 2 || !isPar(cc.Args[0]) {
				continue
			}
			switch n {
			case "bytes.ContainsAny", "strings.ContainsAny":
				if s, ok := constString(cc.Args[1]); ok {
					for _, ch := range []byte(s) {
						out[ch] = true
					}
				}
			case "bytes.ContainsRune", "strings.ContainsRune":
				if cv, ok := constInt(cc.Args[1]); ok {
					out[byte(cv)] = true
				}
			case "bytes.Contains", "strings.Contains":
				if bs, ok := constBytes(cc.Args[1]); ok && len(bs) == 1 {
					out[bs[0]] = true
				}
			}
		case "lt":
			// IndexByte(p, c) < 0
			if call, ok := at.X.(*ssa.Call); ok && at.Pos {
				if z, ok := constInt(at.Y); ok && z == 0 {
					cc := call.Common()
					n := calleeName(cc)
					if len(cc.Args) == 2 && isPar(cc.Args[0]) {
						switch n {
						case "bytes.IndexByte", "strings.IndexByte", "bytes.IndexRune", "strings.IndexRune":
							if cv, ok := constInt(cc.Args[1]); ok {
								out[byte(cv)] = true
							}
						case "bytes.IndexAny", "strings.IndexAny":
							if s, ok := constString(cc.Args[1]); ok {
								for _, ch := range []byte(s) {
									out[ch] = true
								}
							}
						}
					}
				}
			}
		case "eq":
			// IndexByte(p, c) == -1
			for _, pr := range [][2]ssa.Value{{at.X, at.Y}, {at.Y, at.X}} {
				if call, ok := pr[0].(*ssa.Call); ok && at.Pos {
					if z, ok := constInt(pr[1]); ok && z == -1 {
						cc := call.Common()
						if len(cc.Args) == 2 && isPar(cc.Args[0]) && nameIn(calleeName(cc), "bytes.IndexByte", "strings.IndexByte", "bytes.IndexRune", "strings.IndexRune") {
							if cv, ok := constInt(cc.Args[1]); ok {
								out[byte(cv)] = true
							}
						}
					}
				}
			}
		}
	}
	return out
}

// ---------------------------------------------------------------------------------------
// Emission tokens and path enumeration

type tok struct {
	K   string // Const, TypeByte, Payload, San, SanRune, DecLen, DecCount, RecArray, RecElem, Unknown
	S   string
	Ins ssa.Instruction // the writing instruction (possibly inside an inlined helper)
	B   *ssa.BasicBlock // the block of the top-level serializer in which it is emitted
	V   ssa.Value       // DecLen/DecCount: the measured value; Rec*: the serializing call
}

func (t tok) String() string {
	if t.K == "Const" {
		return fmt.Sprintf("%q", t.S)
	}
	if t.S != "" {
		return t.K + "(" + t.S + ")"
	}
	return t.K
}

// canonField: "recvparam.field" for loads of a field of a parameter (no CSE in go/ssa).
func canonField(v ssa.Value) (string, bool) {
	v = strip(v)
	if p, ok := v.(*ssa.Parameter); ok {
		// a helper parameter standing for a field value of the serialized object
		if al, ok := canonAlias[p]; ok && strings.Contains(al, ".") && !strings.HasPrefix(al, "?") {
			return al, true
		}
	}
	ld, ok := v.(*ssa.UnOp)
	if !ok || ld.Op != token.MUL {
		return "", false
	}
	fa, ok := ld.X.(*ssa.FieldAddr)
	if !ok {
		return "", false
	}
	st := derefStruct(fa.X.Type())
	if st == nil {
		return "", false
	}
	base := strip(fa.X)
	if p, ok := base.(*ssa.Parameter); ok {
		name := p.Name()
		if al, ok := canonAlias[p]; ok {
			name = al
		}
		return name + "." + st.Field(fa.Field).Name(), true
	}
	if ex, ok := base.(*ssa.Extract); ok {
		if call, ok := ex.Tuple.(*ssa.Call); ok {
			return calleeName(call.Common()) + "()." + st.Field(fa.Field).Name(), true
		}
	}
	return "", false
}

type serialPath struct {
	Toks   []tok
	Facts  []Atom
	Ret    *ssa.Return
	Blocks []*ssa.BasicBlock
	Iters  int
}

// enumeratePaths walks every path from entry to a Return taking each CFG edge at most once.
func enumeratePaths(fn *ssa.Function, tokOf func(ins ssa.Instruction) []tok, limit int) ([]serialPath, bool) {
	var out []serialPath
	type edge struct{ a, b *ssa.BasicBlock }
	overflow := false
	var walk func(b *ssa.BasicBlock, toks []tok, facts []Atom, used map[edge]bool, blocks []*ssa.BasicBlock)
	walk = func(b *ssa.BasicBlock, toks []tok, facts []Atom, used map[edge]bool, blocks []*ssa.BasicBlock) {
		if len(out) >= limit {
			overflow = true
			return
		}
		blocks = append(blocks, b)
		for _, ins := range b.Instrs {
			toks = append(toks, tokOf(ins)...)
			if r, ok := ins.(*ssa.Return); ok {
				out = append(out, serialPath{Toks: append([]tok{}, toks...), Facts: append([]Atom{}, facts...), Ret: r, Blocks: append([]*ssa.BasicBlock{}, blocks...)})
				return
			}
		}
		for idx, s := range b.Succs {
			e := edge{b, s}
			if used[e] {
				continue
			}
			nf := facts
			if len(b.Succs) == 2 && b.Succs[0] != b.Succs[1] {
				if iff, ok := b.Instrs[len(b.Instrs)-1].(*ssa.If); ok {
					nf = append(append([]Atom{}, facts...), atomsOf(iff.Cond, idx == 0)...)
				}
			}
			used[e] = true
			walk(s, toks, nf, used, blocks)
			delete(used, e)
		}
	}
	if len(fn.Blocks) > 0 {
		walk(fn.Blocks[0], nil, nil, map[edge]bool{}, nil)
	}
	return out, overflow
}

func mergeConsts(ts []tok) []tok {
	var out []tok
	for _, t := range ts {
		if t.K == "Const" && len(out) > 0 && out[len(out)-1].K == "Const" {
			out[len(out)-1].S += t.S
			continue
		}
		out = append(out, t)
	}
	return out
}

func toksString(ts []tok) string {
	var ss []string
	for _, t := range ts {
		ss = append(ss, t.String())
	}
	return strings.Join(ss, " ")
}

// outputBuffer finds the local bytes.Buffer whose Bytes() the function returns.
func outputBuffer(fn *ssa.Function) ssa.Value {
	var buf ssa.Value
	allInstrs(fn, func(ins ssa.Instruction) {
		if a, ok := ins.(*ssa.Alloc); ok && deref(a.Type()).String() == "bytes.Buffer" {
			buf = a
		}
	})
	return buf
}

// ---------------------------------------------------------------------------------------
// Type tables

type typeTables struct {
	byteToType map[int64]int64
	typeToByte map[int64]int64
	consts     map[string]int64 // MessageType constant name -> value
	ok         bool
	why        string
}

func readTypeTables(p *Program) typeTables {
	tt := typeTables{byteToType: map[int64]int64{}, typeToByte: map[int64]int64{}, consts: map[string]int64{}}
	sp := p.SSAPkgs[pkgProto]
	init := sp.Func("init")
	if init == nil {
		tt.why = "no init"
		return tt
	}
	maps := map[ssa.Value]map[int64]int64{}
	names := map[ssa.Value]string{}
	dup := false
	allInstrs(init, func(ins ssa.Instruction) {
		switch x := ins.(type) {
		case *ssa.MapUpdate:
			k, ok1 := constInt(x.Key)
			v, ok2 := constInt(x.Value)
			if !ok1 || !ok2 {
				return
			}
			if maps[x.Map] == nil {
				maps[x.Map] = map[int64]int64{}
			}
			if _, exists := maps[x.Map][k]; exists {
				dup = true
			}
			maps[x.Map][k] = v
		case *ssa.Store:
			if g, ok := x.Addr.(*ssa.Global); ok {
				names[x.Val] = g.Name()
			}
		}
	})
	mt := sp.Type("MessageType")
	if mt == nil {
		tt.why = "no MessageType"
		return tt
	}
	for _, name := range sp.Pkg.Scope().Names() {
		if cst, ok := sp.Pkg.Scope().Lookup(name).(*types.Const); ok && types.Identical(cst.Type(), mt.Type()) {
			if v, ok := constant.Int64Val(cst.Val()); ok {
				tt.consts[name] = v
			}
		}
	}
	// the tables are what the two lookup functions compute: a package-level map literal indexed
	// by the argument, or a switch over the argument returning constants
	globalMap := func(g *ssa.Global) map[int64]int64 {
		for m, kv := range maps {
			if names[m] == g.Name() {
				return kv
			}
		}
		return nil
	}
	for _, f := range p.RepoFuncs(pkgProto) {
		if fnPkgPath(f) != pkgProto || f.Blocks == nil || len(f.Params) != 1 || f.Signature.Recv() != nil {
			continue
		}
		res := f.Signature.Results()
		if res.Len() != 2 || !isBoolType(res.At(1).Type()) {
			continue
		}
		toType := isByteType(f.Params[0].Type()) && types.Identical(res.At(0).Type(), mt.Type())
		toByte := types.Identical(f.Params[0].Type(), mt.Type()) && isByteType(res.At(0).Type())
		if !toType && !toByte {
			continue
		}
		tab, why := tableOfFn(f, globalMap)
		if tab == nil {
			tt.why = fnName(f) + ": " + why
			continue
		}
		if toType {
			tt.byteToType = tab
		} else {
			tt.typeToByte = tab
		}
	}
	tt.ok = !dup && len(tt.byteToType) > 0 && len(tt.typeToByte) > 0
	if dup {
		tt.why = "duplicate key in a table literal"
	}
	return tt
}

// ---------------------------------------------------------------------------------------
// C01

func init() {
	register(&propInfo{ID: "C01", Level: "other", Run: runC01,
		Explanation: "Static rules: R01.a the byte<->type tables are mutually inverse bijections, total over the declared message types, and the parser's dispatch constants and the serializer's prefixes are the same bytes; R01.b every CFG path of Message.RESPBytes/Array.RESPBytes emits exactly the RESP2 production of its case (abstract token sequences: prefix, decimal length of the same payload that is written, payload untouched for bulk, CRLF; null and empty bulk distinct; array count equals the loop bound and every iteration emits exactly one element); R01.c the bulk body is read by length only (declared+2 bytes, [0:declared] returned, only the CRLF offsets are inspected); R01.d the public constructors build the type they name and format numbers with round-trip-safe strconv settings. Necessary conditions of the round trip; value equality itself is not decided."})
}

func runC01(c *Ctx) {
	ruleTypeTables(c)
	ruleEmissionGrammar(c, "R01.b", true)
	ruleBulkFrame(c, "R01.c")
	ruleReaderUses(c, "R01.c", "R01.c")
	ruleLineReaderValue(c, "R01.c")
	ruleOwnedBytes(c, "R01.c")
	rulePayloadStores(c, "R01.e")
	ruleNoWriteThroughView(c, "R01.i")
	ruleIsNilMeansNull(c, "R01.e")
	ruleConstructors(c)
	ruleReentrantScratch(c, "R01.g", c.P.parserScope())
	ruleRecycledObjectsReset(c, "R01.h")
	c.assume("bytes.Buffer and strconv behave as documented")
}

func ruleTypeTables(c *Ctx) {
	rid := "R01.a"
	c.rule(rid, "messageTypes (byte->type) and messageTypeBytes (type->byte) are mutually inverse bijections, total over every declared MessageType constant; each byte the parser dispatches on, and each constant prefix the serializer writes, is the table's byte for the type handled there")
	tt := readTypeTables(c.P)
	if !tt.ok {
		c.undecided(rid, "tables", "", "type tables not readable from the package initialiser: "+tt.why)
		return
	}
	c.count("message-type-constants", len(tt.consts))
	c.floor("message-type-constants", 5)
	c.count("table-entries", len(tt.byteToType)+len(tt.typeToByte))
	c.floor("table-entries", 10)
	for _, name := range sortedKeys(tt.consts) {
		v := tt.consts[name]
		b, ok := tt.typeToByte[v]
		if !ok {
			c.bad(rid, "tables/"+name, "", "declared message type has no byte in the type->byte table")
			continue
		}
		back, ok := tt.byteToType[b]
		c.check(ok && back == v, rid, "tables/"+name, "", fmt.Sprintf("%s <-> %q", name, rune(b)), fmt.Sprintf("tables disagree: %s -> %q but %q -> %d", name, rune(b), rune(b), back))
	}
	c.check(len(tt.byteToType) == len(tt.consts) && len(tt.typeToByte) == len(tt.consts), rid, "tables/size", "", "both tables have one entry per declared type", fmt.Sprintf("table sizes %d/%d differ from the %d declared types (an extra byte maps onto an existing type)", len(tt.byteToType), len(tt.typeToByte), len(tt.consts)))
	// parser dispatch
	next := c.P.Method(pkgProto, "Parser", "Next")
	if !c.anchor(rid, next, "proto.(*Parser).Next") {
		return
	}
	nd := 0
	for _, b := range next.Blocks {
		if len(b.Instrs) == 0 {
			continue
		}
		iff, ok := b.Instrs[len(b.Instrs)-1].(*ssa.If)
		if !ok {
			continue
		}
		for _, at := range atomsOf(iff.Cond, true) {
			if at.Kind != "eq" || !at.Pos {
				continue
			}
			cv, ok := constInt(at.Y)
			if !ok {
				continue
			}
			nd++
			key := fmt.Sprintf("parser-dispatch/%q", rune(cv))
			typ, known := tt.byteToType[cv]
			if !known {
				c.bad(rid, key, c.P.instrPos(iff), "the parser dispatches on a byte that is not in the type table")
				continue
			}
			// the branch must build a message of that type: find newMessageWithTypeByte(const) reachable one call deep
			built := int64(-1)
			for _, ins := range b.Succs[0].Instrs {
				if call, ok := ins.(*ssa.Call); ok {
					if callee := staticCallee(call.Common()); callee != nil {
						allInstrs(callee, func(i2 ssa.Instruction) {
							if c2, ok := i2.(*ssa.Call); ok && isTypeByteCtor(staticCallee(c2.Common())) {
								if k, ok := constInt(c2.Common().Args[0]); ok {
									built = k
								}
							}
						})
					}
				}
			}
			if built != cv {
				// or the branch names the message type directly: a constant of type MessageType handed
				// to a constructor, or stored into the Type field, one or two calls deep
				builtType := int64(-1)
				var scan func(f *ssa.Function, d int)
				scan = func(f *ssa.Function, d int) {
					if f == nil || f.Blocks == nil || d > 2 || !inRepo(f) {
						return
					}
					allInstrs(f, func(i2 ssa.Instruction) {
						switch y := i2.(type) {
						case *ssa.Call:
							for _, a := range y.Common().Args {
								if cst, ok := a.(*ssa.Const); ok && strings.HasSuffix(cst.Type().String(), "proto.MessageType") {
									if k, ok := constInt(cst); ok {
										builtType = k
									}
								}
							}
							scan(staticCallee(y.Common()), d+1)
						case *ssa.Store:
							if _, f2, _, ok := fieldOf(y.Addr); ok && f2 == "Type" {
								if k, ok := constInt(y.Val); ok {
									builtType = k
								}
							}
						}
					})
				}
				for _, ins := range b.Succs[0].Instrs {
					if call, ok := ins.(*ssa.Call); ok {
						scan(staticCallee(call.Common()), 0)
					}
				}
				if builtType == typ {
					c.ok(rid, key, c.P.instrPos(iff), fmt.Sprintf("byte %q -> type %d, branch builds a message of that type", rune(cv), typ))
					continue
				}
			}
			c.check(built == cv, rid, key, c.P.instrPos(iff), fmt.Sprintf("byte %q -> type %d, branch builds a message from the same byte", rune(cv), typ), fmt.Sprintf("the branch taken for byte %q builds a message from byte %q", rune(cv), rune(built)))
		}
	}
	c.count("parser-dispatch-constants", nd)
	c.floor("parser-dispatch-constants", 2)
}

// ruleEmissionGrammar: R01.b (strict=true: payload must be byte-preserved) / R04.d (strict=false).
func ruleEmissionGrammar(c *Ctx, rid string, strict bool) {
	c.rule(rid, "A10: along every CFG path of the serializers the sequence of writes to the output buffer, as abstract tokens, is the RESP2 production of the path's type: line types TypeByte Payload CRLF; bulk '$-1' CRLF (nil) | '$0' CRLF CRLF (empty) | '$' Dec(len(Payload)) CRLF Payload CRLF with the same payload value measured and written; array '*' Dec(count) CRLF then, per loop iteration, exactly one serialized element, count = len of the iterated slice")
	tt := readTypeTables(c.P)
	msgFn := c.P.Method(pkgProto, "Message", "RESPBytes")
	arrFn := c.P.Method(pkgProto, "Array", "RESPBytes")
	if !c.anchor(rid, msgFn, "proto.(*Message).RESPBytes") || !c.anchor(rid, arrFn, "proto.(*Array).RESPBytes") {
		return
	}
	checkMessageSerializer(c, rid, msgFn, tt, strict)
	checkArraySerializer(c, rid, arrFn, tt)
}

func writeTokens(fn *ssa.Function, buf ssa.Value, tt typeTables) func(ins ssa.Instruction) []tok {
	recv := fn.Params[0]
	return func(ins ssa.Instruction) []tok {
		call, ok := ins.(*ssa.Call)
		if !ok {
			return nil
		}
		cc := call.Common()
		n := calleeName(cc)
		if !strings.HasPrefix(n, "(*bytes.Buffer).Write") || len(cc.Args) < 2 || cc.Args[0] != buf {
			return nil
		}
		arg := cc.Args[1]
		switch n {
		case "(*bytes.Buffer).WriteByte", "(*bytes.Buffer).WriteRune":
			if cv, ok := constInt(arg); ok {
				return []tok{{K: "Const", S: string(rune(cv))}}
			}
			if ex, ok := strip(arg).(*ssa.Extract); ok && ex.Index == 0 {
				if cl, ok := ex.Tuple.(*ssa.Call); ok && isTypeToByteFn(staticCallee(cl.Common())) {
					if f, ok := canonField(cl.Common().Args[0]); ok && f == recv.Name()+".Type" {
						return []tok{{K: "TypeByte"}}
					}
				}
			}
			return []tok{{K: "Unknown", S: arg.String()}}
		case "(*bytes.Buffer).WriteString":
			if s, ok := constString(arg); ok {
				return []tok{{K: "Const", S: s}}
			}
			if cl, ok := strip(arg).(*ssa.Call); ok {
				cn := calleeName(cl.Common())
				if cn == "strconv.Itoa" || (cn == "strconv.FormatInt" && isConstIntVal(cl.Common().Args[1], 10)) {
					x := strip(cl.Common().Args[0])
					if cv, ok := x.(*ssa.Convert); ok {
						x = strip(cv.X)
					}
					if ln, ok := x.(*ssa.Call); ok {
						if b, ok := ln.Common().Value.(*ssa.Builtin); ok && b.Name() == "len" {
							if f, ok := canonField(ln.Common().Args[0]); ok {
								return []tok{{K: "DecLen", S: f}}
							}
						}
						if strings.HasSuffix(calleeName(ln.Common()), "proto.Array).Size") {
							return []tok{{K: "DecCount", S: ln.Name()}}
						}
					}
				}
			}
			return []tok{{K: "Unknown", S: arg.String()}}
		case "(*bytes.Buffer).Write":
			if s, ok := constBytes(arg); ok {
				return []tok{{K: "Const", S: string(s)}}
			}
			if f, ok := canonField(arg); ok {
				return []tok{{K: "Payload", S: f}}
			}
			sv := strip(arg)
			if cl, ok := sv.(*ssa.Call); ok {
				if callee := staticCallee(cl.Common()); callee != nil && len(cl.Common().Args) == 1 {
					if f, ok := canonField(cl.Common().Args[0]); ok {
						si := lineSanitizer(callee)
						if si.Is && si.BytePreserving {
							return []tok{{K: "San", S: f}}
						}
						if si.Is {
							return []tok{{K: "SanRune", S: f}}
						}
						return []tok{{K: "Unknown", S: fnName(callee) + "(" + f + "): " + si.Why}}
					}
				}
			}
			if ex, ok := sv.(*ssa.Extract); ok && ex.Index == 0 {
				if cl, ok := ex.Tuple.(*ssa.Call); ok {
					switch calleeName(cl.Common()) {
					case nArrRESPBytes:
						return []tok{{K: "RecArray", S: cl.Common().Args[0].Name()}}
					case nRESPBytes:
						return []tok{{K: "RecElem", S: cl.Common().Args[0].Name()}}
					}
				}
			}
			return []tok{{K: "Unknown", S: arg.String()}}
		}
		return []tok{{K: "Unknown", S: n}}
	}
}

func isConstIntVal(v ssa.Value, k int64) bool {
	c, ok := constInt(v)
	return ok && c == k
}

func checkMessageSerializer(c *Ctx, rid string, fn *ssa.Function, tt typeTables, strict bool) {
	m := serializerModel(c.P, fn, tt)
	if m.Mode == "" {
		c.undecided(rid, "Message.RESPBytes/buffer", c.P.pos(fn.Pos()), "no output accumulator found: the write idiom is not one the rule knows (a local bytes.Buffer written with Write/WriteByte/WriteRune/WriteString, or a []byte built by append): "+m.Why)
		return
	}
	recv := fn.Params[0].Name()
	// no store to the payload inside the serializer (loads are identified)
	allInstrs(fn, func(ins ssa.Instruction) {
		if st, ok := ins.(*ssa.Store); ok {
			if _, f, _, ok := fieldOf(st.Addr); ok && (f == "bytes" || f == "Type") {
				c.bad(rid, "Message.RESPBytes/mutates", c.P.instrPos(st), "the serializer writes to the message it serializes")
			}
		}
	})
	paths, overflow := m.Paths, m.Overflow
	if overflow {
		c.undecided(rid, "Message.RESPBytes/paths", c.P.pos(fn.Pos()), "too many paths to enumerate")
		return
	}
	typeField := recv + ".Type"
	payField := recv + ".bytes"
	classes := map[string]bool{}
	nsucc := 0
	for _, p := range paths {
		// returned bytes must be the buffer on success
		isErr := len(p.Ret.Results) == 2 && !isNilConst(retOperand(p.Ret, 1))
		// feasible types
		feasible := []int64{}
		cands := []int64{-1}
		for _, v := range tt.consts {
			cands = append(cands, v)
		}
		sort.Slice(cands, func(i, j int) bool { return cands[i] < cands[j] })
		for _, k := range cands {
			okK := true
			for _, at := range p.Facts {
				if at.Kind != "eq" {
					continue
				}
				f, isT := canonField(at.X)
				if !isT || f != typeField {
					continue
				}
				cv, ok := constInt(at.Y)
				if !ok {
					continue
				}
				if at.Pos != (cv == k) {
					okK = false
				}
			}
			if okK {
				feasible = append(feasible, k)
			}
		}
		if len(feasible) == 0 {
			continue
		}
		// payload class
		pclass := "any"
		nilKnown := false
		for _, at := range p.Facts {
			if at.Kind == "nil" {
				if f, ok := canonField(at.X); ok && f == payField {
					nilKnown = true
					if at.Pos {
						pclass = "nil"
					} else if pclass == "any" {
						pclass = "non-nil"
					}
				}
			}
			if at.Kind == "eq" {
				if l := linOf(at.X); l.isLen {
					if f, ok := canonField(l.base); ok && f == payField {
						if z, ok := constInt(at.Y); ok && z == 0 {
							if at.Pos {
								pclass = "empty"
							} else {
								pclass = "non-empty"
							}
						}
					}
				}
			}
		}
		if isErr {
			continue
		}
		if !p.AccOK {
			c.bad(rid, "Message.RESPBytes/returns-accumulator", c.P.instrPos(p.Ret), "a success return does not return the bytes built along its path")
		}
		toks := mergeConsts(p.Toks)
		for _, k := range feasible {
			nsucc++
			tname := fmt.Sprintf("type=%d", k)
			for n, v := range tt.consts {
				if v == k {
					tname = n
				}
			}
			key := fmt.Sprintf("Message.RESPBytes/%s/%s", tname, pclass)
			classes[key] = true
			pos := c.P.instrPos(p.Ret)
			got := toksString(toks)
			b, hasByte := tt.typeToByte[k]
			switch {
			case k == -1:
				c.note("R01.b: a message whose Type is none of the declared constants serializes as %s (no default case)", got)
			case hasByte && (b == '+' || b == '-' || b == ':'):
				okForm := len(toks) == 3 && (toks[0].K == "TypeByte" || (toks[0].K == "Const" && toks[0].S == string(rune(b)))) &&
					((strict && toks[1].K == "Payload") || (toks[1].K == "Payload" && payloadValidated(p.Facts, payField)) || toks[1].K == "San" || (!strict && toks[1].K == "SanRune")) && toks[1].S == payField &&
					toks[2].K == "Const" && toks[2].S == "\r\n"
				if okForm {
					c.ok(rid, key, pos, got)
				} else if len(toks) == 3 && toks[1].K == "SanRune" && strict {
					c.bad(rid, key, pos, "the line payload passes through a rune-based transformation: bytes that are not valid UTF-8 are rewritten, so the value does not survive encode/decode: "+got)
				} else {
					c.bad(rid, key, pos, "line-type path emits "+got+" instead of TypeByte Payload CRLF")
				}
			case hasByte && b == '$':
				var okForm bool
				switch pclass {
				case "nil":
					okForm = len(toks) == 1 && toks[0].K == "Const" && toks[0].S == "$-1\r\n"
				case "empty":
					okForm = len(toks) == 1 && toks[0].K == "Const" && toks[0].S == "$0\r\n\r\n"
				default:
					okForm = len(toks) == 5 && toks[0].K == "Const" && toks[0].S == "$" && toks[1].K == "DecLen" && toks[1].S == payField &&
						toks[2].K == "Const" && toks[2].S == "\r\n" && toks[3].K == "Payload" && toks[3].S == payField && toks[4].K == "Const" && toks[4].S == "\r\n"
					if okForm && !nilKnown {
						okForm = false
						got += " (no nil test on the path: a null bulk would be written as an empty one)"
					}
				}
				if okForm {
					c.ok(rid, key, pos, got)
				} else {
					c.bad(rid, key, pos, "bulk path ("+pclass+") emits "+got)
				}
			case hasByte && b == '*':
				okForm := len(toks) == 1 && toks[0].K == "RecArray"
				if okForm {
					c.ok(rid, key, pos, got)
				} else {
					c.bad(rid, key, pos, "array path emits "+got+" instead of the serialized array")
				}
			default:
				c.bad(rid, key, pos, "declared type without a table byte")
			}
		}
	}
	c.count("serializer-paths", len(classes))
	c.floor("serializer-paths", 5)
	// every declared type must have a success path
	for n, v := range tt.consts {
		found := false
		for k := range classes {
			if strings.Contains(k, "/"+n+"/") {
				found = true
			}
		}
		if !found {
			c.bad(rid, "Message.RESPBytes/"+n+"/missing", c.P.pos(fn.Pos()), fmt.Sprintf("no path of the serializer handles message type %s (%d): nothing is written for it", n, v))
		}
	}
}

func checkArraySerializer(c *Ctx, rid string, fn *ssa.Function, tt typeTables) {
	m := serializerModel(c.P, fn, tt)
	if m.Mode == "" {
		c.undecided(rid, "Array.RESPBytes/buffer", c.P.pos(fn.Pos()), "no output accumulator found (local bytes.Buffer or []byte built by append): "+m.Why)
		return
	}
	if m.Overflow {
		c.undecided(rid, "Array.RESPBytes/paths", c.P.pos(fn.Pos()), "too many paths to enumerate")
		return
	}
	recv := fn.Params[0].Name()
	loops := naturalLoops(fn)
	if len(loops) != 1 {
		c.undecided(rid, "Array.RESPBytes/loop", c.P.pos(fn.Pos()), fmt.Sprintf("%d loops in the array serializer; the rule expects one element loop", len(loops)))
		return
	}
	l := loops[0]
	// per success path: tokens emitted before the loop (in blocks dominating its header), inside
	// the loop, and after it
	var prefix []tok
	var countVal ssa.Value
	havePrefix := false
	prefixOK, afterOK := true, true
	bodyOK, anyBody := true, false
	for _, p := range m.Paths {
		isErr := len(p.Ret.Results) == 2 && !isNilConst(retOperand(p.Ret, 1))
		if isErr {
			continue
		}
		if !p.AccOK {
			c.bad(rid, "Array.RESPBytes/returns-accumulator", c.P.instrPos(p.Ret), "a success return does not return the bytes built along its path")
		}
		var pre, body, after []tok
		for _, t := range p.Toks {
			switch {
			case t.B != nil && l.Blocks[t.B]:
				body = append(body, t)
			case t.B != nil && t.B.Dominates(l.Header):
				pre = append(pre, t)
			default:
				after = append(after, t)
			}
		}
		pre = mergeConsts(pre)
		if !havePrefix {
			prefix, havePrefix = pre, true
			for _, t := range pre {
				if t.K == "DecCount" {
					if cl, ok := t.V.(*ssa.Call); ok {
						countVal = cl
					}
				}
			}
		} else if toksString(pre) != toksString(prefix) {
			prefixOK = false
		}
		if len(after) > 0 {
			afterOK = false
			c.bad(rid, "Array.RESPBytes/path", c.P.instrPos(p.Ret), "a success path of the array serializer emits "+toksString(after)+" after the element loop")
		}
		// did the path run the body (take a back edge)?
		ran := false
		for i := 0; i+1 < len(p.Blocks); i++ {
			if p.Blocks[i+1] == l.Header && l.Blocks[p.Blocks[i]] {
				ran = true
			}
		}
		if ran {
			anyBody = true
			if !(len(body) == 1 && body[0].K == "RecElem") {
				bodyOK = false
				c.bad(rid, "Array.RESPBytes/iteration", c.P.pos(fn.Pos()), "a loop iteration emits "+toksString(body)+" instead of exactly one serialized element: the element count written in the header is not honoured")
			}
		} else if len(body) > 0 {
			bodyOK = false
			c.bad(rid, "Array.RESPBytes/iteration", c.P.pos(fn.Pos()), "the loop emits "+toksString(body)+" and leaves with success before completing the iteration")
		}
	}
	okPrefix := prefixOK && len(prefix) == 3 && prefix[0].K == "Const" && prefix[0].S == "*" && prefix[1].K == "DecCount" && prefix[2].K == "Const" && prefix[2].S == "\r\n"
	if b, ok := tt.typeToByte[tt.consts["ArrayMessage"]]; ok && b != '*' {
		okPrefix = false
	}
	c.check(okPrefix, rid, "Array.RESPBytes/header", c.P.pos(fn.Pos()), toksString(prefix), "array header emits "+toksString(prefix)+" instead of '*' Dec(count) CRLF")
	_ = afterOK
	// count = Size() = len(recv.msgs)
	size := c.P.Method(pkgProto, "Array", "Size")
	sizeOK := false
	if size != nil {
		for _, r := range returnsOf(size) {
			if ln := linOf(retOperand(r, 0)); ln.isLen {
				if f, ok := canonField(ln.base); ok && strings.HasSuffix(f, ".msgs") {
					sizeOK = true
				}
			}
		}
	}
	c.check(sizeOK, rid, "Array.Size", "", "Size() = len(msgs)", "Array.Size does not return len(msgs): the count written differs from the number of elements")
	// loop: counter from 0 by 1 (or the lowered range form from -1), bound == countVal or
	// len(recv.msgs), element = recv.msgs[counter]
	var counter *ssa.Phi
	for _, ins := range l.Header.Instrs {
		if ph, ok := ins.(*ssa.Phi); ok && isIntType(ph.Type()) {
			counter = ph
		}
	}
	boundOK, elemOK, stepOK := false, false, false
	var slotOff int64
	if counter != nil {
		init0, step1 := false, false
		for i, e := range counter.Edges {
			if l.Blocks[l.Header.Preds[i]] {
				if ln := linOf(e); ln.base == ssa.Value(counter) && ln.off == 1 {
					step1 = true
				}
			} else if cv, ok := constInt(e); ok && (cv == 0 || cv == -1) {
				init0 = true
				slotOff = -cv
			}
		}
		stepOK = init0 && step1
		// header condition
		if iff, ok := l.Header.Instrs[len(l.Header.Instrs)-1].(*ssa.If); ok {
			for _, at := range atomsOf(iff.Cond, true) {
				if at.Kind == "lt" && at.Pos {
					x, y := linOf(at.X), linOf(at.Y)
					if x.base == ssa.Value(counter) && x.off == slotOff {
						if countVal != nil && strip(at.Y) == countVal {
							boundOK = true
						}
						if y.isLen && y.off == 0 {
							if f, ok := canonField(y.base); ok && f == recv+".msgs" {
								boundOK = true
							}
						}
					}
				}
			}
		}
	}
	// the element serialized is recv.msgs[counter]
	for _, p := range m.Paths {
		for _, t := range p.Toks {
			if t.K != "RecElem" {
				continue
			}
			call, ok := t.V.(*ssa.Call)
			if !ok || !l.Blocks[call.Block()] {
				continue
			}
			el := strip(call.Common().Args[0])
			if ld, ok := el.(*ssa.UnOp); ok && ld.Op == token.MUL {
				if ia, ok := ld.X.(*ssa.IndexAddr); ok {
					if f, ok := canonField(ia.X); ok && f == recv+".msgs" {
						ix := linOf(ia.Index)
						if counter != nil && ix.base == ssa.Value(counter) && ix.off == slotOff {
							elemOK = true
						}
					}
				}
			}
		}
	}
	if bodyOK && anyBody {
		c.ok(rid, "Array.RESPBytes/iteration", c.P.pos(fn.Pos()), "every iteration emits exactly one serialized element or returns the error")
	} else if !anyBody {
		c.bad(rid, "Array.RESPBytes/iteration", c.P.pos(fn.Pos()), "no success path runs the element loop")
	}
	c.check(stepOK && boundOK && elemOK, rid, "Array.RESPBytes/loop", c.P.pos(fn.Pos()), "elements msgs[0..count) each serialized once, count is the value written in the header",
		fmt.Sprintf("element loop does not cover msgs[0..count): counter-from-0-by-1=%v bound-is-count=%v element-is-msgs[counter]=%v", stepOK, boundOK, elemOK))
}

// ruleConstructors: R01.d.
func ruleConstructors(c *Ctx) {
	rid := "R01.d"
	c.rule(rid, "public constructors: each builds the message type it names; NewFloatMessage formats with strconv.FormatFloat(v, fmt, -1, 64) (or e/g with precision >= 17); NewIntegerMessage with Itoa/FormatInt base 10; NewNilMessage sets a nil payload, NewBulkMessage a converted (non-nil) one")
	want := map[string]string{
		"NewStringMessage": "StringMessage", "NewErrorMessage": "ErrorMessage", "NewIntegerMessage": "IntegerMessage",
		"NewBulkMessage": "BulkMessage", "NewFloatMessage": "BulkMessage", "NewNilMessage": "BulkMessage",
		"NewArrayMessage": "ArrayMessage", "NewArrayMessageWithArray": "ArrayMessage", "NewStringArrayMessage": "ArrayMessage",
	}
	tt := readTypeTables(c.P)
	n := 0
	for _, name := range sortedKeys(want) {
		fn := c.P.PkgFunc(pkgRedis, name)
		if fn == nil {
			c.undecided(rid, "constructor/"+name, "", "constructor not found")
			continue
		}
		n++
		c.analysed(fn)
		key := "constructor/" + name
		pos := c.P.pos(fn.Pos())
		sum := summarizeCtor(fn, map[*ssa.Parameter]*sval{}, 0)
		if !sum.OK {
			c.undecided(rid, key, pos, "the constructor's result could not be followed to proto.NewMessageWithType: "+sum.Why)
			continue
		}
		var typ int64 = -99
		if sum.Typ != nil && sum.Typ.Kind == "const" {
			if k, ok := constInt(sum.Typ.C); ok {
				typ = k
			}
		}
		if typ != tt.consts[want[name]] {
			c.bad(rid, key, pos, fmt.Sprintf("builds message type %d, expected %s", typ, want[name]))
			continue
		}
		setBytes := sum.Bytes
		isBytesConv := func(v *sval) bool { return v != nil && v.Kind == "conv" && v.Name == "[]byte" && len(v.Args) == 1 }
		problem := ""
		switch name {
		case "NewNilMessage":
			if setBytes == nil || setBytes.Kind != "const" || !isNilConst(setBytes.C) {
				problem = "the nil message does not carry a nil payload"
			}
		case "NewBulkMessage", "NewStringMessage", "NewErrorMessage":
			if !isBytesConv(setBytes) {
				problem = "payload is not the []byte conversion of the argument (a conditional or transformed payload changes the value or its nil-ness)"
			} else if name != "NewErrorMessage" {
				if setBytes.Args[0].Kind != "param" {
					problem = "payload is not converted directly from the argument"
				}
			}
		case "NewIntegerMessage":
			problem = "integer not formatted with strconv.Itoa/FormatInt(.,10)"
			if isBytesConv(setBytes) && setBytes.Args[0].Kind == "call" {
				call := setBytes.Args[0]
				if call.Name == "strconv.Itoa" && len(call.Args) == 1 && call.Args[0].Kind == "param" {
					problem = ""
				}
				if call.Name == "strconv.FormatInt" && len(call.Args) == 2 && call.Args[1].Kind == "const" && isConstIntVal(call.Args[1].C, 10) {
					problem = ""
				}
			}
			// strconv.AppendInt(nil, int64(v), 10)
			if setBytes != nil && setBytes.Kind == "call" && setBytes.Name == "strconv.AppendInt" && len(setBytes.Args) == 3 {
				a := setBytes.Args
				if a[0].Kind == "const" && isNilConst(a[0].C) && a[2].Kind == "const" && isConstIntVal(a[2].C, 10) {
					problem = ""
				}
			}
		case "NewFloatMessage":
			problem = "float not formatted with strconv.FormatFloat"
			if isBytesConv(setBytes) && setBytes.Args[0].Kind == "call" && setBytes.Args[0].Name == "strconv.FormatFloat" && len(setBytes.Args[0].Args) == 4 {
				a := setBytes.Args[0].Args
				ci := func(v *sval) int64 {
					if v.Kind != "const" {
						return -12345
					}
					k, _ := constInt(v.C)
					return k
				}
				f, prec, bits := ci(a[1]), ci(a[2]), ci(a[3])
				switch {
				case a[0].Kind != "param":
					problem = "FormatFloat is not applied to the argument itself"
				case bits != 64:
					problem = "FormatFloat bitSize is not 64: float64 values are rounded to float32"
				case prec == -1:
					problem = ""
				case (f == 'e' || f == 'E' || f == 'g' || f == 'G') && prec >= 17:
					problem = ""
				default:
					problem = fmt.Sprintf("FormatFloat(%q, %d) does not round-trip every finite float64", rune(f), prec)
				}
			}
			// strconv.AppendFloat(nil, v, fmt, prec, 64)
			if setBytes != nil && setBytes.Kind == "call" && setBytes.Name == "strconv.AppendFloat" && len(setBytes.Args) == 5 {
				a := setBytes.Args
				ci := func(v *sval) int64 {
					if v.Kind != "const" {
						return -12345
					}
					k, _ := constInt(v.C)
					return k
				}
				f, prec, bits := ci(a[2]), ci(a[3]), ci(a[4])
				switch {
				case !(a[0].Kind == "const" && isNilConst(a[0].C)) || a[1].Kind != "param":
					problem = "AppendFloat is not applied to nil and the argument itself"
				case bits != 64:
					problem = "AppendFloat bitSize is not 64: float64 values are rounded to float32"
				case prec == -1, (f == 'e' || f == 'E' || f == 'g' || f == 'G') && prec >= 17:
					problem = ""
				default:
					problem = fmt.Sprintf("AppendFloat(%q, %d) does not round-trip every finite float64", rune(f), prec)
				}
			}
		default:
			if !sum.SetArray {
				problem = "array constructor does not set an array"
			}
		}
		if problem == "" {
			c.ok(rid, key, pos, "builds "+want[name])
		} else {
			c.bad(rid, key, pos, problem)
		}
	}
	c.count("constructors", n)
	c.floor("constructors", 9)
}

func isByteType(t types.Type) bool {
	b, ok := t.Underlying().(*types.Basic)
	return ok && b.Kind() == types.Uint8
}

// isTypeToByteFn: the function of proto mapping a MessageType to (its type byte, ok) — by a
// package-level table or by a switch.
func isTypeToByteFn(f *ssa.Function) bool {
	if f == nil || f.Blocks == nil || fnPkgPath(f) != pkgProto || len(f.Params) != 1 || f.Signature.Recv() != nil {
		return false
	}
	res := f.Signature.Results()
	if res.Len() != 2 || !isByteType(res.At(0).Type()) || !isBoolType(res.At(1).Type()) {
		return false
	}
	n, ok := f.Params[0].Type().(*types.Named)
	return ok && n.Obj().Name() == "MessageType"
}

func isBoolType(t types.Type) bool {
	b, ok := t.Underlying().(*types.Basic)
	return ok && b.Kind() == types.Bool
}

// tableOfFn reads the finite map computed by a one-argument lookup function: either
// `v, ok := table[arg]; return v, ok` over a package-level map literal, or a switch over the
// argument whose cases return (constant, true).
func tableOfFn(f *ssa.Function, globalMap func(*ssa.Global) map[int64]int64) (map[int64]int64, string) {
	par := f.Params[0]
	var viaMap map[int64]int64
	allInstrs(f, func(ins ssa.Instruction) {
		if lk, ok := ins.(*ssa.Lookup); ok && strip(lk.Index) == ssa.Value(par) {
			if ld, ok := lk.X.(*ssa.UnOp); ok {
				if g, ok := ld.X.(*ssa.Global); ok {
					viaMap = globalMap(g)
				}
			}
		}
	})
	if viaMap != nil {
		// every return must forward the lookup's results
		for _, r := range returnsOf(f) {
			for _, v := range r.Results {
				ex, ok := strip(v).(*ssa.Extract)
				if !ok {
					return nil, "a return does not forward the table lookup"
				}
				if _, ok := ex.Tuple.(*ssa.Lookup); !ok {
					return nil, "a return does not forward the table lookup"
				}
			}
		}
		return viaMap, ""
	}
	tab := map[int64]int64{}
	for _, r := range returnsOf(f) {
		if len(r.Results) != 2 {
			return nil, "unexpected arity"
		}
		okv, isC := constBool(retOperand(r, 1))
		if !isC {
			return nil, "the ok result is not a constant on some return"
		}
		if !okv {
			continue
		}
		v, isC := constInt(retOperand(r, 0))
		if !isC {
			return nil, "a case returns a non-constant"
		}
		var keys []int64
		for _, at := range factsAt(r.Block()) {
			if at.Kind == "eq" && at.Pos {
				if strip(at.X) == ssa.Value(par) {
					if k, ok := constInt(at.Y); ok {
						keys = append(keys, k)
					}
				} else if strip(at.Y) == ssa.Value(par) {
					if k, ok := constInt(at.X); ok {
						keys = append(keys, k)
					}
				}
			}
		}
		if len(keys) != 1 {
			return nil, "a (value, true) return is not under exactly one equality test of the argument"
		}
		if old, dup := tab[keys[0]]; dup && old != v {
			return nil, "two cases for one key"
		}
		tab[keys[0]] = v
	}
	if len(tab) == 0 {
		return nil, "no (constant, true) return found"
	}
	return tab, ""
}

// isTypeByteCtor: a function of proto taking the type byte and returning (*Message, error).
func isTypeByteCtor(f *ssa.Function) bool {
	if f == nil || fnPkgPath(f) != pkgProto || len(f.Params) != 1 || !isByteType(f.Params[0].Type()) {
		return false
	}
	res := f.Signature.Results()
	return res.Len() == 2 && strings.HasSuffix(res.At(0).Type().String(), "proto.Message") && isErrorType(res.At(1).Type())
}
