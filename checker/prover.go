package main

// prover.go: A8 — a small inequality prover over SSA integers in the style of ABCD
// (Bodik/Gupta/Sarkar): proves  a + oa <= b + ob  from constants, +/- constant, phis (every
// incoming edge must satisfy the bound under the facts of that edge), dominating branch
// conditions, len() of the same value, and the io.Reader contract 0 <= n.

import (
	"fmt"
	"go/token"
	"go/types"
	"math"
	"strings"

	"golang.org/x/tools/go/ssa"
)

// lin is base + off; base nil = constant; isLen = len(base).
type lin struct {
	base  ssa.Value
	isLen bool
	off   int64
}

func (l lin) String() string {
	if l.base == nil {
		return fmt.Sprintf("%d", l.off)
	}
	n := l.base.Name()
	if l.isLen {
		n = "len(" + n + ")"
	}
	if l.off == 0 {
		return n
	}
	return fmt.Sprintf("%s%+d", n, l.off)
}

func sameBase(a, b lin) bool { return a.base == b.base && a.isLen == b.isLen }

// linOf canonicalises v.
func linOf(v ssa.Value) lin {
	v = strip(v)
	switch x := v.(type) {
	case *ssa.Const:
		if c, ok := constInt(x); ok {
			return lin{off: c}
		}
	case *ssa.BinOp:
		if x.Op == token.ADD {
			if c, ok := constInt(x.Y); ok {
				l := linOf(x.X)
				l.off += c
				return l
			}
			if c, ok := constInt(x.X); ok {
				l := linOf(x.Y)
				l.off += c
				return l
			}
		}
		if x.Op == token.SUB {
			if c, ok := constInt(x.Y); ok {
				l := linOf(x.X)
				l.off -= c
				return l
			}
		}
	case *ssa.Call:
		if b, ok := x.Call.Value.(*ssa.Builtin); ok && b.Name() == "len" && len(x.Call.Args) == 1 {
			return lenOf(x.Call.Args[0])
		}
	case *ssa.Convert:
		// a conversion between signed integer types that cannot change the value (same kind,
		// or to a type at least as wide on every architecture) is transparent
		if valuePreservingIntConv(x) {
			return linOf(x.X)
		}
	case *ssa.UnOp:
		if c := canonLoad(v); c != v {
			return linOf(c)
		}
	}
	return lin{base: v}
}

// lenOf gives the linear form of len(x).
func lenOf(x ssa.Value) lin {
	x = strip(x)
	if c := canonLoad(x); c != x {
		return lenOf(c)
	}
	switch s := x.(type) {
	case *ssa.MakeSlice:
		return linOf(s.Len)
	case *ssa.Slice:
		if s.High != nil && s.Low == nil {
			return linOf(s.High)
		}
		if s.High != nil && s.Low != nil {
			lo, hi := linOf(s.Low), linOf(s.High)
			if lo.base == nil {
				hi.off -= lo.off
				return hi
			}
			if sameBase(lo, hi) {
				return lin{off: hi.off - lo.off}
			}
		}
		if s.High == nil && s.Low != nil {
			if lo := linOf(s.Low); lo.base == nil {
				l := lenOf(s.X)
				l.off -= lo.off
				return l
			}
		}
		if s.High == nil && s.Low == nil {
			return lenOf(s.X)
		}
	case *ssa.Alloc:
		// array alloc: *[N]T
	case *ssa.Const:
		if str, ok := constString(s); ok {
			return lin{off: int64(len(str))}
		}
	}
	return lin{base: x, isLen: true}
}

// ineq is a fact x <= y.
type ineq struct{ x, y lin }

func ineqsOf(facts []Atom) []ineq {
	var out []ineq
	for _, a := range facts {
		switch a.Kind {
		case "lt":
			x, y := linOf(a.X), linOf(a.Y)
			if a.Pos { // x < y  =>  x+1 <= y
				x.off++
				out = append(out, ineq{x, y})
			} else { // !(x<y) => y <= x
				out = append(out, ineq{y, x})
			}
		case "le":
			x, y := linOf(a.X), linOf(a.Y)
			if a.Pos {
				out = append(out, ineq{x, y})
			} else { // !(x<=y) => y+1 <= x
				y.off++
				out = append(out, ineq{y, x})
			}
		case "eq":
			if a.Pos && isIntish(a.X) && isIntish(a.Y) {
				x, y := linOf(a.X), linOf(a.Y)
				out = append(out, ineq{x, y}, ineq{y, x})
			}
			// len(s) != 0: a length is never negative, so 1 <= len(s)
			if !a.Pos && isIntish(a.X) && isIntish(a.Y) {
				x, y := linOf(a.X), linOf(a.Y)
				if y.base == nil && y.off == 0 && x.isLen {
					out = append(out, ineq{lin{off: 1 - x.off}, lin{base: x.base, isLen: true}})
				}
				if x.base == nil && x.off == 0 && y.isLen {
					out = append(out, ineq{lin{off: 1 - y.off}, lin{base: y.base, isLen: true}})
				}
			}
		}
	}
	return out
}

func isIntish(v ssa.Value) bool {
	if v == nil {
		return false
	}
	s := v.Type().Underlying().String()
	return s == "int" || s == "int64" || s == "int32" || s == "uint8" || s == "untyped int"
}

type prover struct {
	inProgress map[string]int64
	steps      int
	intMax     int64
}

func newProver(goarch string) *prover {
	m := int64(math.MaxInt64)
	if goarch == "386" || goarch == "arm" {
		m = math.MaxInt32
	}
	return &prover{inProgress: map[string]int64{}, intMax: m}
}

// le proves a <= b given the facts.
func (pv *prover) le(a, b lin, facts []Atom, depth int) bool {
	pv.steps++
	if depth > 8 || pv.steps > 20000 {
		return false
	}
	if sameBase(a, b) {
		return a.off <= b.off
	}
	// coinduction over loop phis: a goal with the same bases and at least the margin of a goal
	// already in progress is implied by it (induction hypothesis)
	a0, b0 := a, b
	a0.off, b0.off = 0, 0
	key := fmt.Sprintf("%s@%p<=%s@%p", a0.String(), a0.base, b0.String(), b0.base)
	margin := b.off - a.off
	if m0, ok := pv.inProgress[key]; ok && margin >= m0 {
		return true
	}
	if _, ok := pv.inProgress[key]; !ok {
		pv.inProgress[key] = margin
		defer delete(pv.inProgress, key)
	}

	// intrinsic non-negativity: 0 <= len(x), 0 <= n of Read
	if a.base == nil && b.base != nil && intrinsicNonNeg(b) && a.off <= b.off {
		return true
	}
	iq := ineqsOf(facts)
	// direct and one-step transitive use of facts
	for _, f := range iq {
		if sameBase(f.x, a) {
			// a+oa = f.x + (oa - px) <= f.y + (oa - px)
			mid := f.y
			mid.off += a.off - f.x.off
			if sameBase(mid, b) {
				if mid.off <= b.off {
					return true
				}
				continue
			}
			if depth < 4 && pv.le(mid, b, facts, depth+2) {
				return true
			}
		}
	}
	// a is a phi: every edge
	if !a.isLen {
		if phi, ok := a.base.(*ssa.Phi); ok {
			all := true
			for i, e := range phi.Edges {
				pred := phi.Block().Preds[i]
				ea := linOf(e)
				ea.off += a.off
				if !pv.le(ea, b, edgeFacts(pred, succIndex(pred, phi.Block())), depth+1) {
					all = false
					break
				}
			}
			if all {
				return true
			}
		}
	}
	if !b.isLen {
		if phi, ok := b.base.(*ssa.Phi); ok {
			all := true
			for i, e := range phi.Edges {
				pred := phi.Block().Preds[i]
				eb := linOf(e)
				eb.off += b.off
				// facts known at the use site still hold for values defined before the phi; add edge facts
				fs := append(append([]Atom{}, facts...), edgeFacts(pred, succIndex(pred, phi.Block()))...)
				if !pv.le(a, eb, fs, depth+1) {
					all = false
					break
				}
			}
			if all {
				return true
			}
		}
		// b = x + y (both non-constant), a constant <= 0... : 0 <= x and 0 <= y
		if bo, ok := b.base.(*ssa.BinOp); ok && bo.Op == token.ADD && a.base == nil {
			zero := lin{off: 0}
			if a.off <= b.off && pv.le(zero, linOf(bo.X), facts, depth+1) && pv.le(zero, linOf(bo.Y), facts, depth+1) {
				return true
			}
		}
	}
	// data, err := r.ReadBytes(delim) with err == nil: data ends in delim, so 1 <= len(data)
	if a.base == nil && b.isLen && a.off <= 1+b.off {
		if ex, ok := b.base.(*ssa.Extract); ok && ex.Index == 0 {
			if call, ok := ex.Tuple.(*ssa.Call); ok && nameIn(calleeName(call.Common()), "(*bufio.Reader).ReadBytes", "(*bufio.Reader).ReadString", "(*bufio.Reader).ReadSlice") {
				for _, at := range facts {
					if at.Kind == "nil" && at.Pos {
						if e2, ok := at.X.(*ssa.Extract); ok && e2.Tuple == ssa.Value(call) && e2.Index == 1 {
							return true
						}
					}
				}
			}
		}
	}
	// i = slices.Index*(s, ...): -1 <= i < len(s)
	if !a.isLen && depth < 6 {
		if call, ok := a.base.(*ssa.Call); ok {
			if s0 := slicesIndexOperand(call); s0 != nil {
				ls := lenOf(s0)
				ls.off += a.off - 1
				if pv.le(ls, b, facts, depth+1) {
					return true
				}
			}
		}
	}
	if a.base == nil && !b.isLen && a.off <= b.off-1 {
		if call, ok := b.base.(*ssa.Call); ok && slicesIndexOperand(call) != nil {
			return true // -1 <= i
		}
	}
	// r = rand.Intn(n): r + oa <= b if n - 1 + oa <= b
	if !a.isLen && depth < 6 {
		if call, ok := a.base.(*ssa.Call); ok {
			if n := randBelow(call); n != nil {
				ln := linOf(n)
				ln.off += a.off - 1
				if pv.le(ln, b, facts, depth+1) {
					return true
				}
			}
		}
	}
	// len(append(p, ...)) >= len(p)
	if b.isLen {
		if call, ok := b.base.(*ssa.Call); ok {
			if bi, ok := call.Common().Value.(*ssa.Builtin); ok && bi.Name() == "append" && len(call.Common().Args) >= 1 {
				lp := lenOf(call.Common().Args[0])
				lp.off += b.off
				if depth < 6 && pv.le(a, lp, facts, depth+1) {
					return true
				}
			}
		}
	}
	// x/c <= x for 0 <= x and a constant c >= 1
	if !a.isLen && depth < 6 {
		if bo, ok := a.base.(*ssa.BinOp); ok && bo.Op == token.QUO {
			if c, isC := constInt(bo.Y); isC && c >= 1 {
				dv := linOf(bo.X)
				if pv.le(lin{}, dv, facts, depth+1) {
					dv.off += a.off
					if pv.le(dv, b, facts, depth+1) {
						return true
					}
				}
			}
		}
		// (x - y) + oa <= b  if  0 <= y and x + oa <= b
		if bo, ok := a.base.(*ssa.BinOp); ok && bo.Op == token.SUB {
			if pv.le(lin{}, linOf(bo.Y), facts, depth+1) {
				lx := linOf(bo.X)
				lx.off += a.off
				if pv.le(lx, b, facts, depth+1) {
					return true
				}
			}
		}
	}
	// c <= (x - y) + ob  if  y + (c - ob) <= x
	if !b.isLen && a.base == nil && depth < 6 {
		if bo, ok := b.base.(*ssa.BinOp); ok && bo.Op == token.SUB {
			ly := linOf(bo.Y)
			ly.off += a.off - b.off
			if pv.le(ly, linOf(bo.X), facts, depth+1) {
				return true
			}
		}
	}
	// min/max builtins
	minmax := func(l lin) (string, []ssa.Value) {
		if l.isLen || l.base == nil {
			return "", nil
		}
		if call, ok := l.base.(*ssa.Call); ok {
			if bi, ok := call.Common().Value.(*ssa.Builtin); ok && (bi.Name() == "min" || bi.Name() == "max") {
				return bi.Name(), call.Common().Args
			}
		}
		return "", nil
	}
	if depth < 6 {
		if kind, args := minmax(a); kind != "" {
			// min(xs)+o <= b if some x+o <= b; max(xs)+o <= b if every x+o <= b
			some, all := false, true
			for _, x := range args {
				lx := linOf(x)
				lx.off += a.off
				if pv.le(lx, b, facts, depth+2) {
					some = true
				} else {
					all = false
				}
			}
			if (kind == "min" && some) || (kind == "max" && all && len(args) > 0) {
				return true
			}
		}
		if kind, args := minmax(b); kind != "" {
			// a <= min(xs)+o if a <= every x+o; a <= max(xs)+o if a <= some x+o
			some, all := false, true
			for _, x := range args {
				lx := linOf(x)
				lx.off += b.off
				if pv.le(a, lx, facts, depth+2) {
					some = true
				} else {
					all = false
				}
			}
			if (kind == "max" && some) || (kind == "min" && all && len(args) > 0) {
				return true
			}
		}
	}
	// a or b is a result of a repository helper: prove the goal at every return of the helper
	// that is consistent with what the caller knows about the helper's boolean/error results
	if pv.viaHelper(a, b, facts, depth) {
		return true
	}
	// a = x + y with y <= 0-ish is not handled
	return false
}

func helperResult(l lin) (*ssa.Call, int, bool) {
	if l.isLen || l.base == nil {
		return nil, 0, false
	}
	switch x := l.base.(type) {
	case *ssa.Extract:
		if call, ok := x.Tuple.(*ssa.Call); ok {
			if h := staticCallee(call.Common()); h != nil && h.Blocks != nil && inRepo(h) {
				return call, x.Index, true
			}
		}
	case *ssa.Call:
		if h := staticCallee(x.Common()); h != nil && h.Blocks != nil && inRepo(h) && h.Signature.Results().Len() == 1 {
			return x, 0, true
		}
	}
	return nil, 0, false
}

func (pv *prover) viaHelper(a, b lin, facts []Atom, depth int) bool {
	if depth > 5 {
		return false
	}
	call, _, ok := helperResult(a)
	if !ok {
		call, _, ok = helperResult(b)
	}
	if !ok {
		return false
	}
	h := staticCallee(call.Common())
	if h == call.Parent() {
		return false
	}
	args := call.Common().Args
	// what the caller knows about the other results of this call
	reqBool := map[int]bool{}
	errNil := false
	for _, at := range facts {
		ex, ok := at.X.(*ssa.Extract)
		if !ok || ex.Tuple != ssa.Value(call) {
			continue
		}
		switch at.Kind {
		case "val":
			reqBool[ex.Index] = at.Pos
		case "nil":
			if at.Pos && isErrorType(ex.Type()) {
				errNil = true
			}
		}
	}
	any := false
	for _, r := range returnsOf(h) {
		skip := false
		for j, want := range reqBool {
			if j < len(r.Results) {
				if cb, ok := constBool(retOperand(r, j)); ok && cb != want {
					skip = true
				}
			}
		}
		if n := len(r.Results); errNil && n >= 1 && isErrorType(r.Results[n-1].Type()) {
			last := retOperand(r, n-1)
			if !isNilConst(last) && (definitelyNonNil(strip(last)) || errNonNilAt(r, n-1) || isErrCtorCall(strip(last))) {
				skip = true
			}
		}
		if skip {
			continue
		}
		tr := func(l lin) (lin, bool) {
			if l.base == nil {
				return l, true
			}
			if c2, k, ok := helperResult(l); ok && c2 == call {
				if k >= len(r.Results) {
					return l, false
				}
				out := linOf(retOperand(r, k))
				out.off += l.off
				return out, true
			}
			for j, arg := range args {
				if j >= len(h.Params) {
					break
				}
				al := linOf(arg)
				if sameBase(al, l) && al.base != nil {
					return lin{base: h.Params[j], off: l.off - al.off}, true
				}
			}
			return l, false
		}
		ta, ok1 := tr(a)
		tb, ok2 := tr(b)
		if !ok1 || !ok2 {
			return false
		}
		if !pv.le(ta, tb, factsAt(r.Block()), depth+1) {
			return false
		}
		any = true
	}
	return any
}

func intrinsicNonNeg(b lin) bool {
	if b.isLen {
		return true
	}
	if ex, ok := b.base.(*ssa.Extract); ok && ex.Index == 0 {
		if call, ok := ex.Tuple.(*ssa.Call); ok {
			switch calleeName(call.Common()) {
			case "(io.Reader).Read", "(net.Conn).Read", "io.ReadFull", "io.ReadAtLeast":
				return true
			}
		}
	}
	if call, ok := b.base.(*ssa.Call); ok && randBelow(call) != nil {
		return true
	}
	return false
}

// randBelow: the call is math/rand's Intn/Int31n/Int63n (package function or method): its
// result r satisfies 0 <= r < n; returns n.
func randBelow(call *ssa.Call) ssa.Value {
	switch calleeName(call.Common()) {
	case "math/rand.Intn", "math/rand.Int31n", "math/rand.Int63n", "math/rand/v2.IntN", "math/rand/v2.Int64N", "math/rand/v2.Int32N", "math/rand/v2.N":
		return call.Common().Args[0]
	case "(*math/rand.Rand).Intn", "(*math/rand.Rand).Int31n", "(*math/rand.Rand).Int63n", "(*math/rand/v2.Rand).IntN":
		return call.Common().Args[1]
	}
	return nil
}

// boundsAt returns the facts that hold at instruction ins (its block's dominating guards).
func boundsAt(ins ssa.Instruction) []Atom { return factsAt(ins.Block()) }

// proveSlice decides low/high bounds of a Slice instruction: 0 <= low <= high <= len(x).
func (pv *prover) proveSlice(s *ssa.Slice) (bool, string) {
	if wholeCapSlice(s) {
		return true, "0 <= cap(s) <= cap(s)"
	}
	facts := boundsAt(s)
	ln := lenOf(s.X)
	if at, ok := deref(s.X.Type()).Underlying().(interface{ Len() int64 }); ok && ln.isLen {
		ln = lin{off: at.Len()}
	}
	zero := lin{}
	lo := zero
	if s.Low != nil {
		lo = linOf(s.Low)
	}
	hi := ln
	if s.High != nil {
		hi = linOf(s.High)
	}
	if !pv.le(zero, lo, facts, 0) {
		return false, fmt.Sprintf("no fact establishes 0 <= %s", lo)
	}
	if !pv.le(lo, hi, facts, 0) {
		return false, fmt.Sprintf("no fact relates %s <= %s", lo, hi)
	}
	if !pv.le(hi, ln, facts, 0) {
		return false, fmt.Sprintf("no fact establishes %s <= %s", hi, ln)
	}
	return true, fmt.Sprintf("0 <= %s <= %s <= %s", lo, hi, ln)
}

// proveIndex decides 0 <= idx < len(x) for an IndexAddr/Index.
func (pv *prover) proveIndex(x, idx ssa.Value, at ssa.Instruction) (bool, string) {
	facts := boundsAt(at)
	ln := lenOf(x)
	if arr, ok := deref(x.Type()).Underlying().(interface{ Len() int64 }); ok {
		ln = lin{off: arr.Len()}
	}
	i := linOf(idx)
	zero := lin{}
	if !pv.le(zero, i, facts, 0) {
		return false, fmt.Sprintf("no fact establishes 0 <= %s", i)
	}
	i1 := i
	i1.off++
	if !pv.le(i1, ln, facts, 0) {
		return false, fmt.Sprintf("no fact establishes %s < %s", i, ln)
	}
	return true, fmt.Sprintf("0 <= %s < %s", i, ln)
}

// valuePreservingIntConv: signed integer to signed integer of at least the same width on every
// GOARCH (int is 32 or 64 bits wide).
func valuePreservingIntConv(cv *ssa.Convert) bool {
	from, ok1 := cv.X.Type().Underlying().(*types.Basic)
	to, ok2 := cv.Type().Underlying().(*types.Basic)
	if !ok1 || !ok2 {
		return false
	}
	// minimal and maximal width of each signed kind
	width := func(k types.BasicKind) (lo, hi int) {
		switch k {
		case types.Int8:
			return 8, 8
		case types.Int16:
			return 16, 16
		case types.Int32:
			return 32, 32
		case types.Int64:
			return 64, 64
		case types.Int:
			return 32, 64
		}
		return 0, 0
	}
	_, fhi := width(from.Kind())
	tlo, _ := width(to.Kind())
	if fhi == 0 || tlo == 0 {
		return false
	}
	return from.Kind() == to.Kind() || fhi <= tlo
}

// slicesIndexOperand: call is slices.Index / IndexFunc / BinarySearch-free index lookups of the
// slices package (any instantiation); returns the slice operand.
func slicesIndexOperand(call *ssa.Call) ssa.Value {
	n := calleeName(call.Common())
	if strings.HasPrefix(n, "slices.Index[") || strings.HasPrefix(n, "slices.IndexFunc[") || n == "slices.Index" || n == "slices.IndexFunc" {
		if len(call.Common().Args) >= 1 {
			return call.Common().Args[0]
		}
	}
	return nil
}

// wholeCapSlice: s[:cap(s)] — the whole backing array — is always in range. The two mentions of
// s may be two loads of the same address with nothing in between that could store to it.
func wholeCapSlice(s *ssa.Slice) bool {
	if s.Low != nil || s.High == nil || s.Max != nil {
		return false
	}
	call, ok := strip(s.High).(*ssa.Call)
	if !ok {
		return false
	}
	b, isB := call.Call.Value.(*ssa.Builtin)
	if !isB || b.Name() != "cap" || len(call.Call.Args) != 1 {
		return false
	}
	a, x := strip(call.Call.Args[0]), strip(s.X)
	if a == x || canonLoad(a) == canonLoad(x) {
		return true
	}
	la, okA := a.(*ssa.UnOp)
	lx, okX := x.(*ssa.UnOp)
	if !okA || !okX || la.Op != token.MUL || lx.Op != token.MUL || la.X != lx.X || la.Block() != lx.Block() {
		return false
	}
	in := false
	for _, ins := range la.Block().Instrs {
		if ins == ssa.Instruction(la) || ins == ssa.Instruction(lx) {
			if in {
				return true
			}
			in = true
			continue
		}
		if !in {
			continue
		}
		switch y := ins.(type) {
		case *ssa.Store:
			return false
		case *ssa.Call:
			if _, isB := y.Call.Value.(*ssa.Builtin); !isB {
				return false
			}
		}
	}
	return false
}
