package main

// normalize_range.go: `for i := range n` over an integer (Go 1.22) is lowered by go/ssa to a
// rotated loop — a guard `0 < n` before the loop and the bound test `i+1 < n` at the bottom —
// which none of the loop idioms of the rules (counter from 0, bound tested in the header) match,
// although it is exactly `for i := 0; i < n; i++`. The loader therefore rewrites these
// statements, in memory and before type-checking, to the three-clause form (the bound is
// evaluated once into a fresh variable unless it is a plain identifier, selector, literal or
// len(identifier)). Which statements range over an integer is taken from the types of a first,
// unmodified load; they are found again by file name and byte offset.

import (
	"fmt"
	"go/ast"
	"go/token"
	"go/types"

	"golang.org/x/tools/go/ast/astutil"
	"golang.org/x/tools/go/packages"
)

// rangeIntSites: file name -> byte offsets of `for` keywords of range-over-int statements whose
// operand is of type int (or an untyped constant).
func rangeIntSites(pkgs map[string]*packages.Package) map[string]map[int]bool {
	out := map[string]map[int]bool{}
	for path, pk := range pkgs {
		if !pkgHasPrefix(path, modPath) || pk.TypesInfo == nil {
			continue
		}
		for _, f := range pk.Syntax {
			tf := pk.Fset.File(f.Pos())
			if tf == nil {
				continue
			}
			ast.Inspect(f, func(n ast.Node) bool {
				rs, ok := n.(*ast.RangeStmt)
				if !ok || rs.Value != nil {
					return true
				}
				t := pk.TypesInfo.TypeOf(rs.X)
				if t == nil {
					return true
				}
				b, isB := t.Underlying().(*types.Basic)
				if !isB || b.Info()&types.IsInteger == 0 {
					return true
				}
				if b.Kind() != types.Int && b.Kind() != types.UntypedInt {
					return true // a typed bound would need a typed counter: left as written
				}
				if _, named := t.(*types.Named); named {
					return true
				}
				if out[tf.Name()] == nil {
					out[tf.Name()] = map[int]bool{}
				}
				out[tf.Name()][tf.Offset(rs.For)] = true
				return true
			})
		}
	}
	return out
}

func pureBound(e ast.Expr) bool {
	switch x := e.(type) {
	case *ast.Ident, *ast.BasicLit:
		return true
	case *ast.SelectorExpr:
		return pureBound(x.X)
	case *ast.ParenExpr:
		return pureBound(x.X)
	case *ast.CallExpr:
		if id, ok := x.Fun.(*ast.Ident); ok && id.Name == "len" && len(x.Args) == 1 {
			return pureBound(x.Args[0])
		}
	}
	return false
}

// assignsTo: the body assigns to (or takes the address of) the identifier name.
func assignsTo(body *ast.BlockStmt, name string) bool {
	found := false
	ast.Inspect(body, func(n ast.Node) bool {
		switch x := n.(type) {
		case *ast.AssignStmt:
			for _, l := range x.Lhs {
				if id, ok := l.(*ast.Ident); ok && id.Name == name {
					found = true
				}
			}
		case *ast.IncDecStmt:
			if id, ok := x.X.(*ast.Ident); ok && id.Name == name {
				found = true
			}
		case *ast.UnaryExpr:
			if x.Op == token.AND {
				if id, ok := x.X.(*ast.Ident); ok && id.Name == name {
					found = true
				}
			}
		}
		return !found
	})
	return found
}

// rewriteRangeInt rewrites the listed range-over-int statements of file f; returns how many.
func rewriteRangeInt(fset *token.FileSet, f *ast.File, offsets map[int]bool) int {
	tf := fset.File(f.Pos())
	if tf == nil || len(offsets) == 0 {
		return 0
	}
	n := 0
	astutil.Apply(f, nil, func(c *astutil.Cursor) bool {
		rs, ok := c.Node().(*ast.RangeStmt)
		if !ok || rs.Value != nil || !offsets[tf.Offset(rs.For)] {
			return true
		}
		pos := rs.For
		key, _ := rs.Key.(*ast.Ident)
		tok := rs.Tok
		if key == nil || key.Name == "_" {
			key = &ast.Ident{NamePos: pos, Name: fmt.Sprintf("verifRangeI%d", tf.Offset(pos))}
			tok = token.DEFINE
		}
		bound := rs.X
		var pre ast.Stmt
		needHoist := !pureBound(bound)
		if id, isId := bound.(*ast.Ident); isId && assignsTo(rs.Body, id.Name) {
			needHoist = true
		}
		if needHoist {
			if _, inList := c.Parent().(*ast.BlockStmt); !inList || c.Index() < 0 {
				return true // cannot place the hoisted bound (labelled or single-statement context)
			}
			bn := &ast.Ident{NamePos: pos, Name: fmt.Sprintf("verifRangeN%d", tf.Offset(pos))}
			pre = &ast.AssignStmt{Lhs: []ast.Expr{bn}, TokPos: pos, Tok: token.DEFINE, Rhs: []ast.Expr{bound}}
			bound = &ast.Ident{NamePos: pos, Name: bn.Name}
		}
		fs := &ast.ForStmt{
			For:  pos,
			Init: &ast.AssignStmt{Lhs: []ast.Expr{key}, TokPos: pos, Tok: tok, Rhs: []ast.Expr{&ast.BasicLit{ValuePos: pos, Kind: token.INT, Value: "0"}}},
			Cond: &ast.BinaryExpr{X: &ast.Ident{NamePos: pos, Name: key.Name}, OpPos: pos, Op: token.LSS, Y: bound},
			Post: &ast.IncDecStmt{X: &ast.Ident{NamePos: pos, Name: key.Name}, TokPos: pos, Tok: token.INC},
			Body: rs.Body,
		}
		if pre != nil {
			c.InsertBefore(pre)
		}
		c.Replace(fs)
		n++
		return true
	})
	return n
}
