package main

import (
	"fmt"
	"strings"

	"golang.org/x/tools/go/ssa"
)

func init() {
	register(&propInfo{ID: "C18", Level: "other", Run: runC18,
		Explanation: "Narrow claim — three structural necessary conditions of 'the example store returns what was stored': R18.a stored client data leaves the example handlers only through binary-safe reply constructors (bulk strings, string arrays of bulks, integers, floats): the status-reply constructor is called with constants only, so a value containing CR, LF or any other byte comes back as stored; R18.b a function that stores a record under a new name and deletes the old name either deletes first or tests the two names for equality before deleting (renaming a key onto itself keeps it); R18.c SET and HSET store the very value parameter they were given. Reply equality with a reference Redis model over command programs (orders, counts, duplicates) is a value property of the data-structure code and is NOT decided."})
}

func runC18(c *Ctx) {
	rid := "R18.a"
	c.rule(rid, "A7: in examples/go-redisd/server every call of redis.NewStringMessage (status reply, not binary-safe) has a constant argument; values loaded from records reach replies through NewBulkMessage / NewStringArrayMessage / NewIntegerMessage / NewFloatMessage")
	n, bulk := 0, 0
	for _, fn := range c.P.RepoFuncs(pkgExSrv) {
		allInstrs(fn, func(ins ssa.Instruction) {
			call, ok := ins.(*ssa.Call)
			if !ok {
				return
			}
			switch calleeName(call.Common()) {
			case pkgRedis + ".NewStringMessage":
				n++
				c.analysed(fn)
				key := fmt.Sprintf("%s/status-reply#%d", fnName(fn), n)
				if s, isC := constString(call.Common().Args[0]); isC {
					c.ok(rid, key, c.P.instrPos(call), fmt.Sprintf("constant status %q", s))
				} else {
					c.bad(rid, key, c.P.instrPos(call), "a non-constant string is returned as a status reply: status replies are not binary-safe, a stored value containing CR/LF (or meant as bulk) does not come back as stored")
				}
			case pkgRedis + ".NewBulkMessage", pkgRedis + ".NewStringArrayMessage":
				bulk++
			}
		})
	}
	c.count("status-reply-sites", n)
	c.floor("status-reply-sites", 1)
	c.count("bulk-reply-sites", bulk)
	c.floor("bulk-reply-sites", 8)

	rid = "R18.b"
	c.rule(rid, "in every function of the example store that, for two string parameters old/new, stores a record under new and deletes old from the same map: the delete precedes the store on every path, or the delete is dominated by a test that the two names differ (or an early return when they are equal)")
	nr := 0
	for _, fn := range c.P.RepoFuncs(pkgExSrv) {
		if len(fn.Params) < 3 {
			continue
		}
		var strParams []*ssa.Parameter
		for _, p := range fn.Params {
			if p.Type().String() == "string" {
				strParams = append(strParams, p)
			}
		}
		if len(strParams) != 2 {
			continue
		}
		memo := map[*ssa.Function][]string{}
		sigs := storeOps(c.P, fn, memo, 0)
		hasBoth := false
		for _, s := range sigs {
			if strings.Contains(s, "R.Store") && strings.Contains(s, "R.Delete") {
				hasBoth = true
			}
		}
		if !hasBoth || fn.Signature.Recv() == nil || !strings.HasSuffix(fn.Signature.Recv().Type().String(), "Records") {
			continue
		}
		nr++
		c.analysed(fn)
		key := fnName(fn)
		// the removal call(s): calls that (transitively) delete; the store call(s)
		var dels, stores []*ssa.Call
		allInstrs(fn, func(ins ssa.Instruction) {
			call, ok := ins.(*ssa.Call)
			if !ok {
				return
			}
			callee := staticCallee(call.Common())
			n := calleeName(call.Common())
			if n == "(*sync.Map).Delete" || (callee != nil && c.P.reachesCallNamedAny(callee, "(*sync.Map).Delete")) {
				dels = append(dels, call)
			}
			if n == "(*sync.Map).Store" || (callee != nil && c.P.reachesCallNamedAny(callee, "(*sync.Map).Store")) {
				stores = append(stores, call)
			}
		})
		okAll := len(dels) > 0 && len(stores) > 0
		why := ""
		for _, d := range dels {
			// guarded by key != newkey ?
			guarded := false
			for _, at := range factsAt(d.Block()) {
				if at.Kind == "eq" && !at.Pos {
					if (at.X == ssa.Value(strParams[0]) && at.Y == ssa.Value(strParams[1])) || (at.X == ssa.Value(strParams[1]) && at.Y == ssa.Value(strParams[0])) {
						guarded = true
					}
				}
			}
			// or every store is after the delete
			before := true
			for _, s := range stores {
				if !reachableBlocks(d.Block(), nil)[s.Block()] || s.Block() == d.Block() && instrIndex(s) < instrIndex(d) {
					before = false
				}
				if reachableBlocks(s.Block(), nil)[d.Block()] && s.Block() != d.Block() {
					before = false
				}
			}
			if !guarded && !before {
				okAll = false
				why = "the old name is deleted after the record was stored under the new name, with no test that the names differ: renaming a key onto itself deletes it"
			}
		}
		c.check(okAll, rid, key, c.P.pos(fn.Pos()), "old name deleted only when it differs from the new one (or before the store)", why)
	}
	c.count("rename-functions", nr)
	c.floor("rename-functions", 1)

	rid = "R18.c"
	c.rule(rid, "the example handlers Set and HSet store the value parameter itself (no transformation) into the record / hash")
	for _, name := range []string{"Set", "HSet"} {
		fn := c.P.Method(pkgExSrv, "Server", name)
		if !c.anchor(rid, fn, "ex/server.(*Server)."+name) {
			continue
		}
		// the `val` parameter: the last string parameter
		var val *ssa.Parameter
		for _, p := range fn.Params {
			if p.Type().String() == "string" {
				val = p
			}
		}
		stored := false
		allInstrs(fn, func(ins ssa.Instruction) {
			switch x := ins.(type) {
			case *ssa.Store:
				if _, f, _, ok := fieldOf(x.Addr); ok && f == "Data" && strip(x.Val) == ssa.Value(val) {
					stored = true
				}
			case *ssa.MapUpdate:
				if strip(x.Value) == ssa.Value(val) {
					stored = true
				}
			case *ssa.Call:
				// hash.Set(field, val, opt)
				for _, a := range x.Common().Args {
					if strip(a) == ssa.Value(val) {
						if callee := staticCallee(x.Common()); callee != nil && strings.HasPrefix(fnPkgPath(callee), pkgExSrv) {
							stored = true
						}
					}
				}
			}
		})
		c.check(stored, rid, "ex."+name, c.P.pos(fn.Pos()), "the value parameter is stored unchanged", "the handler does not store its value parameter unchanged")
	}
	c.assume("each key is used with one data type; expiry is not exercised")
}

func instrIndex(ins ssa.Instruction) int {
	for i, x := range ins.Block().Instrs {
		if x == ins {
			return i
		}
	}
	return -1
}

// reachesCallNamedAny: like reachesCallNamed but follows static calls into any repository package.
func (p *Program) reachesCallNamedAny(fn *ssa.Function, names ...string) bool {
	seen := map[*ssa.Function]bool{}
	st := []*ssa.Function{fn}
	for len(st) > 0 {
		f := st[len(st)-1]
		st = st[:len(st)-1]
		if f == nil || seen[f] || f.Blocks == nil {
			continue
		}
		seen[f] = true
		hit := false
		allInstrs(f, func(ins ssa.Instruction) {
			cc := callCommon(ins)
			if cc == nil {
				return
			}
			if nameIn(calleeName(cc), names...) {
				hit = true
			}
			if cal := staticCallee(cc); cal != nil && inRepo(cal) {
				st = append(st, cal)
			}
		})
		if hit {
			return true
		}
	}
	return false
}
