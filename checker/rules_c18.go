package main

import (
	"fmt"
	"go/token"
	"go/types"
	"sort"
	"strings"

	"golang.org/x/tools/go/ssa"
)

func init() {
	register(&propInfo{ID: "C18", Level: "other", Run: runC18,
		Explanation: "Narrow claim — six structural necessary conditions of 'the example store returns what was stored': R18.a stored client data leaves the example handlers only through binary-safe reply constructors (bulk strings, string arrays of bulks, integers, floats): the status-reply constructor is called with constants only, so a value containing CR, LF or any other byte comes back as stored; R18.b a function that stores a record under a new name and deletes the old name either deletes first or tests the two names for equality before deleting (renaming a key onto itself keeps it); R18.c SET and HSET store the very value parameter they were given; R18.d an in-place helper (reverse, sort) is never handed a reslice of a container's own field, so a read does not reorder what is stored; R18.e a loop that stores to a receiver field does not consult a copy of the field taken before the loop (no duplicates from one SADD); R18.f float conversions use 64 bits. Reply equality with a reference Redis model over command programs (orders, counts, duplicates) is a value property of the data-structure code and is NOT decided."})
}

func runC18(c *Ctx) {
	rid := "R18.a"
	c.rule(rid, "A7: in examples/go-redisd/server every call of redis.NewStringMessage (status reply, not binary-safe) has a constant argument; values loaded from records reach replies through NewBulkMessage / NewStringArrayMessage / NewIntegerMessage / NewFloatMessage")
	n, bulk := 0, 0
	for _, fn := range c.P.RepoFuncs(pkgExSrv) {
		allInstrs(fn, func(ins ssa.Instruction) {
			call, ok := ins.(*ssa.Call)
			if !ok {
				return
			}
			switch calleeName(call.Common()) {
			case pkgRedis + ".NewStringMessage":
				n++
				c.analysed(fn)
				key := fmt.Sprintf("%s/status-reply#%d", fnName(fn), n)
				if s, isC := constString(call.Common().Args[0]); isC {
					c.ok(rid, key, c.P.instrPos(call), fmt.Sprintf("constant status %q", s))
				} else {
					c.bad(rid, key, c.P.instrPos(call), "a non-constant string is returned as a status reply: status replies are not binary-safe, a stored value containing CR/LF (or meant as bulk) does not come back as stored")
				}
			case pkgRedis + ".NewBulkMessage", pkgRedis + ".NewStringArrayMessage":
				bulk++
			}
		})
	}
	c.count("status-reply-sites", n)
	c.floor("status-reply-sites", 1)
	c.count("bulk-reply-sites", bulk)
	c.floor("bulk-reply-sites", 8)

	rid = "R18.b"
	c.rule(rid, "in every function of the example store that, for two string parameters old/new, stores a record under new and deletes old from the same map: the delete precedes the store on every path, or the delete is dominated by a test that the two names differ (or an early return when they are equal)")
	nr := 0
	for _, fn := range c.P.RepoFuncs(pkgExSrv) {
		if len(fn.Params) < 3 {
			continue
		}
		var strParams []*ssa.Parameter
		for _, p := range fn.Params {
			if p.Type().String() == "string" {
				strParams = append(strParams, p)
			}
		}
		if len(strParams) != 2 {
			continue
		}
		memo := map[*ssa.Function][]string{}
		sigs := storeOps(c.P, fn, memo, 0)
		hasBoth := false
		for _, s := range sigs {
			if strings.Contains(s, "R.Store") && (strings.Contains(s, "R.Delete") || strings.Contains(s, "R.LoadAndDelete") || strings.Contains(s, "R.CompareAndDelete")) {
				hasBoth = true
			}
		}
		if !hasBoth || fn.Signature.Recv() == nil || !strings.HasSuffix(fn.Signature.Recv().Type().String(), "Records") {
			continue
		}
		nr++
		c.analysed(fn)
		key := fnName(fn)
		// the removal call(s): calls that (transitively) delete; the store call(s)
		var dels, stores []*ssa.Call
		allInstrs(fn, func(ins ssa.Instruction) {
			call, ok := ins.(*ssa.Call)
			if !ok {
				return
			}
			callee := staticCallee(call.Common())
			n := calleeName(call.Common())
			if nameIn(n, "(*sync.Map).Delete", "(*sync.Map).LoadAndDelete", "(*sync.Map).CompareAndDelete") || (callee != nil && c.P.reachesCallNamedAny(callee, "(*sync.Map).Delete", "(*sync.Map).LoadAndDelete", "(*sync.Map).CompareAndDelete")) {
				dels = append(dels, call)
			}
			if n == "(*sync.Map).Store" || (callee != nil && c.P.reachesCallNamedAny(callee, "(*sync.Map).Store")) {
				stores = append(stores, call)
			}
		})
		okAll := len(dels) > 0 && len(stores) > 0
		why := ""
		for _, d := range dels {
			// guarded by key != newkey ?
			guarded := false
			for _, at := range factsAt(d.Block()) {
				if at.Kind == "eq" && !at.Pos {
					if (at.X == ssa.Value(strParams[0]) && at.Y == ssa.Value(strParams[1])) || (at.X == ssa.Value(strParams[1]) && at.Y == ssa.Value(strParams[0])) {
						guarded = true
					}
				}
			}
			// or every store is after the delete
			before := true
			for _, s := range stores {
				if !reachableBlocks(d.Block(), nil)[s.Block()] || s.Block() == d.Block() && instrIndex(s) < instrIndex(d) {
					before = false
				}
				if reachableBlocks(s.Block(), nil)[d.Block()] && s.Block() != d.Block() {
					before = false
				}
			}
			if !guarded && !before {
				okAll = false
				why = "the old name is deleted after the record was stored under the new name, with no test that the names differ: renaming a key onto itself deletes it"
			}
		}
		c.check(okAll, rid, key, c.P.pos(fn.Pos()), "old name deleted only when it differs from the new one (or before the store)", why)
	}
	c.count("rename-functions", nr)
	c.floor("rename-functions", 1)

	ruleNoMutationThroughAlias(c, "R18.d")
	ruleNoStaleFieldSnapshot(c, "R18.e")
	ruleFullPrecisionNumbers(c, "R18.f")
	ruleStoreIndexSafety(c, "R18.g")
	ruleHandlersAnswer(c, "R18.h")
	// "values come back byte-for-byte": an empty value stays empty, it does not become the null reply
	rulePayloadStores(c, "R18.i")
	ruleIsNilMeansNull(c, "R18.i")
	// what the store is given is what the client sent: parsed payloads are owned copies
	ruleOwnedBytes(c, "R18.j")
	ruleNoWriteThroughView(c, "R18.l")
	ruleRecycledObjectsReset(c, "R18.p")
	ruleReplyShapeFromRequest(c, "R18.k")

	rid = "R18.c"
	c.rule(rid, "the example handlers Set and HSet store the value parameter itself (no transformation) into the record / hash")
	for _, name := range []string{"Set", "HSet"} {
		fn := c.P.Method(pkgExSrv, "Server", name)
		if !c.anchor(rid, fn, "ex/server.(*Server)."+name) {
			continue
		}
		// the `val` parameter: the last string parameter
		var val *ssa.Parameter
		for _, p := range fn.Params {
			if p.Type().String() == "string" {
				val = p
			}
		}
		stored := false
		allInstrs(fn, func(ins ssa.Instruction) {
			switch x := ins.(type) {
			case *ssa.Store:
				if _, f, _, ok := fieldOf(x.Addr); ok && f == "Data" && strip(x.Val) == ssa.Value(val) {
					stored = true
				}
			case *ssa.MapUpdate:
				if strip(x.Value) == ssa.Value(val) {
					stored = true
				}
			case *ssa.Call:
				// hash.Set(field, val, opt): the callee must store that parameter itself
				for i, a := range x.Common().Args {
					if strip(a) == ssa.Value(val) {
						if callee := staticCallee(x.Common()); callee != nil && strings.HasPrefix(fnPkgPath(callee), pkgExSrv) && storesParamUnchanged(callee, i, 0) {
							stored = true
						}
					}
				}
			}
		})
		c.check(stored, rid, "ex."+name, c.P.pos(fn.Pos()), "the value parameter is stored unchanged", "the handler does not store its value parameter unchanged")
	}
	c.assume("each key is used with one data type; expiry is not exercised")
}

func instrIndex(ins ssa.Instruction) int {
	for i, x := range ins.Block().Instrs {
		if x == ins {
			return i
		}
	}
	return -1
}

// reachesCallNamedAny: like reachesCallNamed but follows static calls into any repository package.
func (p *Program) reachesCallNamedAny(fn *ssa.Function, names ...string) bool {
	seen := map[*ssa.Function]bool{}
	st := []*ssa.Function{fn}
	for len(st) > 0 {
		f := st[len(st)-1]
		st = st[:len(st)-1]
		if f == nil || seen[f] || f.Blocks == nil {
			continue
		}
		seen[f] = true
		hit := false
		allInstrs(f, func(ins ssa.Instruction) {
			cc := callCommon(ins)
			if cc == nil {
				return
			}
			if nameIn(calleeName(cc), names...) {
				hit = true
			}
			if cal := staticCallee(cc); cal != nil && inRepo(cal) {
				st = append(st, cal)
			}
		})
		if hit {
			return true
		}
	}
	return false
}

// ruleNoMutationThroughAlias: R18.d — a range/read operation must not change what is stored.
// A helper that writes into its slice parameter in place (reverse, sort, shuffle) may be handed
// a private copy, never a reslice of a container's own field: the "copy" would be the stored
// slice itself, and a read (ZRANGE ... REV) would reorder the set for every later command.
func ruleNoMutationThroughAlias(c *Ctx, rid string) {
	c.rule(rid, "in the example store, a function that stores into the elements of a slice parameter is never called with a (re)slice of a field of a container (List/Set/ZSet/...): in-place helpers only ever see private copies")
	writesParam := func(f *ssa.Function, idx int) bool {
		if f == nil || f.Blocks == nil || idx >= len(f.Params) {
			return false
		}
		par := f.Params[idx]
		found := false
		allInstrs(f, func(ins ssa.Instruction) {
			if st, ok := ins.(*ssa.Store); ok {
				if ia, ok := st.Addr.(*ssa.IndexAddr); ok {
					x := strip(ia.X)
					for d := 0; d < 3; d++ {
						if sl, ok := x.(*ssa.Slice); ok {
							x = strip(sl.X)
						}
					}
					if x == ssa.Value(par) {
						found = true
					}
				}
			}
			if cl, ok := ins.(*ssa.Call); ok {
				if n := calleeName(cl.Common()); strings.HasPrefix(n, "sort.") || strings.HasPrefix(n, "slices.Sort") || strings.HasPrefix(n, "slices.Reverse") {
					for _, a := range cl.Common().Args {
						if strip(a) == ssa.Value(par) {
							found = true
						}
					}
				}
			}
		})
		return found
	}
	var fromField func(v ssa.Value, d int) (string, bool)
	fromField = func(v ssa.Value, d int) (string, bool) {
		if v == nil || d > 6 {
			return "", false
		}
		switch x := v.(type) {
		case *ssa.Slice:
			return fromField(x.X, d+1)
		case *ssa.Phi:
			for _, e := range x.Edges {
				if e == ssa.Value(x) {
					continue
				}
				if f, ok := fromField(e, d+1); ok {
					return f, true
				}
			}
		case *ssa.UnOp:
			if owner, f, _, ok := fieldOf(x); ok && strings.HasPrefix(owner, "server.") {
				return owner + "." + f, true
			}
		case *ssa.ChangeType:
			return fromField(x.X, d+1)
		case *ssa.Call:
			// a helper that hands back (a reslice of) one of its slice parameters: LIMIT applied
			// by mems[offset:][:count]
			if h := staticCallee(x.Common()); h != nil && h.Blocks != nil && inRepo(h) {
				for i := range h.Params {
					if i < len(x.Common().Args) && returnsResliceOf(h, i) {
						if f, ok := fromField(x.Common().Args[i], d+1); ok {
							return f, true
						}
					}
				}
			}
		}
		return "", false
	}
	n, bad := 0, 0
	for _, fn := range c.P.RepoFuncs(pkgExSrv) {
		if !inProd(fn) {
			continue
		}
		allInstrs(fn, func(ins ssa.Instruction) {
			call, ok := ins.(*ssa.Call)
			if !ok {
				return
			}
			callee := staticCallee(call.Common())
			inPlaceStd := false
			if nme := calleeName(call.Common()); strings.HasPrefix(nme, "sort.") || strings.HasPrefix(nme, "slices.Sort") || strings.HasPrefix(nme, "slices.Reverse") {
				inPlaceStd = true
			}
			for i, a := range call.Common().Args {
				if _, isSlice := a.Type().Underlying().(*types.Slice); !isSlice {
					continue
				}
				if !(inPlaceStd || (callee != nil && inRepo(callee) && writesParam(callee, i))) {
					continue
				}
				n++
				if f, ok := fromField(a, 0); ok {
					// mutators of the container itself may sort their own field
					if recv := fn.Signature.Recv(); recv != nil && typeName(recv.Type()) == f[:strings.LastIndex(f, ".")] && isMutatorName(fn.Name()) {
						continue
					}
					bad++
					c.bad(rid, fmt.Sprintf("%s/in-place-on-stored:%s", fnName(fn), f), c.P.instrPos(call), fmt.Sprintf("%s is changed in place through a reslice handed to %s: a read operation reorders what is stored", f, calleeName(call.Common())))
				}
			}
		})
	}
	c.count("in-place-helper-calls", n)
	if bad == 0 {
		c.ok(rid, "no-in-place-on-stored", "", fmt.Sprintf("%d calls of in-place helpers, none on a container's own slice from a read path", n))
	}
}

func isMutatorName(n string) bool {
	for _, p := range []string{"Add", "Set", "Push", "Insert", "Remove", "Rem", "Pop", "Inc", "Del", "Store", "Sort"} {
		if strings.HasPrefix(n, p) {
			return true
		}
	}
	return false
}

// ruleNoStaleFieldSnapshot: R18.e — a container method whose loop changes one of its fields must
// consult the field as it is now: a copy of the slice header taken before the loop does not see
// what earlier iterations stored (SADD k a a adds "a" twice when the membership test scans a
// snapshot taken before the first append).
func ruleNoStaleFieldSnapshot(c *Ctx, rid string) {
	c.rule(rid, "in the example store, inside a loop that stores to a field of the receiver, no value of that field loaded before the loop is used: every iteration reads the field as the previous iterations left it")
	n, bad := 0, 0
	for _, fn := range c.P.RepoFuncs(pkgExSrv) {
		if !inProd(fn) || fn.Signature.Recv() == nil || fn.Blocks == nil {
			continue
		}
		for _, l := range naturalLoops(fn) {
			stored := map[string]bool{}
			for b := range l.Blocks {
				for _, ins := range b.Instrs {
					if st, ok := ins.(*ssa.Store); ok {
						if fa, ok := st.Addr.(*ssa.FieldAddr); ok {
							if owner, f, _, ok := fieldOf(fa); ok {
								if _, isSl := fa.Type().(*types.Pointer).Elem().Underlying().(*types.Slice); isSl {
									stored[owner+"."+f] = true
								}
							}
						}
					}
				}
			}
			if len(stored) == 0 {
				continue
			}
			n++
			c.analysed(fn)
			allInstrs(fn, func(ins ssa.Instruction) {
				ld, ok := ins.(*ssa.UnOp)
				if !ok || l.Blocks[ld.Block()] {
					return
				}
				owner, f, _, ok := fieldOf(ld)
				if !ok || !stored[owner+"."+f] || !ld.Block().Dominates(l.Header) {
					return
				}
				for _, r := range *ld.Referrers() {
					if l.Blocks[r.Block()] {
						if _, isPhi := r.(*ssa.Phi); isPhi {
							continue
						}
						bad++
						c.bad(rid, fmt.Sprintf("%s/stale-snapshot:%s.%s", fnName(fn), owner, f), c.P.instrPos(ld), fmt.Sprintf("%s.%s is copied before a loop that stores to it and the copy is used inside the loop: elements added by earlier iterations are not seen", owner, f))
						return
					}
				}
			})
		}
	}
	c.count("field-storing-loops", n)
	if bad == 0 {
		c.ok(rid, "no-stale-snapshot", "", fmt.Sprintf("%d loops store to a slice field of their receiver; none uses a copy of it taken before the loop", n))
	}
}

// ruleFullPrecisionNumbers: R18.f — sorted-set scores and INCRBYFLOAT operands come back as
// stored only if they are decoded at full precision on the way in.
func ruleFullPrecisionNumbers(c *Ctx, rid string) {
	c.rule(rid, "every strconv.ParseFloat call in the production packages (framework argument decoding and example store) has the constant bit size 64, every strconv.FormatFloat/AppendFloat bit size 64: a score is not rounded to float32 between the client and the store or back")
	n, bad := 0, 0
	for _, fn := range c.P.RepoFuncs(modPath) {
		if !inProd(fn) {
			continue
		}
		allInstrs(fn, func(ins ssa.Instruction) {
			cc := callCommon(ins)
			if cc == nil {
				return
			}
			idx := -1
			switch calleeName(cc) {
			case "strconv.ParseFloat":
				idx = 1
			case "strconv.FormatFloat":
				idx = 3
			case "strconv.AppendFloat":
				idx = 4
			}
			if idx < 0 || idx >= len(cc.Args) {
				return
			}
			n++
			c.analysed(fn)
			if k, ok := constInt(cc.Args[idx]); !ok || k != 64 {
				bad++
				c.bad(rid, fmt.Sprintf("%s/%s-bitsize", fnName(fn), calleeName(cc)), c.P.instrPos(ins), "a floating-point value is converted with a bit size other than 64: scores such as 0.1 or 16777217 do not come back as stored")
			}
		})
	}
	c.count("float-conversions", n)
	c.floor("float-conversions", 1)
	if bad == 0 {
		c.ok(rid, "float64-everywhere", "", fmt.Sprintf("%d float conversions, all 64-bit", n))
	}
}

// ruleStoreIndexSafety: R18.g / R07 — the example store answers every supported command: no
// index or slice expression of its handlers and containers can be out of range, whatever
// offsets, counts and limits the client sends (a panic is swallowed by the connection barrier:
// the request gets no reply at all and the connection is dropped).
func ruleStoreIndexSafety(c *Ctx, rid string) {
	c.rule(rid, "A8 over the bundled example store (examples/go-redisd/server): every index and slice expression is proven in range by the inequality prover from the dominating tests, for all client-supplied offsets, counts and limits")
	var scope []*ssa.Function
	for _, f := range c.P.RepoFuncs(pkgExSrv) {
		if inProd(f) && f.Blocks != nil && f.Synthetic == "" {
			scope = append(scope, f)
		}
	}
	sort.Slice(scope, func(i, j int) bool { return c.P.key(scope[i]) < c.P.key(scope[j]) })
	rulePanicSitesIn(c, rid, scope, "store-index-sites", 3)
}

// storesParamUnchanged: fn keeps its i-th parameter, as it is, in a field or a map (directly or
// through another function of the example store).
func storesParamUnchanged(fn *ssa.Function, i int, depth int) bool {
	if fn == nil || fn.Blocks == nil || i >= len(fn.Params) || depth > 2 {
		return false
	}
	par := fn.Params[i]
	found := false
	allInstrs(fn, func(ins ssa.Instruction) {
		switch x := ins.(type) {
		case *ssa.Store:
			if _, _, _, ok := fieldOf(x.Addr); ok && strip(x.Val) == ssa.Value(par) {
				found = true
			}
		case *ssa.MapUpdate:
			if strip(x.Value) == ssa.Value(par) {
				found = true
			}
		case *ssa.Call:
			for k, a := range x.Common().Args {
				if strip(a) == ssa.Value(par) {
					if callee := staticCallee(x.Common()); callee != nil && strings.HasPrefix(fnPkgPath(callee), pkgExSrv) && storesParamUnchanged(callee, k, depth+1) {
						found = true
					}
				}
			}
		}
	})
	return found
}

// returnsResliceOf: some return of h yields its i-th parameter or a reslice of it (through phis).
func returnsResliceOf(h *ssa.Function, i int) bool {
	if i >= len(h.Params) {
		return false
	}
	if _, isSlice := h.Params[i].Type().Underlying().(*types.Slice); !isSlice {
		return false
	}
	var derives func(v ssa.Value, d int, seen map[ssa.Value]bool) bool
	derives = func(v ssa.Value, d int, seen map[ssa.Value]bool) bool {
		if v == nil || d > 6 || seen[v] {
			return false
		}
		seen[v] = true
		switch x := v.(type) {
		case *ssa.Parameter:
			return x == h.Params[i]
		case *ssa.Slice:
			return derives(x.X, d+1, seen)
		case *ssa.Phi:
			for _, e := range x.Edges {
				if derives(e, d+1, seen) {
					return true
				}
			}
		}
		return false
	}
	for _, r := range returnsOf(h) {
		if len(r.Results) >= 1 && derives(r.Results[0], 0, map[ssa.Value]bool{}) {
			return true
		}
	}
	return false
}

// ruleHandlersAnswer: a handler of the bundled store never returns (nil, nil). The framework
// derives commands from handler calls and uses their results (INCR reads what Get returned): a
// missing message with a nil error is dereferenced there, the panic is swallowed by the
// connection barrier, and the request — with everything pipelined behind it — gets no reply.
func ruleHandlersAnswer(c *Ctx, rid string) {
	c.rule(rid, "every return of a command-handler method of the example server (exported method with the connection as first parameter returning (*redis.Message, error)) carries a message that is not nil on that path, or a non-nil error")
	n, bad := 0, 0
	for _, fn := range c.P.RepoFuncs(pkgExSrv) {
		if fn.Signature.Recv() == nil || fn.Object() == nil || !fn.Object().Exported() || fn.Blocks == nil {
			continue
		}
		res := fn.Signature.Results()
		if res.Len() != 2 || !strings.HasSuffix(res.At(0).Type().String(), ".Message") || !isErrorType(res.At(1).Type()) {
			continue
		}
		if fn.Signature.Params().Len() < 1 || !strings.HasSuffix(fn.Signature.Params().At(0).Type().String(), "redis.Conn") {
			continue
		}
		n++
		c.analysed(fn)
		for i, r := range returnsOf(fn) {
			if len(r.Results) != 2 || !isNilConst(retOperand(r, 1)) {
				if !mayBeNilError(retOperand(r, 1)) {
					continue
				}
			}
			if w := mayBeNilMessage(retOperand(r, 0), r.Block(), 0, map[ssa.Value]bool{}); w != "" {
				bad++
				c.bad(rid, fmt.Sprintf("ex.%s/return#%d", fn.Name(), i), c.P.instrPos(r), "the handler can return no message and no error ("+w+"): commands the framework derives from this handler dereference the missing message, and the request is never answered")
			}
		}
	}
	c.count("example-handler-methods", n)
	c.floor("example-handler-methods", 24)
	if bad == 0 {
		c.ok(rid, "handlers-always-answer", "", fmt.Sprintf("%d handler methods; none can return (nil, nil)", n))
	}
}

// mayBeNilError: the error operand is nil on this return (constant nil).
func mayBeNilError(v ssa.Value) bool { return isNilConst(v) }

// mayBeNilMessage: v (a *Message returned together with a nil error) can be nil: the constant
// nil, or a phi / local variable one of whose sources is the constant nil and is not excluded by
// the facts of its edge. Results of calls are taken as non-nil when they are constructors
// (New*Message) and followed into repository functions otherwise.
func mayBeNilMessage(v ssa.Value, at *ssa.BasicBlock, d int, seen map[ssa.Value]bool) string {
	if v == nil || d > 5 || seen[v] {
		return ""
	}
	seen[v] = true
	if isNilConst(v) {
		return "the message is the constant nil"
	}
	switch x := v.(type) {
	case *ssa.Phi:
		for i, e := range x.Edges {
			if isNilConst(e) {
				return "the message variable keeps its zero value on the path through " + x.Block().Preds[i].String()
			}
			if w := mayBeNilMessage(e, x.Block().Preds[i], d+1, seen); w != "" {
				return w
			}
		}
	case *ssa.UnOp:
		if al, ok := x.X.(*ssa.Alloc); ok {
			stores := allocStores(al)
			if len(stores) == 0 {
				return "the message variable is never assigned"
			}
			for _, st := range stores {
				if isNilConst(st.Val) {
					return "the message variable is assigned nil"
				}
			}
		}
	case *ssa.Extract:
		if call, ok := x.Tuple.(*ssa.Call); ok && x.Index == 0 {
			if h := staticCallee(call.Common()); h != nil && h.Blocks != nil && fnPkgPath(h) == pkgExSrv {
				// a helper of the store returning (msg, err): its (nil, nil) returns, unless the
				// caller is on the err != nil side
				errKnownNonNil := false
				for _, a := range factsAt(at) {
					if a.Kind == "nil" && !a.Pos {
						if e2, ok := a.X.(*ssa.Extract); ok && e2.Tuple == ssa.Value(call) {
							errKnownNonNil = true
						}
					}
				}
				if errKnownNonNil {
					return ""
				}
				for _, r := range returnsOf(h) {
					if len(r.Results) == 2 && isNilConst(retOperand(r, 1)) {
						if w := mayBeNilMessage(retOperand(r, 0), r.Block(), d+1, seen); w != "" {
							return w + " in " + fnName(h)
						}
					}
				}
			}
		}
	}
	return ""
}

// ruleReplyShapeFromRequest: which kind of reply a handler builds (a bulk string or an array, a
// value or a count) is decided by the request — "LPOP key" answers a bulk string, "LPOP key 2" an
// array, however many elements the list still has. A test of an integer parameter against a
// constant that selects between reply constructors must therefore see the parameter as the
// client sent it, not a value into which stored data (a length the parameter was clamped to) has
// been merged.
func ruleReplyShapeFromRequest(c *Ctx, rid string) {
	c.rule(rid, "example store: a comparison of an integer with a constant that decides between two different reply constructors (NewBulkMessage / NewArrayMessage / NewNilMessage / NewIntegerMessage ...) has, where the integer derives from a parameter of the handler, exactly that parameter as operand — not a phi that merges the parameter with a value computed from stored data")
	replyCtor := func(b *ssa.BasicBlock) string {
		seen := map[*ssa.BasicBlock]bool{}
		var found []string
		var walk func(b *ssa.BasicBlock, d int)
		walk = func(b *ssa.BasicBlock, d int) {
			if b == nil || seen[b] || d > 4 {
				return
			}
			seen[b] = true
			for _, ins := range b.Instrs {
				if cc := callCommon(ins); cc != nil {
					n := calleeName(cc)
					if i := strings.LastIndex(n, ".New"); i >= 0 && strings.HasSuffix(n, "Message") && strings.Contains(n, "redis") {
						found = append(found, n[i+1:])
						return
					}
				}
			}
			for _, s := range b.Succs {
				walk(s, d+1)
			}
		}
		walk(b, 0)
		sort.Strings(found)
		return strings.Join(found, "|")
	}
	n := 0
	for _, fn := range c.P.RepoFuncs(pkgExSrv) {
		allInstrs(fn, func(ins ssa.Instruction) {
			iff, ok := ins.(*ssa.If)
			if !ok {
				return
			}
			cmp, ok := iff.Cond.(*ssa.BinOp)
			if !ok || (cmp.Op != token.EQL && cmp.Op != token.NEQ) {
				return
			}
			var op ssa.Value
			if _, isC := constInt(cmp.Y); isC {
				op = cmp.X
			} else if _, isC := constInt(cmp.X); isC {
				op = cmp.Y
			} else {
				return
			}
			if !isIntType(op.Type()) {
				return
			}
			b := iff.Block()
			if len(b.Succs) != 2 {
				return
			}
			a0, a1 := replyCtor(b.Succs[0]), replyCtor(b.Succs[1])
			if a0 == "" || a1 == "" || a0 == a1 {
				return
			}
			// does the operand derive from an integer parameter?
			var params []*ssa.Parameter
			pure := true
			seen := map[ssa.Value]bool{}
			var walk func(v ssa.Value, d int)
			walk = func(v ssa.Value, d int) {
				if v == nil || seen[v] || d > 6 {
					return
				}
				seen[v] = true
				switch x := v.(type) {
				case *ssa.Parameter:
					params = append(params, x)
				case *ssa.Phi:
					for _, e := range x.Edges {
						walk(e, d+1)
					}
				case *ssa.Const:
				default:
					pure = false
				}
			}
			walk(op, 0)
			if len(params) == 0 {
				return
			}
			n++
			c.analysed(fn)
			key := fmt.Sprintf("%s/reply-shape#%d", fnName(fn), n)
			_, direct := op.(*ssa.Parameter)
			if direct {
				c.ok(rid, key, c.P.instrPos(iff), "the reply shape ("+a0+" / "+a1+") is selected by the parameter "+op.Name()+" as received")
				return
			}
			why := "the parameter reaches the test merged with other values"
			if !pure {
				why = "the parameter reaches the test merged with a value computed from stored data"
			}
			c.bad(rid, key, c.P.instrPos(iff), "the reply shape ("+a0+" / "+a1+") is selected by a value that is no longer the client's "+params[0].Name()+": "+why+" — the same request is answered in a different shape depending on what is stored")
		})
	}
	c.count("reply-shape-tests-on-parameters", n)
	c.floor("reply-shape-tests-on-parameters", 1)
}
