// Package main is the static checker for the go-redis properties (see /verif/DESIGN.md).
//
// core.go: program loading, obligation bookkeeping, evidence and replay files.
package main

import (
	"encoding/json"
	"fmt"
	"go/ast"
	"go/parser"
	"go/token"
	"go/types"
	"os"
	"path/filepath"
	"sort"
	"strings"
	"time"

	"golang.org/x/tools/go/callgraph"
	"golang.org/x/tools/go/callgraph/cha"
	"golang.org/x/tools/go/callgraph/vta"
	"golang.org/x/tools/go/packages"
	"golang.org/x/tools/go/ssa"
	"golang.org/x/tools/go/ssa/ssautil"
)

const modPath = "github.com/cybergarage/go-redis"

// Package paths of the repository used by the rules.
const (
	pkgRedis  = modPath + "/redis"
	pkgProto  = modPath + "/redis/proto"
	pkgAuth   = modPath + "/redis/auth"
	pkgGlob   = modPath + "/redis/glob"
	pkgExSrv  = modPath + "/examples/go-redisd/server"
	pkgExMain = modPath + "/examples/go-redisd"
	pkgTest   = modPath + "/redistest"
)

// Program is the loaded, type-checked repository in SSA form.
type Program struct {
	Repo          string
	Fset          *token.FileSet
	Pkgs          []*packages.Package // all repository packages (module-local)
	AllPkgs       map[string]*packages.Package
	SSA           *ssa.Program
	SSAPkgs       map[string]*ssa.Package
	cg            *callgraph.Graph
	allFuncs      map[*ssa.Function]bool
	GOARCH        string
	execNames     map[*ssa.Function]string
	dispatcherFns map[*ssa.Function]bool
}

// loadProgram loads ./... of repo and builds SSA for the whole program.
func loadProgram(repo string, goarch string) (*Program, error) {
	env := append(os.Environ(), "GOFLAGS=-mod=mod", "GOPROXY=off", "GOSUMDB=off", "GOTOOLCHAIN=local", "GOWORK=off")
	if goarch != "" {
		env = append(env, "GOARCH="+goarch)
	}
	cfg := &packages.Config{
		Mode:  packages.LoadAllSyntax,
		Dir:   repo,
		Tests: false,
		Env:   env,
	}
	pkgs, err := packages.Load(cfg, "./...")
	if err != nil {
		return nil, fmt.Errorf("load: %w", err)
	}
	// one normalisation (normalize.go): a request-loop body outlined into a helper is inlined back
	normaliseNote = ""
	rangeNote = ""
	{
		byPath := map[string]*packages.Package{}
		packages.Visit(pkgs, nil, func(pk *packages.Package) { byPath[pk.PkgPath] = pk })
		// range-over-int statements are rewritten to three-clause loops (normalize_range.go)
		var rangeSites map[string]map[int]bool
		if sites := rangeIntSites(byPath); len(sites) > 0 {
			rangeSites = sites
			nrw := 0
			cfgR := *cfg
			cfgR.ParseFile = func(fset *token.FileSet, filename string, src []byte) (*ast.File, error) {
				f, err := parser.ParseFile(fset, filename, src, parser.AllErrors|parser.ParseComments)
				if err != nil || sites[filename] == nil {
					return f, err
				}
				nrw += rewriteRangeInt(fset, f, sites[filename])
				return f, nil
			}
			pkgsR, errR := packages.Load(&cfgR, "./...")
			nerr := 0
			if errR == nil {
				packages.Visit(pkgsR, nil, func(pk *packages.Package) { nerr += len(pk.Errors) })
			}
			if errR == nil && nerr == 0 && nrw > 0 {
				pkgs = pkgsR
				cfg = &cfgR
				rangeNote = fmt.Sprintf("%d range-over-int statements were rewritten to three-clause loops before the analysis (normalize_range.go)", nrw)
				byPath = map[string]*packages.Package{}
				packages.Visit(pkgs, nil, func(pk *packages.Package) { byPath[pk.PkgPath] = pk })
			} else if nrw > 0 || nerr > 0 {
				rangeNote = fmt.Sprintf("range-over-int statements could not be rewritten (%d errors): analysed as written", nerr)
			}
			debugNormalise("%s", rangeNote)
		}
		if plan := findOutlinedLoopBody(byPath); plan != nil {
			if plan.Why != "" {
				normaliseNote = plan.Why
			} else {
				failed := ""
				cfg2 := *cfg
				inner := normalisingParseFile(plan, &failed)
				cfg2.ParseFile = func(fset *token.FileSet, filename string, src []byte) (*ast.File, error) {
					f, err := inner(fset, filename, src)
					if err == nil && f != nil && rangeSites[filename] != nil && rangeNote != "" {
						rewriteRangeInt(fset, f, rangeSites[filename])
					}
					return f, err
				}
				pkgs2, err2 := packages.Load(&cfg2, "./...")
				nerr := 0
				if err2 == nil {
					packages.Visit(pkgs2, nil, func(pk *packages.Package) { nerr += len(pk.Errors) })
				}
				switch {
				case err2 != nil || nerr > 0 || failed != "":
					normaliseNote = fmt.Sprintf("the loop body helper %s could not be inlined (%s; %d errors): analysed as written", plan.Callee, failed, nerr)
				default:
					pkgs = pkgs2
					normaliseNote = fmt.Sprintf("the request-loop body helper %s was inlined into %s before the analysis (normalize.go)", plan.Callee, plan.Caller)
				}
			}
			debugNormalise("%s", normaliseNote)
		}
	}
	p := &Program{Repo: repo, AllPkgs: map[string]*packages.Package{}, SSAPkgs: map[string]*ssa.Package{}, GOARCH: goarch}
	var errs []string
	packages.Visit(pkgs, nil, func(pk *packages.Package) {
		p.AllPkgs[pk.PkgPath] = pk
		for _, e := range pk.Errors {
			errs = append(errs, e.Error())
		}
	})
	if len(errs) > 0 {
		return nil, fmt.Errorf("type/load errors (nothing can be decided about a tree that does not type-check): %s", strings.Join(errs, "; "))
	}
	for _, pk := range pkgs {
		if strings.HasPrefix(pk.PkgPath, modPath) {
			p.Pkgs = append(p.Pkgs, pk)
		}
	}
	if len(p.Pkgs) < 7 {
		return nil, fmt.Errorf("only %d repository packages loaded from %s (expected >= 7)", len(p.Pkgs), repo)
	}
	if len(pkgs) > 0 {
		p.Fset = pkgs[0].Fset
	}
	prog, _ := ssautil.AllPackages(pkgs, ssa.InstantiateGenerics)
	prog.Build()
	p.SSA = prog
	for _, sp := range prog.AllPackages() {
		p.SSAPkgs[sp.Pkg.Path()] = sp
	}
	for _, need := range []string{pkgRedis, pkgProto, pkgAuth, pkgGlob, pkgExSrv} {
		if p.SSAPkgs[need] == nil {
			return nil, fmt.Errorf("package %s not loaded", need)
		}
	}
	theProgram = p
	computeFieldRoles(p)
	computeCursorParams(p)
	computePassThroughWriters(p)
	return p, nil
}

// CallGraph returns the VTA call graph (seeded with CHA), built on first use.
func (p *Program) CallGraph() *callgraph.Graph {
	if p.cg == nil {
		p.allFuncs = ssautil.AllFunctions(p.SSA)
		p.cg = vta.CallGraph(p.allFuncs, cha.CallGraph(p.SSA))
	}
	return p.cg
}

// AllFunctions returns every function of the program (including closures).
func (p *Program) AllFunctions() map[*ssa.Function]bool {
	if p.allFuncs == nil {
		p.allFuncs = ssautil.AllFunctions(p.SSA)
	}
	return p.allFuncs
}

// inRepo reports whether fn is located in a repository package.
func inRepo(fn *ssa.Function) bool {
	pk := fnPkgPath(fn)
	return strings.HasPrefix(pk, modPath)
}

// inProd reports whether fn is in a production package of the repository (not redistest).
func inProd(fn *ssa.Function) bool {
	pk := fnPkgPath(fn)
	return pkgHasPrefix(pk, modPath) && !pkgHasPrefix(pk, pkgTest)
}

func inFramework(fn *ssa.Function) bool {
	return pkgHasPrefix(fnPkgPath(fn), pkgRedis)
}

// pkgHasPrefix: path is the package prefix itself or below it (path-component-wise).
func pkgHasPrefix(path, prefix string) bool {
	return path == prefix || strings.HasPrefix(path, prefix+"/")
}

func fnPkgPath(fn *ssa.Function) string {
	for fn != nil && fn.Parent() != nil {
		fn = fn.Parent()
	}
	if fn == nil {
		return ""
	}
	if fn.Pkg != nil {
		return fn.Pkg.Pkg.Path()
	}
	if o := fn.Object(); o != nil && o.Pkg() != nil {
		return o.Pkg().Path()
	}
	if fn.Origin() != nil {
		return fnPkgPath(fn.Origin())
	}
	return ""
}

// RepoFuncs returns all source functions (with bodies) located in packages whose path has the prefix.
func (p *Program) RepoFuncs(prefix string) []*ssa.Function {
	var out []*ssa.Function
	for fn := range p.AllFunctions() {
		if fn.Blocks == nil || fn.Synthetic != "" {
			continue
		}
		if pkgHasPrefix(fnPkgPath(fn), prefix) {
			out = append(out, fn)
		}
	}
	sort.Slice(out, func(i, j int) bool { return fnName(out[i]) < fnName(out[j]) })
	return out
}

// fnName renders a stable, package-short name: redis.(*Server).receive, redis.(*Server).receive$1.
func fnName(fn *ssa.Function) string {
	if fn == nil {
		return "<nil>"
	}
	s := fn.String()
	s = strings.ReplaceAll(s, modPath+"/examples/go-redisd/", "ex/")
	s = strings.ReplaceAll(s, modPath+"/redis/", "")
	s = strings.ReplaceAll(s, modPath+"/", "")
	return s
}

// key renders a function for use in obligation keys: executor closures are named after the
// command they are registered under (stable when executors are added or reordered); closures
// nested in them get a $n suffix relative to the executor.
func (p *Program) key(fn *ssa.Function) string {
	if fn == nil {
		return "<nil>"
	}
	if p.execNames == nil {
		p.execNames = map[*ssa.Function]string{}
		list, _ := p.executors()
		for _, e := range list {
			if _, dup := p.execNames[e.Fn]; !dup {
				p.execNames[e.Fn] = "executor:" + e.Name
			}
		}
	}
	if n, ok := p.execNames[fn]; ok {
		return n
	}
	if par := fn.Parent(); par != nil {
		if _, ok := p.execNames[par]; ok {
			for i, a := range par.AnonFuncs {
				if a == fn {
					return fmt.Sprintf("%s$%d", p.execNames[par], i+1)
				}
			}
		}
	}
	return fnName(fn)
}

// Func finds a function by its short name (as rendered by fnName); nil when absent.
func (p *Program) Func(name string) *ssa.Function {
	for fn := range p.AllFunctions() {
		if fnName(fn) == name {
			return fn
		}
	}
	return nil
}

// Method finds the method of the named type in package path.
func (p *Program) Method(pkg, typ, name string) *ssa.Function {
	sp := p.SSAPkgs[pkg]
	if sp == nil {
		return nil
	}
	t := sp.Type(typ)
	if t == nil {
		return nil
	}
	for _, recv := range []types.Type{types.NewPointer(t.Type()), t.Type()} {
		ms := p.SSA.MethodSets.MethodSet(recv)
		if sel := ms.Lookup(sp.Pkg, name); sel != nil {
			if f := p.SSA.MethodValue(sel); f != nil && f.Synthetic == "" {
				return f
			}
		}
	}
	return nil
}

// PkgFunc finds a package-level function.
func (p *Program) PkgFunc(pkg, name string) *ssa.Function {
	sp := p.SSAPkgs[pkg]
	if sp == nil {
		return nil
	}
	return sp.Func(name)
}

func (p *Program) pos(pos token.Pos) string {
	if !pos.IsValid() {
		return ""
	}
	ps := p.Fset.Position(pos)
	rel, err := filepath.Rel(p.Repo, ps.Filename)
	if err != nil || strings.HasPrefix(rel, "..") {
		rel = ps.Filename
	}
	return fmt.Sprintf("%s:%d", rel, ps.Line)
}

// instrPos gives the best position available for an instruction.
func (p *Program) instrPos(ins ssa.Instruction) string {
	if ins == nil {
		return ""
	}
	if ins.Pos().IsValid() {
		return p.pos(ins.Pos())
	}
	// fall back to the nearest positioned instruction of the block, then the function
	if b := ins.Block(); b != nil {
		for _, i := range b.Instrs {
			if i.Pos().IsValid() {
				return p.pos(i.Pos())
			}
		}
		if b.Parent() != nil {
			return p.pos(b.Parent().Pos())
		}
	}
	return ""
}

// ---------------------------------------------------------------------------------------
// Obligations

const (
	stDischarged = "discharged"
	stViolated   = "violated"
	stUndecided  = "undecided"
	stKnown      = "known"
)

// Obligation is one decided (or undecidable) instance of a rule.
type Obligation struct {
	Rule      string   `json:"rule"`
	Construct string   `json:"construct"`
	Status    string   `json:"status"`
	Pos       string   `json:"pos,omitempty"`
	Detail    string   `json:"detail,omitempty"`
	Witness   []string `json:"witness,omitempty"`
}

// Ctx collects what one property run decided.
type Ctx struct {
	P        *Program
	Prop     string
	Tier     string
	Obs      []Obligation
	Counts   map[string]int
	Floors   map[string]int
	Rules    map[string]string // rule id -> text
	Notes    []string
	Assume   []string
	FuncsSet map[string]bool
	seen     map[string]bool
}

func newCtx(p *Program, prop, tier string) *Ctx {
	c := &Ctx{P: p, Prop: prop, Tier: tier, Counts: map[string]int{}, Floors: map[string]int{},
		Rules: map[string]string{}, FuncsSet: map[string]bool{}, seen: map[string]bool{}}
	// what the loader rewrote before the analysis: the verdicts are about the rewritten program
	if normaliseNote != "" {
		c.note("loader: %s", normaliseNote)
	}
	if rangeNote != "" {
		c.note("loader: %s", rangeNote)
	}
	return c
}

func (c *Ctx) rule(id, text string) {
	if old, ok := c.Rules[id]; ok && old != text && !strings.Contains(old, text) {
		text = old + " ‖ " + text
	}
	c.Rules[id] = text
}

func (c *Ctx) add(o Obligation) {
	key := o.Rule + "|" + o.Construct
	if c.seen[key] {
		// keep the worst status for a construct reported twice
		for i := range c.Obs {
			if c.Obs[i].Rule == o.Rule && c.Obs[i].Construct == o.Construct {
				if statusRank(o.Status) > statusRank(c.Obs[i].Status) {
					c.Obs[i] = o
				}
				return
			}
		}
	}
	c.seen[key] = true
	c.Obs = append(c.Obs, o)
}

func statusRank(s string) int {
	switch s {
	case stViolated:
		return 3
	case stUndecided:
		return 2
	case stKnown:
		return 1
	}
	return 0
}

func (c *Ctx) ok(rule, construct, pos, detail string) {
	c.add(Obligation{Rule: rule, Construct: construct, Status: stDischarged, Pos: pos, Detail: detail})
}

func (c *Ctx) bad(rule, construct, pos, detail string, witness ...string) {
	c.add(Obligation{Rule: rule, Construct: construct, Status: stViolated, Pos: pos, Detail: detail, Witness: witness})
}

func (c *Ctx) undecided(rule, construct, pos, detail string, witness ...string) {
	c.add(Obligation{Rule: rule, Construct: construct, Status: stUndecided, Pos: pos, Detail: detail, Witness: witness})
}

// check records discharged when cond holds, violated otherwise.
func (c *Ctx) check(cond bool, rule, construct, pos, okDetail, badDetail string) bool {
	if cond {
		c.ok(rule, construct, pos, okDetail)
	} else {
		c.bad(rule, construct, pos, badDetail)
	}
	return cond
}

func (c *Ctx) count(name string, n int)  { c.Counts[name] += n }
func (c *Ctx) floor(name string, n int)  { c.Floors[name] = n }
func (c *Ctx) note(f string, a ...any)   { c.Notes = append(c.Notes, fmt.Sprintf(f, a...)) }
func (c *Ctx) assume(s string)           { c.Assume = append(c.Assume, s) }
func (c *Ctx) analysed(fn *ssa.Function) { c.FuncsSet[fnName(fn)] = true }

// anchor resolves a function the rule needs; an unresolved anchor is an undecided obligation.
func (c *Ctx) anchor(rule string, fn *ssa.Function, what string) bool {
	if fn == nil || fn.Blocks == nil {
		c.undecided(rule, "anchor/"+what, "", "anchor function not found in the program: "+what+" (the rule cannot locate the code it decides)")
		return false
	}
	c.analysed(fn)
	return true
}

// ---------------------------------------------------------------------------------------
// Known findings

type knownFinding struct {
	Property  string `json:"property"`
	Rule      string `json:"rule"`
	Construct string `json:"construct"`
	What      string `json:"what"`
	Status    string `json:"status"` // "known" or "fixed"
	Commit    string `json:"commit,omitempty"`
}

type knownFile struct {
	Findings []knownFinding `json:"findings"`
}

func loadKnown(path string) (*knownFile, error) {
	kf := &knownFile{}
	b, err := os.ReadFile(path)
	if err != nil {
		if os.IsNotExist(err) {
			return kf, nil
		}
		return nil, err
	}
	if err := json.Unmarshal(b, kf); err != nil {
		return nil, err
	}
	return kf, nil
}

// ---------------------------------------------------------------------------------------
// Evidence

type evidence struct {
	PropertyID  string         `json:"property_id"`
	Tier        string         `json:"tier"`
	Seed        int            `json:"seed"`
	Level       string         `json:"level"`
	Coverage    map[string]any `json:"coverage"`
	Assumptions []string       `json:"assumptions"`
	WallS       float64        `json:"wall_s"`
	Violations  int            `json:"violations"`
}

type propInfo struct {
	ID          string
	Level       string
	Explanation string
	Run         func(c *Ctx)
}

func writeJSON(path string, v any) error {
	if err := os.MkdirAll(filepath.Dir(path), 0o755); err != nil {
		return err
	}
	b, err := json.MarshalIndent(v, "", " ")
	if err != nil {
		return err
	}
	return os.WriteFile(path, append(b, '\n'), 0o644)
}

func sortedKeys[V any](m map[string]V) []string {
	ks := make([]string, 0, len(m))
	for k := range m {
		ks = append(ks, k)
	}
	sort.Strings(ks)
	return ks
}

var startTime = time.Now()

// rangeNote: what normalize_range.go did in this load (reported in the evidence notes).
var rangeNote string
