package main

// fieldroles.go: the rules name a handful of unexported fields (the registry map, the payload
// bytes, the argument cursor, the executor table, ...). A maintainer may rename any of them
// without changing behaviour, so the fields are identified by what they are — their type, or
// the exported accessor that returns them — and fieldOf reports them under the canonical names
// the rules use. When a role cannot be derived, the canonical name is expected literally.

import (
	"go/token"
	"go/types"
	"strings"

	"golang.org/x/tools/go/ssa"
)

// canonFieldNames: owner type name -> actual field name -> canonical name used by the rules.
var canonFieldNames = map[string]map[string]string{}

func canonFieldName(owner, name string) string {
	if m := canonFieldNames[owner]; m != nil {
		if c, ok := m[name]; ok {
			return c
		}
	}
	return name
}

func setCanon(owner, actual, canon string) {
	if actual == "" || actual == canon {
		return
	}
	if canonFieldNames[owner] == nil {
		canonFieldNames[owner] = map[string]string{}
	}
	canonFieldNames[owner][actual] = canon
}

func structOf(p *Program, pkg, typ string) (*types.Struct, *types.Named) {
	sp := p.SSAPkgs[pkg]
	if sp == nil || sp.Type(typ) == nil {
		return nil, nil
	}
	n, _ := sp.Type(typ).Type().(*types.Named)
	if n == nil {
		return nil, nil
	}
	st, _ := n.Underlying().(*types.Struct)
	return st, n
}

// theField: the name of the single field of st accepted by pred ("" if none or several).
func theField(st *types.Struct, pred func(f *types.Var) bool) string {
	name, n := "", 0
	if st == nil {
		return ""
	}
	for i := 0; i < st.NumFields(); i++ {
		if pred(st.Field(i)) {
			name = st.Field(i).Name()
			n++
		}
	}
	if n != 1 {
		return ""
	}
	return name
}

// returnedField: the field of the receiver that method m returns as result idx on its returns.
func returnedField(m *ssa.Function, idx int) string {
	if m == nil || m.Blocks == nil || len(m.Params) == 0 {
		return ""
	}
	name := ""
	for _, r := range returnsOf(m) {
		if idx >= len(r.Results) {
			return ""
		}
		v := r.Results[idx]
		// look through phis (`return x, true` on several paths) and comparisons are not fields
		var pick func(v ssa.Value, d int) string
		pick = func(v ssa.Value, d int) string {
			if d > 3 {
				return ""
			}
			switch x := v.(type) {
			case *ssa.UnOp:
				if x.Op == token.MUL {
					if fa, ok := x.X.(*ssa.FieldAddr); ok && fa.X == ssa.Value(m.Params[0]) {
						return derefStruct(fa.X.Type()).Field(fa.Field).Name()
					}
				}
			case *ssa.Phi:
				for _, e := range x.Edges {
					if n := pick(e, d+1); n != "" {
						return n
					}
				}
			}
			return ""
		}
		if n := pick(v, 0); n != "" {
			if name != "" && name != n {
				return ""
			}
			name = n
		}
	}
	return name
}

func computeFieldRoles(p *Program) {
	canonFieldNames = map[string]map[string]string{}
	isNamed := func(t types.Type, suffix string) bool { return strings.HasSuffix(t.String(), suffix) }
	// ConnManager.m: the map whose values are *Conn
	if st, _ := structOf(p, pkgRedis, "ConnManager"); st != nil {
		setCanon("redis.ConnManager", theField(st, func(f *types.Var) bool {
			m, ok := f.Type().Underlying().(*types.Map)
			return ok && isNamed(m.Elem(), "redis.Conn")
		}), "m")
	}
	// Message.bytes: the []byte field
	if st, _ := structOf(p, pkgProto, "Message"); st != nil {
		setCanon("proto.Message", theField(st, func(f *types.Var) bool { return isByteSlice(f.Type()) }), "bytes")
	}
	// Array.index / Array.msgs
	if st, _ := structOf(p, pkgProto, "Array"); st != nil {
		setCanon("proto.Array", theField(st, func(f *types.Var) bool {
			b, ok := f.Type().Underlying().(*types.Basic)
			return ok && b.Info()&types.IsInteger != 0
		}), "index")
		setCanon("proto.Array", theField(st, func(f *types.Var) bool {
			s, ok := f.Type().Underlying().(*types.Slice)
			return ok && isNamed(s.Elem(), "proto.Message")
		}), "msgs")
	}
	// Config.params: map[string]string
	if st, _ := structOf(p, pkgRedis, "Config"); st != nil {
		setCanon("redis.Config", theField(st, func(f *types.Var) bool {
			m, ok := f.Type().Underlying().(*types.Map)
			return ok && m.Key().String() == "string" && m.Elem().String() == "string"
		}), "params")
	}
	// AuthManager.authenticators: []Authenticator
	if st, _ := structOf(p, pkgAuth, "AuthManager"); st != nil {
		setCanon("auth.AuthManager", theField(st, func(f *types.Var) bool {
			s, ok := f.Type().Underlying().(*types.Slice)
			return ok && isNamed(s.Elem(), "auth.Authenticator")
		}), "authenticators")
	}
	// Server: executor table, listeners, TLS configuration
	if st, _ := structOf(p, pkgRedis, "Server"); st != nil {
		setCanon("redis.Server", theField(st, func(f *types.Var) bool {
			if isNamed(f.Type(), "redis.Executors") {
				return true
			}
			m, ok := f.Type().Underlying().(*types.Map)
			return ok && isNamed(m.Elem(), "redis.Executor")
		}), "commandExecutors")
		setCanon("redis.Server", theField(st, func(f *types.Var) bool { return f.Type().String() == "*crypto/tls.Config" }), "tlsConfig")
		var ls []string
		for i := 0; i < st.NumFields(); i++ {
			if st.Field(i).Type().String() == "net.Listener" {
				ls = append(ls, st.Field(i).Name())
			}
		}
		if len(ls) == 2 {
			plain, secure := ls[0], ls[1]
			l0 := strings.ToLower(ls[0])
			if strings.Contains(l0, "tls") || strings.Contains(l0, "secure") || strings.Contains(l0, "ssl") {
				plain, secure = ls[1], ls[0]
			}
			setCanon("redis.Server", plain, "portListener")
			setCanon("redis.Server", secure, "tlsPortListener")
		}
	}
	// Conn: by exported accessor
	setCanon("redis.Conn", returnedField(p.Method(pkgRedis, "Conn", "Database"), 0), "id")
	setCanon("redis.Conn", returnedField(p.Method(pkgRedis, "Conn", "IsAuthrized"), 0), "authrized")
	setCanon("redis.Conn", returnedField(p.Method(pkgRedis, "Conn", "Password"), 0), "password")
	setCanon("redis.Conn", returnedField(p.Method(pkgRedis, "Conn", "Password"), 1), "hasPassword")
	setCanon("redis.Conn", returnedField(p.Method(pkgRedis, "Conn", "UserName"), 0), "username")
	// Conn.isClosed: the bool field tested at the top of Close
	if cl := p.Method(pkgRedis, "Conn", "Close"); cl != nil && cl.Blocks != nil {
		found := ""
		allInstrs(cl, func(ins ssa.Instruction) {
			if found != "" {
				return
			}
			if iff, ok := ins.(*ssa.If); ok {
				if ld, ok := iff.Cond.(*ssa.UnOp); ok && ld.Op == token.MUL {
					if fa, ok := ld.X.(*ssa.FieldAddr); ok && strip(fa.X) == ssa.Value(cl.Params[0]) {
						found = derefStruct(fa.X.Type()).Field(fa.Field).Name()
					}
				}
			}
		})
		setCanon("redis.Conn", found, "isClosed")
	}
}
