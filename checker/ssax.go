package main

// ssax.go: small helpers over go/ssa used by every rule.

import (
	"fmt"
	"go/constant"
	"go/token"
	"go/types"
	"sort"
	"strings"

	"golang.org/x/tools/go/ssa"
)

// callCommon returns the CallCommon of a call-like instruction (Call, Defer, Go), or nil.
func callCommon(ins ssa.Instruction) *ssa.CallCommon {
	if ci, ok := ins.(ssa.CallInstruction); ok {
		return ci.Common()
	}
	return nil
}

// calleeName gives the resolved callee's full name: "io.ReadFull", "(*sync.RWMutex).Lock",
// "(io.Reader).Read" for interface calls, "builtin:append" for builtins, "" for dynamic calls.
func calleeName(cc *ssa.CallCommon) string {
	if cc == nil {
		return ""
	}
	if cc.IsInvoke() {
		return cc.Method.FullName()
	}
	switch v := cc.Value.(type) {
	case *ssa.Function:
		return fullFuncName(v)
	case *ssa.Builtin:
		return "builtin:" + v.Name()
	case *ssa.MakeClosure:
		if f, ok := v.Fn.(*ssa.Function); ok {
			return fullFuncName(f)
		}
	}
	return ""
}

func fullFuncName(f *ssa.Function) string {
	if f.Origin() != nil {
		f = f.Origin()
	}
	if o, ok := f.Object().(*types.Func); ok && o != nil {
		return o.FullName()
	}
	return f.String()
}

// staticCallee returns the called function when statically known (direct call, or immediately
// applied closure), else nil.
func staticCallee(cc *ssa.CallCommon) *ssa.Function {
	if cc == nil || cc.IsInvoke() {
		return nil
	}
	switch v := cc.Value.(type) {
	case *ssa.Function:
		return v
	case *ssa.MakeClosure:
		if f, ok := v.Fn.(*ssa.Function); ok {
			return f
		}
	case *ssa.UnOp:
		// a local closure variable assigned once (possibly captured by the calling closure)
		if mc, ok := strip(v).(*ssa.MakeClosure); ok {
			if f, ok := mc.Fn.(*ssa.Function); ok {
				return f
			}
		}
	}
	return nil
}

// isCall reports whether ins is a plain Call (not defer/go) to one of names.
func isCall(ins ssa.Instruction, names ...string) (*ssa.Call, bool) {
	c, ok := ins.(*ssa.Call)
	if !ok {
		return nil, false
	}
	n := calleeName(c.Common())
	for _, x := range names {
		if n == x {
			return c, true
		}
	}
	return nil, false
}

func nameIn(n string, names ...string) bool {
	for _, x := range names {
		if n == x {
			return true
		}
	}
	return false
}

// callArgs returns the arguments including the receiver for invoke-mode calls.
func callArgs(cc *ssa.CallCommon) []ssa.Value {
	if cc.IsInvoke() {
		return append([]ssa.Value{cc.Value}, cc.Args...)
	}
	return cc.Args
}

// singleStore returns the only value ever stored into the Alloc (including stores inside
// closures that capture it), or nil when there are zero or several stores, or the address
// escapes in a way we do not follow.
func singleStore(a *ssa.Alloc) ssa.Value {
	stores := allocStores(a)
	if len(stores) == 1 {
		return stores[0].Val
	}
	return nil
}

// allocStores lists every Store into the alloc, following captures into closures.
func allocStores(a *ssa.Alloc) []*ssa.Store {
	var out []*ssa.Store
	var visit func(addr ssa.Value, depth int)
	visit = func(addr ssa.Value, depth int) {
		if depth > 4 || addr.Referrers() == nil {
			return
		}
		for _, r := range *addr.Referrers() {
			switch r := r.(type) {
			case *ssa.Store:
				if r.Addr == addr {
					out = append(out, r)
				}
			case *ssa.MakeClosure:
				fn, ok := r.Fn.(*ssa.Function)
				if !ok {
					continue
				}
				for i, b := range r.Bindings {
					if b == addr && i < len(fn.FreeVars) {
						visit(fn.FreeVars[i], depth+1)
					}
				}
			}
		}
	}
	visit(a, 0)
	return out
}

// strip looks through value-preserving wrappers: ChangeInterface, ChangeType, MakeInterface,
// loads of single-store local allocs, phis whose operands all resolve to one value.
var stripDepth int

func strip(v ssa.Value) ssa.Value {
	if stripDepth > 12 {
		return v // mutually recursive phis: give up, the value stands for itself
	}
	stripDepth++
	defer func() { stripDepth-- }()
	for i := 0; i < 32; i++ {
		switch x := v.(type) {
		case *ssa.ChangeInterface:
			v = x.X
		case *ssa.ChangeType:
			v = x.X
		case *ssa.MakeInterface:
			v = x.X
		case *ssa.UnOp:
			if x.Op == token.MUL {
				if a, ok := x.X.(*ssa.Alloc); ok {
					if s := singleStore(a); s != nil {
						v = s
						continue
					}
				}
				if fv, ok := x.X.(*ssa.FreeVar); ok {
					if s := freeVarSingleStore(fv); s != nil {
						v = s
						continue
					}
				}
			}
			return v
		case *ssa.Phi:
			var one ssa.Value
			same := true
			for _, e := range x.Edges {
				e = strip(e)
				if e == x {
					continue
				}
				if one == nil {
					one = e
				} else if one != e {
					same = false
				}
			}
			if same && one != nil {
				v = one
				continue
			}
			return v
		default:
			return v
		}
	}
	return v
}

// freeVarSingleStore resolves a closure's free variable (captured *T cell) to the single value
// stored into the captured alloc in the enclosing function, when unique.
func freeVarSingleStore(fv *ssa.FreeVar) ssa.Value {
	fn := fv.Parent()
	if fn == nil || fn.Parent() == nil {
		return nil
	}
	idx := -1
	for i, f := range fn.FreeVars {
		if f == fv {
			idx = i
		}
	}
	if idx < 0 {
		return nil
	}
	var bound ssa.Value
	for _, b := range fn.Parent().Blocks {
		for _, ins := range b.Instrs {
			if mc, ok := ins.(*ssa.MakeClosure); ok && mc.Fn == fn && idx < len(mc.Bindings) {
				if bound != nil && bound != mc.Bindings[idx] {
					return nil
				}
				bound = mc.Bindings[idx]
			}
		}
	}
	switch b := bound.(type) {
	case *ssa.Alloc:
		return singleStore(b)
	case *ssa.FreeVar:
		return freeVarSingleStore(b)
	}
	return nil
}

// allInstrs iterates over all instructions of fn in block order.
func allInstrs(fn *ssa.Function, f func(ins ssa.Instruction)) {
	for _, b := range fn.Blocks {
		for _, ins := range b.Instrs {
			f(ins)
		}
	}
}

// closuresOf returns fn and, recursively, the anonymous functions it contains.
func closuresOf(fn *ssa.Function) []*ssa.Function {
	out := []*ssa.Function{fn}
	for _, a := range fn.AnonFuncs {
		out = append(out, closuresOf(a)...)
	}
	return out
}

// constString returns the string constant value of v, if v is one.
func constString(v ssa.Value) (string, bool) {
	if c, ok := v.(*ssa.Const); ok && c.Value != nil && c.Value.Kind() == constant.String {
		return constant.StringVal(c.Value), true
	}
	return "", false
}

func constInt(v ssa.Value) (int64, bool) {
	if c, ok := v.(*ssa.Const); ok && c.Value != nil && c.Value.Kind() == constant.Int {
		if i, ok := constant.Int64Val(c.Value); ok {
			return i, true
		}
	}
	return 0, false
}

func constBool(v ssa.Value) (bool, bool) {
	if c, ok := v.(*ssa.Const); ok && c.Value != nil && c.Value.Kind() == constant.Bool {
		return constant.BoolVal(c.Value), true
	}
	return false, false
}

func isNilConst(v ssa.Value) bool {
	c, ok := v.(*ssa.Const)
	return ok && c.Value == nil
}

// ---------------------------------------------------------------------------------------
// Dominance over edges

// edgeDominates reports whether every path from entry to target passes through the CFG edge
// from -> from.Succs[idx].
func edgeDominates(from *ssa.BasicBlock, idx int, target *ssa.BasicBlock) bool {
	s := from.Succs[idx]
	if !s.Dominates(target) {
		return false
	}
	// both successors identical: the edge decides nothing
	if len(from.Succs) == 2 && from.Succs[0] == from.Succs[1] {
		return false
	}
	// every other predecessor of s must itself be dominated by s (back edges), otherwise s is
	// reachable without taking this edge
	for _, p := range s.Preds {
		if p == from {
			// the other edge of the same If could also lead to s only if Succs equal (handled)
			continue
		}
		if !s.Dominates(p) {
			return false
		}
	}
	return true
}

// Guard is a branch edge that dominates a program point.
type Guard struct {
	If   *ssa.If
	Cond ssa.Value
	True bool // which edge dominates
}

// guardsOf lists the branch edges dominating block b (innermost first).
func guardsOf(b *ssa.BasicBlock) []Guard {
	var out []Guard
	seen := map[*ssa.BasicBlock]bool{}
	for d := b; d != nil; d = d.Idom() {
		if seen[d] {
			break
		}
		seen[d] = true
		// look at the If terminating each dominator's predecessor chain: any block x ending in If
		// with an edge that dominates b
		_ = d
	}
	fn := b.Parent()
	for _, x := range fn.Blocks {
		if len(x.Instrs) == 0 {
			continue
		}
		iff, ok := x.Instrs[len(x.Instrs)-1].(*ssa.If)
		if !ok {
			continue
		}
		for idx := 0; idx < 2; idx++ {
			if edgeDominates(x, idx, b) {
				out = append(out, Guard{If: iff, Cond: iff.Cond, True: idx == 0})
			}
		}
	}
	// innermost first: sort by dominator depth descending
	sort.SliceStable(out, func(i, j int) bool { return domDepth(out[i].If.Block()) > domDepth(out[j].If.Block()) })
	return out
}

func domDepth(b *ssa.BasicBlock) int {
	n := 0
	for d := b.Idom(); d != nil; d = d.Idom() {
		n++
	}
	return n
}

// Atom is a primitive fact obtained by decomposing a branch condition.
type Atom struct {
	Kind string    // "nil" (X == nil), "eq" (X == Y), "lt","le" (X < Y / X <= Y), "call" (bool call result), "val" (opaque bool)
	X, Y ssa.Value // operands (stripped)
	Call *ssa.Call // for Kind "call"
	Pos  bool      // polarity: the fact holds (true) or its negation holds (false)
}

// atomsOf decomposes cond (taken in direction dir) into facts that certainly hold.
// For a conjunction taken true, both conjuncts hold; go/ssa lowers && and || into control
// flow, so conditions are mostly primitive already.
var atomDepth, atomFlowDepth, atomPhiDepth int

func atomsOf(cond ssa.Value, dir bool) []Atom {
	switch x := cond.(type) {
	case *ssa.UnOp:
		if x.Op == token.NOT {
			return atomsOf(x.X, !dir)
		}
	case *ssa.BinOp:
		switch x.Op {
		case token.EQL, token.NEQ:
			pos := dir == (x.Op == token.EQL)
			if isNilConst(x.Y) {
				return []Atom{{Kind: "nil", X: strip(x.X), Pos: pos}}
			}
			if isNilConst(x.X) {
				return []Atom{{Kind: "nil", X: strip(x.Y), Pos: pos}}
			}
			return []Atom{{Kind: "eq", X: strip(x.X), Y: strip(x.Y), Pos: pos}}
		case token.LSS:
			return []Atom{{Kind: "lt", X: strip(x.X), Y: strip(x.Y), Pos: dir}}
		case token.LEQ:
			return []Atom{{Kind: "le", X: strip(x.X), Y: strip(x.Y), Pos: dir}}
		case token.GTR:
			return []Atom{{Kind: "lt", X: strip(x.Y), Y: strip(x.X), Pos: dir}}
		case token.GEQ:
			return []Atom{{Kind: "le", X: strip(x.Y), Y: strip(x.X), Pos: dir}}
		}
	case *ssa.Call:
		out := []Atom{{Kind: "call", Call: x, Pos: dir}}
		// a predicate helper of the repository (straight-line body returning a condition): its
		// condition holds too, with the helper's parameters replaced by the arguments
		if h := staticCallee(x.Common()); h != nil && len(h.Blocks) >= 1 && len(h.Blocks) <= 6 && h.Pkg != nil && strings.HasPrefix(h.Pkg.Pkg.Path(), modPath) && atomDepth < 2 {
			rets := returnsOf(h)
			if len(rets) == 1 && len(rets[0].Results) == 1 && isBoolType(rets[0].Results[0].Type()) {
				if _, isCall := rets[0].Results[0].(*ssa.Call); !isCall {
					args := callArgs(x.Common())
					sub := func(v ssa.Value) ssa.Value {
						if par, ok := v.(*ssa.Parameter); ok {
							for i, hp := range h.Params {
								if hp == par && i < len(args) {
									return strip(args[i])
								}
							}
						}
						return v
					}
					atomDepth++
					inl := atomsOf(rets[0].Results[0], dir)
					atomDepth--
					for _, a := range inl {
						if a.Kind == "val" {
							continue
						}
						if a.X != nil {
							a.X = sub(a.X)
						}
						if a.Y != nil {
							a.Y = sub(a.Y)
						}
						out = append(out, a)
					}
				}
			}
		}
		return out
	case *ssa.Phi:
		// a phi of booleans built by && / ||: if every edge is either the constant !dir-excluding
		// value or a condition, we cannot conclude in general; handle the common "a && b" shape:
		// phi [false, b] taken true  => both a (implicitly, by control flow) and b hold.
		var sub []Atom
		okAll := true
		for _, e := range x.Edges {
			if cb, isC := constBool(e); isC {
				if cb == dir {
					okAll = false // this edge alone makes the phi == dir without any fact
				}
				continue
			}
			if e == ssa.Value(x) || atomPhiDepth > 4 {
				okAll = false
				continue
			}
			atomPhiDepth++
			sub = append(sub, atomsOf(e, dir)...)
			atomPhiDepth--
		}
		if okAll && len(x.Edges) == 2 && len(sub) > 0 {
			// exactly one non-constant edge and the constant edge has value !dir
			nonConst := 0
			for _, e := range x.Edges {
				if _, isC := constBool(e); !isC {
					nonConst++
				}
			}
			if nonConst == 1 {
				// the phi has the value dir only when control came through its non-constant
				// edge: the facts dominating that predecessor hold as well
				if atomFlowDepth < 2 {
					atomFlowDepth++
					for i, e := range x.Edges {
						if _, isC := constBool(e); !isC && i < len(x.Block().Preds) {
							sub = append(sub, factsAt(x.Block().Preds[i])...)
						}
					}
					atomFlowDepth--
				}
				return sub
			}
		}
	}
	return []Atom{{Kind: "val", X: strip(cond), Pos: dir}}
}

// factsAt returns all atoms that hold on entry to block b because of dominating branch edges.
func factsAt(b *ssa.BasicBlock) []Atom {
	var out []Atom
	for _, g := range guardsOf(b) {
		out = append(out, atomsOf(g.Cond, g.True)...)
	}
	return out
}

// errNonNilFact: does some dominating fact say v (an error value) is nil?
func knownNil(b *ssa.BasicBlock, v ssa.Value) bool {
	v = strip(v)
	for _, a := range factsAt(b) {
		if a.Kind == "nil" && a.Pos && a.X == v {
			return true
		}
	}
	return false
}

// ---------------------------------------------------------------------------------------
// Loops

// Loop is a natural loop.
type Loop struct {
	Header *ssa.BasicBlock
	Blocks map[*ssa.BasicBlock]bool
	Latch  []*ssa.BasicBlock // sources of back edges
}

// naturalLoops finds the natural loops of fn (merged per header).
func naturalLoops(fn *ssa.Function) []*Loop {
	byHeader := map[*ssa.BasicBlock]*Loop{}
	var order []*ssa.BasicBlock
	for _, b := range fn.Blocks {
		for si, s := range b.Succs {
			if deadEdge(b, si) {
				continue
			}
			if s.Dominates(b) { // back edge b -> s
				l := byHeader[s]
				if l == nil {
					l = &Loop{Header: s, Blocks: map[*ssa.BasicBlock]bool{s: true}}
					byHeader[s] = l
					order = append(order, s)
				}
				l.Latch = append(l.Latch, b)
				// collect body: reverse reachability from b up to s
				stack := []*ssa.BasicBlock{b}
				for len(stack) > 0 {
					x := stack[len(stack)-1]
					stack = stack[:len(stack)-1]
					if l.Blocks[x] {
						continue
					}
					l.Blocks[x] = true
					for _, pr := range x.Preds {
						if !deadEdge(pr, succIndex(pr, x)) {
							stack = append(stack, pr)
						}
					}
				}
			}
		}
	}
	var out []*Loop
	for _, h := range order {
		out = append(out, byHeader[h])
	}
	return out
}

// cycleAvoiding reports whether header lies on a cycle inside the loop that avoids all blocks in
// 'removed'; when it does, a witness cycle (list of blocks) is returned.
func (l *Loop) cycleAvoiding(removed map[*ssa.BasicBlock]bool) []*ssa.BasicBlock {
	if removed[l.Header] {
		return nil
	}
	// BFS from header's successors back to header within loop blocks not removed
	type item struct {
		b    *ssa.BasicBlock
		prev *item
	}
	seen := map[*ssa.BasicBlock]bool{}
	var queue []*item
	for si, s := range l.Header.Succs {
		if deadEdge(l.Header, si) {
			continue
		}
		if l.Blocks[s] && !removed[s] {
			if s == l.Header {
				return []*ssa.BasicBlock{l.Header}
			}
			if !seen[s] {
				seen[s] = true
				queue = append(queue, &item{b: s})
			}
		}
	}
	for len(queue) > 0 {
		it := queue[0]
		queue = queue[1:]
		for si, s := range it.b.Succs {
			if deadEdge(it.b, si) {
				continue
			}
			if s == l.Header {
				var path []*ssa.BasicBlock
				for x := it; x != nil; x = x.prev {
					path = append([]*ssa.BasicBlock{x.b}, path...)
				}
				return append([]*ssa.BasicBlock{l.Header}, path...)
			}
			if l.Blocks[s] && !removed[s] && !seen[s] {
				seen[s] = true
				queue = append(queue, &item{b: s, prev: it})
			}
		}
	}
	return nil
}

func (l *Loop) sortedBlocks() []*ssa.BasicBlock {
	var bs []*ssa.BasicBlock
	for b := range l.Blocks {
		bs = append(bs, b)
	}
	sort.Slice(bs, func(i, j int) bool { return bs[i].Index < bs[j].Index })
	return bs
}

// ---------------------------------------------------------------------------------------
// Misc

// reachableBlocks returns blocks reachable from 'from' (inclusive), optionally not crossing 'stop' blocks.
func reachableBlocks(from *ssa.BasicBlock, stop map[*ssa.BasicBlock]bool) map[*ssa.BasicBlock]bool {
	seen := map[*ssa.BasicBlock]bool{}
	stack := []*ssa.BasicBlock{from}
	for len(stack) > 0 {
		b := stack[len(stack)-1]
		stack = stack[:len(stack)-1]
		if seen[b] {
			continue
		}
		seen[b] = true
		if stop != nil && stop[b] && b != from {
			continue
		}
		for si, sc := range b.Succs {
			if !deadEdge(b, si) {
				stack = append(stack, sc)
			}
		}
	}
	return seen
}

// deadEdge: the branch edge b -> b.Succs[idx] can never be taken because its condition
// contradicts a condition already decided on every path to b (the same test repeated, a
// constant condition). go/ssa does not thread jumps; code produced by the loop-body
// normalisation (normalize.go) repeats the caller's tests under the branch that set the
// tested variable, and hand-written code occasionally re-tests an error. Dominance is that of
// the unpruned graph (fewer facts, never wrong ones).
var deadEdgeMemo = map[*ssa.BasicBlock][2]int8{}

var liveBlocksMemo = map[*ssa.Function]map[*ssa.BasicBlock]bool{}

// liveBlocks: blocks reachable from the entry over edges whose own condition is not dead.
func liveBlocks(fn *ssa.Function) map[*ssa.BasicBlock]bool {
	if m, ok := liveBlocksMemo[fn]; ok {
		return m
	}
	m := map[*ssa.BasicBlock]bool{}
	liveBlocksMemo[fn] = m
	if len(fn.Blocks) == 0 {
		return m
	}
	stack := []*ssa.BasicBlock{fn.Blocks[0]}
	if fn.Recover != nil {
		stack = append(stack, fn.Recover)
	}
	for len(stack) > 0 {
		b := stack[len(stack)-1]
		stack = stack[:len(stack)-1]
		if m[b] {
			continue
		}
		m[b] = true
		for i, s := range b.Succs {
			if !deadCond(b, i) {
				stack = append(stack, s)
			}
		}
	}
	return m
}

// deadEdge: the edge can never be taken: its condition is decided the other way (deadCond), or
// its source block is reachable only over such edges.
func deadEdge(b *ssa.BasicBlock, idx int) bool {
	if deadCond(b, idx) {
		return true
	}
	if fn := b.Parent(); fn != nil && len(fn.Blocks) > 0 {
		return !liveBlocks(fn)[b]
	}
	return false
}

func deadCond(b *ssa.BasicBlock, idx int) bool {
	if idx < 0 || idx > 1 || len(b.Succs) != 2 || b.Succs[0] == b.Succs[1] || len(b.Instrs) == 0 {
		return false
	}
	iff, ok := b.Instrs[len(b.Instrs)-1].(*ssa.If)
	if !ok {
		return false
	}
	if m, ok := deadEdgeMemo[b]; ok && m[idx] != 0 {
		return m[idx] == 1
	}
	m := deadEdgeMemo[b]
	res := int8(2)
	if cb, isC := constBool(iff.Cond); isC {
		if cb != (idx == 0) {
			res = 1
		}
	} else {
		facts := factsAt(b)
		for _, e := range atomsOf(iff.Cond, idx == 0) {
			if e.Kind == "val" && e.X != nil {
				if cb, isC := constBool(e.X); isC && cb != e.Pos {
					res = 1
				}
			}
			if e.Kind == "nil" && e.X != nil && isNilConst(e.X) && !e.Pos {
				res = 1 // nil != nil
			}
			for _, f := range facts {
				if f.Kind != e.Kind || f.Pos == e.Pos {
					continue
				}
				switch e.Kind {
				case "nil", "val":
					if f.X == e.X && e.X != nil {
						res = 1
					}
				case "eq", "lt", "le":
					if f.X == e.X && f.Y == e.Y && e.X != nil {
						res = 1
					}
				case "call":
					if f.Call == e.Call && e.Call != nil {
						res = 1
					}
				}
			}
		}
	}
	m[idx] = res
	deadEdgeMemo[b] = m
	return res == 1
}

func blockPath(p *Program, bs []*ssa.BasicBlock) []string {
	var out []string
	for _, b := range bs {
		pos := ""
		for _, ins := range b.Instrs {
			if ins.Pos().IsValid() {
				pos = p.pos(ins.Pos())
				break
			}
		}
		out = append(out, fmt.Sprintf("block %d (%s) %s", b.Index, b.Comment, pos))
	}
	return out
}

// fieldOf: if v is (a load of) a FieldAddr / Field, returns the struct type name and field name.
func fieldOf(v ssa.Value) (owner string, field string, base ssa.Value, ok bool) {
	switch x := v.(type) {
	case *ssa.UnOp:
		if x.Op == token.MUL {
			return fieldOf(x.X)
		}
	case *ssa.FieldAddr:
		st := derefStruct(x.X.Type())
		if st == nil {
			return "", "", nil, false
		}
		o := typeName(deref(x.X.Type()))
		return o, canonFieldName(o, st.Field(x.Field).Name()), x.X, true
	case *ssa.Field:
		st, _ := x.X.Type().Underlying().(*types.Struct)
		if st == nil {
			return "", "", nil, false
		}
		o := typeName(x.X.Type())
		return o, canonFieldName(o, st.Field(x.Field).Name()), x.X, true
	}
	return "", "", nil, false
}

func deref(t types.Type) types.Type {
	if p, ok := t.Underlying().(*types.Pointer); ok {
		return p.Elem()
	}
	return t
}

func derefStruct(t types.Type) *types.Struct {
	st, _ := deref(t).Underlying().(*types.Struct)
	return st
}

func typeName(t types.Type) string {
	t = deref(t)
	if n, ok := t.(*types.Named); ok {
		o := n.Obj()
		if o.Pkg() != nil {
			return shortPkg(o.Pkg().Path()) + "." + o.Name()
		}
		return o.Name()
	}
	if a, ok := t.(*types.Alias); ok {
		return typeName(types.Unalias(a))
	}
	return t.String()
}

func shortPkg(path string) string {
	if i := strings.LastIndex(path, "/"); i >= 0 {
		return path[i+1:]
	}
	return path
}

// isErrorType reports whether t is the predeclared error type.
func isErrorType(t types.Type) bool {
	return types.Identical(t, types.Universe.Lookup("error").Type())
}

// returnsOf lists the Return instructions of fn.
func returnsOf(fn *ssa.Function) []*ssa.Return {
	var out []*ssa.Return
	allInstrs(fn, func(ins ssa.Instruction) {
		if r, ok := ins.(*ssa.Return); ok {
			out = append(out, r)
		}
	})
	return out
}

// callsIn lists call-like instructions of fn whose callee name is in names.
func callsIn(fn *ssa.Function, names ...string) []ssa.CallInstruction {
	var out []ssa.CallInstruction
	allInstrs(fn, func(ins ssa.Instruction) {
		if ci, ok := ins.(ssa.CallInstruction); ok {
			if nameIn(calleeName(ci.Common()), names...) {
				out = append(out, ci)
			}
		}
	})
	return out
}

// namedResultCell: go/ssa spills results of functions with defers into allocs (*t1 = x; rundefers;
// t = *t1; return t). retOperand resolves a Return operand to the values that may be stored in
// such a cell on the path (the stores in the same block preceding the return), or the operand itself.
func retOperand(r *ssa.Return, i int) ssa.Value {
	v := r.Results[i]
	if u, ok := v.(*ssa.UnOp); ok && u.Op == token.MUL {
		if a, ok := u.X.(*ssa.Alloc); ok && isPlainCell(a) {
			// last store to a in this block before the return
			b := r.Block()
			var last ssa.Value
			for _, ins := range b.Instrs {
				if st, ok := ins.(*ssa.Store); ok && st.Addr == a {
					last = st.Val
				}
			}
			if last != nil {
				return last
			}
			// otherwise look in dominators (single store)
			if s := singleStore(a); s != nil {
				return s
			}
		}
	}
	return v
}

// isPlainCell: the alloc is only ever stored to and loaded from as a whole (a spilled result or a
// simple local), never addressed by field/element or captured.
func isPlainCell(a *ssa.Alloc) bool {
	if a.Referrers() == nil {
		return false
	}
	for _, r := range *a.Referrers() {
		switch x := r.(type) {
		case *ssa.Store:
			if x.Addr != ssa.Value(a) {
				return false
			}
		case *ssa.UnOp, *ssa.DebugRef:
		default:
			return false
		}
	}
	return true
}

func isIntType(t types.Type) bool {
	b, ok := t.Underlying().(*types.Basic)
	return ok && b.Info()&types.IsInteger != 0
}

func isStringType(t types.Type) bool {
	b, ok := t.Underlying().(*types.Basic)
	return ok && b.Kind() == types.String
}

// fieldsBehind: the struct fields a value may be a load of, looking through pointers that are
// kept in a local table first (for _, p := range []*T{&s.a, &s.b} { use(*p) }): a load of a
// FieldAddr, a load through a pointer read from a local array/slice literal whose slots hold
// FieldAddrs, or a phi of those. Returns "owner.field" names; ok is false when some source is
// not a field.
func fieldsBehind(v ssa.Value) (fields []string, ok bool) {
	return fieldsBehindImpl(v, false)
}

func fieldsBehindPtr(p ssa.Value) (fields []string, ok bool) {
	return fieldsBehindImpl(p, true)
}

func fieldsBehindImpl(v ssa.Value, asPtr bool) (fields []string, ok bool) {
	seen := map[ssa.Value]bool{}
	ok = true
	var ptr func(p ssa.Value, d int)
	var fromTable func(structVal ssa.Value, field int, d int)
	ptr = func(p ssa.Value, d int) {
		if d > 8 || seen[p] {
			return
		}
		seen[p] = true
		switch x := p.(type) {
		case *ssa.FieldAddr:
			if owner, f, _, isF := fieldOf(x); isF {
				fields = append(fields, owner+"."+f)
				return
			}
			ok = false
		case *ssa.Phi:
			for _, e := range x.Edges {
				ptr(e, d+1)
			}
		case *ssa.UnOp:
			if x.Op != token.MUL {
				ok = false
				return
			}
			// a pointer loaded from a field of a local copy of a table element (the range variable)
			if fa, isFA := x.X.(*ssa.FieldAddr); isFA {
				if al, isAl := fa.X.(*ssa.Alloc); isAl {
					if sv := singleStore(al); sv != nil {
						fromTable(sv, fa.Field, d)
						return
					}
				}
				ok = false
				return
			}
			// a pointer loaded from a slot of a local table
			ia, isIA := x.X.(*ssa.IndexAddr)
			if !isIA {
				ok = false
				return
			}
			base := ia.X
			for k := 0; k < 3; k++ {
				if sl, isSl := base.(*ssa.Slice); isSl {
					base = sl.X
				}
			}
			al, isAl := base.(*ssa.Alloc)
			if !isAl || al.Referrers() == nil {
				ok = false
				return
			}
			n := 0
			for _, r := range *al.Referrers() {
				slot, isSlot := r.(*ssa.IndexAddr)
				if !isSlot || slot.Referrers() == nil {
					continue
				}
				for _, rr := range *slot.Referrers() {
					if st, isSt := rr.(*ssa.Store); isSt && st.Addr == ssa.Value(slot) {
						n++
						ptr(st.Val, d+1)
					}
				}
			}
			if n == 0 {
				ok = false
			}
		case *ssa.Parameter:
			// a pointer parameter of an unexported helper (closeListener(&server.portListener)):
			// what its static callers pass
			fn := x.Parent()
			idx := -1
			for i, q := range fn.Params {
				if q == x {
					idx = i
				}
			}
			sites := 0
			if (fn.Object() == nil || !fn.Object().Exported()) && theProgram != nil && idx >= 0 {
				if cs, only := theProgram.onlyStaticallyCalled(fn); only {
					for _, ci := range cs {
						if idx < len(ci.Common().Args) {
							sites++
							ptr(ci.Common().Args[idx], d+1)
						}
					}
				}
			}
			if sites == 0 {
				ok = false
			}
		case *ssa.Field:
			// the pointer is a field of a struct taken from a table of structs (possibly built
			// by a helper): {listener: &s.a}, {listener: &s.b}
			fromTable(x.X, x.Field, d)
		default:
			ok = false
		}
	}
	fromTable = func(structVal ssa.Value, field int, d int) {
		{
			elem, isLd := structVal.(*ssa.UnOp)
			if !isLd || elem.Op != token.MUL {
				ok = false
				return
			}
			ia, isIA := elem.X.(*ssa.IndexAddr)
			if !isIA {
				ok = false
				return
			}
			x := struct{ Field int }{field}
			n := 0
			for _, arr := range tableArrays(ia.X, 0) {
				for _, r := range *arr.Referrers() {
					slot, isSlot := r.(*ssa.IndexAddr)
					if !isSlot || slot.Referrers() == nil {
						continue
					}
					for _, rr := range *slot.Referrers() {
						fa, isFA := rr.(*ssa.FieldAddr)
						if !isFA || fa.Field != x.Field || fa.Referrers() == nil {
							continue
						}
						for _, rrr := range *fa.Referrers() {
							if st, isSt := rrr.(*ssa.Store); isSt && st.Addr == ssa.Value(fa) {
								n++
								ptr(st.Val, d+1)
							}
						}
					}
				}
			}
			if n == 0 {
				ok = false
			}
		}
	}
	if asPtr {
		ptr(v, 0)
		if len(fields) == 0 {
			ok = false
		}
		return fields, ok
	}
	ld, isLd := v.(*ssa.UnOp)
	if !isLd || ld.Op != token.MUL {
		if owner, f, _, isF := fieldOf(v); isF {
			return []string{owner + "." + f}, true
		}
		return nil, false
	}
	ptr(ld.X, 0)
	if len(fields) == 0 {
		ok = false
	}
	return fields, ok
}

// localCounter: an integer computed from constants, loop counters and lengths of local
// tables only — nothing read from a struct field, a global, a parameter or a call result
// (the shape of a range loop's own bookkeeping).
func localCounter(v ssa.Value, d int) bool {
	return localCounterIn(v, map[ssa.Value]bool{})
}

func localCounterIn(v ssa.Value, seen map[ssa.Value]bool) bool {
	if seen[v] {
		return true // a cycle through the counter's own phi
	}
	seen[v] = true
	switch x := v.(type) {
	case *ssa.Const:
		return true
	case *ssa.Phi:
		for _, e := range x.Edges {
			if !localCounterIn(e, seen) {
				return false
			}
		}
		return true
	case *ssa.BinOp:
		return localCounterIn(x.X, seen) && localCounterIn(x.Y, seen)
	case *ssa.Call:
		if calleeName(x.Common()) == "builtin:len" {
			base := x.Common().Args[0]
			for k := 0; k < 3; k++ {
				if sl, ok := base.(*ssa.Slice); ok {
					base = sl.X
				}
			}
			if _, isAl := base.(*ssa.Alloc); isAl {
				return true
			}
			// the length of a literal table built by a helper
			return len(tableArrays(x.Common().Args[0], 0)) > 0
		}
	}
	return false
}

// tableArrays: the array allocations behind a slice value that is a literal table: a slice of a
// local array, a phi of such, or the result of a repository helper returning one.
func tableArrays(v ssa.Value, d int) []*ssa.Alloc {
	if v == nil || d > 4 {
		return nil
	}
	switch x := v.(type) {
	case *ssa.Slice:
		return tableArrays(x.X, d+1)
	case *ssa.Alloc:
		if x.Referrers() != nil {
			return []*ssa.Alloc{x}
		}
	case *ssa.Phi:
		var out []*ssa.Alloc
		for _, e := range x.Edges {
			out = append(out, tableArrays(e, d+1)...)
		}
		return out
	case *ssa.Call:
		if h := staticCallee(x.Common()); h != nil && h.Blocks != nil && inRepo(h) {
			var out []*ssa.Alloc
			for _, r := range returnsOf(h) {
				if len(r.Results) >= 1 {
					out = append(out, tableArrays(r.Results[0], d+1)...)
				}
			}
			return out
		}
	case *ssa.UnOp:
		if al, ok := x.X.(*ssa.Alloc); ok && x.Op == token.MUL {
			if sv := singleStore(al); sv != nil {
				return tableArrays(sv, d+1)
			}
		}
	}
	return nil
}

// pointerTargets: the struct fields a pointer value may point to (see fieldsBehind, which takes
// the loaded value; this takes the pointer itself).
func pointerTargets(p ssa.Value) ([]string, bool) {
	// reuse fieldsBehind through a synthetic view: the logic lives in its ptr walker, reached by
	// wrapping p as if it were dereferenced
	return fieldsBehindPtr(p)
}

// theProgram: the loaded program, for helpers that need call sites but are reached without a Ctx.
var theProgram *Program
