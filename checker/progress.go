package main

// progress.go: A4 — loop progress. Every cycle of every natural loop in scope must contain a
// progress event, and some exit of the loop must depend on a value that changes inside the loop.

import (
	"fmt"
	"go/token"
	"go/types"
	"strings"

	"golang.org/x/tools/go/ssa"
)

var blockingReadNames = []string{
	"(io.Reader).Read", "io.ReadFull", "io.ReadAtLeast", "io.CopyN", "(net.Listener).Accept", "(net.Conn).Read",
	"(*bufio.Reader).Read", "(*bufio.Reader).ReadByte", "(*bufio.Reader).ReadBytes", "(*bufio.Reader).ReadString",
	"(*bufio.Reader).ReadLine", "(*bufio.Reader).ReadSlice", "(*bufio.Reader).ReadRune", "(*bufio.Reader).Discard", "(*bufio.Reader).Peek",
	"(io.ByteReader).ReadByte", "(*crypto/tls.Conn).Read", "(*net.TCPListener).Accept", "(*crypto/tls.Conn).Handshake",
	"(*bytes.Buffer).ReadFrom",
}

// mustCallSet computes the set of repository functions that call, on every path from entry to
// every return, a function of the base set or of the set itself (least fixed point).
func (p *Program) mustCallSet(base func(cc *ssa.CallCommon) bool, scope []*ssa.Function) map[*ssa.Function]bool {
	set := map[*ssa.Function]bool{}
	changed := true
	for changed {
		changed = false
		for _, fn := range scope {
			if set[fn] || fn.Blocks == nil {
				continue
			}
			if mustPassCall(fn, func(cc *ssa.CallCommon) bool {
				if base(cc) {
					return true
				}
				if c := staticCallee(cc); c != nil && set[c] {
					return true
				}
				return false
			}) {
				set[fn] = true
				changed = true
			}
		}
	}
	return set
}

// mustPassCall: every path from entry to a Return passes a Call instruction satisfying pred.
func mustPassCall(fn *ssa.Function, pred func(cc *ssa.CallCommon) bool) bool {
	if len(fn.Blocks) == 0 {
		return false
	}
	hit := map[*ssa.BasicBlock]bool{}
	for _, b := range fn.Blocks {
		for _, ins := range b.Instrs {
			if c, ok := ins.(*ssa.Call); ok && pred(c.Common()) {
				hit[b] = true
			}
		}
	}
	// reachability from entry avoiding hit blocks; a Return (not preceded by a hit in the same block) reached => false
	seen := map[*ssa.BasicBlock]bool{}
	stack := []*ssa.BasicBlock{fn.Blocks[0]}
	hasReturn := false
	for len(stack) > 0 {
		b := stack[len(stack)-1]
		stack = stack[:len(stack)-1]
		if seen[b] {
			continue
		}
		seen[b] = true
		if hit[b] {
			continue
		}
		for _, ins := range b.Instrs {
			if _, ok := ins.(*ssa.Return); ok {
				return false
			}
		}
		stack = append(stack, b.Succs...)
	}
	for _, b := range fn.Blocks {
		if b == fn.Recover {
			continue
		}
		for _, ins := range b.Instrs {
			if _, ok := ins.(*ssa.Return); ok {
				hasReturn = true
			}
		}
	}
	return hasReturn
}

// progressSets are the computed "advancing" and "blocking" function sets.
type progressSets struct {
	advancing map[*ssa.Function]bool
	blocking  map[*ssa.Function]bool
	cursorFns []*ssa.Function
}

func (p *Program) progressSets() *progressSets {
	scope := p.RepoFuncs(modPath)
	ps := &progressSets{}
	// base: functions that increment the cursor field (proto.Array.index)
	baseAdv := map[*ssa.Function]bool{}
	for _, fn := range p.RepoFuncs(pkgProto) {
		allInstrs(fn, func(ins ssa.Instruction) {
			st, ok := ins.(*ssa.Store)
			if !ok {
				return
			}
			owner, field, _, ok := fieldOf(st.Addr)
			if !ok || owner != "proto.Array" || field != "index" {
				return
			}
			if bo, ok := st.Val.(*ssa.BinOp); ok && bo.Op == token.ADD {
				if c, ok := constInt(bo.Y); ok && c >= 1 {
					baseAdv[fn] = true
				}
			}
		})
	}
	for f := range baseAdv {
		ps.cursorFns = append(ps.cursorFns, f)
	}
	ps.advancing = p.mustCallSet(func(cc *ssa.CallCommon) bool {
		c := staticCallee(cc)
		return c != nil && baseAdv[c]
	}, scope)
	for f := range baseAdv {
		ps.advancing[f] = true
	}
	ps.blocking = p.mustCallSet(func(cc *ssa.CallCommon) bool {
		return nameIn(calleeName(cc), blockingReadNames...)
	}, scope)
	return ps
}

// LoopVerdict is the result for one loop.
type LoopVerdict struct {
	OK       bool
	Reason   string
	Witness  []string
	Progress []string
}

// checkLoop decides A4 for one loop.
func (p *Program) checkLoop(fn *ssa.Function, l *Loop, ps *progressSets) LoopVerdict {
	removed := map[*ssa.BasicBlock]bool{}
	var events []string
	variant := map[ssa.Value]bool{} // values produced by progress events (for the exit-dependence test)
	mark := func(b *ssa.BasicBlock, why string, v ssa.Value) {
		removed[b] = true
		events = append(events, fmt.Sprintf("block %d: %s", b.Index, why))
		if v != nil {
			variant[v] = true
		}
	}
	for _, b := range l.sortedBlocks() {
		for _, ins := range b.Instrs {
			switch x := ins.(type) {
			case *ssa.Call:
				cc := x.Common()
				n := calleeName(cc)
				if n == "time.Sleep" || n == "(*time.Timer).Reset" {
					mark(b, "timed wait "+n, x)
					continue
				}
				if nameIn(n, blockingReadNames...) {
					if readFailureLeavesLoop(x, l) {
						mark(b, "blocking read/accept "+n, x)
					} else {
						events = append(events, fmt.Sprintf("block %d: %s, but its error does not end the loop: at end of stream (or on a closed connection) it returns at once, for ever", b.Index, n))
					}
					continue
				}
				if cc.IsInvoke() {
					// an interface of the repository whose every implementation advances the cursor
					ts := p.calleesAt(x)
					all := len(ts) > 0
					for _, t := range ts {
						if !ps.advancing[t] {
							all = false
						}
					}
					if all {
						mark(b, "argument cursor advanced through interface method "+cc.Method.Name(), x)
						continue
					}
				}
				if c := staticCallee(cc); c != nil {
					if ps.advancing[c] {
						mark(b, "argument cursor advanced by "+fnName(c), x)
					} else if ps.blocking[c] {
						if readFailureLeavesLoop(x, l) {
							mark(b, "blocking read inside "+fnName(c), x)
						} else {
							events = append(events, fmt.Sprintf("block %d: read inside %s, but its error does not end the loop", b.Index, fnName(c)))
						}
					}
				}
			case *ssa.Next:
				mark(b, "range iteration (map/string)", x)
			case *ssa.Select:
				// a blocking select all of whose cases wait for a clock (Timer.C, Ticker.C,
				// time.After, time.Tick): the cycle sleeps until the clock fires
				if x.Blocking && len(x.States) > 0 {
					all := true
					for _, st := range x.States {
						if st.Dir != types.RecvOnly || !isClockChannel(st.Chan) {
							all = false
						}
					}
					if all {
						mark(b, "timed wait (select on timer/ticker channels)", x)
					}
				}
			case *ssa.UnOp:
				if x.Op == token.ARROW && isClockChannel(x.X) {
					mark(b, "timed wait (receive from a timer/ticker channel)", x)
				}
			}
		}
	}
	// integer counters: header-or-loop phi whose in-loop edge is phi ± nonzero
	for _, b := range l.sortedBlocks() {
		for _, ins := range b.Instrs {
			phi, ok := ins.(*ssa.Phi)
			if !ok {
				break
			}
			for i, e := range phi.Edges {
				if i >= len(b.Preds) || !l.Blocks[b.Preds[i]] {
					continue
				}
				bo, ok := e.(*ssa.BinOp)
				if !ok || (bo.Op != token.ADD && bo.Op != token.SUB) || !l.Blocks[bo.Block()] {
					continue
				}
				var step ssa.Value
				if bo.X == phi {
					step = bo.Y
				} else if bo.Y == phi && bo.Op == token.ADD {
					step = bo.X
				} else {
					continue
				}
				if c, ok := constInt(step); ok {
					if c != 0 {
						mark(bo.Block(), fmt.Sprintf("counter %s stepped by constant %d", phi.Name(), c), phi)
					}
					continue
				}
				if par, ok := step.(*ssa.Parameter); ok {
					if okStep, why := p.paramAlwaysPositive(par); okStep {
						mark(bo.Block(), fmt.Sprintf("counter %s stepped by parameter %s (%s)", phi.Name(), par.Name(), why), phi)
					} else {
						events = append(events, fmt.Sprintf("block %d: counter %s stepped by parameter %s which is NOT provably positive: %s", bo.Block().Index, phi.Name(), par.Name(), why))
					}
				}
			}
		}
	}
	// slices shrinking: phi s; edge = slice s[k:] with k const >= 1
	for _, b := range l.sortedBlocks() {
		for _, ins := range b.Instrs {
			phi, ok := ins.(*ssa.Phi)
			if !ok {
				break
			}
			for i, e := range phi.Edges {
				if i >= len(b.Preds) || !l.Blocks[b.Preds[i]] {
					continue
				}
				if sl, ok := e.(*ssa.Slice); ok && sl.X == phi && sl.Low != nil {
					if c, ok := constInt(sl.Low); ok && c >= 1 {
						mark(sl.Block(), "slice shortened from the front", phi)
					}
				}
			}
		}
	}
	if cyc := l.cycleAvoiding(removed); cyc != nil {
		return LoopVerdict{OK: false, Reason: "a cycle of the loop contains no progress event (cursor advance, counter step, blocking read, range step): the loop can spin", Witness: append(blockPath(p, cyc), events...), Progress: events}
	}
	// exit dependence: some exit edge's condition must depend on a loop-variant value
	hasExit, variantExit := false, false
	for _, b := range l.sortedBlocks() {
		for _, s := range b.Succs {
			if l.Blocks[s] {
				continue
			}
			hasExit = true
			if len(b.Instrs) == 0 {
				continue
			}
			if iff, ok := b.Instrs[len(b.Instrs)-1].(*ssa.If); ok {
				if dependsOnLoop(iff.Cond, l, 0, map[ssa.Value]bool{}) {
					variantExit = true
				}
			}
		}
	}
	// a return inside the loop body (block without successors other than via return) counts as exit
	for _, b := range l.sortedBlocks() {
		for _, ins := range b.Instrs {
			if _, ok := ins.(*ssa.Return); ok {
				hasExit, variantExit = true, true
			}
		}
	}
	if !hasExit {
		// loops that only end by a return in a block outside the natural loop are covered above
		// (edge to that block is an exit edge). No exit at all: only acceptable for accept loops,
		// whose every cycle blocks in Accept: report as not OK unless every cycle blocks.
		return LoopVerdict{OK: false, Reason: "the loop has no exit edge at all", Progress: events}
	}
	if !variantExit {
		return LoopVerdict{OK: false, Reason: "every exit condition of the loop depends only on values that do not change inside the loop: it ends on the first test or never", Progress: events}
	}
	return LoopVerdict{OK: true, Progress: events}
}

// dependsOnLoop: backward slice of v reaches a value defined inside the loop that can vary
// between iterations (phi, call result, load, range step).
func dependsOnLoop(v ssa.Value, l *Loop, depth int, seen map[ssa.Value]bool) bool {
	if v == nil || depth > 12 || seen[v] {
		return false
	}
	seen[v] = true
	ins, ok := v.(ssa.Instruction)
	if !ok {
		return false
	}
	if !l.Blocks[ins.Block()] {
		return false
	}
	switch x := v.(type) {
	case *ssa.Phi, *ssa.Call, *ssa.Next:
		_ = x
		return true
	case *ssa.UnOp:
		if x.Op == token.MUL || x.Op == token.ARROW {
			return true
		}
	case *ssa.Lookup, *ssa.Index:
		return true
	}
	var ops []*ssa.Value
	for _, o := range ins.Operands(ops) {
		if o != nil && dependsOnLoop(*o, l, depth+1, seen) {
			return true
		}
	}
	return false
}

// paramAlwaysPositive: every static call site of par's function passes a positive constant (or a
// value that is itself such a parameter of the caller).
func (p *Program) paramAlwaysPositive(par *ssa.Parameter) (bool, string) {
	fn := par.Parent()
	idx := -1
	for i, q := range fn.Params {
		if q == par {
			idx = i
		}
	}
	if idx < 0 {
		return false, "parameter not found"
	}
	sites := 0
	var bad []string
	for f := range p.AllFunctions() {
		if f.Blocks == nil {
			continue
		}
		allInstrs(f, func(ins ssa.Instruction) {
			cc := callCommon(ins)
			if cc == nil || staticCallee(cc) != fn {
				return
			}
			sites++
			if idx >= len(cc.Args) {
				bad = append(bad, p.instrPos(ins)+": argument missing")
				return
			}
			a := cc.Args[idx]
			if c, ok := constInt(a); ok {
				if c <= 0 {
					bad = append(bad, fmt.Sprintf("%s passes %d", p.instrPos(ins), c))
				}
				return
			}
			bad = append(bad, fmt.Sprintf("%s passes a non-constant value", p.instrPos(ins)))
		})
	}
	// the method may also be called through an interface / method value: look for address-taken uses
	if sites == 0 {
		return false, "no static call site found"
	}
	if len(bad) > 0 {
		return false, strings.Join(bad, "; ")
	}
	return true, fmt.Sprintf("positive constant at all %d static call sites", sites)
}

// readFailureLeavesLoop: a read blocks only while the stream is open; once it fails it returns
// immediately. It is a progress event of loop l only if its error is tested (directly or as the
// loop-carried copy) and the failing side cannot come back to the loop header.
func readFailureLeavesLoop(call *ssa.Call, l *Loop) bool {
	// blocks of the loop that wait by themselves: a failing read that goes through one of
	// them before the next iteration does not spin
	waits := map[*ssa.BasicBlock]bool{}
	for b := range l.Blocks {
		for _, ins := range b.Instrs {
			if c2, ok := ins.(*ssa.Call); ok {
				if n := calleeName(c2.Common()); n == "time.Sleep" {
					waits[b] = true
				}
			}
		}
	}
	var errV ssa.Value
	if tup, ok := call.Type().(*types.Tuple); ok {
		if call.Referrers() != nil {
			for _, r := range *call.Referrers() {
				if ex, ok := r.(*ssa.Extract); ok && ex.Index == tup.Len()-1 && isErrorType(ex.Type()) {
					errV = ex
				}
			}
		}
		if !isErrorType(tup.At(tup.Len() - 1).Type()) {
			return true // no error result (Accept-less helper): nothing to test
		}
	} else if isErrorType(call.Type()) {
		errV = call
	} else {
		return true
	}
	if errV == nil {
		return false
	}
	alias := map[ssa.Value]bool{errV: true}
	if errV.Referrers() != nil {
		for _, r := range *errV.Referrers() {
			if phi, ok := r.(*ssa.Phi); ok {
				alias[phi] = true
			}
		}
	}
	tested := false
	for _, b := range l.sortedBlocks() {
		if len(b.Instrs) == 0 {
			continue
		}
		iff, ok := b.Instrs[len(b.Instrs)-1].(*ssa.If)
		if !ok || len(b.Succs) != 2 {
			continue
		}
		for idx := 0; idx < 2; idx++ {
			isErrEdge := false
			for _, at := range atomsOf(iff.Cond, idx == 0) {
				if at.Kind == "nil" && !at.Pos && alias[at.X] {
					isErrEdge = true
				}
			}
			if !isErrEdge {
				continue
			}
			tested = true
			s := b.Succs[idx]
			if !l.Blocks[s] {
				continue
			}
			// stays in the loop: must not reach the header again
			seen := map[*ssa.BasicBlock]bool{}
			st := []*ssa.BasicBlock{s}
			for len(st) > 0 {
				x := st[len(st)-1]
				st = st[:len(st)-1]
				if seen[x] || !l.Blocks[x] || waits[x] {
					continue
				}
				seen[x] = true
				if x == l.Header {
					return false
				}
				st = append(st, x.Succs...)
			}
		}
	}
	if tested {
		return true
	}
	// `for n == 1 && err == nil && ...`: the loop condition is a conjunction whose failure
	// leaves the loop; the error takes part in it when some exit edge carries "err != nil OR ..."
	// — accepted when the header condition mentions the error and its false side exits
	for _, b := range l.sortedBlocks() {
		if len(b.Instrs) == 0 {
			continue
		}
		iff, ok := b.Instrs[len(b.Instrs)-1].(*ssa.If)
		if !ok || len(b.Succs) != 2 {
			continue
		}
		if bo, ok := iff.Cond.(*ssa.BinOp); ok && (bo.Op == token.EQL || bo.Op == token.NEQ) {
			for _, pr := range [][2]ssa.Value{{bo.X, bo.Y}, {bo.Y, bo.X}} {
				if alias[pr[0]] && isNilConst(pr[1]) {
					errIdx := 1 // err == nil: false side is the error side
					if bo.Op == token.NEQ {
						errIdx = 0
					}
					if !l.Blocks[b.Succs[errIdx]] {
						return true
					}
				}
			}
		}
	}
	return false
}

// clientBoundedLoops: A4 counts a stepped counter as progress, which is right for termination
// but not for "no request makes the connection spin or stall" when the bound is an integer the
// client chose: `for n := 0; n < count; n++ { if empty { continue } ... }` runs 2^63 times.
// Such a loop is acceptable when every cycle also does the work the count stands for (takes an
// element from a slice of the store, appends the result of a read, ...), i.e. is additionally
// bounded by existing data; a cycle that only steps the counter is reported.
func (p *Program) clientBoundedLoopVerdict(fn *ssa.Function, l *Loop) (applies bool, ok bool, why string) {
	// a counter phi compared with a parameter-derived bound
	var fromParam func(v ssa.Value, d int) bool
	fromParam = func(v ssa.Value, d int) bool {
		if v == nil || d > 6 {
			return false
		}
		switch x := v.(type) {
		case *ssa.Parameter:
			return isIntType(x.Type()) && p.paramMayCarryClientInt(x)
		case *ssa.BinOp:
			return fromParam(x.X, d+1) || fromParam(x.Y, d+1)
		case *ssa.Convert:
			return fromParam(x.X, d+1)
		case *ssa.Phi:
			if l.Blocks[x.Block()] {
				return false
			}
			for _, e := range x.Edges {
				if fromParam(e, d+1) {
					return true
				}
			}
		}
		return false
	}
	bounded := false
	for _, b := range l.sortedBlocks() {
		if len(b.Instrs) == 0 {
			continue
		}
		iff, ok := b.Instrs[len(b.Instrs)-1].(*ssa.If)
		if !ok {
			continue
		}
		exits := false
		for _, s := range b.Succs {
			if !l.Blocks[s] {
				exits = true
			}
		}
		if !exits {
			continue
		}
		for _, at := range atomsOf(iff.Cond, true) {
			if at.Kind != "lt" && at.Kind != "le" {
				continue
			}
			cnt, bound := at.X, at.Y
			if ph, ok := linOf(cnt).base.(*ssa.Phi); ok && l.Blocks[ph.Block()] && fromParam(bound, 0) && !mentionsLen(bound, 0) {
				bounded = true
			}
		}
	}
	if !bounded {
		return false, true, ""
	}
	// work events: a slice held in a field shortened, a map entry deleted, a blocking read
	work := map[*ssa.BasicBlock]bool{}
	for b := range l.Blocks {
		for _, ins := range b.Instrs {
			if cl, ok := ins.(*ssa.Call); ok && nameIn(calleeName(cl.Common()), blockingReadNames...) {
				work[b] = true
			}
			switch x := ins.(type) {
			case *ssa.Store:
				if sl, ok := x.Val.(*ssa.Slice); ok {
					if _, _, _, isField := fieldOf(x.Addr); isField {
						if (sl.Low != nil || sl.High != nil) && sameFieldLoad(sl.X, x.Addr) {
							work[b] = true
						}
					}
				}
			case *ssa.Call:
				if bi, ok := x.Common().Value.(*ssa.Builtin); ok && bi.Name() == "delete" {
					work[b] = true
				}
			}
		}
	}
	if cyc := l.cycleAvoiding(work); cyc != nil {
		return true, false, "the loop is bounded only by an integer the client supplies, and a cycle of it does nothing but step the counter (no element taken, nothing deleted): a huge count keeps the connection busy for ever"
	}
	return true, true, "bounded by a client integer, but every cycle consumes stored data"
}

func sameFieldLoad(v ssa.Value, addr ssa.Value) bool {
	ld, ok := v.(*ssa.UnOp)
	if !ok || ld.Op != token.MUL {
		return false
	}
	fa1, ok1 := ld.X.(*ssa.FieldAddr)
	fa2, ok2 := addr.(*ssa.FieldAddr)
	return ok1 && ok2 && fa1.Field == fa2.Field && fa1.X == fa2.X
}

// mentionsLen: the expression contains a len(...) (the bound is tied to existing data).
func mentionsLen(v ssa.Value, d int) bool {
	if v == nil || d > 6 {
		return false
	}
	switch x := v.(type) {
	case *ssa.Call:
		if bi, ok := x.Common().Value.(*ssa.Builtin); ok && (bi.Name() == "len" || bi.Name() == "cap") {
			return true
		}
		if bi, ok := x.Common().Value.(*ssa.Builtin); ok && (bi.Name() == "min" || bi.Name() == "max") {
			// min(...) is bounded by any length among its operands; max(...) only if all are
			any, all := false, true
			for _, a := range x.Common().Args {
				if mentionsLen(a, d+1) {
					any = true
				} else if _, isC := a.(*ssa.Const); !isC {
					all = false
				}
			}
			if bi.Name() == "min" {
				return any
			}
			return any && all
		}
		// Size()-style accessors of the repository returning a length
		if h := staticCallee(x.Common()); h != nil && inRepo(h) && h.Blocks != nil {
			for _, r := range returnsOf(h) {
				if len(r.Results) == 1 && linOf(retOperand(r, 0)).isLen {
					return true
				}
			}
		}
	case *ssa.BinOp:
		return mentionsLen(x.X, d+1) || mentionsLen(x.Y, d+1)
	case *ssa.Convert:
		return mentionsLen(x.X, d+1)
	case *ssa.Phi:
		// tied to existing data only if it is on every way in: `if stop < 0 { stop += len }`
		// leaves a non-negative client value as it came
		for i, e := range x.Edges {
			if e == ssa.Value(x) || mentionsLen(e, d+1) {
				continue
			}
			// the value comes as it is, but only where a test has bounded it by a length:
			// `if len(s)-1 < stop { stop = len(s)-1 }` leaves stop <= len(s)-1 on the other edge
			pred := x.Block().Preds[i]
			fs := append(append([]Atom{}, factsAt(pred)...), edgeFacts(pred, succIndex(pred, x.Block()))...)
			bounded := false
			for _, at := range fs {
				if at.Kind != "lt" && at.Kind != "le" {
					continue
				}
				small, big := at.X, at.Y
				if !at.Pos {
					small, big = at.Y, at.X
				}
				if strip(small) == strip(e) && mentionsLen(big, d+1) {
					bounded = true
				}
			}
			if !bounded {
				return false
			}
		}
		return len(x.Edges) > 0
	}
	return false
}

// paramMayCarryClientInt: some caller in the repository passes a value that is not a constant
// (or the function has no static caller at all: it is reached through an interface, as the
// handler methods of the example store are).
func (p *Program) paramMayCarryClientInt(par *ssa.Parameter) bool {
	fn := par.Parent()
	idx := -1
	for i, q := range fn.Params {
		if q == par {
			idx = i
		}
	}
	sites := p.staticCallSites(fn)
	n := 0
	for _, s := range sites {
		if !inProd(s.Parent()) {
			continue
		}
		n++
		args := s.Common().Args
		if idx < 0 || idx >= len(args) {
			return true
		}
		if _, isC := args[idx].(*ssa.Const); isC {
			continue
		}
		// a bound computed from the length of existing data, or a counter of the caller's own loop
		if mentionsLen(args[idx], 0) || localCounter(args[idx], 0) {
			continue
		}
		return true
	}
	return n == 0
}

// isClockChannel: the C field of a *time.Timer / *time.Ticker, or the result of time.After/Tick.
func isClockChannel(v ssa.Value) bool {
	v = strip(v)
	if ld, ok := v.(*ssa.UnOp); ok && ld.Op == token.MUL {
		if fa, ok := ld.X.(*ssa.FieldAddr); ok {
			t := typeName(deref(fa.X.Type()))
			return (t == "time.Timer" || t == "time.Ticker") && derefStruct(fa.X.Type()).Field(fa.Field).Name() == "C"
		}
	}
	if call, ok := v.(*ssa.Call); ok {
		return nameIn(calleeName(call.Common()), "time.After", "time.Tick")
	}
	return false
}
