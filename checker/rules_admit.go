package main

// rules_admit.go: balanced admission accounting. A counter (or semaphore channel) kept in a
// server-wide struct that is stepped up when a connection is accepted must be stepped down on
// every way the goroutine serving that connection can end — including the early returns that
// precede the registration of the connection (failed TLS handshake, refused certificate).
// Otherwise every such ending leaks one slot, and after `limit` of them the server refuses
// every client.

import (
	"fmt"
	"go/token"
	"go/types"
	"sort"
	"strings"

	"golang.org/x/tools/go/ssa"
)

type slotOp struct {
	field string
	up    bool
	ins   ssa.Instruction
}

// slotOpsOf: increments/decrements of integer fields of framework structs, and sends/receives
// on channel fields, inside fn.
func slotOpsOf(fn *ssa.Function) []slotOp {
	var out []slotOp
	allInstrs(fn, func(ins ssa.Instruction) {
		switch x := ins.(type) {
		case *ssa.Store:
			fa, ok := x.Addr.(*ssa.FieldAddr)
			if !ok || !isIntType(x.Val.Type()) {
				return
			}
			bo, ok := x.Val.(*ssa.BinOp)
			if !ok || (bo.Op != token.ADD && bo.Op != token.SUB) {
				return
			}
			ld, ok := bo.X.(*ssa.UnOp)
			if !ok || ld.Op != token.MUL {
				return
			}
			fa2, ok := ld.X.(*ssa.FieldAddr)
			if !ok || fa2.Field != fa.Field || strip(fa2.X) != strip(fa.X) {
				return
			}
			cst, ok := constInt(bo.Y)
			if !ok || cst == 0 {
				return
			}
			owner, f, _, okF := fieldOf(fa)
			if !okF || !strings.HasPrefix(owner, "redis.") {
				return
			}
			up := (bo.Op == token.ADD) == (cst > 0)
			out = append(out, slotOp{owner + "." + f, up, ins})
		case *ssa.Call:
			n := calleeName(x.Common())
			if strings.HasPrefix(n, "(*sync/atomic.Int") && strings.HasSuffix(n, ").Add") && len(x.Common().Args) == 2 {
				if cst, ok := constInt(x.Common().Args[1]); ok && cst != 0 {
					if owner, f, _, okF := fieldOf(x.Common().Args[0]); okF && strings.HasPrefix(owner, "redis.") {
						out = append(out, slotOp{owner + "." + f, cst > 0, ins})
					}
				}
			}
		case *ssa.Send:
			if owner, f, _, ok := fieldOf(x.Chan); ok && strings.HasPrefix(owner, "redis.") {
				out = append(out, slotOp{owner + "." + f, true, ins})
			}
		case *ssa.UnOp:
			if x.Op == token.ARROW {
				if owner, f, _, ok := fieldOf(x.X); ok && strings.HasPrefix(owner, "redis.") {
					if _, isChan := x.X.Type().Underlying().(*types.Chan); isChan {
						out = append(out, slotOp{owner + "." + f, false, ins})
					}
				}
			}
		}
	})
	return out
}

func ruleAdmissionBalanced(c *Ctx, rid string) {
	c.rule(rid, "admission accounting: for every counter field (or semaphore channel) of a framework struct that some function steps up and some function steps down, every goroutine started in a function that has stepped the counter up (directly or through helpers) steps it down on every path from its entry to its return — by a call or a deferred call of a function that steps it down on all of its own paths")
	ups := map[string]map[*ssa.Function]bool{}
	downs := map[string]map[*ssa.Function]bool{}
	for _, fn := range c.P.RepoFuncs(pkgRedis) {
		if !inFramework(fn) || !inProd(fn) {
			continue
		}
		for _, op := range slotOpsOf(fn) {
			m := ups
			if !op.up {
				m = downs
			}
			if m[op.field] == nil {
				m[op.field] = map[*ssa.Function]bool{}
			}
			m[op.field][fn] = true
		}
	}
	var fields []string
	for f := range ups {
		if len(downs[f]) > 0 {
			fields = append(fields, f)
		}
	}
	sort.Strings(fields)
	c.count("admission-counters", len(fields))
	if len(fields) == 0 {
		c.ok(rid, "no-admission-counter", "", "no field of a framework struct is both stepped up and stepped down: nothing to balance")
		return
	}
	for _, field := range fields {
		// functions that may step up (transitively, static calls, depth 3)
		mayUp := map[*ssa.Function]bool{}
		for f := range ups[field] {
			mayUp[f] = true
		}
		for d := 0; d < 3; d++ {
			for _, fn := range c.P.RepoFuncs(pkgRedis) {
				if mayUp[fn] || fn.Blocks == nil {
					continue
				}
				for _, cal := range calleesIn(fn) {
					if mayUp[cal] {
						mayUp[fn] = true
					}
				}
			}
		}
		// functions that step down on all of their paths
		alwaysDown := map[*ssa.Function]bool{}
		var decide func(fn *ssa.Function, d int) bool
		decide = func(fn *ssa.Function, d int) bool {
			if v, ok := alwaysDown[fn]; ok {
				return v
			}
			alwaysDown[fn] = false
			if fn == nil || fn.Blocks == nil || d > 3 {
				return false
			}
			res := mustPassThrough(fn, func(ins ssa.Instruction) bool {
				for _, op := range slotOpsOf(fn) {
					if op.ins == ins && op.field == field && !op.up {
						return true
					}
				}
				// a saturation guard on the counter itself (`if n <= 0 { return }`) is not a way
				// of keeping the slot
				if ins == ins.Block().Instrs[0] {
					for _, at := range factsAt(ins.Block()) {
						if at.Kind != "lt" && at.Kind != "le" && at.Kind != "eq" {
							continue
						}
						for _, v := range []ssa.Value{at.X, at.Y} {
							if owner, f, _, ok := fieldOf(v); ok && owner+"."+f == field {
								return true
							}
						}
					}
				}
				if cc := callCommon(ins); cc != nil {
					if _, isGo := ins.(*ssa.Go); isGo {
						return false
					}
					if cal := staticCallee(cc); cal != nil && inFramework(cal) && cal != fn && decide(cal, d+1) {
						return true
					}
				}
				return false
			})
			alwaysDown[fn] = res
			return res
		}
		n := 0
		for _, gs := range c.P.goSites(pkgRedis) {
			h := gs.In
			// does h step the counter up before the go statement (same function, any earlier point
			// that can reach the go statement)?
			acquires := false
			allInstrs(h, func(ins ssa.Instruction) {
				cc := callCommon(ins)
				if cc == nil {
					return
				}
				if _, isGo := ins.(*ssa.Go); isGo {
					return
				}
				if cal := staticCallee(cc); cal != nil && mayUp[cal] {
					if ins.Block() == gs.Go.Block() || reachableBlocks(ins.Block(), nil)[gs.Go.Block()] {
						// not on the branch where the acquisition reported failure
						failed := false
						if v, isVal := ins.(ssa.Value); isVal {
							for _, at := range factsAt(gs.Go.Block()) {
								if at.Kind == "val" && !at.Pos && at.X == v {
									failed = true
								}
								if at.Kind == "call" && !at.Pos && at.Call != nil && ssa.Value(at.Call) == v {
									failed = true
								}
							}
						}
						if !failed {
							acquires = true
						}
					}
				}
			})
			for _, op := range slotOpsOf(h) {
				if op.field == field && op.up {
					acquires = true
				}
			}
			if !acquires || gs.Target == nil {
				continue
			}
			n++
			c.analysed(gs.Target)
			// the goroutine as written at the go statement (a wrapper closure may hold the release)
			target := staticCallee(gs.Go.Common())
			if target == nil {
				target = gs.Target
			}
			ok := decide(target, 0)
			key := fmt.Sprintf("%s/%s:go:%s", fnName(h), field, fnName(target))
			c.check(ok, rid, key, c.P.instrPos(gs.Go), "the goroutine steps "+field+" down on every path to its return", "the goroutine started here can end without stepping "+field+" down again (an early return before the release is registered — a failed handshake, a refused certificate): each such ending leaks a slot, and after the limit is reached the server refuses every client")
		}
		c.count("admission-goroutines:"+field, n)
	}
}

// mustPassThrough: every path from the entry of fn to a return executes an instruction
// accepted by hit (a deferred call counts from its registration on: it runs at every return
// that follows).
func mustPassThrough(fn *ssa.Function, hit func(ssa.Instruction) bool) bool {
	if fn == nil || fn.Blocks == nil {
		return false
	}
	type st struct {
		b    *ssa.BasicBlock
		done bool
	}
	seen := map[st]bool{}
	var walk func(b *ssa.BasicBlock, done bool) bool
	walk = func(b *ssa.BasicBlock, done bool) bool {
		k := st{b, done}
		if seen[k] {
			return true
		}
		seen[k] = true
		for _, ins := range b.Instrs {
			if d, ok := ins.(*ssa.Defer); ok {
				if hit(d) {
					done = true
				}
				continue
			}
			if _, ok := ins.(*ssa.Return); ok {
				if b == fn.Recover {
					return true
				}
				return done
			}
			if _, ok := ins.(*ssa.Panic); ok {
				return true
			}
			if !done && hit(ins) {
				done = true
			}
		}
		for _, s := range b.Succs {
			if !walk(s, done) {
				return false
			}
		}
		return true
	}
	return walk(fn.Blocks[0], false)
}

// ruleNoWaitInExecutors: while an executor waits on a clock (a polling loop for a blocking
// command), nobody reads the connection: the client's FIN or RST is not seen, and with an
// unbounded wait (BLPOP key 0) socket, goroutine and registry entry stay for ever.
func ruleNoWaitInExecutors(c *Ctx, rid string) {
	c.rule(rid, "no function reachable from a registered executor (framework code) sleeps or waits on a timer/ticker channel: the connection goroutine blocks only in transport reads and writes, where the end of the connection is noticed")
	execs, _ := c.P.executors()
	var roots []*ssa.Function
	for _, e := range execs {
		roots = append(roots, e.Fn)
	}
	reach := c.P.repoReach(roots, inFramework)
	for f := range reach {
		for _, a := range f.AnonFuncs {
			reach[a] = true
		}
	}
	n, bad := 0, 0
	var fns []*ssa.Function
	for f := range reach {
		fns = append(fns, f)
	}
	sort.Slice(fns, func(i, j int) bool { return fnName(fns[i]) < fnName(fns[j]) })
	for _, fn := range fns {
		if fn.Blocks == nil {
			continue
		}
		n++
		allInstrs(fn, func(ins ssa.Instruction) {
			what := ""
			switch x := ins.(type) {
			case *ssa.Call:
				if nameIn(calleeName(x.Common()), "time.Sleep", "time.After", "time.Tick", "time.NewTimer", "time.NewTicker") {
					what = calleeName(x.Common())
				}
			case *ssa.UnOp:
				if x.Op == token.ARROW && isClockChannel(x.X) {
					what = "receive from a timer channel"
				}
			case *ssa.Select:
				for _, st := range x.States {
					if isClockChannel(st.Chan) {
						what = "select on a timer channel"
					}
				}
			}
			if what != "" {
				bad++
				c.bad(rid, fmt.Sprintf("%s/wait#%d", c.P.key(fn), bad), c.P.instrPos(ins), "an executor waits on a clock ("+what+"): while it waits nobody reads the socket, so a client that has gone away is not noticed and its socket, goroutine and registry entry are kept for as long as the wait lasts")
			}
		})
	}
	c.count("executor-reachable-functions", n)
	c.floor("executor-reachable-functions", 60)
	if bad == 0 {
		c.ok(rid, "no-wait-in-executors", "", fmt.Sprintf("%d functions reachable from executors; none waits on a clock", n))
	}
}
