package main

// rules_reentrant.go: the parser is re-entrant — an array is read by calling the parser again for
// every element — so slice memory that belongs to the parser object (a scratch slice kept in a
// field to save allocations) is shared by all activations on the stack. A value that aliases such
// memory, obtained before a call back into the recursive cycle and used after it, is used after a
// nested activation has written (or truncated, cleared, re-allocated) the same memory: elements
// collected by the outer array are overwritten or become absent. The rule is structural: it asks
// for no such value; a scratch that is reloaded after every nested call (a stack discipline with
// offsets) is not reported.

import (
	"fmt"
	"go/types"
	"sort"

	"golang.org/x/tools/go/ssa"
)

// recursiveCycle: the functions of scope that lie on a static-call cycle inside scope, and for
// each of them the call sites that lead back into the cycle.
func recursiveCycle(scope []*ssa.Function) (cyc []*ssa.Function, reentrant map[*ssa.Function][]*ssa.Call) {
	sset := scopeSet(scope)
	calls := map[*ssa.Function][]*ssa.Call{}
	for _, f := range scope {
		allInstrs(f, func(ins ssa.Instruction) {
			if call, ok := ins.(*ssa.Call); ok {
				if cal := staticCallee(call.Common()); cal != nil && sset[cal] {
					calls[f] = append(calls[f], call)
				}
			}
		})
	}
	reach := func(from *ssa.Function) map[*ssa.Function]bool {
		seen := map[*ssa.Function]bool{}
		var st []*ssa.Function
		for _, cl := range calls[from] {
			st = append(st, staticCallee(cl.Common()))
		}
		for len(st) > 0 {
			x := st[len(st)-1]
			st = st[:len(st)-1]
			if seen[x] {
				continue
			}
			seen[x] = true
			for _, cl := range calls[x] {
				st = append(st, staticCallee(cl.Common()))
			}
		}
		return seen
	}
	reentrant = map[*ssa.Function][]*ssa.Call{}
	for _, f := range scope {
		if !reach(f)[f] {
			continue
		}
		cyc = append(cyc, f)
		for _, cl := range calls[f] {
			callee := staticCallee(cl.Common())
			if callee == f || reach(callee)[f] {
				reentrant[f] = append(reentrant[f], cl)
			}
		}
	}
	return cyc, reentrant
}

// ownedSliceViews: the values of f that alias slice memory reachable from a field of an object
// that outlives the activation (a slice-typed field of a struct not allocated in f), with the
// "Owner.field" they come from.
func ownedSliceViews(f *ssa.Function) map[ssa.Value]string {
	views := map[ssa.Value]string{}
	allInstrs(f, func(ins ssa.Instruction) {
		v, ok := ins.(ssa.Value)
		if !ok {
			return
		}
		if _, isSlice := v.Type().Underlying().(*types.Slice); !isSlice {
			return
		}
		switch x := v.(type) {
		case *ssa.UnOp, *ssa.Field:
			owner, field, base, ok := fieldOf(x)
			if !ok {
				return
			}
			if a, isAlloc := strip(base).(*ssa.Alloc); isAlloc && a.Parent() == f {
				return // a struct built in this activation
			}
			views[v] = owner + "." + field
		}
	})
	for changed := true; changed; {
		changed = false
		allInstrs(f, func(ins ssa.Instruction) {
			v, ok := ins.(ssa.Value)
			if !ok || views[v] != "" {
				return
			}
			src := ""
			switch x := ins.(type) {
			case *ssa.Slice:
				src = views[x.X]
			case *ssa.Phi:
				for _, e := range x.Edges {
					if views[e] != "" {
						src = views[e]
					}
				}
			case *ssa.Call:
				if b, isB := x.Call.Value.(*ssa.Builtin); isB && b.Name() == "append" && len(x.Call.Args) > 0 {
					src = views[x.Call.Args[0]]
				}
			}
			if src != "" {
				views[v] = src
				changed = true
			}
		})
	}
	return views
}

func instrIdx(ins ssa.Instruction) int {
	for i, x := range ins.Block().Instrs {
		if x == ins {
			return i
		}
	}
	return -1
}

// pathAvoiding: some execution path leads from just after instruction a to instruction b without
// executing avoid in between (avoid may be nil).
func pathAvoiding(a, b, avoid ssa.Instruction) bool {
	ab, bb := a.Block(), b.Block()
	ai, bi := instrIdx(a), instrIdx(b)
	var vb *ssa.BasicBlock
	vi := -1
	if avoid != nil && avoid.Block() != nil {
		vb, vi = avoid.Block(), instrIdx(avoid)
	}
	if ab == bb && ai < bi && !(vb == ab && vi > ai && vi < bi) {
		return true
	}
	if vb == ab && vi > ai {
		return false // avoid is executed before a's block is left
	}
	seen := map[*ssa.BasicBlock]bool{}
	st := append([]*ssa.BasicBlock{}, ab.Succs...)
	for len(st) > 0 {
		x := st[len(st)-1]
		st = st[:len(st)-1]
		if seen[x] {
			continue
		}
		seen[x] = true
		if x == bb && !(vb == x && vi < bi) {
			return true
		}
		if x == vb {
			continue
		}
		st = append(st, x.Succs...)
	}
	return false
}

func ruleReentrantScratch(c *Ctx, rid string, scope []*ssa.Function) {
	c.rule(rid, "re-entrancy: in every function on the parser's recursive cycle, no value that aliases slice memory owned by a longer-lived object (a slice-typed field of the parser or of anything else not allocated in the activation) is obtained before a call back into the cycle and used after it, when a function of the cycle writes such memory (element store, append, clear, copy): the nested activation shares that memory")
	cyc, reentrant := recursiveCycle(scope)
	c.count("reentrant-functions", len(cyc))
	type use struct {
		v    ssa.Value
		at   ssa.Instruction
		call *ssa.Call
	}
	written := map[string]bool{}
	found := map[*ssa.Function][]use{}
	nviews := 0
	for _, f := range cyc {
		views := ownedSliceViews(f)
		nviews += len(views)
		for v, src := range views {
			def, _ := v.(ssa.Instruction)
			refs := v.Referrers()
			if refs == nil {
				continue
			}
			for _, u := range *refs {
				switch x := u.(type) {
				case *ssa.Slice, *ssa.Phi, *ssa.DebugRef:
					continue
				case *ssa.Call:
					if b, isB := x.Call.Value.(*ssa.Builtin); isB {
						switch b.Name() {
						case "len", "cap":
							continue
						case "append", "clear":
							if len(x.Call.Args) > 0 && x.Call.Args[0] == v {
								written[src] = true
							}
						case "copy":
							if len(x.Call.Args) > 0 && x.Call.Args[0] == v {
								written[src] = true
							}
						}
					}
				case *ssa.IndexAddr:
					if x.Referrers() != nil {
						for _, r := range *x.Referrers() {
							if st, isSt := r.(*ssa.Store); isSt && st.Addr == x {
								written[src] = true
							}
						}
					}
				case *ssa.Store:
					if x.Val == v {
						if o, fl, _, ok := fieldOf(x.Addr); ok && o+"."+fl == src {
							continue // written back to the field it came from
						}
					}
				}
				for _, cl := range reentrant[f] {
					if cl == u {
						continue
					}
					before := def == nil || def.Block() == nil || pathAvoiding(def, cl, def)
					if before && pathAvoiding(cl, u, def) {
						found[f] = append(found[f], use{v, u, cl})
						break
					}
				}
			}
		}
	}
	c.count("longer-lived-slice-views-in-cycle", nviews)
	for _, f := range cyc {
		c.analysed(f)
		key := "reentrant:" + fnName(f)
		var bad []string
		views := ownedSliceViews(f)
		for _, u := range found[f] {
			if !written[views[u.v]] {
				continue
			}
			bad = append(bad, fmt.Sprintf("%s (memory of %s) is held across the nested call at %s and used at %s", u.v.Name(), views[u.v], c.P.instrPos(u.call), c.P.instrPos(u.at)))
		}
		sort.Strings(bad)
		if len(bad) > 0 {
			c.bad(rid, key, c.P.pos(f.Pos()), "slice memory that nested activations of the parser share is used across a re-entrant call: the nested activation overwrites, clears or re-allocates it (elements of the outer value are lost or absent)", bad...)
			continue
		}
		c.ok(rid, key, c.P.pos(f.Pos()), fmt.Sprintf("%d call(s) back into the cycle; no view of longer-lived slice memory is live across them", len(reentrant[f])))
	}
	if len(cyc) == 0 {
		c.ok(rid, "reentrant", "", "the parser scope is not recursive")
	}
}
