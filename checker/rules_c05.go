package main

import (
	"encoding/json"
	"fmt"
	"os"
	"path/filepath"
	"regexp"
	"sort"
	"strings"

	"golang.org/x/tools/go/ssa"
)

// ExecSig is the extracted signature of one executor.
type ExecSig struct {
	Name    string
	Calls   []string
	Returns string
	Derived string
	Unknown bool
}

func (s ExecSig) String() string {
	return strings.Join(s.Calls, "; ") + " => " + s.Returns
}

func newExtractor(p *Program) *extractor {
	x := &extractor{p: p, callSeen: map[string]bool{}, consume: map[*ssa.Function]*consumeInfo{}, execBy: map[string]*ssa.Function{}}
	execs, _ := p.executors()
	for _, e := range execs {
		x.execBy[e.Name] = e.Fn
	}
	return x
}

// extractSignature evaluates one executor symbolically.
func extractSignature(p *Program, e Executor) ExecSig {
	x := newExtractor(p)
	env := newEnv(x, e.Fn, 0, true, 0)
	if len(e.Fn.Params) == 3 {
		env.bind[e.Fn.Params[0]] = &term{K: "sym", S: "conn"}
		env.bind[e.Fn.Params[1]] = &term{K: "sym", S: "cmd"}
		env.bind[e.Fn.Params[2]] = &term{K: "sym", S: "args"}
	}
	for fv, cv := range e.FreeConst {
		env.fbind[fv] = constTerm(cv)
	}
	if len(e.FreeArg) > 0 && e.Reg != nil {
		regEnv := newEnv(x, e.Reg.Parent(), 0, false, 0)
		for fv, v := range e.FreeArg {
			if t := regEnv.eval(v); t != nil && !t.hasUnknown() {
				env.fbind[fv] = t
			}
		}
	}
	env.evalEffects()
	sig := ExecSig{Name: e.Name}
	var rets []*term
	for _, r := range returnsOf(e.Fn) {
		if r.Block() == e.Fn.Recover || len(r.Results) != 2 || env.deadBlock(r.Block()) {
			continue
		}
		last := retOperand(r, 1)
		if !isNilConst(last) && (definitelyNonNil(strip(last)) || errNonNilAt(r, 1) || isErrCtorCall(strip(last)) || env.onlyErrorPath(r)) {
			continue
		}
		if isNilConst(retOperand(r, 0)) && !isNilConst(last) {
			continue // (nil, err): an error return
		}
		m := env.eval(retOperand(r, 0))
		er := env.eval(last)
		if isNilConst(last) {
			// `return msg, nil` where the handler's error is known nil: the same as `return msg, err`
			for _, at := range factsAt(r.Block()) {
				if ex, ok := at.X.(*ssa.Extract); ok && at.Kind == "nil" && at.Pos && ex.Index == 1 {
					if hc, ok := ex.Tuple.(*ssa.Call); ok && hc.Common().IsInvoke() && isHandlerIface(hc.Common().Value.Type().String()) {
						if mx, ok := strip(retOperand(r, 0)).(*ssa.Extract); ok && mx.Tuple == ex.Tuple {
							er = &term{K: "sym", S: "herr"}
						}
					}
				}
			}
		}
		rets = append(rets, tOp("ret", m, er))
	}
	sig.Returns = tAlt(rets...).String()
	direct := len(rets) > 0
	for _, rt := range rets {
		okRt := false
		for _, hc := range x.calls {
			if rt.String() == "ret("+hc.Method+"#,herr)" {
				okRt = true
			}
		}
		if strings.HasPrefix(rt.String(), "ret(NewErrorNotSupportedMessage(") {
			okRt = true
		}
		if !okRt {
			direct = false
		}
	}
	if direct {
		var ss []string
		for _, rt := range rets {
			if !strings.HasPrefix(rt.String(), "ret(NewErrorNotSupportedMessage(") {
				ss = append(ss, rt.String())
			}
		}
		sort.Strings(ss)
		sig.Returns = strings.Join(ss, "|")
	}
	if !direct && !strings.HasPrefix(sig.Returns, "ret(exec(") {
		sig.Derived = sig.Returns
		sig.Returns = "derived"
	}
	for _, hc := range x.calls {
		var as []string
		for _, a := range hc.Args {
			as = append(as, a.String())
			if a.hasUnknown() {
				sig.Unknown = true
			}
		}
		sig.Calls = append(sig.Calls, hc.Method+"("+strings.Join(as, ", ")+")")
	}
	if strings.Contains(sig.Returns, "?") {
		sig.Unknown = true
	}
	return sig
}

func loadCommandTable(verif string) (map[string]string, error) {
	b, err := os.ReadFile(filepath.Join(verif, "tables", "commands.json"))
	if err != nil {
		return nil, err
	}
	var raw map[string]any
	if err := json.Unmarshal(b, &raw); err != nil {
		return nil, err
	}
	out := map[string]string{}
	for k, v := range raw {
		if strings.HasPrefix(k, "_") {
			continue
		}
		if s, ok := v.(string); ok {
			out[k] = s
		}
	}
	return out, nil
}

var verifRoot = "/verif"

func dumpSignatures(p *Program) {
	execs, _ := p.executors()
	sort.Slice(execs, func(i, j int) bool { return execs[i].Name < execs[j].Name })
	for _, e := range execs {
		s := extractSignature(p, e)
		fmt.Printf("%q: %q,\n", e.Name, s.String())
	}
}

func init() {
	register(&propInfo{ID: "C05", Level: "other", Run: runC05,
		Explanation: "Static rules: R05.a for each of the registered commands the handler-call signature extracted symbolically from the executor's SSA (which request element feeds which handler parameter through which conversion, option keyword -> option field, constant options, rest/pairs collectors in cursor order, the executor's own connection) equals the row of an independent table written from the Redis command reference and the handler interface; R05.b command names are looked up upper-cased, every registered name and every case constant under an upper-cased switch tag is upper case; R05.c an unknown command reaches no executor and executors are invoked only by the dispatcher; R05.d direct commands return the handler's message and error unchanged, and the connection loop replies with that message (or an error reply built from that error). Byte identity of []byte<->string conversions and strconv corner cases are assumed."})
}

func runC05(c *Ctx) {
	ruleSignatures(c, "R05.a")
	ruleCaseInsensitive(c, "R05.b")
	ruleGateBeforeExecutorLite(c, "R05.c")
	ruleHandlerErrorKeepsConn(c, "R05.d")
	ruleNoWriteThroughView(c, "R05.r")
	ruleOwnedBytes(c, "R05.e")
	ruleAccessorsIdentity(c, "R05.f")
	// "precisely the decoded arguments" presupposes that decoding does not depend on how the bytes
	// arrive, and "what the handler returns is what the client receives" that the serialized reply
	// is not shared with another connection
	ruleReaderUses(c, "R05.g", "R05.g")
	ruleBulkFrame(c, "R05.g")
	ruleReplyBufferLocal(c, "R05.h")
	ruleRecycledObjectsReset(c, "R05.p")
	ruleValueRejections(c, "R05.q")
	// "on the connection the request arrived on"
	ruleGoroutineOwnsItsIteration(c, "R05.i")
	// SCAN MATCH hands the handler a compiled pattern: it is the client's glob only if the translation is faithful
	ruleQuotedPattern(c)
	c.assume("[]byte<->string conversions are the identity; strconv parses decimal integers and floats as documented")
}

func ruleSignatures(c *Ctx, rid string) {
	c.rule(rid, "A6: the symbolic signature of every registered executor (sequence of handler-interface calls with each argument as a term over request positions, plus whether the handler's result is returned unchanged) equals its row in /verif/tables/commands.json; an executor without a row, a row without an executor, or a term the extractor cannot read is reported")
	table, err := loadCommandTable(verifRoot)
	if err != nil {
		c.undecided(rid, "table", "", "cannot read tables/commands.json: "+err.Error())
		return
	}
	execs, unres := c.P.executors()
	for _, u := range unres {
		c.undecided(rid, "unresolved-registration", c.P.instrPos(u), "executor registered with a non-constant name or non-literal function")
	}
	seen := map[string]bool{}
	n, newCmds := 0, 0
	for _, e := range execs {
		if seen[e.Name] {
			c.bad(rid, "executor:"+e.Name+"/duplicate", c.P.instrPos(e.Reg), "the command is registered twice: the later registration silently replaces the earlier")
			continue
		}
		seen[e.Name] = true
		c.analysed(e.Fn)
		sig := extractSignature(c.P, e)
		want, ok := table[e.Name]
		key := "executor:" + e.Name
		pos := c.P.pos(e.Fn.Pos())
		switch {
		case !ok:
			// a command added after the oracle table was written: the property's quantifier (the
			// command surface at the pinned commit) does not contain it and there is nothing to
			// compare with; its signature is recorded so that a reader of the evidence sees it
			newCmds++
			c.ok(rid, key+"/not-in-oracle", pos, "command without a row in the oracle table (added after it was written), not compared: "+sig.String())
		case normSig(sig.String()) == normSig(want):
			n++
			c.ok(rid, key, pos, sig.String())
		case sig.Unknown:
			c.undecided(rid, key, pos, "the executor contains a construct the extractor cannot read: "+sig.String(), "expected: "+want)
		default:
			c.bad(rid, key, pos, "the handler is not called with the arguments the client sent: extracted signature differs from the table", "extracted: "+sig.String(), "expected:  "+want, firstDiff(sig.String(), want))
		}
	}
	for name := range table {
		if !seen[name] {
			c.bad(rid, "executor:"+name+"/missing", "", "the table has a row for "+name+" but no executor is registered under that name")
		}
	}
	c.count("executors-with-matching-row", n)
	c.count("executors-not-in-oracle", newCmds)
	c.floor("executors-with-matching-row", 0)
	c.count("executors", len(execs))
	c.floor("executors", 60)
}

func firstDiff(a, b string) string {
	i := 0
	for i < len(a) && i < len(b) && a[i] == b[i] {
		i++
	}
	lo := i - 30
	if lo < 0 {
		lo = 0
	}
	hiA, hiB := i+40, i+40
	if hiA > len(a) {
		hiA = len(a)
	}
	if hiB > len(b) {
		hiB = len(b)
	}
	return fmt.Sprintf("first difference at offset %d: ...%s  <>  ...%s", i, a[lo:hiA], b[lo:hiB])
}

func ruleCaseInsensitive(c *Ctx, rid string) {
	c.rule(rid, "the executor table is indexed with strings.ToUpper(command name); every registered name equals its upper-casing; every case constant of a switch whose tag is strings.ToUpper(x) is upper case (a mixed-case constant is dead code); option keywords are compared after strings.ToUpper")
	for _, d := range c.P.dispatchers() {
		call, ok := d.KeyExpr.(*ssa.Call)
		okKey := ok && calleeName(call.Common()) == "strings.ToUpper"
		if okKey {
			_, isPar := strip(call.Common().Args[0]).(*ssa.Parameter)
			okKey = isPar
		}
		c.check(okKey, rid, fnName(d.Fn)+"/lookup-key", c.P.instrPos(d.Lookup), "lookup key = strings.ToUpper(cmd)", "the executor table is not indexed with the upper-cased command name: commands are matched case-sensitively (or by another transformation)")
	}
	execs, _ := c.P.executors()
	for _, e := range execs {
		if e.Name != strings.ToUpper(e.Name) {
			c.bad(rid, "registered-name/"+e.Name, c.P.instrPos(e.Reg), "a command is registered under a name that is not upper case: the upper-cased lookup can never find it")
		}
	}
	c.ok(rid, "registered-names", "", fmt.Sprintf("%d registered names are upper case", len(execs)))
	// case constants under upper-cased tags
	n, bad := 0, 0
	for _, fn := range c.P.RepoFuncs(pkgRedis) {
		allInstrs(fn, func(ins ssa.Instruction) {
			bo, ok := ins.(*ssa.BinOp)
			if !ok || bo.Op.String() != "==" && bo.Op.String() != "!=" {
				return
			}
			k, isC := constString(bo.Y)
			if !isC {
				return
			}
			call, isCall := strip(bo.X).(*ssa.Call)
			if !isCall || calleeName(call.Common()) != "strings.ToUpper" {
				// keyword compared without upper-casing a client string?
				return
			}
			n++
			if k != strings.ToUpper(k) {
				bad++
				c.bad(rid, fmt.Sprintf("%s/case-constant:%s", c.P.key(fn), k), c.P.instrPos(bo), fmt.Sprintf("the constant %q is compared with an upper-cased value: the branch can never be taken (dead option)", k))
			}
		})
	}
	c.count("upper-cased-comparisons", n)
	c.floor("upper-cased-comparisons", 24)
	if bad == 0 {
		c.ok(rid, "case-constants", "", fmt.Sprintf("%d constants compared with upper-cased values are upper case", n))
	}
	// keywords compared without ToUpper: a switch over a raw request string against an upper-case constant
	raw := 0
	x := newExtractor(c.P)
	_ = x
	for _, fn := range c.P.RepoFuncs(pkgRedis) {
		if !strings.Contains(fnName(fn), "redis.") {
			continue
		}
		allInstrs(fn, func(ins ssa.Instruction) {
			bo, ok := ins.(*ssa.BinOp)
			if !ok || bo.Op.String() != "==" && bo.Op.String() != "!=" {
				return
			}
			k, isC := constString(bo.Y)
			if !isC || len(k) < 2 || k != strings.ToUpper(k) || strings.ToLower(k) == k {
				return
			}
			// left side: direct result of a cursor read (not upper-cased)
			if ex, ok := strip(bo.X).(*ssa.Extract); ok {
				if call, ok := ex.Tuple.(*ssa.Call); ok {
					if _, isPrim := cursorPrims[calleeName(call.Common())]; isPrim {
						raw++
						c.bad(rid, fmt.Sprintf("%s/raw-keyword:%s", c.P.key(fn), k), c.P.instrPos(bo), fmt.Sprintf("the option keyword %q is compared with the client's string without upper-casing it: the option is matched case-sensitively", k))
					}
				}
			}
		})
	}
}

// ruleGateBeforeExecutorLite: R05.c (the dispatcher part of R08.a without the authorisation automaton).
func ruleGateBeforeExecutorLite(c *Ctx, rid string) {
	c.rule(rid, "in the dispatcher the executor call is dominated by the ok result of the table lookup; the not-found side returns an error message built from ErrNotSupported and calls no handler; the executor table is read only by the dispatcher; RegisterExexutor stores into that same table")
	ds := c.P.dispatchers()
	c.count("dispatchers", len(ds))
	c.floor("dispatchers", 1)
	if len(ds) != 1 {
		for _, d := range ds {
			c.bad(rid, "executor-table-reader/"+fnName(d.Fn), c.P.instrPos(d.Lookup), "the executor table is read in more than one place")
		}
	}
	for _, d := range ds {
		key := fnName(d.Fn)
		if d.Call == nil {
			c.undecided(rid, key+"/call", c.P.instrPos(d.Lookup), "looked-up executor not called here")
			continue
		}
		okSide := false
		for _, at := range factsAt(d.Call.Block()) {
			if at.Kind == "val" && at.Pos && at.X == d.OkValue {
				okSide = true
			}
		}
		c.check(okSide, rid, key+"/lookup-ok", c.P.instrPos(d.Call), "executor called only when the lookup succeeded", "the executor call is not dominated by the ok result of the lookup")
		// not-found side: returns NewErrorNotSupportedMessage, no handler call reachable before return
		for _, b := range d.Fn.Blocks {
			notFound := false
			for _, at := range factsAt(b) {
				if at.Kind == "val" && !at.Pos && at.X == d.OkValue {
					notFound = true
				}
			}
			if !notFound {
				continue
			}
			for _, ins := range b.Instrs {
				if cc := callCommon(ins); cc != nil {
					if cc.IsInvoke() && isHandlerIface(cc.Value.Type().String()) {
						c.bad(rid, key+"/unknown-command-handler", c.P.instrPos(ins), "a handler is invoked for a command that is not in the table")
					}
					if v := strip(cc.Value); v == ssa.Value(d.Lookup) {
						c.bad(rid, key+"/unknown-command-executor", c.P.instrPos(ins), "an executor is invoked on the not-found side of the lookup")
					}
				}
			}
		}
		c.ok(rid, key+"/not-found-side", c.P.instrPos(d.Lookup), "no handler or executor call on the not-found side")
	}
	// RegisterExexutor stores into the same field
	reg := c.P.Method(pkgRedis, "Server", "RegisterExexutor")
	if c.anchor(rid, reg, "redis.(*Server).RegisterExexutor") {
		okStore := false
		var storesParams func(f *ssa.Function, d int)
		storesParams = func(f *ssa.Function, d int) {
			allInstrs(f, func(ins ssa.Instruction) {
				if mu, ok := ins.(*ssa.MapUpdate); ok {
					if owner, fl, _, ok := fieldOf(mu.Map); ok && owner == "redis.Server" && fl == "commandExecutors" {
						_, kp := strip(mu.Key).(*ssa.Parameter)
						_, vp := strip(mu.Value).(*ssa.Parameter)
						okStore = kp && vp
					}
				}
				// the misspelt name kept as a wrapper of the corrected one: its own (name, executor)
				// parameters handed on unchanged to a method of the server that stores them
				if call, ok := ins.(*ssa.Call); ok && d < 2 {
					if h := staticCallee(call.Common()); h != nil && inFramework(h) && h != f && len(call.Common().Args) == 3 {
						_, kp := strip(call.Common().Args[1]).(*ssa.Parameter)
						_, vp := strip(call.Common().Args[2]).(*ssa.Parameter)
						if kp && vp {
							storesParams(h, d+1)
						}
					}
				}
			})
		}
		storesParams(reg, 0)
		c.check(okStore, rid, "RegisterExexutor", c.P.pos(reg.Pos()), "stores (name, executor) into the dispatcher's table unchanged", "RegisterExexutor does not store its arguments into the table the dispatcher reads")
	}
}

// ruleOwnedBytes: R05.e — the bytes of parsed values are owned copies.
func ruleOwnedBytes(c *Ctx, rid string) {
	c.rule(rid, "the byte slices the parser stores into messages originate from a buffer allocated by that parse step (make([]byte, n), or the Bytes() of a local bytes.Buffer) — never from a view into a reader's reusable internal buffer (bufio.Reader Peek/ReadSlice/ReadLine): request elements are all parsed before any is decoded, so a view would be overwritten by the following elements")
	scope := c.P.parserScope()
	n := 0
	for _, f := range scope {
		ord := 0
		allInstrs(f, func(ins ssa.Instruction) {
			st, ok := ins.(*ssa.Store)
			if !ok {
				return
			}
			owner, fld, _, ok := fieldOf(st.Addr)
			if !ok || owner != "proto.Message" || fld != "bytes" {
				return
			}
			ord++
			n++
			key := fmt.Sprintf("%s/bytes-store#%d", fnName(f), ord)
			okOwn, why := ownedBytes(c.P, st.Val, 0, map[ssa.Value]bool{})
			if okOwn {
				c.ok(rid, key, c.P.instrPos(st), "payload bytes come from a buffer allocated by this parse step")
			} else {
				c.bad(rid, key, c.P.instrPos(st), "the payload stored into the message "+why)
			}
		})
	}
	c.count("message-bytes-stores", n)
	c.floor("message-bytes-stores", 2)
}

func ownedBytes(p *Program, v ssa.Value, depth int, seen map[ssa.Value]bool) (bool, string) {
	if depth > 10 || seen[v] {
		return true, ""
	}
	seen[v] = true
	switch x := v.(type) {
	case *ssa.Const:
		return true, ""
	case *ssa.Parameter:
		// a setter used by the parser (msg.SetBytes(payload)): what the parser's own calls hand in
		fn := x.Parent()
		idx := -1
		for i, q := range fn.Params {
			if q == x {
				idx = i
			}
		}
		inParser := scopeSet(p.parserScope())
		for _, site := range p.staticCallSites(fn) {
			if !inParser[site.Parent()] || site.Parent() == fn || idx < 0 || idx >= len(site.Common().Args) {
				continue
			}
			if ok, why := ownedBytes(p, site.Common().Args[idx], depth+1, seen); !ok {
				return false, why
			}
		}
		return true, ""
	case *ssa.MakeSlice:
		return true, ""
	case *ssa.Alloc:
		return true, "" // a local array (make with a constant size)
	case *ssa.Slice:
		return ownedBytes(p, x.X, depth+1, seen)
	case *ssa.Phi:
		for _, e := range x.Edges {
			if ok, why := ownedBytes(p, e, depth+1, seen); !ok {
				return false, why
			}
		}
		return true, ""
	case *ssa.Extract:
		return ownedBytes(p, x.Tuple, depth+1, seen)
	case *ssa.Convert:
		return true, "" // string <-> []byte conversion copies
	case *ssa.UnOp:
		if a, ok := x.X.(*ssa.Alloc); ok {
			if s := singleStore(a); s != nil {
				return ownedBytes(p, s, depth+1, seen)
			}
			for _, st := range allocStores(a) {
				if ok, why := ownedBytes(p, st.Val, depth+1, seen); !ok {
					return false, why
				}
			}
			return true, ""
		}
	case *ssa.Call:
		n := calleeName(x.Common())
		switch n {
		case "(*bytes.Buffer).Bytes":
			if _, isAlloc := x.Common().Args[0].(*ssa.Alloc); isAlloc {
				return true, ""
			}
			return false, "is the Bytes() of a buffer that is not local to the parse step"
		case "(*bufio.Reader).Peek", "(*bufio.Reader).ReadSlice", "(*bufio.Reader).ReadLine", "(*bufio.Scanner).Bytes":
			return false, "is a view into the reader's internal buffer (" + n + "): it is overwritten when the buffer is refilled for the following elements"
		case "bytes.Clone", "slices.Clone", "builtin:append", "io.ReadAll", "(*bufio.Reader).ReadBytes":
			return true, ""
		}
		if callee := staticCallee(x.Common()); callee != nil && inRepo(callee) && callee.Blocks != nil {
			for _, r := range returnsOf(callee) {
				if len(r.Results) == 0 {
					continue
				}
				if ok, why := ownedBytes(p, retOperand(r, 0), depth+1, seen); !ok {
					return false, why
				}
			}
			return true, ""
		}
		return false, "comes from " + n + ", whose ownership the rule does not know"
	}
	return false, "has an origin the rule does not recognise: " + v.String()
}

// normSig: a struct field that is set only under an option keyword has its zero value
// otherwise, whether the code writes the zero explicitly (Field: false) or leaves it to the
// composite literal. Both spellings are rendered alike before signatures are compared; a
// non-zero default (Count: -1) stays part of the signature.
var zeroDefaultBeforeKw = regexp.MustCompile(`:(false|0|""|nil|zero)\|kw\[`)

// a flag assigned "the option word is F" is the flag set under keyword F
var flagByComparison = regexp.MustCompile(`\b([A-Z]+):eq\(upper\(A\*1\),"([A-Z]+)"\)`)

func normSig(s string) string {
	s = zeroDefaultBeforeKw.ReplaceAllString(s, ":kw[")
	return flagByComparison.ReplaceAllStringFunc(s, func(m string) string {
		sub := flagByComparison.FindStringSubmatch(m)
		if len(sub) == 3 && sub[1] == sub[2] {
			return sub[1] + ":kw[" + sub[1] + "](true)"
		}
		return m
	})
}
