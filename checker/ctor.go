package main

// ctor.go: a small symbolic summary of the message constructors: which message type the
// returned object was created with and what was handed to SetBytes/SetArray, expressed over the
// parameters of the public constructor, looking through private helper constructors.

import (
	"golang.org/x/tools/go/ssa"
)

type sval struct {
	Kind string // param, const, conv, call, unknown
	Name string // param name / callee name / conversion target type
	Args []*sval
	C    ssa.Value // const
}

type ctorSummary struct {
	Typ      *sval
	Bytes    *sval
	SetArray bool
	OK       bool
	Why      string
}

func symValue(v ssa.Value, env map[*ssa.Parameter]*sval, depth int) *sval {
	if depth > 6 {
		return &sval{Kind: "unknown"}
	}
	switch x := v.(type) {
	case *ssa.Parameter:
		if s, ok := env[x]; ok {
			return s
		}
		return &sval{Kind: "param", Name: x.Name()}
	case *ssa.Const:
		return &sval{Kind: "const", C: x}
	case *ssa.Convert:
		return &sval{Kind: "conv", Name: x.Type().String(), Args: []*sval{symValue(x.X, env, depth+1)}}
	case *ssa.ChangeType:
		return symValue(x.X, env, depth+1)
	case *ssa.Call:
		cc := x.Common()
		out := &sval{Kind: "call", Name: calleeName(cc)}
		for _, a := range callArgs(cc) {
			out.Args = append(out.Args, symValue(a, env, depth+1))
		}
		return out
	}
	return &sval{Kind: "unknown"}
}

// summarizeCtor follows the returned *Message of fn back to its creation.
func summarizeCtor(fn *ssa.Function, env map[*ssa.Parameter]*sval, depth int) ctorSummary {
	if fn == nil || fn.Blocks == nil || depth > 4 {
		return ctorSummary{Why: "no body / too deep"}
	}
	rets := returnsOf(fn)
	if len(rets) != 1 || len(rets[0].Results) != 1 {
		return ctorSummary{Why: "the constructor does not have exactly one return of one value"}
	}
	return summarizeMsgValue(retOperand(rets[0], 0), env, depth)
}

func summarizeMsgValue(v ssa.Value, env map[*ssa.Parameter]*sval, depth int) ctorSummary {
	call, ok := strip(v).(*ssa.Call)
	if !ok {
		return ctorSummary{Why: "the returned message is not the result of a call chain"}
	}
	cc := call.Common()
	switch calleeName(cc) {
	case pkgProto + ".NewMessageWithType":
		return ctorSummary{Typ: symValue(cc.Args[0], env, 0), OK: true}
	case "(*" + pkgProto + ".Message).SetBytes":
		s := summarizeMsgValue(cc.Args[0], env, depth)
		if s.OK {
			s.Bytes = symValue(cc.Args[1], env, 0)
		}
		return s
	case "(*" + pkgProto + ".Message).SetArray":
		s := summarizeMsgValue(cc.Args[0], env, depth)
		if s.OK {
			s.SetArray = true
		}
		return s
	}
	callee := staticCallee(cc)
	if callee == nil || !inRepo(callee) || callee.Blocks == nil {
		return ctorSummary{Why: "the message comes from " + calleeName(cc)}
	}
	env2 := map[*ssa.Parameter]*sval{}
	for i, a := range cc.Args {
		if i < len(callee.Params) {
			env2[callee.Params[i]] = symValue(a, env, 0)
		}
	}
	return summarizeCtor(callee, env2, depth+1)
}
