package main

// rules_sync.go: A9 — goroutine roots, shared-state accesses, must-locksets (C14), plus the
// lifecycle rules of C15.

import (
	"fmt"
	"go/token"
	"go/types"
	"sort"
	"strings"

	"golang.org/x/tools/go/ssa"
)

// lockset: up to 16 locks, 2 bits each (1 = held shared, 2 = held exclusive).
type lockset uint32

func (l lockset) mode(i int) int { return int(l>>(2*uint(i))) & 3 }
func (l lockset) with(i int, m int) lockset {
	return (l &^ (3 << (2 * uint(i)))) | lockset(m)<<(2*uint(i))
}
func (l lockset) meet(o lockset) lockset {
	var r lockset
	for i := 0; i < 16; i++ {
		a, b := l.mode(i), o.mode(i)
		m := a
		if b < m {
			m = b
		}
		r = r.with(i, m)
	}
	return r
}

type lockTable struct {
	names []string
	idx   map[string]int
}

func (t *lockTable) id(name string) int {
	if i, ok := t.idx[name]; ok {
		return i
	}
	if len(t.names) >= 16 {
		return -1
	}
	t.idx[name] = len(t.names)
	t.names = append(t.names, name)
	return len(t.names) - 1
}

func (t *lockTable) render(l lockset) string {
	var out []string
	for i, n := range t.names {
		switch l.mode(i) {
		case 1:
			out = append(out, n+"(R)")
		case 2:
			out = append(out, n+"(W)")
		}
	}
	if len(out) == 0 {
		return "{}"
	}
	return "{" + strings.Join(out, ",") + "}"
}

// lockEvent classifies a call on a sync.Mutex/RWMutex: returns lock name and kind.
func lockEvent(cc *ssa.CallCommon) (name string, kind string) {
	n := calleeName(cc)
	switch n {
	case "(*sync.Mutex).Lock", "(*sync.RWMutex).Lock":
		kind = "lock"
	case "(*sync.Mutex).Unlock", "(*sync.RWMutex).Unlock":
		kind = "unlock"
	case "(*sync.RWMutex).RLock":
		kind = "rlock"
	case "(*sync.RWMutex).RUnlock":
		kind = "runlock"
	default:
		return "", ""
	}
	if len(cc.Args) == 0 {
		return "?", kind
	}
	owner, f, _, ok := fieldOf(strip(cc.Args[0]))
	if !ok {
		// address of a field: &x.mutex
		if fa, ok := cc.Args[0].(*ssa.FieldAddr); ok {
			st := derefStruct(fa.X.Type())
			return typeName(deref(fa.X.Type())) + "." + st.Field(fa.Field).Name(), kind
		}
		if g, ok := strip(cc.Args[0]).(*ssa.Global); ok {
			return "global." + g.Name(), kind
		}
		return "?", kind
	}
	return owner + "." + f, kind
}

type lsState struct {
	Held lockset
	Def  lockset // unlocks deferred (released at exit)
}

// Access is one access to shared state.
type Access struct {
	Fn    *ssa.Function
	Ins   ssa.Instruction
	Field string // "redis.Config.params"
	Write bool
	Locks lockset
	What  string
	// Foreign: a Conn field reached through a *Conn taken from the registry (Conns, ConnByUUID,
	// the map itself), i.e. possibly another goroutine's connection
	Foreign bool
}

type syncModel struct {
	p        *Program
	locks    *lockTable
	accesses []Access
	lockAt   map[ssa.Instruction]lockset // must-lockset at each instruction of analysed functions
	pairing  []string
	order    map[[2]int]string // (held, acquired) -> position
	funcs    []*ssa.Function
}

var sharedStructs = map[string]bool{"redis.Server": true, "redis.ServerConfig": true, "redis.Config": true, "redis.ConnManager": true, "auth.AuthManager": true, "redis.Conn": true}

// extendSharedStructs: a struct of the framework whose instances are kept in a field (or in a
// slice/map held by a field, or behind a framework interface kept there) of a shared struct is
// shared as well: the authenticators registered in the AuthManager's list, for instance, are
// used by every connection goroutine.
func extendSharedStructs(p *Program) {
	byName := map[string]*types.Named{}
	var ifaceImpls func(it *types.Interface) []*types.Named
	var all []*types.Named
	for path, sp := range p.SSAPkgs {
		if !pkgHasPrefix(path, pkgRedis) || pkgHasPrefix(path, pkgProto) {
			continue
		}
		for _, mem := range sp.Members {
			if t, ok := mem.(*ssa.Type); ok {
				if n, ok := t.Type().(*types.Named); ok {
					if _, isSt := n.Underlying().(*types.Struct); isSt {
						byName[typeName(n)] = n
						all = append(all, n)
					}
				}
			}
		}
	}
	ifaceImpls = func(it *types.Interface) []*types.Named {
		var out []*types.Named
		if it.NumMethods() == 0 {
			return nil
		}
		for _, n := range all {
			if types.Implements(types.NewPointer(n), it) || types.Implements(n, it) {
				out = append(out, n)
			}
		}
		return out
	}
	var reach func(t types.Type, d int) []*types.Named
	reach = func(t types.Type, d int) []*types.Named {
		if d > 3 {
			return nil
		}
		switch x := t.(type) {
		case *types.Pointer:
			return reach(x.Elem(), d+1)
		case *types.Slice:
			return reach(x.Elem(), d+1)
		case *types.Array:
			return reach(x.Elem(), d+1)
		case *types.Map:
			return append(reach(x.Key(), d+1), reach(x.Elem(), d+1)...)
		case *types.Named:
			if _, isSt := x.Underlying().(*types.Struct); isSt {
				if byName[typeName(x)] != nil {
					return []*types.Named{x}
				}
				return nil
			}
			if it, isI := x.Underlying().(*types.Interface); isI && x.Obj().Pkg() != nil && pkgHasPrefix(x.Obj().Pkg().Path(), pkgRedis) {
				// handler interfaces are implemented by the application (and by Server itself): not followed
				if strings.HasSuffix(x.Obj().Name(), "Handler") || strings.HasSuffix(x.Obj().Name(), "Executor") {
					return nil
				}
				return ifaceImpls(it)
			}
		}
		return nil
	}
	for changed := true; changed; {
		changed = false
		for name := range sharedStructs {
			n := byName[name]
			if n == nil {
				continue
			}
			st := n.Underlying().(*types.Struct)
			for i := 0; i < st.NumFields(); i++ {
				for _, r := range reach(st.Field(i).Type(), 0) {
					rn := typeName(r)
					// a struct held by value inside Conn is part of the connection: it follows
					// Conn's ownership rule (touched by the connection's own goroutine)
					if (name == "redis.Conn" || connOwned[name]) && !sharedStructs[rn] {
						if _, byValue := st.Field(i).Type().(*types.Named); byValue {
							connOwned[rn] = true
						}
					}
					if !sharedStructs[rn] {
						sharedStructs[rn] = true
						changed = true
					}
				}
			}
		}
	}
}

// connOwned: struct types embedded by value in redis.Conn (grouped per-connection state).
var connOwned = map[string]bool{}

func buildSyncModel(c *Ctx) *syncModel {
	extendSharedStructs(c.P)
	m := &syncModel{p: c.P, locks: &lockTable{idx: map[string]int{}}, lockAt: map[ssa.Instruction]lockset{}, order: map[[2]int]string{}}
	for _, fn := range c.P.RepoFuncs(pkgRedis) {
		m.funcs = append(m.funcs, fn)
		c.analysed(fn)
	}
	// functions whose value is taken somewhere (cannot rely on callers' locks)
	valueUsed := map[*ssa.Function]bool{}
	for f := range c.P.AllFunctions() {
		if f.Blocks == nil {
			continue
		}
		allInstrs(f, func(ins ssa.Instruction) {
			var ops []*ssa.Value
			for _, o := range ins.Operands(ops) {
				if o == nil || *o == nil {
					continue
				}
				if fn, ok := (*o).(*ssa.Function); ok {
					if cc := callCommon(ins); cc != nil && cc.Value == ssa.Value(fn) {
						continue
					}
					valueUsed[fn] = true
				}
			}
		})
	}
	// must-locksets, intraprocedural with entry locksets from static call sites (fixed point)
	entry := map[*ssa.Function]lockset{}
	hasEntry := map[*ssa.Function]bool{}
	for iter := 0; iter < 4; iter++ {
		changed := false
		m.pairing = nil
		for _, fn := range m.funcs {
			init := lsState{}
			if hasEntry[fn] {
				init.Held = entry[fn]
			}
			seenAt := map[ssa.Instruction]bool{}
			a := &Auto[lsState]{Fn: fn, Init: init,
				Step: func(s lsState, ins ssa.Instruction, fail func(string)) []lsState {
					if !seenAt[ins] {
						seenAt[ins] = true
						m.lockAt[ins] = s.Held
					} else {
						m.lockAt[ins] = m.lockAt[ins].meet(s.Held)
					}
					switch x := ins.(type) {
					case *ssa.Call:
						name, kind := lockEvent(x.Common())
						if kind == "" {
							break
						}
						id := m.locks.id(name)
						if id < 0 {
							break
						}
						switch kind {
						case "lock":
							if s.Held.mode(id) != 0 {
								fail("lock " + name + " acquired while already held on this path (self-deadlock or upgrade from a read lock)")
							}
							for j := range m.locks.names {
								if j != id && s.Held.mode(j) != 0 {
									m.order[[2]int{j, id}] = c.P.instrPos(x)
								}
							}
							s.Held = s.Held.with(id, 2)
						case "rlock":
							if s.Held.mode(id) == 2 {
								fail("read lock of " + name + " requested while its write lock is held")
							}
							for j := range m.locks.names {
								if j != id && s.Held.mode(j) != 0 {
									m.order[[2]int{j, id}] = c.P.instrPos(x)
								}
							}
							if s.Held.mode(id) == 0 {
								s.Held = s.Held.with(id, 1)
							}
						case "unlock":
							if s.Held.mode(id) != 2 {
								fail("Unlock of " + name + " without the write lock held on this path")
							}
							s.Held = s.Held.with(id, 0)
						case "runlock":
							if s.Held.mode(id) != 1 {
								fail("RUnlock of " + name + " without the read lock held on this path")
							}
							s.Held = s.Held.with(id, 0)
						}
					case *ssa.Defer:
						name, kind := lockEvent(x.Common())
						if kind == "unlock" || kind == "runlock" {
							if id := m.locks.id(name); id >= 0 {
								s.Def = s.Def.with(id, 1)
							}
						}
					case *ssa.Return:
						if x.Block() == fn.Recover {
							break
						}
						for j, n := range m.locks.names {
							if s.Held.mode(j) != 0 && s.Def.mode(j) == 0 && !(hasEntry[fn] && entry[fn].mode(j) != 0) {
								fail("return with " + n + " still locked and no deferred unlock")
							}
						}
					}
					return []lsState{s}
				}}
			res := a.Run()
			for _, e := range res.Errs {
				m.pairing = append(m.pairing, fmt.Sprintf("%s|%s|%s", fnName(fn), c.P.instrPos(e.Ins), e.Msg))
			}
		}
		// entry locksets of unexported, statically-called-only functions
		for _, fn := range m.funcs {
			if fn.Parent() != nil || (fn.Object() != nil && fn.Object().Exported()) {
				continue
			}
			sites := c.P.staticCallSites(fn)
			if len(sites) == 0 || valueUsed[fn] {
				continue
			}
			var meet lockset
			first := true
			okAll := true
			for _, s := range sites {
				if _, isGo := s.(*ssa.Go); isGo {
					okAll = false
					break
				}
				ls, ok := m.lockAt[s.(ssa.Instruction)]
				if !ok {
					okAll = false
					break
				}
				if first {
					meet, first = ls, false
				} else {
					meet = meet.meet(ls)
				}
			}
			if !okAll {
				meet = 0
			}
			if !hasEntry[fn] || entry[fn] != meet {
				if meet != 0 || hasEntry[fn] {
					entry[fn] = meet
					hasEntry[fn] = meet != 0
					changed = true
				}
			}
		}
		if !changed {
			break
		}
	}
	m.collectAccesses()
	return m
}

func functionValueUsed(p *Program, fn *ssa.Function) bool {
	used := false
	for f := range p.AllFunctions() {
		if f.Blocks == nil || used {
			continue
		}
		allInstrs(f, func(ins ssa.Instruction) {
			var ops []*ssa.Value
			for _, o := range ins.Operands(ops) {
				if o != nil && *o == ssa.Value(fn) {
					if cc := callCommon(ins); cc != nil && cc.Value == ssa.Value(fn) {
						continue
					}
					used = true
				}
			}
		})
	}
	return used
}

func (m *syncModel) collectAccesses() {
	var curForeign bool
	add := func(fn *ssa.Function, ins ssa.Instruction, field string, write bool, what string) {
		m.accesses = append(m.accesses, Access{Fn: fn, Ins: ins, Field: field, Write: write, Locks: m.lockAt[ins], What: what, Foreign: curForeign})
	}
	for _, fn := range m.funcs {
		allInstrs(fn, func(ins ssa.Instruction) {
			fa, ok := ins.(*ssa.FieldAddr)
			if !ok {
				return
			}
			owner := typeName(deref(fa.X.Type()))
			if !sharedStructs[owner] {
				return
			}
			st := derefStruct(fa.X.Type())
			fld := st.Field(fa.Field)
			// construction: base is a local allocation of this function
			if _, isAlloc := strip(fa.X).(*ssa.Alloc); isAlloc {
				return
			}
			ft := fld.Type().String()
			if strings.HasPrefix(ft, "sync.") || strings.HasPrefix(ft, "*sync.") || strings.HasPrefix(ft, "sync/atomic.") {
				return
			}
			name := owner + "." + fld.Name()
			if fa.Referrers() == nil {
				return
			}
			curForeign = (owner == "redis.Conn" || connOwned[owner]) && m.fromRegistry(fa.X, 0, map[ssa.Value]bool{})
			for _, r := range *fa.Referrers() {
				switch x := r.(type) {
				case *ssa.Store:
					if x.Addr == ssa.Value(fa) {
						add(fn, x, name, true, "store")
					}
				case *ssa.UnOp:
					if x.Op != token.MUL {
						continue
					}
					add(fn, x, name, false, "load")
					// contents of maps/slices reached through the loaded value
					if x.Referrers() == nil {
						continue
					}
					_, isMap := fld.Type().Underlying().(*types.Map)
					_, isSlice := fld.Type().Underlying().(*types.Slice)
					if !isMap && !isSlice {
						continue
					}
					for _, u := range *x.Referrers() {
						switch y := u.(type) {
						case *ssa.MapUpdate:
							if y.Map == ssa.Value(x) {
								add(fn, y, name, true, "map update")
							}
						case *ssa.Lookup:
							add(fn, y, name, false, "map lookup")
						case *ssa.Range:
							add(fn, y, name, false, "map range")
						case *ssa.Call:
							if b, ok := y.Common().Value.(*ssa.Builtin); ok {
								switch b.Name() {
								case "delete", "clear":
									add(fn, y, name, true, "map "+b.Name())
								case "len":
									if isMap { // len of a slice header already loaded touches no shared memory
										add(fn, y, name, false, "len")
									}
								case "append":
									add(fn, y, name, false, "append (read)")
								}
							}
						case *ssa.IndexAddr:
							wr := false
							if y.Referrers() != nil {
								for _, rr := range *y.Referrers() {
									if st, isSt := rr.(*ssa.Store); isSt && st.Addr == ssa.Value(y) {
										wr = true
									}
								}
							}
							if wr {
								add(fn, y, name, true, "element store")
							} else {
								add(fn, y, name, false, "element access")
							}
						case *ssa.Slice:
							// append(s[:i], ...) writes the elements behind i in place
							if y.Referrers() != nil {
								for _, rr := range *y.Referrers() {
									if call, isC := rr.(*ssa.Call); isC {
										if b, isB := call.Common().Value.(*ssa.Builtin); isB && b.Name() == "append" && len(call.Common().Args) > 0 && call.Common().Args[0] == ssa.Value(y) && y.High != nil {
											add(fn, call, name, true, "element store")
										}
									}
								}
							}
						}
					}
				}
			}
		})
	}
}

// rootsOf computes, for every framework function, the set of roots (goroutine roots and API
// pseudo-roots) it is reachable from.
type rootInfo struct {
	Name      string
	Fn        *ssa.Function
	Goroutine bool
}

func concurrencyRoots(p *Program) []rootInfo {
	var out []rootInfo
	seen := map[*ssa.Function]bool{}
	for _, gs := range p.goSites(pkgRedis) {
		if gs.Target != nil && !seen[gs.Target] {
			seen[gs.Target] = true
			out = append(out, rootInfo{Name: "go:" + fnName(gs.Target), Fn: gs.Target, Goroutine: true})
		}
	}
	for _, api := range [][2]string{{"Server", "Stop"}, {"Server", "Restart"}, {"Server", "Start"}, {"ConnManager", "Conns"}, {"ConnManager", "ConnByUUID"}} {
		if f := p.Method(pkgRedis, api[0], api[1]); f != nil {
			out = append(out, rootInfo{Name: "api:" + api[0] + "." + api[1], Fn: f})
		}
	}
	sort.Slice(out, func(i, j int) bool { return out[i].Name < out[j].Name })
	return out
}

func (m *syncModel) reachFrom(r rootInfo) map[*ssa.Function]bool {
	// goroutine roots: do not follow `go` statements (the spawned function is its own root)
	seen := map[*ssa.Function]bool{}
	st := []*ssa.Function{r.Fn}
	for len(st) > 0 {
		f := st[len(st)-1]
		st = st[:len(st)-1]
		if f == nil || seen[f] || f.Blocks == nil {
			continue
		}
		seen[f] = true
		allInstrs(f, func(ins ssa.Instruction) {
			if _, isGo := ins.(*ssa.Go); isGo {
				return
			}
			if ci, ok := ins.(ssa.CallInstruction); ok {
				for _, cal := range m.p.calleesAt(ci) {
					if inFramework(cal) {
						st = append(st, cal)
					}
				}
			}
		})
		for _, a := range f.AnonFuncs {
			if closureUsedDirectly(f, a) {
				st = append(st, a)
			}
		}
	}
	return seen
}

func init() {
	register(&propInfo{ID: "C14", Level: "other", Run: runC14,
		Explanation: "Static race detection by must-locksets (the Eraser discipline decided statically): R14.a/b/e for every field of the server-wide structs (Server, ServerConfig, Config, ConnManager, AuthManager) and of Conn, every write and every other access that can run in concurrently executing roots (connection and accept goroutines among themselves and against Stop/Restart/registry queries; for Conn: owner goroutine against a root reaching it through the registry) hold a common mutex, exclusively at the write — map and slice contents are attributed to the field that holds them; R14.c every Lock/RLock is released on every path, no unlock without lock, no upgrade; R14.d the acquired-while-holding relation is acyclic; R14.f no lock is held across a blocking transport call. Sufficient for race freedom on those fields since mutexes are the only synchronisation in this code base (no channels, no atomics). Not decided: application handlers, the example store (C16), *Conn values handed out by Conns()."})
	register(&propInfo{ID: "C15", Level: "other", Run: runC15,
		Explanation: "Static lifecycle rules (necessary conditions named in the property's own anchors): R15.a/b the listener fields are written only from the lifecycle API, accept loops receive their listener as a parameter and close only that value; R15.c Stop closes listeners before it sweeps, synchronously, every registered connection; R15.d every goroutine started by the framework is joined by Stop (WaitGroup Add before go, deferred Done, Wait in Stop) — violated today, recorded as a known finding; R15.e the registry is written only by its constructor/AddConn/RemoveConn and AddConn/RemoveConn bracket the connection loop. Scheduling itself (all interleavings) is not explored."})
}

func runC14(c *Ctx) {
	m := buildSyncModel(c)
	roots := concurrencyRoots(c.P)
	c.count("concurrency-roots", len(roots))
	c.floor("concurrency-roots", 6)
	reach := map[string]map[*ssa.Function]bool{}
	for _, r := range roots {
		reach[r.Name] = m.reachFrom(r)
	}
	rootsOfFn := func(fn *ssa.Function) []rootInfo {
		var out []rootInfo
		for _, r := range roots {
			if reach[r.Name][fn] {
				out = append(out, r)
			}
		}
		return out
	}
	c.rule("R14.a", "A9 must-lockset rule: for every field of a shared struct with at least one write outside construction, every (write, access) pair that can execute in concurrent roots holds a common mutex, exclusively at the write. Roots: go targets in redis/... (pairwise and self-concurrent) and the API calls Stop/Restart/Start/Conns/ConnByUUID (concurrent with goroutine roots, not with each other). Conn fields: only pairs involving a root that reaches the connection through the registry")
	// group accesses by field
	byField := map[string][]Access{}
	for _, a := range m.accesses {
		byField[a.Field] = append(byField[a.Field], a)
	}
	nf := 0
	for _, field := range sortedKeys(byField) {
		accs := byField[field]
		hasWrite := false
		for _, a := range accs {
			if a.Write {
				hasWrite = true
			}
		}
		if !hasWrite {
			continue // never written outside construction: immutable after publication
		}
		nf++
		isConn := strings.HasPrefix(field, "redis.Conn.") || connOwned[field[:strings.LastIndex(field, ".")]]
		var bad []string
		npairs := 0
		for i, w := range accs {
			if !w.Write {
				continue
			}
			wr := rootsOfFn(w.Fn)
			for j, x := range accs {
				if j < i && x.Write {
					continue // unordered pairs of writes once
				}
				if w.What == "store" && x.What == "element access" {
					// the element is read through a slice header loaded before (under whatever lock that
					// load held, judged as its own pair); replacing the header does not touch the old
					// backing array's elements below its length — writes to elements are "element store"
					continue
				}
				xr := rootsOfFn(x.Fn)
				conc := false
				for _, r1 := range wr {
					for _, r2 := range xr {
						if !(r1.Goroutine || r2.Goroutine) {
							continue
						}
						if isConn && r1.Goroutine && r2.Goroutine && !w.Foreign && !x.Foreign {
							continue // each connection goroutine touches its own Conn
						}
						conc = true
					}
				}
				if !conc {
					continue
				}
				npairs++
				common := false
				for k := range m.locks.names {
					if w.Locks.mode(k) == 2 && x.Locks.mode(k) >= 1 {
						common = true
					}
				}
				if !common {
					bad = append(bad, fmt.Sprintf("%s at %s (in %s, locks %s) vs %s at %s (in %s, locks %s)", w.What, c.P.instrPos(w.Ins), fnName(w.Fn), m.locks.render(w.Locks), x.What, c.P.instrPos(x.Ins), fnName(x.Fn), m.locks.render(x.Locks)))
				}
			}
		}
		key := "field/" + field
		if len(bad) == 0 {
			c.ok("R14.a", key, "", fmt.Sprintf("%d accesses, %d concurrent write/access pairs, all under a common lock", len(accs), npairs))
		} else {
			sort.Strings(bad)
			if len(bad) > 6 {
				bad = append(bad[:6], fmt.Sprintf("... and %d more", len(bad)-6))
			}
			c.bad("R14.a", key, "", fmt.Sprintf("%d concurrent write/access pair(s) on %s without a common mutex held (exclusively at the write): data race", len(bad), field), bad...)
		}
	}
	c.count("shared-fields-written", nf)
	c.floor("shared-fields-written", 8)
	c.count("shared-accesses", len(m.accesses))
	c.floor("shared-accesses", 60)

	c.rule("R14.c", "lock pairing: on every path each Lock/RLock is released (explicitly or by a registered deferred unlock) before return, no Unlock/RUnlock without the lock held, no acquisition of a lock already held")
	if len(m.pairing) == 0 {
		c.ok("R14.c", "pairing", "", fmt.Sprintf("%d locks, all acquisitions paired on every path", len(m.locks.names)))
	}
	sort.Strings(m.pairing)
	for i, pr := range m.pairing {
		parts := strings.SplitN(pr, "|", 3)
		c.bad("R14.c", fmt.Sprintf("pairing/%s#%d", parts[0], i), parts[1], parts[2])
	}
	c.count("locks", len(m.locks.names))
	c.floor("locks", 4)

	c.rule("R14.d", "lock order: the relation 'acquired while holding' over lock names is acyclic")
	cyc := ""
	for pr, pos := range m.order {
		if pos2, ok := m.order[[2]int{pr[1], pr[0]}]; ok {
			cyc = fmt.Sprintf("%s then %s at %s, and the reverse at %s", m.locks.names[pr[0]], m.locks.names[pr[1]], pos, pos2)
		}
	}
	c.check(cyc == "", "R14.d", "lock-order", "", fmt.Sprintf("%d nested acquisitions, no cycle", len(m.order)), "lock-order cycle: "+cyc)

	ruleNoLockAcrossBlocking(c, m, "R14.f")
	c.assume("an access pair is accepted only under a common mutex (or as an atomic operation); ordering through channels is not modelled, so accesses ordered only by a channel would be reported as a race, never missed")
	for _, fn := range m.funcs {
		allInstrs(fn, func(ins ssa.Instruction) {
			switch x := ins.(type) {
			case *ssa.Send, *ssa.Select:
				c.note("channel operation in %s: not used as an ordering by the lockset verdict", fnName(fn))
			case *ssa.Call:
				if n := calleeName(x.Common()); strings.HasPrefix(n, "sync/atomic.") || strings.HasPrefix(n, "(*sync/atomic.") {
					c.note("atomic operation %s in %s is treated as synchronised", n, fnName(fn))
				}
			}
		})
	}
	ruleNoWriteUnderReadLock(c, "R14.g")
	ruleAuthenticatorsReadOnly(c, "R14.h")
	ruleNoReentrantLock(c, m, "R14.i")
	ruleReplyBufferLocal(c, "R14.j")
	ruleNoAliasedSnapshots(c, "R14.k")
	// an executor closure is registered once and runs on every connection's goroutine: a
	// variable of the registering function it writes is shared, unsynchronised state
	ruleNoSharedCapture(c, "R14.l")
}

// ruleNoLockAcrossBlocking: no mutex is held while the goroutine blocks on the transport.
func ruleNoLockAcrossBlocking(c *Ctx, m *syncModel, rid string) {
	c.rule(rid, "no mutex is held across a blocking transport call (Read, Write, Accept, Handshake on a connection or listener): a peer that stalls would block every other holder, including Stop's sweep through Conn.Close")
	n := 0
	for _, fn := range m.funcs {
		allInstrs(fn, func(ins ssa.Instruction) {
			cc := callCommon(ins)
			if cc == nil {
				return
			}
			nme := calleeName(cc)
			blocking := nameIn(nme, blockingReadNames...) || isConnWriteCallRaw(cc) && !(cc.IsInvoke() && isLocalBuffer(cc.Value))
			if !blocking {
				return
			}
			if ls := m.lockAt[ins]; ls != 0 {
				n++
				c.bad(rid, fmt.Sprintf("%s/%s", fnName(fn), nme), c.P.instrPos(ins), "blocking transport call while holding "+m.locks.render(ls)+": a client that stops reading (or sending) keeps the lock, and Close/Stop block behind it")
			}
		})
	}
	if n == 0 {
		c.ok(rid, "no-lock-across-io", "", "no blocking transport call is made with a lock held")
	}
}

func runC15(c *Ctx) {
	ruleOwnListenerOnly(c, "R15.b")
	ruleStopSweep(c, "R15.c")
	ruleJoin(c, "R15.d")
	ruleAcceptLoopEndsWithListener(c, "R15.f")
	ruleAcceptLoopWaits(c, "R15.h")
	// the sweep runs over a snapshot: a slice the registry keeps writing is not one
	ruleNoAliasedSnapshots(c, "R15.i")
	ruleStopClosesWhatIsOpen(c, "R15.g")
	ruleLifecycleErrorsPropagate(c, "R15.j")
	ruleRegistryBracket(c, "R15.e")
	ruleConnKeyUnique(c, "R15.e")
	c.assume("ports are re-bindable once their listener is closed (kernel); the application does not call lifecycle methods concurrently with each other")
}

// ruleJoin: R15.d.
func ruleJoin(c *Ctx, rid string) {
	c.rule(rid, "Stop joins what the framework spawned: for every go statement in redis/..., a WaitGroup.Add dominates it in the spawning function, the target defers Done on the same WaitGroup field, and Stop (or a function it calls) Waits on it")
	stop := c.P.Method(pkgRedis, "Server", "Stop")
	stopWaits := stop != nil && c.P.reachesCallNamed(stop, "(*sync.WaitGroup).Wait")
	sites := c.P.goSites(pkgRedis)
	c.count("go-sites", len(sites))
	c.floor("go-sites", 4)
	ord := map[string]int{}
	for _, gs := range sites {
		tname := "dynamic"
		if gs.Target != nil {
			tname = fnName(gs.Target)
		}
		// keyed by what runs in the goroutine, not by where it is started: moving the go
		// statement into a helper does not change which goroutine Stop fails to join
		ord[tname]++
		key := "goroutine:" + tname
		if ord[tname] > 1 {
			key += fmt.Sprintf("#%d", ord[tname])
		}
		addBefore := false
		allInstrs(gs.In, func(ins ssa.Instruction) {
			if call, ok := isCall(ins, "(*sync.WaitGroup).Add"); ok {
				if call.Block() == gs.Go.Block() || call.Block().Dominates(gs.Go.Block()) {
					addBefore = true
				}
			}
		})
		doneDeferred := false
		if gs.Target != nil && gs.Target.Blocks != nil {
			allInstrs(gs.Target, func(ins ssa.Instruction) {
				if d, ok := ins.(*ssa.Defer); ok && calleeName(d.Common()) == "(*sync.WaitGroup).Done" {
					doneDeferred = true
				}
			})
		}
		if addBefore && doneDeferred && stopWaits {
			c.ok(rid, key, c.P.instrPos(gs.Go), "Add before go, deferred Done in the goroutine, Wait in Stop")
		} else {
			c.bad(rid, key, c.P.instrPos(gs.Go), fmt.Sprintf("the goroutine is not joined by Stop (Add-before-go=%v, deferred-Done=%v, Stop-waits=%v): Stop can return while it is still running", addBefore, doneDeferred, stopWaits))
		}
	}
}

// ruleNoReentrantLock: sync.Mutex and sync.RWMutex are not re-entrant. A function called — at
// any depth, through closures and function values as the call graph resolves them — while lock
// L is held must not acquire L again: a second Lock blocks forever, and a second RLock blocks
// forever as soon as a writer waits in between, after which every later reader (each new
// connection reads the configuration) blocks too.
func ruleNoReentrantLock(c *Ctx, m *syncModel, rid string) {
	c.rule(rid, "no call made while a mutex is held (must-lockset at the call site) reaches, through the call graph, an acquisition (Lock or RLock) of that same mutex")
	// direct acquisitions per function
	direct := map[*ssa.Function]map[int]string{}
	for _, fn := range m.funcs {
		allInstrs(fn, func(ins ssa.Instruction) {
			call, ok := ins.(*ssa.Call)
			if !ok {
				return
			}
			name, kind := lockEvent(call.Common())
			if kind != "lock" && kind != "rlock" {
				return
			}
			if id := m.locks.id(name); id >= 0 {
				if direct[fn] == nil {
					direct[fn] = map[int]string{}
				}
				direct[fn][id] = c.P.instrPos(call)
			}
		})
	}
	// transitive closure over the call graph (framework functions only)
	memo := map[*ssa.Function]map[int]string{}
	var may func(fn *ssa.Function, stack map[*ssa.Function]bool) map[int]string
	may = func(fn *ssa.Function, stack map[*ssa.Function]bool) map[int]string {
		if r, ok := memo[fn]; ok {
			return r
		}
		if stack[fn] || fn.Blocks == nil {
			return nil
		}
		stack[fn] = true
		out := map[int]string{}
		for id, pos := range direct[fn] {
			out[id] = fnName(fn) + " at " + pos
		}
		allInstrs(fn, func(ins ssa.Instruction) {
			ci, ok := ins.(ssa.CallInstruction)
			if !ok {
				return
			}
			if _, isGo := ins.(*ssa.Go); isGo {
				return // another goroutine: it waits, it does not deadlock this one by re-entry
			}
			for _, cal := range c.P.calleesAt(ci) {
				if !inFramework(cal) {
					continue
				}
				for id, via := range may(cal, stack) {
					if _, ok := out[id]; !ok {
						out[id] = via
					}
				}
			}
		})
		delete(stack, fn)
		memo[fn] = out
		return out
	}
	n, bad := 0, 0
	for _, fn := range m.funcs {
		allInstrs(fn, func(ins ssa.Instruction) {
			ci, ok := ins.(ssa.CallInstruction)
			if !ok {
				return
			}
			if _, isGo := ins.(*ssa.Go); isGo {
				return
			}
			held := m.lockAt[ins]
			if held == 0 {
				return
			}
			if _, kind := lockEvent(ci.Common()); kind != "" {
				return // the lock operations themselves are checked by the pairing automaton
			}
			n++
			for _, cal := range c.P.calleesAt(ci) {
				if !inFramework(cal) {
					continue
				}
				for id, via := range may(cal, map[*ssa.Function]bool{}) {
					if held.mode(id) != 0 {
						bad++
						c.bad(rid, fmt.Sprintf("%s/reentrant:%s#%d", c.P.key(fn), m.locks.names[id], bad), c.P.instrPos(ins), fmt.Sprintf("%s is held here and acquired again by %s (reached through %s): the second acquisition can block forever and then blocks every other user of the lock", m.locks.names[id], via, fnName(cal)))
					}
				}
			}
		})
	}
	c.count("calls-under-lock", n)
	if bad == 0 {
		c.ok(rid, "no-reentrant-acquisition", "", fmt.Sprintf("%d calls are made with a lock held; none reaches an acquisition of a lock it holds", n))
	}
}

// ruleNoWriteUnderReadLock: a map written (updated or deleted from) while only the read lock of
// the RWMutex guarding its struct is held. Readers do not exclude each other, so two such
// writers — or the writer and any reader — run concurrently; for a Go map that is a runtime
// throw ("concurrent map writes"), which no recover can stop: the whole server goes down.
func ruleNoWriteUnderReadLock(c *Ctx, rid string) {
	c.rule(rid, "in every production function of the repository (framework and example store): a map update/delete, or a store to a field, of a struct that carries a sync.RWMutex is never executed on a path where that mutex is held in read mode only")
	n, bad := 0, 0
	for _, fn := range c.P.RepoFuncs(modPath) {
		if !inProd(fn) || fn.Blocks == nil {
			continue
		}
		var names []string
		idOf := func(name string) int {
			for i, s := range names {
				if s == name {
					return i
				}
			}
			if len(names) >= 4 {
				return -1
			}
			names = append(names, name)
			return len(names) - 1
		}
		hasLock := false
		allInstrs(fn, func(ins ssa.Instruction) {
			if cc := callCommon(ins); cc != nil {
				if _, kind := lockEvent(cc); kind == "rlock" {
					hasLock = true
				}
			}
		})
		if !hasLock {
			continue
		}
		type st struct{ M [4]int8 }
		ownerOfLock := func(name string) string {
			if i := strings.LastIndex(name, "."); i > 0 {
				return name[:i]
			}
			return name
		}
		a := &Auto[st]{Fn: fn, Init: st{},
			Step: func(s st, ins ssa.Instruction, fail func(string)) []st {
				if cc := callCommon(ins); cc != nil {
					if _, isDefer := ins.(*ssa.Defer); !isDefer {
						if name, kind := lockEvent(cc); kind != "" {
							if id := idOf(name); id >= 0 {
								switch kind {
								case "lock":
									s.M[id] = 2
								case "rlock":
									if s.M[id] == 0 {
										s.M[id] = 1
									}
								case "unlock", "runlock":
									s.M[id] = 0
								}
							}
							return []st{s}
						}
					}
				}
				var target ssa.Value
				what := ""
				switch x := ins.(type) {
				case *ssa.MapUpdate:
					target, what = x.Map, "map update"
				case *ssa.Call:
					if b, ok := x.Common().Value.(*ssa.Builtin); ok && b.Name() == "delete" && len(x.Common().Args) > 0 {
						target, what = x.Common().Args[0], "map delete"
					}
				case *ssa.Store:
					if _, _, _, ok := fieldOf(x.Addr); ok {
						target, what = x.Addr, "field store"
					}
				}
				if target == nil {
					return []st{s}
				}
				owner, f, _, ok := fieldOf(target)
				if !ok {
					return []st{s}
				}
				for id, name := range names {
					if s.M[id] == 1 && ownerOfLock(name) == owner {
						n++
						fail(fmt.Sprintf("%s of %s.%s while %s is held for reading only: concurrent writers (and readers) are not excluded", what, owner, f, name))
					}
				}
				return []st{s}
			}}
		res := a.Run()
		for i, e := range res.Errs {
			bad++
			c.bad(rid, fmt.Sprintf("%s/write-under-rlock#%d", fnName(fn), i), c.P.instrPos(e.Ins), e.Msg, e.witness(c.P)...)
		}
	}
	if bad == 0 {
		c.ok(rid, "no-write-under-read-lock", "", "no shared map or field is written with only a read lock held")
	}
}

// ruleNoAliasedSnapshots: a method of a lock-guarded framework object must not hand out its
// internal slice or map itself (or a reslice of it): the caller reads it after the lock is
// released, while AddConn/RemoveConn/SetConfig keep writing the same backing storage.
func ruleNoAliasedSnapshots(c *Ctx, rid string) {
	c.rule(rid, "no method of a mutex-guarded framework struct returns a slice or map that is (a reslice of) one of the struct's fields: snapshots handed out are built in the call")
	n, bad := 0, 0
	// fields whose backing storage is written in place somewhere (append onto the field, element
	// store, copy into it, map update/delete): a field that is only ever replaced as a whole can
	// be handed out safely
	inPlace := map[string]bool{}
	fieldKey := func(v ssa.Value) (string, bool) {
		v = strip(v)
		for d := 0; d < 4; d++ {
			if sl, ok := v.(*ssa.Slice); ok {
				v = strip(sl.X)
				continue
			}
			break
		}
		if _, isLoad := v.(*ssa.UnOp); !isLoad {
			return "", false
		}
		owner, f, _, ok := fieldOf(v)
		if !ok || !sharedStructs[owner] {
			return "", false
		}
		return owner + "." + f, true
	}
	for _, fn := range c.P.RepoFuncs(pkgRedis) {
		allInstrs(fn, func(ins ssa.Instruction) {
			switch x := ins.(type) {
			case *ssa.Call:
				if b, ok := x.Common().Value.(*ssa.Builtin); ok && len(x.Common().Args) > 0 {
					switch b.Name() {
					case "append", "copy", "delete":
						if k, ok := fieldKey(x.Common().Args[0]); ok {
							inPlace[k] = true
						}
					}
				}
			case *ssa.MapUpdate:
				if k, ok := fieldKey(x.Map); ok {
					inPlace[k] = true
				}
			case *ssa.Store:
				if ia, ok := x.Addr.(*ssa.IndexAddr); ok {
					if k, ok := fieldKey(ia.X); ok {
						inPlace[k] = true
					}
				}
			}
		})
	}
	for _, fn := range c.P.RepoFuncs(pkgRedis) {
		if !inFramework(fn) || fn.Signature.Recv() == nil || fn.Blocks == nil {
			continue
		}
		recvT := typeName(deref(fn.Signature.Recv().Type()))
		if !sharedStructs[recvT] {
			continue
		}
		for _, r := range returnsOf(fn) {
			for i, rv := range r.Results {
				switch rv.Type().Underlying().(type) {
				case *types.Slice, *types.Map:
				default:
					continue
				}
				n++
				v := strip(retOperand(r, i))
				for d := 0; d < 4; d++ {
					if sl, ok := v.(*ssa.Slice); ok {
						v = strip(sl.X)
						continue
					}
					break
				}
				if owner, f, _, ok := fieldOf(v); ok && sharedStructs[owner] && inPlace[owner+"."+f] {
					if _, isLoad := v.(*ssa.UnOp); isLoad {
						bad++
						c.bad(rid, fmt.Sprintf("%s/returns-field:%s", fnName(fn), f), c.P.instrPos(r), fmt.Sprintf("%s.%s itself (or a reslice of it) is returned: the caller reads the registry's own storage after the lock is released, concurrently with its writers", owner, f))
					}
				}
			}
		}
	}
	c.count("shared-struct-slice-results", n)
	if bad == 0 {
		c.ok(rid, "no-aliased-snapshots", "", fmt.Sprintf("%d slice/map results of guarded structs examined; none aliases a field", n))
	}
}

// ruleAcceptLoopEndsWithListener: Stop ends an accept loop by closing the listener that loop
// was given; Accept then fails. The loop must leave on that failure whatever else is going on:
// a retry governed by a server-wide flag can miss the Stop of its own generation (the next
// Start re-arms the flag) and spin on a closed listener for ever. Retrying is accepted only on
// a path that has ruled out net.ErrClosed for this very error.
func ruleAcceptLoopEndsWithListener(c *Ctx, rid string) {
	c.rule(rid, "in every accept loop, no path from the edge on which Accept returned an error leads back to the loop header, unless it crosses the false edge of errors.Is(thatError, net.ErrClosed)")
	n := 0
	for _, al := range c.P.acceptLoops() {
		if al.Loop == nil || al.Accept.Referrers() == nil {
			continue
		}
		n++
		var errEx ssa.Value
		for _, r := range *al.Accept.Referrers() {
			if ex, ok := r.(*ssa.Extract); ok && ex.Index == 1 {
				errEx = ex
			}
		}
		key := fnName(al.Fn) + "/accept-error-ends-loop"
		bad := ""
		notClosedEdge := func(b *ssa.BasicBlock, idx int) bool {
			for _, at := range edgeOnly(b, idx) {
				if at.Kind == "call" && !at.Pos && calleeName(at.Call.Common()) == "errors.Is" && len(at.Call.Common().Args) == 2 {
					if strip(at.Call.Common().Args[0]) == errEx && isLoadOfGlobal(at.Call.Common().Args[1], "net", "ErrClosed") {
						return true
					}
				}
			}
			return false
		}
		for _, b := range al.Loop.sortedBlocks() {
			for idx, s := range b.Succs {
				if deadEdge(b, idx) {
					continue
				}
				isErrEdge := false
				for _, at := range edgeOnly(b, idx) {
					if at.Kind == "nil" && !at.Pos && at.X == errEx {
						isErrEdge = true
					}
				}
				if !isErrEdge || !al.Loop.Blocks[s] {
					continue
				}
				seen := map[*ssa.BasicBlock]bool{}
				st := []*ssa.BasicBlock{s}
				for len(st) > 0 && bad == "" {
					x := st[len(st)-1]
					st = st[:len(st)-1]
					if seen[x] || !al.Loop.Blocks[x] {
						continue
					}
					seen[x] = true
					if x == al.Loop.Header {
						bad = fmt.Sprintf("after Accept failed (edge at %s) the loop can call Accept again without having ruled out net.ErrClosed: an accept loop whose listener was closed by Stop may never end", c.P.instrPos(b.Instrs[len(b.Instrs)-1]))
						break
					}
					for k, nx := range x.Succs {
						if notClosedEdge(x, k) {
							continue
						}
						st = append(st, nx)
					}
				}
			}
		}
		c.check(bad == "", rid, key, c.P.instrPos(al.Accept), "the first Accept error (or at least the closed-listener error) ends the loop", bad)
	}
	c.count("accept-loops-checked", n)
	c.floor("accept-loops-checked", 1)
}

// ruleStopClosesWhatIsOpen: Stop must close the listeners that are open, whatever the
// configuration says by then (a client can change it with CONFIG SET between Start and Stop).
// Wherever the framework closes one of the server's listener fields, the only conditions on the
// way to that Close may be tests of the listener field itself and of earlier Close errors.
func ruleStopClosesWhatIsOpen(c *Ctx, rid string) {
	c.rule(rid, "every Close of a listener field of redis.Server is guarded by nothing but nil tests of listener fields and tests of Close errors: in particular not by the current configuration (IsPortEnabled, ConfigPort, ...)")
	n := 0
	for _, fn := range c.P.RepoFuncs(pkgRedis) {
		if !inFramework(fn) {
			continue
		}
		allInstrs(fn, func(ins ssa.Instruction) {
			cc := callCommon(ins)
			if cc == nil || !strings.HasSuffix(calleeName(cc), "Listener).Close") {
				return
			}
			recv := cc.Value
			if !cc.IsInvoke() && len(cc.Args) > 0 {
				recv = cc.Args[0]
			}
			fs, ok := fieldsBehind(recv)
			if !ok || !strings.HasPrefix(fs[0], "redis.Server.") {
				return
			}
			sort.Strings(fs)
			n += len(fs)
			f := strings.ReplaceAll(strings.Join(fs, "+"), "redis.Server.", "")
			key := fmt.Sprintf("%s/close:%s", fnName(fn), f)
			bad := ""
			// the conditions on the way to the Close: those inside this function and, when the
			// listener was handed in through a pointer parameter of an unexported helper
			// (closeListener(&server.portListener)), those on the way to each call of the helper
			atoms := factsAt(ins.Block())
			{
				cur, seenFn := fn, map[*ssa.Function]bool{}
				for d := 0; d < 3 && cur != nil && !seenFn[cur] && valueFromParam(recv); d++ {
					seenFn[cur] = true
					if cur.Object() != nil && cur.Object().Exported() {
						break
					}
					cs, only := c.P.onlyStaticallyCalled(cur)
					if !only || len(cs) == 0 {
						break
					}
					var next *ssa.Function
					for _, ci := range cs {
						atoms = append(atoms, factsAt(ci.Block())...)
						next = ci.Parent()
					}
					if len(cs) != 1 {
						break
					}
					cur = next
					recv = nil
					for _, a := range cs[0].Common().Args {
						if valueFromParam(a) {
							recv = a
						}
					}
					if recv == nil {
						break
					}
				}
			}
			for _, at := range atoms {
				switch at.Kind {
				case "nil":
					if fs2, ok := fieldsBehind(at.X); ok {
						all := true
						for _, f2 := range fs2 {
							if !strings.Contains(strings.ToLower(f2), "listener") {
								all = false
							}
						}
						if all {
							continue
						}
					}
					if isErrorType(at.X.Type()) {
						continue
					}
					bad = "a nil test of something other than a listener or an error"
				case "call":
					bad = "the result of " + calleeName(at.Call.Common())
				case "val":
					if _, isC := at.X.(*ssa.Call); isC {
						bad = "the result of a call (" + at.X.String() + ")"
					} else {
						bad = "a boolean that is not a test of the listener"
					}
				case "eq", "lt", "le":
					if at.Kind != "eq" && localCounter(at.X, 0) && localCounter(at.Y, 0) {
						continue // the bookkeeping of a loop over a local table of listeners
					}
					bad = "a comparison of values other than the listener"
				}
			}
			c.check(bad == "", rid, key, c.P.instrPos(ins), "closed whenever it is open", "whether the open listener is closed depends on "+bad+": a listener opened by Start can survive Stop, keep accepting connections and keep its port")
		})
	}
	c.count("listener-close-sites", n)
	c.floor("listener-close-sites", 2)
}

// fromRegistry: the *Conn value was obtained from the connection registry — a result of
// ConnManager.Conns / ConnByUUID, an element of the registry map, or a parameter that some
// static caller binds to such a value (a Conn method called on a connection of the snapshot).
func (m *syncModel) fromRegistry(v ssa.Value, depth int, seen map[ssa.Value]bool) bool {
	if v == nil || depth > 9 || seen[v] {
		return false
	}
	seen[v] = true
	switch x := v.(type) {
	case *ssa.Call:
		n := calleeName(x.Common())
		if strings.HasSuffix(n, "ConnManager).Conns") || strings.HasSuffix(n, "ConnManager).ConnByUUID") || strings.HasSuffix(n, "redis.Server).Conns") || strings.HasSuffix(n, "redis.Server).ConnByUUID") {
			return true
		}
	case *ssa.Extract:
		return m.fromRegistry(x.Tuple, depth+1, seen)
	case *ssa.UnOp:
		return m.fromRegistry(x.X, depth+1, seen)
	case *ssa.IndexAddr:
		return m.fromRegistry(x.X, depth+1, seen)
	case *ssa.Index:
		return m.fromRegistry(x.X, depth+1, seen)
	case *ssa.Lookup:
		if owner, f, _, ok := fieldOf(x.X); ok && owner == "redis.ConnManager" && f == "m" {
			return true
		}
		return m.fromRegistry(x.X, depth+1, seen)
	case *ssa.Next:
		return m.fromRegistry(x.Iter, depth+1, seen)
	case *ssa.Range:
		if owner, f, _, ok := fieldOf(x.X); ok && owner == "redis.ConnManager" && f == "m" {
			return true
		}
		return m.fromRegistry(x.X, depth+1, seen)
	case *ssa.Phi:
		for _, e := range x.Edges {
			if m.fromRegistry(e, depth+1, seen) {
				return true
			}
		}
	case *ssa.Slice:
		return m.fromRegistry(x.X, depth+1, seen)
	case *ssa.Alloc:
		// a local variable (captured by a closure, or address-taken): what is stored into it
		for _, st := range allocStores(x) {
			if m.fromRegistry(st.Val, depth+1, seen) {
				return true
			}
		}
	case *ssa.FreeVar:
		if sv := freeVarSingleStore(x); sv != nil {
			return m.fromRegistry(sv, depth+1, seen)
		}
	case *ssa.TypeAssert:
		return m.fromRegistry(x.X, depth+1, seen)
	case *ssa.ChangeInterface:
		return m.fromRegistry(x.X, depth+1, seen)
	case *ssa.MakeInterface:
		return m.fromRegistry(x.X, depth+1, seen)
	case *ssa.Parameter:
		fn := x.Parent()
		idx := -1
		for i, q := range fn.Params {
			if q == x {
				idx = i
			}
		}
		for _, site := range m.p.staticCallSites(fn) {
			args := site.Common().Args
			if idx >= 0 && idx < len(args) && m.fromRegistry(args[idx], depth+1, seen) {
				return true
			}
		}
	}
	return false
}

// ruleNoConcurrentMapAccess: the subset of the lockset verdict that is not "only" a data race:
// the Go runtime detects a map written while another goroutine reads, ranges over or writes it
// and ends the process with a fatal error that no recover() can stop — one client's request
// takes the server down for every client.
func ruleNoConcurrentMapAccess(c *Ctx, rid string) {
	c.rule(rid, "for every map kept in a field of a shared struct of the framework: every (map update/delete/clear, map lookup/range/update/len) pair that can execute in concurrent roots holds a common mutex, exclusively at the write — an unsynchronised pair is a fatal runtime error (concurrent map read and map write), not a recoverable panic")
	m := buildSyncModel(c)
	roots := concurrencyRoots(c.P)
	reach := map[string]map[*ssa.Function]bool{}
	for _, r := range roots {
		reach[r.Name] = m.reachFrom(r)
	}
	rootsOfFn := func(fn *ssa.Function) []rootInfo {
		var out []rootInfo
		for _, r := range roots {
			if reach[r.Name][fn] {
				out = append(out, r)
			}
		}
		return out
	}
	byField := map[string][]Access{}
	for _, a := range m.accesses {
		if strings.HasPrefix(a.What, "map ") || a.What == "len" {
			byField[a.Field] = append(byField[a.Field], a)
		}
	}
	nf := 0
	for _, field := range sortedKeys(byField) {
		accs := byField[field]
		hasWrite := false
		for _, a := range accs {
			if a.Write {
				hasWrite = true
			}
		}
		if !hasWrite {
			continue
		}
		nf++
		isConn := strings.HasPrefix(field, "redis.Conn.") || connOwned[field[:strings.LastIndex(field, ".")]]
		var bad []string
		npairs := 0
		for i, w := range accs {
			if !w.Write {
				continue
			}
			wr := rootsOfFn(w.Fn)
			for j, x := range accs {
				if j < i && x.Write {
					continue
				}
				conc := false
				for _, r1 := range wr {
					for _, r2 := range rootsOfFn(x.Fn) {
						if !(r1.Goroutine || r2.Goroutine) {
							continue
						}
						if isConn && r1.Goroutine && r2.Goroutine && !w.Foreign && !x.Foreign {
							continue
						}
						conc = true
					}
				}
				if !conc {
					continue
				}
				npairs++
				common := false
				for k := range m.locks.names {
					if w.Locks.mode(k) == 2 && x.Locks.mode(k) >= 1 {
						common = true
					}
				}
				if !common {
					bad = append(bad, fmt.Sprintf("%s at %s (in %s, locks %s) vs %s at %s (in %s, locks %s)", w.What, c.P.instrPos(w.Ins), fnName(w.Fn), m.locks.render(w.Locks), x.What, c.P.instrPos(x.Ins), fnName(x.Fn), m.locks.render(x.Locks)))
				}
			}
		}
		key := "map/" + field
		if len(bad) == 0 {
			c.ok(rid, key, "", fmt.Sprintf("%d map accesses, %d concurrent write/access pairs, all under a common lock", len(accs), npairs))
			continue
		}
		sort.Strings(bad)
		if len(bad) > 4 {
			bad = append(bad[:4], fmt.Sprintf("... and %d more", len(bad)-4))
		}
		c.bad(rid, key, "", fmt.Sprintf("%d concurrent map write/access pair(s) on %s without a common mutex: the runtime ends the process (fatal error: concurrent map read and map write) for every client", len(bad), field), bad...)
	}
	c.count("shared-maps-written", nf)
	c.floor("shared-maps-written", 2)
}

// valueFromParam: the value is (a load through / a phi of) a parameter of its function.
func valueFromParam(v ssa.Value) bool {
	for k := 0; k < 6 && v != nil; k++ {
		switch x := v.(type) {
		case *ssa.Parameter:
			return true
		case *ssa.UnOp:
			v = x.X
		case *ssa.ChangeInterface:
			v = x.X
		case *ssa.MakeInterface:
			v = x.X
		case *ssa.Phi:
			for _, e := range x.Edges {
				if valueFromParam(e) {
					return true
				}
			}
			return false
		default:
			return false
		}
	}
	return false
}
