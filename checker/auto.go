package main

// auto.go: A1 — path automaton over the SSA control-flow graph.
//
// A finite abstract state is propagated forward along every CFG path to a fixed point (sets of
// states per block entry), so all paths including all loop iterations are covered without
// enumerating them. Witness paths are recovered from BFS predecessor links.

import (
	"fmt"

	"golang.org/x/tools/go/ssa"
)

type autoNode[S comparable] struct {
	b *ssa.BasicBlock
	s S
}

// AutoErr is an error state reached by the automaton.
type AutoErr[S comparable] struct {
	Msg   string
	Ins   ssa.Instruction
	Block *ssa.BasicBlock
	State S
	Path  []*ssa.BasicBlock
}

// Auto is the automaton definition.
type Auto[S comparable] struct {
	Fn   *ssa.Function
	Init S
	// Step consumes one instruction in state s and returns the successor states.
	// It calls fail(msg) to report an error state (the path is then dropped unless states are returned).
	Step func(s S, ins ssa.Instruction, fail func(msg string)) []S
	// Edge refines or prunes state s along the edge b -> b.Succs[idx]; nil = keep as is.
	Edge func(s S, b *ssa.BasicBlock, idx int) (S, bool)
	// StartBlock: where to start (default: entry block).
	StartBlock *ssa.BasicBlock
}

// AutoResult is the fixed point.
type AutoResult[S comparable] struct {
	In   map[*ssa.BasicBlock]map[S]bool
	Errs []AutoErr[S]
	// Exit states: states at each Return instruction (before the return).
	AtReturn map[*ssa.Return]map[S]bool
	Steps    int
}

// Run computes the fixed point.
func (a *Auto[S]) Run() *AutoResult[S] {
	res := &AutoResult[S]{In: map[*ssa.BasicBlock]map[S]bool{}, AtReturn: map[*ssa.Return]map[S]bool{}}
	if a.Fn == nil || len(a.Fn.Blocks) == 0 {
		return res
	}
	start := a.StartBlock
	if start == nil {
		start = a.Fn.Blocks[0]
	}
	pred := map[autoNode[S]]*autoNode[S]{}
	first := autoNode[S]{start, a.Init}
	res.In[start] = map[S]bool{a.Init: true}
	queue := []autoNode[S]{first}
	pathOf := func(n autoNode[S]) []*ssa.BasicBlock {
		var rev []*ssa.BasicBlock
		cur := &n
		for i := 0; cur != nil && i < 10000; i++ {
			rev = append(rev, cur.b)
			cur = pred[*cur]
		}
		out := make([]*ssa.BasicBlock, 0, len(rev))
		for i := len(rev) - 1; i >= 0; i-- {
			out = append(out, rev[i])
		}
		return out
	}
	errSeen := map[string]bool{}
	for len(queue) > 0 {
		n := queue[0]
		queue = queue[1:]
		states := []S{n.s}
		for _, ins := range n.b.Instrs {
			var next []S
			seen := map[S]bool{}
			for _, s := range states {
				s := s
				fail := func(msg string) {
					key := fmt.Sprintf("%s|%p|%v", msg, ins, s)
					if errSeen[key] {
						return
					}
					errSeen[key] = true
					res.Errs = append(res.Errs, AutoErr[S]{Msg: msg, Ins: ins, Block: n.b, State: s, Path: pathOf(n)})
				}
				if r, ok := ins.(*ssa.Return); ok {
					if res.AtReturn[r] == nil {
						res.AtReturn[r] = map[S]bool{}
					}
					res.AtReturn[r][s] = true
				}
				res.Steps++
				for _, t := range a.Step(s, ins, fail) {
					if !seen[t] {
						seen[t] = true
						next = append(next, t)
					}
				}
			}
			states = next
			if len(states) == 0 {
				break
			}
		}
		for idx, succ := range n.b.Succs {
			for _, s := range states {
				t := s
				if a.Edge != nil {
					var keep bool
					t, keep = a.Edge(s, n.b, idx)
					if !keep {
						continue
					}
				}
				if res.In[succ] == nil {
					res.In[succ] = map[S]bool{}
				}
				if !res.In[succ][t] {
					res.In[succ][t] = true
					nn := autoNode[S]{succ, t}
					cp := n
					pred[nn] = &cp
					queue = append(queue, nn)
				}
			}
		}
	}
	return res
}

// witness renders an error path.
func (e AutoErr[S]) witness(p *Program) []string {
	w := blockPath(p, e.Path)
	if e.Ins != nil {
		w = append(w, fmt.Sprintf("at %s: %s", p.instrPos(e.Ins), e.Ins.String()))
	}
	return w
}
