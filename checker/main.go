package main

import (
	"flag"
	"fmt"
	"os"
	"path/filepath"
	"sort"
	"strconv"
	"strings"
	"time"
)

var props = map[string]*propInfo{}

func register(p *propInfo) { props[p.ID] = p }

func main() {
	var (
		prop    = flag.String("property", "", "property id (C01..C20)")
		tier    = flag.String("tier", "quick", "quick|thorough")
		repo    = flag.String("repo", "/repo", "repository root")
		verif   = flag.String("verif", "/verif", "verif root (known findings, evidence, out)")
		noEv    = flag.Bool("no-evidence", false, "do not write evidence/replay files (used for control runs on scratch copies)")
		goarch  = flag.String("goarch", "", "GOARCH to analyse under")
		dump    = flag.Bool("dump", false, "print every obligation")
		expect  = flag.String("expect", "", "control mode: exit 0 iff some violated/undecided obligation has rule[/construct-substring] (comma list of rule:substr)")
		listAll = flag.Bool("list", false, "list properties")
		sigs    = flag.Bool("signatures", false, "print the extracted executor signatures (A6) and exit")
		matrix  = flag.Bool("matrix", false, "development aid for sweeps over scratch copies: load the tree once, run the quick rule set of every property, print '<id>:FIRED' or '<id>:silent' per property (no evidence, no replay files); not used by any registered check")
	)
	flag.Parse()
	if *matrix {
		os.Exit(matrixMode(*repo, *verif, *goarch))
	}
	if *listAll {
		for _, id := range sortedKeys(props) {
			fmt.Println(id, props[id].Level)
		}
		return
	}
	verifRoot = *verif
	if *sigs {
		p, err := loadProgram(*repo, *goarch)
		if err != nil {
			fmt.Println(err)
			os.Exit(2)
		}
		dumpSignatures(p)
		if os.Getenv("VERIF_DUMP_VALUE_REJECTIONS") != "" {
			dumpValueRejections(p)
		}
		return
	}
	if env := os.Getenv("VERIF_TIER"); env != "" && !flagSet("tier") {
		*tier = env
	}
	seed := 0
	if s := os.Getenv("VERIF_SEED"); s != "" {
		seed, _ = strconv.Atoi(s)
	}
	pi := props[*prop]
	if pi == nil {
		fmt.Fprintf(os.Stderr, "unknown property %q\n", *prop)
		os.Exit(2)
	}
	absRepo, _ := filepath.Abs(*repo)

	var ctxs []*Ctx
	fail := func(err error) {
		// A tree that cannot be loaded decides nothing: report as a violation of "decidable".
		fmt.Printf("ERROR property=%s %v\n", pi.ID, err)
		if !*noEv {
			replay := filepath.Join(*verif, "out", pi.ID, "load-error.json")
			_ = writeJSON(replay, map[string]any{"property": pi.ID, "status": "undecided", "error": err.Error()})
			fmt.Printf("VIOLATION property=%s replay=%s\n", pi.ID, replay)
			_ = writeJSON(filepath.Join(*verif, "evidence", pi.ID+".json"), evidence{
				PropertyID: pi.ID, Tier: *tier, Seed: seed, Level: pi.Level,
				Coverage: map[string]any{"explanation": "the repository could not be loaded/type-checked; nothing was decided: " + err.Error(), "obligations": 0, "discharged": 0, "checker_cmd": strings.Join(os.Args, " "), "trusted_base": []string{}},
				WallS:    time.Since(startTime).Seconds(), Violations: 1, Assumptions: []string{},
			})
		}
		os.Exit(1)
	}

	p, err := loadProgram(absRepo, *goarch)
	if err != nil {
		fail(err)
	}
	c := newCtx(p, pi.ID, *tier)
	runGuarded(c, pi)
	ctxs = append(ctxs, c)

	if *tier == "thorough" && *goarch == "" && *expect == "" {
		// (ii) the same rules on a 32-bit target
		p386, err := loadProgram(absRepo, "386")
		if err != nil {
			fail(fmt.Errorf("GOARCH=386: %w", err))
		}
		c386 := newCtx(p386, pi.ID, *tier)
		runGuarded(c386, pi)
		for i := range c386.Obs {
			c386.Obs[i].Construct = c386.Obs[i].Construct + " [GOARCH=386]"
		}
		ctxs = append(ctxs, c386)
	}

	// merge
	all := newCtx(p, pi.ID, *tier)
	for _, cx := range ctxs {
		for _, o := range cx.Obs {
			all.add(o)
		}
		for k, v := range cx.Counts {
			if v > all.Counts[k] {
				all.Counts[k] = v
			}
		}
		for k, v := range cx.Floors {
			all.Floors[k] = v
		}
		for k, v := range cx.Rules {
			all.Rules[k] = v
		}
		for k := range cx.FuncsSet {
			all.FuncsSet[k] = true
		}
		all.Notes = append(all.Notes, cx.Notes...)
		for _, a := range cx.Assume {
			if !contains(all.Assume, a) {
				all.Assume = append(all.Assume, a)
			}
		}
	}
	c = all

	// floors: an instance count below what was confirmed by hand is a failed (vacuous) rule
	for _, k := range sortedKeys(c.Floors) {
		if c.Counts[k] < c.Floors[k] {
			c.undecided("floor", k, "", fmt.Sprintf("rule instance count %d fell below the confirmed floor %d: the rule no longer finds the code it decides (vacuous pass refused)", c.Counts[k], c.Floors[k]))
		} else {
			c.ok("floor", k, "", fmt.Sprintf("instances %d >= floor %d", c.Counts[k], c.Floors[k]))
		}
	}

	if *expect != "" {
		os.Exit(expectMode(c, *expect, *dump))
	}

	kf, err := loadKnown(filepath.Join(*verif, "known_findings.json"))
	if err != nil {
		fail(fmt.Errorf("known_findings.json: %w", err))
	}
	sort.SliceStable(c.Obs, func(i, j int) bool {
		if c.Obs[i].Rule != c.Obs[j].Rule {
			return c.Obs[i].Rule < c.Obs[j].Rule
		}
		return c.Obs[i].Construct < c.Obs[j].Construct
	})

	outDir := filepath.Join(*verif, "out", pi.ID)
	if !*noEv {
		_ = os.RemoveAll(outDir)
	}
	nviol, nknown, ndis := 0, 0, 0
	var lines []string
	for i := range c.Obs {
		o := &c.Obs[i]
		switch o.Status {
		case stDischarged:
			ndis++
			continue
		}
		// match the known-findings file: exact property + rule + construct, status "known" only
		matched := false
		for _, k := range kf.Findings {
			base := strings.TrimSuffix(o.Construct, " [GOARCH=386]")
			if k.Status == "known" && k.Property == pi.ID && k.Rule == o.Rule && k.Construct == base && o.Status == stViolated {
				matched = true
				lines = append(lines, fmt.Sprintf("KNOWN-FINDING: property=%s %s %s: %s", pi.ID, o.Rule, o.Construct, k.What))
				break
			}
		}
		if matched {
			o.Status = stKnown
			nknown++
			continue
		}
		nviol++
		replay := filepath.Join(outDir, fmt.Sprintf("%d.json", nviol))
		if !*noEv {
			_ = writeJSON(replay, map[string]any{"property": pi.ID, "obligation": o, "rule_text": c.Rules[o.Rule],
				"explain": fmt.Sprintf("%s -property %s -tier %s -dump", os.Args[0], pi.ID, *tier)})
		}
		fmt.Printf("%s: %s [%s] %s %s: %s\n", strings.ToUpper(o.Status), pi.ID, o.Rule, o.Construct, o.Pos, o.Detail)
		for _, w := range o.Witness {
			fmt.Printf("    %s\n", w)
		}
		lines = append(lines, fmt.Sprintf("VIOLATION property=%s replay=%s", pi.ID, replay))
	}
	if *dump {
		for _, o := range c.Obs {
			fmt.Printf("  %-10s %-8s %s %s -- %s\n", o.Status, o.Rule, o.Construct, o.Pos, o.Detail)
		}
		for _, n := range c.Notes {
			fmt.Printf("  note: %s\n", n)
		}
	}
	for _, l := range lines {
		fmt.Println(l)
	}
	total := len(c.Obs)
	fmt.Printf("%s tier=%s obligations=%d discharged=%d known=%d violated_or_undecided=%d functions=%d wall=%.1fs\n",
		pi.ID, *tier, total, ndis, nknown, nviol, len(c.FuncsSet), time.Since(startTime).Seconds())

	if !*noEv {
		writeEvidence(c, pi, *verif, *tier, seed, total, ndis, nknown, nviol)
	}
	if nviol > 0 {
		os.Exit(1)
	}
}

func runGuarded(c *Ctx, pi *propInfo) {
	defer func() {
		if r := recover(); r != nil {
			c.undecided("internal", "checker-panic", "", fmt.Sprintf("the checker panicked: %v (a panic decides nothing and fails the check)", r))
		}
	}()
	pi.Run(c)
}

func flagSet(name string) bool {
	found := false
	flag.Visit(func(f *flag.Flag) {
		if f.Name == name {
			found = true
		}
	})
	return found
}

func contains(ss []string, s string) bool {
	for _, x := range ss {
		if x == s {
			return true
		}
	}
	return false
}

// expectMode is used by the seeded-variant controls: the run succeeds iff the named rule fired
// on a construct containing the given substring.
func expectMode(c *Ctx, expect string, dump bool) int {
	hit := false
	for _, e := range strings.Split(expect, ",") {
		rule, sub, _ := strings.Cut(e, ":")
		for _, o := range c.Obs {
			if o.Status != stViolated && o.Status != stUndecided {
				continue
			}
			if (rule == "" || o.Rule == rule) && strings.Contains(o.Construct, sub) {
				hit = true
				fmt.Printf("CONTROL-FIRED %s %s %s %s: %s\n", o.Status, o.Rule, o.Construct, o.Pos, o.Detail)
			}
		}
	}
	if dump || !hit {
		for _, o := range c.Obs {
			if o.Status != stDischarged {
				fmt.Printf("  %-10s %-8s %s %s -- %s\n", o.Status, o.Rule, o.Construct, o.Pos, o.Detail)
			}
		}
	}
	if hit {
		return 0
	}
	fmt.Println("CONTROL-SILENT")
	return 3
}

func writeEvidence(c *Ctx, pi *propInfo, verif, tier string, seed, total, ndis, nknown, nviol int) {
	samples := []any{}
	// every non-discharged obligation, then discharged ones up to a cap, as written-out cases
	for _, o := range c.Obs {
		if o.Status != stDischarged {
			samples = append(samples, o)
		}
	}
	capN := 400
	for _, o := range c.Obs {
		if o.Status == stDischarged && len(samples) < capN {
			samples = append(samples, o)
		}
	}
	perRule := map[string]map[string]int{}
	distinct := map[string]bool{}
	for _, o := range c.Obs {
		if perRule[o.Rule] == nil {
			perRule[o.Rule] = map[string]int{}
		}
		perRule[o.Rule][o.Status]++
		if o.Rule != "floor" {
			distinct[o.Rule+"|"+o.Construct] = true
		}
	}
	pkgs := []string{}
	for _, pk := range c.P.Pkgs {
		pkgs = append(pkgs, pk.PkgPath)
	}
	sort.Strings(pkgs)
	cov := map[string]any{
		"explanation": pi.Explanation,
		"rules":       c.Rules,
		"obligations": total,
		// "discharged" counts obligations that are discharged or are listed known findings (printed as KNOWN-FINDING)
		"discharged":          ndis,
		"known_findings":      nknown,
		"violated":            nviol,
		"evaluations":         total,
		"distinct_nontrivial": len(distinct),
		"rule":                "one obligation per (rule, construct) instance found in the SSA/type-checked program; distinct = distinct (rule, construct) keys, floors excluded",
		"samples":             samples,
		"per_rule":            perRule,
		"instance_counts":     c.Counts,
		"instance_floors":     c.Floors,
		"packages_analysed":   pkgs,
		"functions_analysed":  sortedKeys(c.FuncsSet),
		"notes":               c.Notes,
		"checker_cmd":         strings.Join(os.Args, " "),
		"trusted_base":        []string{"go/types", "golang.org/x/tools/go/ssa v0.29.0", "golang.org/x/tools/go/callgraph/vta", "the rule implementations in /verif/checker"},
		"exhaustive":          false,
	}
	if pi.Level == "proof" {
		// for a proof-level claim known findings do not count as discharged
		cov["discharged"] = ndis
	}
	ev := evidence{PropertyID: pi.ID, Tier: tier, Seed: seed, Level: pi.Level, Coverage: cov,
		Assumptions: append([]string{}, c.Assume...), WallS: time.Since(startTime).Seconds(), Violations: nviol}
	if err := writeJSON(filepath.Join(verif, "evidence", pi.ID+".json"), ev); err != nil {
		fmt.Fprintf(os.Stderr, "evidence: %v\n", err)
		os.Exit(1)
	}
}

// matrixMode runs every property's quick rule set on one load of the tree (sweeps over many scratch
// copies: one load instead of twenty). Verdict per property = what the registered check would print.
func matrixMode(repo, verif, goarch string) int {
	verifRoot = verif
	absRepo, _ := filepath.Abs(repo)
	p, err := loadProgram(absRepo, goarch)
	if err != nil {
		fmt.Printf("ERROR %v\n", err)
		return 2
	}
	kf, err := loadKnown(filepath.Join(verif, "known_findings.json"))
	if err != nil {
		fmt.Printf("ERROR %v\n", err)
		return 2
	}
	var out []string
	for _, id := range sortedKeys(props) {
		pi := props[id]
		c := newCtx(p, id, "quick")
		runGuarded(c, pi)
		for _, k := range sortedKeys(c.Floors) {
			if c.Counts[k] < c.Floors[k] {
				c.undecided("floor", k, "", "floor")
			}
		}
		var fired []string
		for _, o := range c.Obs {
			if o.Status == stDischarged {
				continue
			}
			known := false
			for _, k := range kf.Findings {
				if k.Status == "known" && k.Property == id && k.Rule == o.Rule && k.Construct == o.Construct && o.Status == stViolated {
					known = true
					break
				}
			}
			if !known {
				fired = append(fired, o.Rule)
			}
		}
		if len(fired) > 0 {
			sort.Strings(fired)
			u := fired[:0]
			for i, r := range fired {
				if i == 0 || r != fired[i-1] {
					u = append(u, r)
				}
			}
			out = append(out, id+":FIRED("+strings.Join(u, ",")+")")
		} else {
			out = append(out, id+":silent")
		}
	}
	fmt.Println(strings.Join(out, " "))
	return 0
}
