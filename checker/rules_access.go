package main

// rules_access.go: the typed accessors between the parsed request and the executors
// (proto.Array.Next*, proto.Message.String/Bytes/Integer) are identities / honest rejections.

import (
	"fmt"
	"go/token"
	"strings"

	"golang.org/x/tools/go/ssa"
)

// ruleAccessorsIdentity: used by C05 (R05.f) and C10 (R10.a).
func ruleAccessorsIdentity(c *Ctx, rid string) {
	c.rule(rid, "typed accessors: Array.Next returns the element at the cursor and advances the cursor by exactly one (nil at the end); NextMessage turns the end into ErrEOM; NextString/NextInteger/NextBytes return the results of the corresponding Message accessor on that element unchanged; Message.String returns string(payload) — no trimming, case change or other transformation — and ErrNil for a nil payload; Message.Bytes returns the payload; Message.Integer is strconv.Atoi(string(payload))")
	// Array.Next
	next := c.P.Method(pkgProto, "Array", "Next")
	if c.anchor(rid, next, "proto.(*Array).Next") {
		problems := []string{}
		adv := 0
		allInstrs(next, func(ins ssa.Instruction) {
			st, ok := ins.(*ssa.Store)
			if !ok {
				return
			}
			if _, f, _, ok := fieldOf(st.Addr); ok && f == "index" {
				adv++
				l := linOf(st.Val)
				if !(l.off == 1) {
					problems = append(problems, fmt.Sprintf("the cursor is advanced by %d, not 1", l.off))
				} else if _, f2, _, ok := fieldOf(l.base); !ok || f2 != "index" {
					problems = append(problems, "the new cursor is not the old cursor + 1")
				}
			}
		})
		if adv != 1 {
			problems = append(problems, fmt.Sprintf("%d stores to the cursor (expected exactly one)", adv))
		}
		for _, r := range returnsOf(next) {
			v := strip(retOperand(r, 0))
			if isNilConst(v) {
				// end: must be under size <= index
				endOK := false
				for _, iq := range ineqsOf(factsAt(r.Block())) {
					if _, f, _, ok := fieldOf(iq.y.base); ok && f == "index" && !iq.y.isLen {
						endOK = true
					}
				}
				if !endOK {
					problems = append(problems, "nil is returned on a path not guarded by size <= cursor")
				}
				continue
			}
			ld, ok := v.(*ssa.UnOp)
			okElem := false
			if ok && ld.Op == token.MUL {
				if ia, ok := ld.X.(*ssa.IndexAddr); ok {
					_, f1, _, ok1 := fieldOf(ia.X)
					_, f2, _, ok2 := fieldOf(ia.Index)
					okElem = ok1 && ok2 && f1 == "msgs" && f2 == "index"
				}
			}
			if !okElem {
				problems = append(problems, "the value returned is not msgs[index]")
			}
		}
		c.check(len(problems) == 0, rid, "Array.Next", c.P.pos(next.Pos()), "returns msgs[index] and advances by one; nil at the end", strings.Join(problems, "; "))
	}
	// NextMessage: nil -> ErrEOM
	nm := c.P.Method(pkgProto, "Array", "NextMessage")
	if c.anchor(rid, nm, "proto.(*Array).NextMessage") {
		okEOM, okPass := false, false
		for _, r := range returnsOf(nm) {
			if isLoadOfGlobal(retOperand(r, 1), pkgProto, "ErrEOM") {
				for _, at := range factsAt(r.Block()) {
					if at.Kind == "nil" && at.Pos {
						okEOM = true
					}
				}
			}
			if ex, ok := strip(retOperand(r, 0)).(*ssa.Extract); ok && isNilConst(retOperand(r, 1)) {
				if call, ok := ex.Tuple.(*ssa.Call); ok && calleeName(call.Common()) == nArrayNext {
					okPass = true
				}
			}
		}
		c.check(okEOM && okPass, rid, "Array.NextMessage", c.P.pos(nm.Pos()), "element passed through; end of arguments becomes ErrEOM", "NextMessage does not turn the end of the arguments into ErrEOM, or does not return the element itself")
	}
	// NextString / NextInteger / NextBytes: pass-through of the Message accessor on NextMessage's element
	for _, pr := range [][2]string{{"NextString", "String"}, {"NextInteger", "Integer"}, {"NextBytes", "Bytes"}} {
		fn := c.P.Method(pkgProto, "Array", pr[0])
		if fn == nil {
			continue
		}
		c.analysed(fn)
		okAll := false
		for _, r := range returnsOf(fn) {
			if isNilConst(retOperand(r, len(r.Results)-1)) && len(r.Results) == 2 {
				// a success return other than the pass-through
				if _, isC := r.Results[0].(*ssa.Const); !isC {
					okAll = false
				}
			}
			ex0, ok0 := strip(retOperand(r, 0)).(*ssa.Extract)
			ex1, ok1 := strip(retOperand(r, 1)).(*ssa.Extract)
			if ok0 && ok1 && ex0.Tuple == ex1.Tuple {
				if call, ok := ex0.Tuple.(*ssa.Call); ok && calleeName(call.Common()) == "(*"+pkgProto+".Message)."+pr[1] {
					recv := strip(call.Common().Args[0])
					if e2, ok := recv.(*ssa.Extract); ok {
						if c2, ok := e2.Tuple.(*ssa.Call); ok && strings.HasSuffix(calleeName(c2.Common()), "proto.Array).NextMessage") {
							okAll = true
						}
					}
				}
			}
		}
		c.check(okAll, rid, "Array."+pr[0], c.P.pos(fn.Pos()), "returns Message."+pr[1]+"() of the next element unchanged", "the accessor does not return Message."+pr[1]+"() of the next element unchanged (the argument is transformed or replaced on the way to the executor)")
	}
	// Message.String
	ms := c.P.Method(pkgProto, "Message", "String")
	if c.anchor(rid, ms, "proto.(*Message).String") {
		problems := []string{}
		nsucc := 0
		for _, r := range returnsOf(ms) {
			if !isNilConst(retOperand(r, 1)) {
				continue
			}
			nsucc++
			cv, ok := retOperand(r, 0).(*ssa.Convert)
			okId := false
			if ok {
				if _, f, base, ok := fieldOf(cv.X); ok && f == "bytes" && strip(base) == ssa.Value(ms.Params[0]) {
					okId = true
				}
			}
			if !okId {
				problems = append(problems, "a success return is not string(payload): the argument string is transformed")
			}
			nonNil := false
			for _, at := range factsAt(r.Block()) {
				if at.Kind == "nil" && !at.Pos {
					if _, f, _, ok := fieldOf(at.X); ok && f == "bytes" {
						nonNil = true
					}
				}
			}
			if !nonNil {
				problems = append(problems, "a null payload is returned as a string instead of ErrNil")
			}
		}
		if nsucc == 0 {
			problems = append(problems, "no success return")
		}
		c.check(len(problems) == 0, rid, "Message.String", c.P.pos(ms.Pos()), "string(payload); null payload is ErrNil", strings.Join(problems, "; "))
	}
	mb := c.P.Method(pkgProto, "Message", "Bytes")
	if mb != nil {
		c.analysed(mb)
		okB := true
		for _, r := range returnsOf(mb) {
			if _, f, _, ok := fieldOf(retOperand(r, 0)); !ok || f != "bytes" {
				okB = false
			}
		}
		c.check(okB, rid, "Message.Bytes", c.P.pos(mb.Pos()), "returns the payload", "Message.Bytes does not return the payload itself")
	}
	mi := c.P.Method(pkgProto, "Message", "Integer")
	if mi != nil {
		c.analysed(mi)
		okI := false
		allInstrs(mi, func(ins ssa.Instruction) {
			if call, ok := isCall(ins, "strconv.Atoi", "strconv.ParseInt"); ok {
				if cv, ok := call.Common().Args[0].(*ssa.Convert); ok {
					if _, f, _, ok := fieldOf(cv.X); ok && f == "bytes" {
						okI = true
					}
				}
			}
		})
		c.check(okI, rid, "Message.Integer/operand", c.P.pos(mi.Pos()), "parses string(payload)", "Message.Integer does not parse the untransformed payload")
	}
}

// ruleLineReaderValue: the line reader returns exactly the bytes it read before the CR.
func ruleLineReaderValue(c *Ctx, rid string) {
	c.rule(rid, "line reader value: every byte read before the CR is appended, unchanged and unconditionally, to a local buffer, and complete lines are returned as that buffer's bytes (or an empty slice) — no trimming, skipping or other comparison on the payload bytes")
	for _, f := range c.P.parserScope() {
		if !isLineReader(f) {
			continue
		}
		c.analysed(f)
		key := fnName(f) + "/value"
		problems := []string{}
		if call, delim := delimitedLineRead(f); call != nil && calleeName(call.Common()) != "(*bufio.Reader).ReadSlice" {
			// buffered form: the line is the copy the delimited read returned, minus the delimiter
			okAll := true
			why := ""
			for _, r := range returnsOf(f) {
				if len(r.Results) != 2 || !isNilConst(retOperand(r, 1)) {
					continue
				}
				v := strip(retOperand(r, 0))
				isData := func(x ssa.Value) bool {
					ex, ok := strip(x).(*ssa.Extract)
					return ok && ex.Tuple == ssa.Value(call) && ex.Index == 0
				}
				switch x := v.(type) {
				case *ssa.Extract:
					if !isData(x) {
						okAll, why = false, "a line is returned that is not the data of the delimited read"
					}
				case *ssa.Slice:
					hi := lin{}
					if x.High != nil {
						hi = linOf(x.High)
					}
					ln := lenOf(x.X)
					if !(isData(x.X) && x.Low == nil && x.High != nil && sameBase(hi, ln) && hi.off == ln.off-1 && delim == 13) {
						if al, isAl := x.X.(*ssa.Alloc); !(isAl && strings.HasPrefix(deref(al.Type()).String(), "[0]")) {
							okAll, why = false, "a line is returned that is not the read data without its one-byte delimiter: "+v.String()
						}
					}
				case *ssa.MakeSlice:
					if n, ok := constInt(x.Len); !ok || n != 0 {
						okAll, why = false, "a line is returned that is not the read data"
					}
				default:
					okAll, why = false, "a line is returned that is not the read data without its delimiter: "+v.String()
				}
			}
			c.check(okAll, rid, key, c.P.pos(f.Pos()), "complete lines are the delimited read's own copy minus the delimiter", why)
			continue
		}
		var buf *ssa.Alloc
		allInstrs(f, func(ins ssa.Instruction) {
			if a, ok := ins.(*ssa.Alloc); ok && deref(a.Type()).String() == "bytes.Buffer" {
				buf = a
			}
		})
		if buf == nil {
			c.undecided(rid, key, c.P.pos(f.Pos()), "no local bytes.Buffer accumulates the line")
			continue
		}
		writes := 0
		allInstrs(f, func(ins ssa.Instruction) {
			call, ok := ins.(*ssa.Call)
			if !ok || len(call.Common().Args) < 2 || call.Common().Args[0] != ssa.Value(buf) {
				return
			}
			n := calleeName(call.Common())
			if !strings.HasPrefix(n, "(*bytes.Buffer).Write") {
				return
			}
			writes++
			isByte := isJustReadByte(strip(call.Common().Args[1])) || isJustReadByte(call.Common().Args[1])
			if !isByte {
				problems = append(problems, "something other than the byte just read is appended to the line")
			}
			// no guard other than the read tests and the CR test on the path to the append
			for _, at := range factsAt(call.Block()) {
				if at.Kind == "eq" || at.Kind == "lt" || at.Kind == "le" {
					if cv, ok := constInt(at.Y); ok && cv != 13 && cv != 1 && cv != 0 {
						problems = append(problems, fmt.Sprintf("a byte is appended only under a comparison with %d: payload bytes are filtered", cv))
					}
				}
			}
		})
		if writes == 0 {
			problems = append(problems, "no byte is appended to the line buffer")
		}
		for _, r := range returnsOf(f) {
			if len(r.Results) != 2 || !isNilConst(retOperand(r, 1)) {
				continue
			}
			v := strip(retOperand(r, 0))
			okV := false
			switch x := v.(type) {
			case *ssa.Call:
				okV = calleeName(x.Common()) == "(*bytes.Buffer).Bytes" && x.Common().Args[0] == ssa.Value(buf)
			case *ssa.MakeSlice:
				if n, ok := constInt(x.Len); ok && n == 0 {
					okV = true
				}
			case *ssa.Slice:
				if al, ok := x.X.(*ssa.Alloc); ok && strings.HasPrefix(deref(al.Type()).String(), "[0]") {
					okV = true
				}
			}
			if !okV {
				problems = append(problems, "a line is returned that is not the accumulated buffer (transformed, trimmed or re-sliced): "+v.String())
			}
		}
		c.check(len(problems) == 0, rid, key, c.P.pos(f.Pos()), "bytes before the CR, unchanged", strings.Join(problems, "; "))
	}
}

// rulePayloadStores: R01.e — what a constructor or setter puts into Message.bytes is the value
// it was given. The distinction between a nil payload (null bulk) and an empty one lives in
// that field, so a store must be nil, the function's own []byte parameter unchanged, or the
// result of one of the parser's read functions; a copy is accepted only in the nil-preserving
// shape (nil stays nil, anything else is copied into make([]byte, len(b))).
func rulePayloadStores(c *Ctx, rid string) {
	c.rule(rid, "every store into proto.Message.bytes in redis/proto stores nil, the function's []byte parameter itself, or the bytes returned by a parser read function; append([]byte(nil), b...) and similar copies turn an empty payload into the null one (or the null one into an empty one) and are reported")
	scope := scopeSet(c.P.parserScope())
	n := 0
	for _, f := range c.P.RepoFuncs(pkgProto) {
		if fnPkgPath(f) != pkgProto {
			continue
		}
		ord := 0
		allInstrs(f, func(ins ssa.Instruction) {
			st, ok := ins.(*ssa.Store)
			if !ok {
				return
			}
			owner, fld, _, ok := fieldOf(st.Addr)
			if !ok || owner != "proto.Message" || fld != "bytes" {
				return
			}
			ord++
			n++
			key := fmt.Sprintf("%s/payload-store#%d", fnName(f), ord)
			why := payloadPreserved(st.Val, scope, 0)
			if why == "" {
				c.ok(rid, key, c.P.instrPos(st), "the payload stored is the value given (nil stays nil, empty stays empty)")
			} else {
				c.bad(rid, key, c.P.instrPos(st), "the payload is transformed on its way into the message: "+why)
			}
		})
	}
	c.count("payload-stores", n)
	c.floor("payload-stores", 2)
}

func payloadPreserved(v ssa.Value, parserScope map[*ssa.Function]bool, depth int) string {
	if depth > 6 {
		return "too deep"
	}
	if isNilConst(v) {
		return ""
	}
	switch x := strip(v).(type) {
	case *ssa.Parameter:
		return ""
	case *ssa.Const:
		if x.Value == nil {
			return ""
		}
	case *ssa.Extract:
		if call, ok := x.Tuple.(*ssa.Call); ok {
			if h := staticCallee(call.Common()); h != nil && parserScope[h] {
				return "" // bytes read from the wire by the parser (R01.c decides their framing)
			}
		}
	case *ssa.Call:
		if h := staticCallee(x.Common()); h != nil && parserScope[h] {
			return ""
		}
		if b, ok := x.Common().Value.(*ssa.Builtin); ok && b.Name() == "append" {
			return "append(..., b...) yields nil for an empty b: an empty bulk string becomes the null bulk string"
		}
		return "result of " + calleeName(x.Common())
	case *ssa.Phi:
		// nil-preserving copy: nil on the edge where the source is nil, a copy elsewhere
		for i, e := range x.Edges {
			pred := x.Block().Preds[i]
			if isNilConst(e) {
				okNil := false
				for _, at := range edgeFacts(pred, succIndex(pred, x.Block())) {
					if at.Kind == "nil" && at.Pos {
						if _, isPar := at.X.(*ssa.Parameter); isPar {
							okNil = true
						}
					}
				}
				if !okNil {
					return "nil is stored on a path where the source is not known to be nil"
				}
				continue
			}
			if mk, ok := strip(e).(*ssa.MakeSlice); ok {
				// make([]byte, len(param)) filled by copy(dst, param): non-nil for every non-nil source
				if ln := linOf(mk.Len); ln.isLen {
					if _, isPar := ln.base.(*ssa.Parameter); isPar && ln.off == 0 {
						continue
					}
				}
				return "a buffer of another length replaces the payload"
			}
			if w := payloadPreserved(e, parserScope, depth+1); w != "" {
				return w
			}
		}
		return ""
	case *ssa.MakeSlice:
		return "a fresh buffer replaces the payload whatever it was: the null bulk string becomes an empty one"
	case *ssa.Convert:
		return "a conversion copies the payload (nil becomes empty or the reverse)"
	}
	return "unrecognised source " + v.String()
}

// ruleIsNilMeansNull: Message.IsNil is how the derived commands tell a missing key (null bulk)
// from a key holding the empty string. It must be true exactly for a bulk message whose
// payload is nil — testing the length instead makes "" look like "no value".
func ruleIsNilMeansNull(c *Ctx, rid string) {
	c.rule(rid, "proto.Message.IsNil returns true only under the test payload == nil (never a length test), and false for non-bulk types")
	fn := c.P.Method(pkgProto, "Message", "IsNil")
	if !c.anchor(rid, fn, "proto.(*Message).IsNil") {
		return
	}
	c.analysed(fn)
	problems := []string{}
	isNilTestOfPayload := func(v ssa.Value) bool {
		bo, ok := v.(*ssa.BinOp)
		if !ok || bo.Op != token.EQL {
			return false
		}
		for _, pr := range [][2]ssa.Value{{bo.X, bo.Y}, {bo.Y, bo.X}} {
			if isNilConst(pr[1]) {
				if _, f, _, ok := fieldOf(pr[0]); ok && f == "bytes" {
					return true
				}
			}
		}
		return false
	}
	var judge func(v ssa.Value, facts []Atom, where string, d int)
	judge = func(v ssa.Value, facts []Atom, where string, d int) {
		if cb, ok := constBool(v); ok {
			if !cb {
				return
			}
			// constant true: must be under the nil fact of the payload
			for _, at := range facts {
				if at.Kind == "nil" && at.Pos {
					if _, f, _, ok := fieldOf(at.X); ok && f == "bytes" {
						return
					}
				}
			}
			problems = append(problems, "true is returned on a path that did not test payload == nil")
			return
		}
		if phi, ok := v.(*ssa.Phi); ok && d < 3 {
			// `a && b` / `a || b`: every edge judged with the facts of that edge
			for i, e := range phi.Edges {
				pred := phi.Block().Preds[i]
				judge(e, edgeFacts(pred, succIndex(pred, phi.Block())), where, d+1)
			}
			return
		}
		if !isNilTestOfPayload(v) {
			problems = append(problems, fmt.Sprintf("the result at %s is not the test payload == nil (an empty payload would count as null)", where))
		}
	}
	for _, r := range returnsOf(fn) {
		if len(r.Results) != 1 {
			continue
		}
		judge(r.Results[0], factsAt(r.Block()), c.P.instrPos(r), 0)
	}
	c.check(len(problems) == 0, rid, "Message.IsNil", c.P.pos(fn.Pos()), "null means payload == nil", strings.Join(problems, "; "))
}
