package main

import (
	"fmt"
	"go/ast"
	"strings"

	"golang.org/x/tools/go/ssa"
)

func init() {
	register(&propInfo{ID: "C03", Level: "other", Run: runC03,
		Explanation: "Static structural rules, decided on the SSA form of /repo on every run: R03.a every loop in the framework and the example store makes progress on every cycle (cursor advance / counter / blocking read / range) and has a loop-variant exit; R03.b in the connection loop every received request reaches exactly one call of the response writer before the next read or return (path automaton over all CFG paths); R03.c no goroutine/channel hand-off between read and reply; R03.d the QUIT sentinel leads to function exit after the reply; R03.e other handler errors keep the loop and are turned into an error reply. Decides these clauses (necessary conditions of 'exactly one reply per command, in order, no spin'), not the content of replies."})
}

func runC03(c *Ctx) {
	ruleLoopProgress(c, "R03.a")
	ruleOneResponse(c)
	ruleNoHandOff(c)
	ruleFlushBeforeRead(c, "R03.c")
	ruleQuit(c)
	ruleHandlerErrorKeepsConn(c, "R03.e")
	// replying to every request "in any chunking" presupposes that parsing does not depend on chunking
	ruleReaderUses(c, "R03.f", "R03.f")
	ruleBulkFrame(c, "R03.f")
	ruleNoRetryAfterParseError(c, "R03.f")
	ruleSerializerTotal(c, "R03.g")
	ruleReplyBufferLocal(c, "R03.j")
	ruleNoReadDeadlineLeftArmed(c, "R03.k")
	ruleGoroutineOwnsItsIteration(c, "R03.i")
	// a panic below the dispatcher is swallowed by the connection barrier: the request gets no
	// reply and the requests pipelined behind it are dropped with the connection
	ruleArgumentIndexSafety(c, "R03.h")
	ruleStoreIndexSafety(c, "R03.h")
	ruleHandlersAnswer(c, "R03.h")
	ruleNilNilDeref(c, "R03.h")
	rulePointerResultsChecked(c, "R03.h")
	ruleConnLoopIndexSafety(c, "R03.h")
	// a connection goroutine deadlocked on a lock it already holds never replies again
	ruleNoReentrantLock(c, buildSyncModel(c), "R03.l")
}

// ruleLoopProgress: A4 over all loops of the framework packages and the example store.
func ruleLoopProgress(c *Ctx, rid string) {
	c.rule(rid, "A4 loop progress: every cycle of every natural loop (functions of redis/..., examples/go-redisd/server) contains a progress event — argument-cursor advance (computed set), integer counter stepped by a non-zero constant or provably positive parameter, blocking transport read/accept, map/string range step, slice shortened — and at least one exit condition depends on a value that changes inside the loop")
	ps := c.P.progressSets()
	if len(ps.cursorFns) == 0 {
		c.undecided(rid, "anchor/cursor-advance", "", "no function incrementing proto.Array.index found: the cursor model does not match the code")
	}
	n := 0
	// the loops that can run on behalf of a connection or of the lifecycle API: functions
	// reachable from the goroutine roots, the lifecycle API, the registered executors and the
	// methods of the example server (its handlers are reached through interfaces). Exported
	// helpers nothing in the repository calls cannot stall a connection of this server.
	var roots []*ssa.Function
	for _, r := range concurrencyRoots(c.P) {
		roots = append(roots, r.Fn)
	}
	execs, _ := c.P.executors()
	for _, e := range execs {
		roots = append(roots, e.Fn)
	}
	for _, f := range c.P.RepoFuncs(pkgExSrv) {
		if f.Signature.Recv() != nil && f.Parent() == nil {
			roots = append(roots, f)
		}
	}
	for _, f := range c.P.RepoFuncs(pkgProto) {
		if f.Signature.Recv() != nil && f.Parent() == nil && ast.IsExported(f.Name()) {
			roots = append(roots, f) // the parser/serializer API used by handlers and by tests of applications
		}
	}
	live := c.P.repoReach(roots, func(f *ssa.Function) bool { return inRepo(f) })
	for f := range live {
		for _, a := range f.AnonFuncs {
			live[a] = true
		}
	}
	var fns []*ssa.Function
	skipped := 0
	for _, f := range append(c.P.RepoFuncs(pkgRedis), c.P.RepoFuncs(pkgExSrv)...) {
		if live[f] || (f.Parent() != nil && live[f.Parent()]) {
			fns = append(fns, f)
		} else if len(naturalLoops(f)) > 0 && inProd(f) {
			skipped++
			c.note("loops of %s are not checked: nothing in the repository reaches it from a connection or the lifecycle API", fnName(f))
		}
	}
	c.count("unreachable-functions-with-loops", skipped)
	for _, fn := range fns {
		loops := naturalLoops(fn)
		if len(loops) == 0 {
			continue
		}
		c.analysed(fn)
		for k, l := range loops {
			n++
			key := fmt.Sprintf("%s/loop#%d", c.P.key(fn), k)
			pos := ""
			for _, ins := range l.Header.Instrs {
				if ins.Pos().IsValid() {
					pos = c.P.pos(ins.Pos())
					break
				}
			}
			if pos == "" {
				for _, b := range l.sortedBlocks() {
					for _, ins := range b.Instrs {
						if ins.Pos().IsValid() && pos == "" {
							pos = c.P.pos(ins.Pos())
						}
					}
				}
			}
			v := c.P.checkLoop(fn, l, ps)
			if v.OK {
				c.ok(rid, key, pos, strings.Join(v.Progress, "; "))
			} else {
				c.bad(rid, key, pos, v.Reason, v.Witness...)
			}
			if applies, okB, why := c.P.clientBoundedLoopVerdict(fn, l); applies {
				c.check(okB, rid, key+"/client-bound", pos, why, why)
			}
		}
	}
	c.count("loops", n)
	c.floor("loops", 30)
}

type respState struct {
	Got  int8 // 0 no request pending, 1 maybe, 2 yes
	Resp int8 // responses since last read (0,1,2)
}

// respSummary computes the set of response-call counts over all paths of fn (capped at 2).
func respSummary(p *Program, fn *ssa.Function, writers map[*ssa.Function]bool, memo map[*ssa.Function]map[int8]bool, depth int) map[int8]bool {
	if s, ok := memo[fn]; ok {
		return s
	}
	memo[fn] = map[int8]bool{0: true} // recursion guard
	if fn.Blocks == nil || depth > 6 {
		return memo[fn]
	}
	out := map[int8]bool{}
	a := &Auto[int8]{Fn: fn, Init: 0,
		Step: func(s int8, ins ssa.Instruction, fail func(string)) []int8 {
			if call, ok := ins.(*ssa.Call); ok {
				return applyResp(p, s, call, writers, memo, depth)
			}
			if _, ok := ins.(*ssa.Return); ok {
				out[s] = true
			}
			return []int8{s}
		}}
	a.Run()
	if len(out) == 0 {
		out[0] = true
	}
	memo[fn] = out
	return out
}

func applyResp(p *Program, s int8, call *ssa.Call, writers map[*ssa.Function]bool, memo map[*ssa.Function]map[int8]bool, depth int) []int8 {
	cc := call.Common()
	add := func(n int8) int8 {
		if s+n > 2 {
			return 2
		}
		return s + n
	}
	if isConnWriteCall(cc) && !(cc.IsInvoke() && isLocalBuffer(cc.Value)) {
		return []int8{add(1)}
	}
	callee := staticCallee(cc)
	if callee == nil || !inFramework(callee) {
		return []int8{s}
	}
	if writers[callee] {
		// a call of the response writer counts as one response; that the writer itself writes
		// exactly once unless it returns an error is a separate obligation (writer/...)
		return []int8{add(1)}
	}
	if !reachesWriter(p, callee, writers) {
		return []int8{s}
	}
	var out []int8
	for n := range respSummary(p, callee, writers, memo, depth+1) {
		out = append(out, add(n))
	}
	return out
}

var reachWriterMemo = map[*ssa.Function]bool{}

func reachesWriter(p *Program, fn *ssa.Function, writers map[*ssa.Function]bool) bool {
	if v, ok := reachWriterMemo[fn]; ok {
		return v
	}
	reachWriterMemo[fn] = false
	res := writers[fn]
	if !res && fn.Blocks != nil {
		allInstrs(fn, func(ins ssa.Instruction) {
			if res {
				return
			}
			if cc := callCommon(ins); cc != nil {
				if cal := staticCallee(cc); cal != nil && inRepo(cal) && reachesWriter(p, cal, writers) {
					res = true
				}
			}
		})
	}
	reachWriterMemo[fn] = res
	return res
}

// ruleOneResponse: R03.b.
func ruleOneResponse(c *Ctx) {
	rid := "R03.b"
	c.rule(rid, "A1 in the connection loop: after a request was received (parser.Next returned a non-nil value and nil error) every path reaches the next parser.Next or a return having passed exactly one call that writes to the connection (callee summaries by the same automaton); the handler is called only with a value tested complete")
	loops := c.P.connLoops()
	c.count("conn-loops", len(loops))
	c.floor("conn-loops", 1)
	writers := c.P.connWriters()
	for _, cl := range loops {
		c.analysed(cl.Fn)
		key := fnName(cl.Fn)
		if cl.Loop == nil {
			c.bad(rid, key+"/loop", c.P.instrPos(cl.Next), "parser.Next is not called inside a loop: the connection would serve a single request")
			continue
		}
		if cl.Handle == nil {
			c.undecided(rid, key+"/handle", c.P.instrPos(cl.Next), "no call taking the parsed message found")
			continue
		}
		memo := map[*ssa.Function]map[int8]bool{}
		next := cl.Next
		a := &Auto[respState]{Fn: cl.Fn, Init: respState{},
			Step: func(s respState, ins ssa.Instruction, fail func(string)) []respState {
				switch x := ins.(type) {
				case *ssa.Call:
					if x == next {
						if s.Got == 2 && s.Resp == 0 {
							fail("a received request reaches the next read without any response having been written")
						}
						return []respState{{Got: 1, Resp: 0}}
					}
					if x == cl.Handle && s.Got != 2 {
						fail("the request handler is called with a value that was not tested non-nil with a nil error")
					}
					var out []respState
					for _, r := range applyResp(c.P, s.Resp, x, writers, memo, 0) {
						if r >= 2 && s.Resp < 2 {
							fail("two responses can be written for one request")
						}
						out = append(out, respState{Got: s.Got, Resp: r})
					}
					return out
				case *ssa.Return:
					if s.Got == 2 && s.Resp == 0 {
						fail("a received request reaches a return without any response having been written")
					}
				case *ssa.Go:
					// hand-off is R03.c's business
				}
				return []respState{s}
			},
			Edge: func(s respState, b *ssa.BasicBlock, idx int) (respState, bool) {
				if len(b.Instrs) == 0 || len(b.Succs) != 2 {
					return s, true
				}
				iff, ok := b.Instrs[len(b.Instrs)-1].(*ssa.If)
				if !ok {
					return s, true
				}
				for _, at := range atomsOf(iff.Cond, idx == 0) {
					if at.Kind != "nil" {
						continue
					}
					ex, ok := at.X.(*ssa.Extract)
					if !ok || ex.Tuple != next {
						continue
					}
					if ex.Index == 0 { // the message
						if at.Pos {
							s.Got = 0
						} else if s.Got == 1 {
							s.Got = 2
						}
					} else { // the error
						if !at.Pos {
							s.Got = 0
						}
					}
				}
				return s, true
			}}
		res := a.Run()
		if len(res.Errs) == 0 {
			c.ok(rid, key, c.P.instrPos(cl.Next), fmt.Sprintf("all paths: exactly one response per received request (%d automaton steps)", res.Steps))
		}
		for i, e := range res.Errs {
			c.bad(rid, fmt.Sprintf("%s/path#%d", key, i), c.P.instrPos(e.Ins), e.Msg, e.witness(c.P)...)
		}
		c.count("response-sites", len(cl.Resp))
	}
	c.floor("response-sites", 1)
	// the writer writes exactly once on every path that returns a nil error
	for w := range writers {
		if !inFramework(w) {
			continue
		}
		c.analysed(w)
		key := "writer/" + fnName(w)
		a := &Auto[int8]{Fn: w, Init: 0,
			Step: func(s int8, ins ssa.Instruction, fail func(string)) []int8 {
				switch x := ins.(type) {
				case *ssa.Call:
					if isConnWriteCall(x.Common()) && !(x.Common().IsInvoke() && isLocalBuffer(x.Common().Value)) {
						if s >= 1 {
							fail("two writes to the connection on one path of the response writer")
						}
						return []int8{1}
					}
				case *ssa.Return:
					if s == 0 {
						okErr := false
						for i := range x.Results {
							if !isErrorType(x.Results[i].Type()) {
								continue
							}
							v := strip(retOperand(x, i))
							for _, at := range factsAt(x.Block()) {
								if at.Kind == "nil" && !at.Pos && at.X == v {
									okErr = true
								}
							}
						}
						if !okErr {
							fail("the response writer returns without writing and without a non-nil error")
						}
					}
				}
				return []int8{s}
			}}
		res := a.Run()
		if len(res.Errs) == 0 {
			c.ok(rid, key, c.P.pos(w.Pos()), "every path writes exactly once or returns a non-nil error")
		}
		for i, e := range res.Errs {
			c.bad(rid, fmt.Sprintf("%s/path#%d", key, i), c.P.instrPos(e.Ins), e.Msg, e.witness(c.P)...)
		}
	}
}

// ruleNoHandOff: R03.c.
func ruleNoHandOff(c *Ctx) {
	rid := "R03.c"
	c.rule(rid, "A3: no `go` statement, channel send or buffered writer is reachable (inside redis/...) from the body of the connection loop: requests are handled and answered sequentially by the goroutine that parsed them")
	for _, cl := range c.P.connLoops() {
		if cl.Loop == nil {
			continue
		}
		key := fnName(cl.Fn)
		var roots []*ssa.Function
		found := 0
		for _, b := range cl.Loop.sortedBlocks() {
			for _, ins := range b.Instrs {
				switch x := ins.(type) {
				case *ssa.Go:
					found++
					c.bad(rid, key+"/go", c.P.instrPos(ins), "go statement inside the request loop: replies may be written out of order or concurrently")
				case *ssa.Send:
					found++
					c.bad(rid, key+"/send", c.P.instrPos(ins), "channel send inside the request loop: the reply is handed to another goroutine")
				case ssa.CallInstruction:
					for _, f := range c.P.calleesAt(x) {
						if inFramework(f) {
							roots = append(roots, f)
						}
					}
				}
			}
		}
		reach := c.P.repoReach(roots, inFramework)
		for f := range reach {
			if f.Blocks == nil {
				continue
			}
			allInstrs(f, func(ins ssa.Instruction) {
				switch ins.(type) {
				case *ssa.Go:
					found++
					c.bad(rid, key+"/go@"+fnName(f), c.P.instrPos(ins), "go statement reachable from the request loop")
				case *ssa.Send:
					found++
					c.bad(rid, key+"/send@"+fnName(f), c.P.instrPos(ins), "channel send reachable from the request loop")
				}
				if cc := callCommon(ins); cc != nil {
					if n := calleeName(cc); strings.HasPrefix(n, "bufio.NewWriter") {
						found++
						c.undecided(rid, key+"/bufio@"+fnName(f), c.P.instrPos(ins), "buffered writer reachable from the request loop: flushing before the next read is not modelled")
					}
				}
			})
		}
		c.note("R03.c: %d framework functions reachable from the loop of %s", len(reach), key)
		if found == 0 {
			c.ok(rid, key, c.P.instrPos(cl.Next), fmt.Sprintf("no go/send/bufio.Writer in the loop or in the %d framework functions reachable from it", len(reach)))
		}
	}
}

// ruleFlushBeforeRead: part of R03.c — a buffered writer used for replies must be flushed on every
// path from a response to the next read of the transport or to a return.
func ruleFlushBeforeRead(c *Ctx, rid string) {
	for _, cl := range c.P.connLoops() {
		if cl.Loop == nil {
			continue
		}
		fn := cl.Fn
		key := fnName(fn)
		var writers []*ssa.Call
		allInstrs(fn, func(ins ssa.Instruction) {
			if call, ok := ins.(*ssa.Call); ok && strings.HasPrefix(calleeName(call.Common()), "bufio.NewWriter") {
				writers = append(writers, call)
			}
			if call, ok := ins.(*ssa.Call); ok && strings.HasPrefix(calleeName(call.Common()), "bufio.NewReadWriter") {
				writers = append(writers, call)
			}
		})
		// the destination of each response call
		al := socketAliases(fn)
		for i, r := range cl.Resp {
			var dst ssa.Value
			for _, a := range r.Common().Args {
				t := a.Type().String()
				if t == "io.Writer" || t == "net.Conn" || strings.Contains(t, "bufio.Writer") || strings.Contains(t, "redis.Conn") {
					dst = strip(a)
				}
			}
			rk := fmt.Sprintf("%s/response#%d/destination", key, i)
			isBuf := false
			for _, w := range writers {
				if dst == ssa.Value(w) {
					isBuf = true
				}
			}
			switch {
			case dst == nil:
				c.undecided(rid, rk, c.P.instrPos(r), "the response call has no writer argument the rule recognises")
			case al[dst]:
				c.ok(rid, rk, c.P.instrPos(r), "the reply is written to the connection itself")
			case isBuf:
				c.ok(rid, rk, c.P.instrPos(r), "the reply is written to a buffered writer (flush discipline checked separately)")
			default:
				c.undecided(rid, rk, c.P.instrPos(r), "the reply is written to "+dst.String()+", which is neither the connection nor a buffered writer created in this function")
			}
		}
		if len(writers) == 0 {
			continue
		}
		isFlush := func(cc *ssa.CallCommon) bool {
			return calleeName(cc) == "(*bufio.Writer).Flush"
		}
		deferFlush := func(d *ssa.Defer) bool {
			if isFlush(d.Common()) {
				return true
			}
			g := staticCallee(d.Common())
			found := false
			if g != nil && g.Blocks != nil {
				allInstrs(g, func(ins ssa.Instruction) {
					if cc := callCommon(ins); cc != nil && isFlush(cc) {
						found = true
					}
				})
			}
			return found
		}
		type st struct{ Dirty, Deferred int8 }
		a := &Auto[st]{Fn: fn, Init: st{},
			Step: func(s st, ins ssa.Instruction, fail func(string)) []st {
				switch x := ins.(type) {
				case *ssa.Defer:
					if deferFlush(x) {
						s.Deferred = 1
					}
				case *ssa.Call:
					if x == cl.Next && s.Dirty == 1 {
						fail("the server goes back to the transport for more input while a reply is still sitting in the write buffer (the client may be waiting for exactly that reply)")
					}
					for _, r := range cl.Resp {
						if r == x {
							s.Dirty = 1
						}
					}
					if isFlush(x.Common()) {
						s.Dirty = 0
					}
				case *ssa.Return:
					if s.Dirty == 1 && s.Deferred == 0 && x.Block() != fn.Recover {
						fail("the function returns with a reply still in the write buffer and no deferred Flush: the reply is discarded when the connection is closed")
					}
				}
				return []st{s}
			}}
		res := a.Run()
		if len(res.Errs) == 0 {
			c.ok(rid, key+"/flush", c.P.instrPos(writers[0]), "buffered replies are flushed before every read and return")
		}
		for i, e := range res.Errs {
			c.bad(rid, fmt.Sprintf("%s/flush#%d", key, i), c.P.instrPos(e.Ins), e.Msg, e.witness(c.P)...)
		}
		// a return on a parse error with replies pending: deferred flush runs only if registered before
	}
}

// ruleQuit: R03.d.
func ruleQuit(c *Ctx) {
	rid := "R03.d"
	c.rule(rid, "QUIT: Server.Quit returns a non-nil message together with the sentinel ErrQuit; the QUIT executor returns the handler's results unchanged; in the connection loop the ErrQuit test placed after the response leads to function exit on all paths")
	// Server.Quit
	q := c.P.Method(pkgRedis, "Server", "Quit")
	if c.anchor(rid, q, "redis.(*Server).Quit") {
		okAll := true
		for _, r := range returnsOf(q) {
			if len(r.Results) != 2 || isNilConst(retOperand(r, 0)) || !isLoadOfGlobal(retOperand(r, 1), pkgRedis, "ErrQuit") {
				okAll = false
				c.bad(rid, "Server.Quit/return", c.P.instrPos(r), "Quit must return (non-nil message, ErrQuit)")
			}
		}
		if okAll {
			c.ok(rid, "Server.Quit/return", c.P.pos(q.Pos()), "returns (message, ErrQuit)")
		}
	}
	// executor
	execs, _ := c.P.executors()
	var quit *Executor
	for i := range execs {
		if execs[i].Name == "QUIT" {
			quit = &execs[i]
		}
	}
	if quit == nil {
		c.bad(rid, "executor/QUIT", "", "no executor registered under the name QUIT")
	} else {
		c.analysed(quit.Fn)
		good := true
		for _, r := range returnsOf(quit.Fn) {
			for i := range r.Results {
				ex, ok := strip(retOperand(r, i)).(*ssa.Extract)
				if !ok || ex.Index != i {
					good = false
					continue
				}
				call, ok := ex.Tuple.(*ssa.Call)
				if !ok || !strings.HasSuffix(calleeName(call.Common()), ".Quit") {
					good = false
				}
			}
		}
		c.check(good, rid, "executor/QUIT", c.P.pos(quit.Fn.Pos()), "returns the Quit handler's (message, error) unchanged", "the QUIT executor does not return the Quit handler's results unchanged")
	}
	for _, cl := range c.P.connLoops() {
		if cl.Loop == nil || cl.Handle == nil {
			continue
		}
		key := fnName(cl.Fn)
		n := 0
		exitTests := 0
		for _, b := range cl.Loop.sortedBlocks() {
			if len(b.Instrs) == 0 {
				continue
			}
			iff, ok := b.Instrs[len(b.Instrs)-1].(*ssa.If)
			if !ok {
				continue
			}
			for _, dir := range []bool{true, false} {
				for _, at := range atomsOf(iff.Cond, dir) {
					x, isq := isErrQuitTest(at)
					if !isq || !at.Pos {
						continue
					}
					ex, ok := x.(*ssa.Extract)
					if !ok || ex.Tuple != cl.Handle {
						continue
					}
					// is this test after a response? (dominated by a response call's block or same block after it)
					after := false
					for _, r := range cl.Resp {
						if r.Block() == b || r.Block().Dominates(b) {
							after = true
						}
					}
					if !after {
						continue
					}
					n++
					idx := 0
					if !dir {
						idx = 1
					}
					reach := reachableBlocks(b.Succs[idx], nil)
					if reach[cl.Loop.Header] {
						continue // this test does not end the loop; another one must
					}
					// every way back to the loop header must pass this test (on its false side)
					domAll := true
					for _, latch := range cl.Loop.Latch {
						if !(b == latch || b.Dominates(latch)) {
							domAll = false
						}
					}
					if domAll {
						exitTests++
						c.ok(rid, key+"/quit-exit", c.P.instrPos(iff), "the ErrQuit test after the response leaves the function on all paths and every way back to the loop header passes it")
					}
				}
			}
		}
		if exitTests == 0 {
			c.bad(rid, key+"/quit-exit", c.P.instrPos(cl.Next), "no test of the handler error against ErrQuit, placed after the response on every way back to the loop header, leaves the function: after the reply to QUIT pipelined requests would still be parsed and answered")
		}
		c.count("quit-tests", n)
	}
	c.floor("quit-tests", 1)
}

// ruleHandlerErrorKeepsConn: R03.e (+ R05.d response provenance).
func ruleHandlerErrorKeepsConn(c *Ctx, rid string) {
	c.rule(rid, "in the connection loop, after the handler call, every loop exit is controlled by the ErrQuit test or by the response writer's own error; the message passed to the response writer is the handler's message, or NewErrorMessage(handler error) exactly on the paths where that error is non-nil and not ErrQuit")
	ruleExitsAfterHandler(c, rid, true, true)
}

// ruleExitsAfterHandler: the loop-exit part (and optionally the reply-provenance part) of the rule
// above. With allowWriteErr false a failed reply write must not end the loop either: the
// requests already received completely behind it still have to be executed (C11).
func ruleExitsAfterHandler(c *Ctx, rid string, allowWriteErr, provenance bool) {
	for _, cl := range c.P.connLoops() {
		if cl.Loop == nil || cl.Handle == nil {
			continue
		}
		key := fnName(cl.Fn)
		hb := cl.Handle.Block()
		bad := 0
		for _, b := range cl.Loop.sortedBlocks() {
			if !(hb.Dominates(b)) {
				continue
			}
			for idx, s := range b.Succs {
				if deadEdge(b, idx) {
					continue
				}
				if cl.Loop.Blocks[s] {
					continue
				}
				// exit edge after the handler call
				allowed := false
				for _, at := range edgeFacts(b, idx) {
					if x, isq := isErrQuitTest(at); isq && at.Pos {
						if ex, ok := x.(*ssa.Extract); ok && ex.Tuple == cl.Handle {
							allowed = true
						}
					}
					if at.Kind == "nil" && !at.Pos && allowWriteErr {
						if call, ok := at.X.(*ssa.Call); ok {
							for _, r := range cl.Resp {
								if r == call {
									allowed = true
								}
							}
						}
					}
				}
				if !allowed {
					bad++
					last := b.Instrs[len(b.Instrs)-1]
					msg := "the connection loop is left after a handler call on a path not controlled by the QUIT sentinel or a write error: a handler error would end the connection"
					if !allowWriteErr {
						msg = "the connection loop is left after a handler call on a path not controlled by the QUIT sentinel (a failed reply write included): requests already received completely behind this one are never executed"
					}
					c.bad(rid, fmt.Sprintf("%s/exit@block-after-handler#%d", key, bad), c.P.instrPos(last), msg, blockPath(c.P, []*ssa.BasicBlock{b, s})...)
				}
			}
		}
		if bad == 0 {
			c.ok(rid, key+"/exits", c.P.instrPos(cl.Handle), "all loop exits after the handler call are controlled by ErrQuit or the write error")
		}
		if !provenance {
			continue
		}
		// response message provenance
		for i, r := range cl.Resp {
			args := r.Common().Args
			var msg ssa.Value
			for _, a := range args {
				if strings.HasSuffix(a.Type().String(), "proto.Message") {
					msg = a
				}
			}
			rkey := fmt.Sprintf("%s/response#%d/message", key, i)
			if msg == nil {
				c.undecided(rid, rkey, c.P.instrPos(r), "response call has no *Message argument")
				continue
			}
			problems := checkRespProvenance(c, cl, msg)
			if len(problems) == 0 {
				c.ok(rid, rkey, c.P.instrPos(r), "reply = handler message, or NewErrorMessage(handler error) on the non-QUIT error paths")
			} else {
				c.bad(rid, rkey, c.P.instrPos(r), strings.Join(problems, "; "))
			}
		}
	}
}

func checkRespProvenance(c *Ctx, cl *ConnLoop, msg ssa.Value) []string {
	var problems []string
	isHMsg := func(v ssa.Value) bool {
		ex, ok := strip(v).(*ssa.Extract)
		return ok && ex.Tuple == cl.Handle && ex.Index == 0
	}
	isHErr := func(v ssa.Value) bool {
		ex, ok := strip(v).(*ssa.Extract)
		return ok && ex.Tuple == cl.Handle && ex.Index == 1
	}
	type pred = func(ssa.Value) bool
	var visit func(v ssa.Value, facts []Atom, depth int, isHMsg, isHErr pred)
	visit = func(v ssa.Value, facts []Atom, depth int, isHMsg, isHErr pred) {
		if depth > 6 {
			problems = append(problems, "reply provenance too deep to decide")
			return
		}
		if phi, ok := v.(*ssa.Phi); ok {
			for i, e := range phi.Edges {
				pred := phi.Block().Preds[i]
				visit(e, edgeFacts(pred, succIndex(pred, phi.Block())), depth+1, isHMsg, isHErr)
			}
			return
		}
		sv := strip(v)
		if isHMsg(sv) {
			// must be on a path where err == nil or err is ErrQuit
			okPath := false
			for _, at := range facts {
				if at.Kind == "nil" && at.Pos && isHErr(at.X) {
					okPath = true
				}
				if x, isq := isErrQuitTest(at); isq && at.Pos && isHErr(x) {
					okPath = true
				}
			}
			if !okPath {
				problems = append(problems, "the handler's message is used as the reply on a path where the handler error may be a non-QUIT error (the error would not be reported)")
			}
			return
		}
		if call, ok := sv.(*ssa.Call); ok && calleeName(call.Common()) == nNewErrorMsg {
			if len(call.Common().Args) == 1 && isHErr(call.Common().Args[0]) {
				okPath := false
				for _, at := range facts {
					if at.Kind == "nil" && !at.Pos && isHErr(at.X) {
						okPath = true
					}
				}
				// also accept when the call's own block is guarded
				for _, at := range factsAt(call.Block()) {
					if at.Kind == "nil" && !at.Pos && isHErr(at.X) {
						okPath = true
					}
				}
				if !okPath {
					problems = append(problems, "NewErrorMessage(handler error) is used on a path where the error may be nil")
				}
				return
			}
			problems = append(problems, "the error reply is not built from the handler's error")
			return
		}
		// a helper that is handed the handler's message and error and chooses between them
		if call, ok := sv.(*ssa.Call); ok {
			if h := staticCallee(call.Common()); h != nil && h.Blocks != nil && inFramework(h) && depth < 4 {
				var pm, pe *ssa.Parameter
				for i, a := range call.Common().Args {
					if i >= len(h.Params) {
						break
					}
					if isHMsg(a) {
						pm = h.Params[i]
					}
					if isHErr(a) {
						pe = h.Params[i]
					}
				}
				if pm != nil && pe != nil {
					for _, r := range returnsOf(h) {
						if len(r.Results) != 1 {
							continue
						}
						visit(retOperand(r, 0), factsAt(r.Block()), depth+1,
							func(x ssa.Value) bool { return strip(x) == ssa.Value(pm) },
							func(x ssa.Value) bool { return strip(x) == ssa.Value(pe) })
					}
					return
				}
			}
		}
		problems = append(problems, fmt.Sprintf("the reply %s is neither the handler's message nor NewErrorMessage(handler error)", sv.String()))
	}
	visit(msg, factsAt(msg.(ssa.Instruction).Block()), 0, isHMsg, isHErr)
	return problems
}
