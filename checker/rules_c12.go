package main

import (
	"fmt"
	"go/token"
	"go/types"
	"math"
	"strings"

	"golang.org/x/tools/go/ssa"
)

func init() {
	register(&propInfo{ID: "C12", Level: "other", Run: runC12,
		Explanation: "Narrow claim — necessary conditions only: R12.a the counter arithmetic of INCR/DECR/INCRBY/DECRBY (add of the stored value and the increment; negation of the decrement) is guarded by overflow tests against math.MaxInt/MinInt whose failing side returns an error, and a non-integer stored value is rejected before use; R12.b the GETRANGE/SUBSTR slice is proven in range for every length/start/end by the inequality prover (safety of the index arithmetic, not that the clamped values are Redis's); R12.c CONFIG SET and CONFIG GET use the same map under the unchanged key, and GET replies key then value in request order; R12.d ZREVRANGE/ZREVRANGEBYSCORE reverse by groups of 2 exactly on the WITHSCORES edge of the option passed to the handler, else by 1; R12.e the derived commands call the handler with the arguments of the oracle table (reads before writes, request order preserved by iterating the request slice). Reply-value equality with Redis (clamping values, HKEYS/HVALS pairing, LIMIT with reversal) is NOT decided."})
}

var derivedCommands = []string{"PING", "ECHO", "CONFIG", "MSET", "MSETNX", "MGET", "APPEND", "INCR", "DECR", "INCRBY", "DECRBY", "STRLEN", "GETRANGE", "SUBSTR",
	"HMSET", "HMGET", "HEXISTS", "HKEYS", "HVALS", "HLEN", "HSTRLEN", "SCARD", "SISMEMBER", "ZCARD", "ZREVRANGE", "ZREVRANGEBYSCORE"}

func runC12(c *Ctx) {
	ruleOverflowGuards(c)
	ruleGetRangeBounds(c)
	ruleConfigAgreement(c)
	ruleReverseGroups(c)
	ruleReverseByBody(c, "R12.d")
	rulePingEchoShapes(c, "R12.j")
	ruleDerivedSignatures(c)
	ruleIsNilMeansNull(c, "R12.f")
	rulePayloadStores(c, "R12.f")
	// the derived commands read the reply of the command they are built on
	ruleDispatcherHandsReplyOn(c, "R12.i")
	// "counters reject non-integers and overflow" presupposes that the integer decoding itself does
	ruleNumericAccessorsAs(c, "R12.g")
	ruleValueRejections(c, "R12.h", derivedCommands...)
	c.assume("primitive handler operations behave like Redis (the property grants this); ReverseBy's index arithmetic is in range only for len % step == 0, i.e. for member/score pairs")
}

func ruleOverflowGuards(c *Ctx) {
	rid := "R12.a"
	c.rule(rid, "A7: in functions reachable from the INCR/DECR/INCRBY/DECRBY executors, every integer + whose operands are the stored counter and the client's increment is preceded by rejecting comparisons of one operand with (math.MaxInt - other) and (math.MinInt - other); every unary minus on a client integer is dominated by a rejecting test against math.MinInt; the stored value's Integer() error is checked before use")
	execs, _ := c.P.executors()
	var roots []*ssa.Function
	for _, e := range execs {
		switch e.Name {
		case "INCR", "DECR", "INCRBY", "DECRBY":
			roots = append(roots, e.Fn)
		}
	}
	if len(roots) < 4 {
		c.undecided(rid, "anchor/counter-executors", "", "INCR/DECR/INCRBY/DECRBY executors not all found")
	}
	seen := map[*ssa.Function]bool{}
	var fns []*ssa.Function
	var visit func(f *ssa.Function)
	visit = func(f *ssa.Function) {
		if f == nil || seen[f] || f.Blocks == nil || fnPkgPath(f) != pkgRedis || c.P.isDispatcher(f) {
			return
		}
		seen[f] = true
		fns = append(fns, f)
		for _, cal := range calleesIn(f) {
			visit(cal)
		}
	}
	for _, r := range roots {
		visit(r)
	}
	isMaxMinus := func(v ssa.Value, other ssa.Value, k int64) bool {
		bo, ok := strip(v).(*ssa.BinOp)
		if !ok || bo.Op != token.SUB {
			return false
		}
		cv, isC := constInt(bo.X)
		return isC && cv == k && strip(bo.Y) == strip(other)
	}
	nadd, nneg := 0, 0
	maxInt, minInt := int64(math.MaxInt64), int64(math.MinInt64)
	if c.P.GOARCH == "386" || c.P.GOARCH == "arm" {
		maxInt, minInt = math.MaxInt32, math.MinInt32
	}
	for _, f := range fns {
		c.analysed(f)
		allInstrs(f, func(ins ssa.Instruction) {
			switch x := ins.(type) {
			case *ssa.BinOp:
				if x.Op != token.ADD || x.Type().Underlying().String() != "int" {
					return
				}
				if _, isC := x.X.(*ssa.Const); isC {
					return
				}
				if _, isC := x.Y.(*ssa.Const); isC {
					return
				}
				nadd++
				key := fmt.Sprintf("%s/add#%d", c.P.key(f), nadd)
				// guards anywhere before (dominating the add's block or in blocks that dominate it) with failing side
				hasMax, hasMin := false, false
				for _, b := range f.Blocks {
					if len(b.Instrs) == 0 {
						continue
					}
					iff, ok := b.Instrs[len(b.Instrs)-1].(*ssa.If)
					if !ok || !reachableBlocks(b, nil)[x.Block()] {
						continue
					}
					for idx := 0; idx < 2; idx++ {
						if succeedsFrom(b.Succs[idx]) || reachableBlocks(b.Succs[idx], nil)[x.Block()] {
							continue // this side continues: the rejecting side is the other
						}
						for _, at := range atomsOf(iff.Cond, idx == 0) {
							if (at.Kind != "lt" && at.Kind != "le") || !at.Pos {
								continue
							}
							for _, pr := range [][2]ssa.Value{{x.X, x.Y}, {x.Y, x.X}} {
								if isMaxMinus(at.X, pr[1], maxInt) && strip(at.Y) == strip(pr[0]) {
									hasMax = true // MaxInt - y < x  => reject
								}
								if isMaxMinus(at.Y, pr[1], minInt) && strip(at.X) == strip(pr[0]) {
									hasMin = true // x < MinInt - y  => reject
								}
							}
						}
					}
				}
				c.check(hasMax && hasMin, rid, key, c.P.instrPos(x), "guarded by rejecting comparisons with MaxInt-y and MinInt-y", fmt.Sprintf("counter addition without overflow rejection (MaxInt guard=%v, MinInt guard=%v): the result wraps around silently", hasMax, hasMin))
			case *ssa.UnOp:
				if x.Op != token.SUB || x.Type().Underlying().String() != "int" {
					return
				}
				nneg++
				key := fmt.Sprintf("%s/neg#%d", c.P.key(f), nneg)
				okG := false
				for _, at := range factsAt(x.Block()) {
					if at.Kind == "eq" && !at.Pos {
						for _, pr := range [][2]ssa.Value{{at.X, at.Y}, {at.Y, at.X}} {
							if cv, isC := constInt(pr[1]); isC && cv == minInt && strip(pr[0]) == strip(x.X) {
								okG = true
							}
						}
					}
				}
				c.check(okG, rid, key, c.P.instrPos(x), "negation dominated by a rejecting test against MinInt", "a client integer is negated without rejecting math.MinInt (its negation overflows)")
			case *ssa.Call:
				if calleeName(x.Common()) == "(*"+pkgProto+".Message).Integer" {
					if okE, why := errCheckedCall(x); okE {
						c.ok(rid, fmt.Sprintf("%s/Integer-checked", c.P.key(f)), c.P.instrPos(x), "a non-integer stored value is rejected before use")
					} else {
						c.bad(rid, fmt.Sprintf("%s/Integer-checked", c.P.key(f)), c.P.instrPos(x), "the stored counter is used although it may not be an integer: "+why)
					}
				}
			}
		})
	}
	c.count("counter-additions", nadd)
	c.floor("counter-additions", 1)
	c.count("counter-negations", nneg)
	c.floor("counter-negations", 1)
}

func ruleGetRangeBounds(c *Ctx) {
	rid := "R12.b"
	c.rule(rid, "A8: every string slice expression in the GETRANGE executor is proven 0 <= low <= high <= len by the inequality prover from the dominating branch facts and phi edges (for all lengths, starts and ends)")
	execs, _ := c.P.executors()
	n := 0
	for _, e := range execs {
		if e.Name != "GETRANGE" {
			continue
		}
		c.analysed(e.Fn)
		allInstrs(e.Fn, func(ins ssa.Instruction) {
			sl, ok := ins.(*ssa.Slice)
			if !ok || isVarargsArray(sl.X) {
				return
			}
			if !strings.HasSuffix(sl.X.Type().Underlying().String(), "string") {
				return
			}
			n++
			pv := newProver(c.P.GOARCH)
			ok2, why := proveSliceWith(pv, sl, factsAt(sl.Block()))
			key := fmt.Sprintf("executor:GETRANGE/slice#%d", n)
			if ok2 {
				c.ok(rid, key, c.P.instrPos(sl), why)
			} else {
				c.bad(rid, key, c.P.instrPos(sl), "the substring bounds are not proven in range for every length/start/end: "+why)
			}
		})
	}
	c.count("getrange-slices", n)
	c.floor("getrange-slices", 1)
}

func ruleConfigAgreement(c *Ctx) {
	rid := "R12.c"
	c.rule(rid, "CONFIG SET stores each (key, value) of its map argument through SetConfig unchanged, SetConfig updates and ConfigString looks up the same map field under the unchanged key; CONFIG GET iterates its request-ordered slice argument and appends, per key, the key and then the value looked up under that key")
	set := c.P.Method(pkgRedis, "Config", "SetConfig")
	get := c.P.Method(pkgRedis, "Config", "ConfigString")
	if c.anchor(rid, set, "Config.SetConfig") && c.anchor(rid, get, "Config.ConfigString") {
		var wField, rField string
		okW, okR := false, false
		allInstrs(set, func(ins ssa.Instruction) {
			if mu, ok := ins.(*ssa.MapUpdate); ok {
				owner, f, _, _ := fieldOf(mu.Map)
				wField = owner + "." + f
				_, kp := strip(mu.Key).(*ssa.Parameter)
				_, vp := strip(mu.Value).(*ssa.Parameter)
				okW = kp && vp
			}
		})
		allInstrs(get, func(ins ssa.Instruction) {
			if lk, ok := ins.(*ssa.Lookup); ok {
				owner, f, _, _ := fieldOf(lk.X)
				rField = owner + "." + f
				_, kp := strip(lk.Index).(*ssa.Parameter)
				okR = kp
			}
		})
		c.check(okW && okR && wField == rField && wField != ".", rid, "Config/store", c.P.pos(set.Pos()), "SetConfig and ConfigString use "+wField+" under the unchanged key", fmt.Sprintf("SetConfig writes %s and ConfigString reads %s, or a key/value is transformed on one side only", wField, rField))
	}
	cs := c.P.Method(pkgRedis, "Server", "ConfigSet")
	cg := c.P.Method(pkgRedis, "Server", "ConfigGet")
	// the functions CONFIG SET / CONFIG GET really call (a method added to an embedding type
	// shadows the promoted one without any change at the call site): along the chain down to
	// the map the key must travel unchanged on both sides
	for _, side := range []struct {
		fn    *ssa.Function
		name  string
		write bool
	}{{cs, "SetConfig", true}, {cg, "ConfigString", false}} {
		if side.fn == nil {
			continue
		}
		allInstrs(side.fn, func(ins ssa.Instruction) {
			call, ok := ins.(*ssa.Call)
			if !ok {
				return
			}
			callee := staticCallee(call.Common())
			if callee == nil || callee.Name() != side.name || !inFramework(callee) {
				return
			}
			okFlow, why := configKeyUnchanged(callee, 1, side.write, 0)
			c.check(okFlow, rid, fmt.Sprintf("%s/key-path:%s", fnName(side.fn), fnName(callee)), c.P.instrPos(call), "the parameter name reaches the map unchanged through "+fnName(callee), "the parameter name is transformed on the way to the map through "+fnName(callee)+" ("+why+"): CONFIG SET and CONFIG GET no longer agree on the key")
		})
	}
	if c.anchor(rid, cs, "Server.ConfigSet") {
		okS := false
		allInstrs(cs, func(ins ssa.Instruction) {
			if call, ok := ins.(*ssa.Call); ok && strings.HasSuffix(calleeName(call.Common()), "Config).SetConfig") {
				k, v := strip(call.Common().Args[1]), strip(call.Common().Args[2])
				ek, ok1 := k.(*ssa.Extract)
				ev, ok2 := v.(*ssa.Extract)
				if ok1 && ok2 && ek.Tuple == ev.Tuple && ek.Index == 1 && ev.Index == 2 {
					if nx, ok := ek.Tuple.(*ssa.Next); ok {
						if rg, ok := nx.Iter.(*ssa.Range); ok {
							_, isPar := strip(rg.X).(*ssa.Parameter)
							okS = isPar
						}
					}
				}
			}
		})
		c.check(okS, rid, "Server.ConfigSet", c.P.pos(cs.Pos()), "SetConfig(key, value) for each pair of the argument map", "CONFIG SET does not store each (key, value) pair of its argument unchanged")
	}
	if c.anchor(rid, cg, "Server.ConfigGet") {
		// loop over the keys parameter (slice range), Append(key) then Append(value looked up with that key)
		problems := []string{}
		var loop *Loop
		for _, l := range naturalLoops(cg) {
			loop = l
		}
		if loop == nil {
			problems = append(problems, "no loop over the requested keys")
		} else {
			var keyVal ssa.Value
			var appends []*ssa.Call
			var emits []ssa.Value // the values added to the reply per iteration, in order
			var lookup *ssa.Call
			var lookupKey ssa.Value
			// isKey: a load of keys[i] for the same index value as the first such load (go/ssa
			// does not share the loads of two mentions of keys[n])
			isKey := func(v ssa.Value) bool {
				if keyVal == nil {
					return false
				}
				v = strip(v)
				if v == keyVal {
					return true
				}
				ld, ok := v.(*ssa.UnOp)
				if !ok || ld.Op != token.MUL {
					return false
				}
				ia, ok := ld.X.(*ssa.IndexAddr)
				k0 := keyVal.(*ssa.UnOp).X.(*ssa.IndexAddr)
				return ok && strip(ia.X) == strip(k0.X) && ia.Index == k0.Index
			}
			for _, b := range loop.sortedBlocks() {
				for _, ins := range b.Instrs {
					if call, ok := ins.(*ssa.Call); ok {
						n := calleeName(call.Common())
						if strings.HasSuffix(n, "Message).Append") {
							appends = append(appends, call)
							if mk, ok := strip(call.Common().Args[1]).(*ssa.Call); ok && len(mk.Common().Args) == 1 {
								emits = append(emits, mk.Common().Args[0])
							} else {
								emits = append(emits, call.Common().Args[1])
							}
						}
						// strings collected with append(acc, a, b) and turned into the reply afterwards
						if bi, ok := call.Common().Value.(*ssa.Builtin); ok && bi.Name() == "append" && len(call.Common().Args) == 2 {
							if st, ok := call.Type().Underlying().(*types.Slice); ok && isStringType(st.Elem()) {
								if elems, ok := arrayLitElems(strip(call.Common().Args[1])); ok {
									appends = append(appends, call)
									emits = append(emits, elems...)
								}
							}
						}
						if strings.HasSuffix(n, "Config).ConfigString") {
							lookup = call
							lookupKey = call.Common().Args[1]
						} else if h := staticCallee(call.Common()); h != nil && inFramework(h) && h.Blocks != nil && lookup == nil {
							// a helper that looks its parameter up with ConfigString
							allInstrs(h, func(i2 ssa.Instruction) {
								c2, ok := i2.(*ssa.Call)
								if !ok || !strings.HasSuffix(calleeName(c2.Common()), "Config).ConfigString") {
									return
								}
								if par, ok := strip(c2.Common().Args[1]).(*ssa.Parameter); ok {
									for i, hp := range h.Params {
										if hp == par && i < len(call.Common().Args) {
											lookup = call
											lookupKey = call.Common().Args[i]
										}
									}
								}
							})
						}
					}
					if ld, ok := ins.(*ssa.UnOp); ok && ld.Op == token.MUL && keyVal == nil {
						if ia, ok := ld.X.(*ssa.IndexAddr); ok {
							if _, isPar := strip(ia.X).(*ssa.Parameter); isPar {
								keyVal = ld
							}
						}
					}
				}
			}
			if keyVal == nil {
				problems = append(problems, "the loop does not iterate the request-ordered slice argument")
			}
			if lookup == nil || keyVal == nil || !isKey(lookupKey) {
				problems = append(problems, "the value is not looked up under the iterated key")
			}
			// what follows the key is this iteration's lookup result (or a constant default),
			// never a value carried over from an earlier key
			var valueOK func(v ssa.Value, d int) bool
			valueOK = func(v ssa.Value, d int) bool {
				if d > 4 {
					return false
				}
				sv := strip(v)
				switch x := sv.(type) {
				case *ssa.Const:
					return true
				case *ssa.Extract:
					return lookup != nil && x.Tuple == ssa.Value(lookup) && x.Index == 0
				case *ssa.Call:
					return lookup != nil && x == lookup
				case *ssa.Phi:
					if x.Block() == loop.Header {
						return false
					}
					for _, e := range x.Edges {
						if !valueOK(e, d+1) {
							return false
						}
					}
					return true
				}
				return false
			}
			for i, ev := range emits {
				if i == 0 || isKey(ev) {
					continue
				}
				if !valueOK(ev, 0) {
					problems = append(problems, "a value appended after the key is not the result of this key's lookup (a value left over from an earlier key can be reported)")
				}
			}
			if len(emits) < 2 {
				problems = append(problems, "key and value are not both appended")
			} else {
				first := appends[0]
				if !isKey(emits[0]) {
					problems = append(problems, "the first element appended per key is not the key")
				}
				for _, a := range appends[1:] {
					if !(first.Block() == a.Block() || first.Block().Dominates(a.Block())) {
						problems = append(problems, "the key is not appended before the value")
					}
				}
			}
		}
		c.check(len(problems) == 0, rid, "Server.ConfigGet", c.P.pos(cg.Pos()), "per requested key, in request order: key then value", strings.Join(problems, "; "))
	}
}

func ruleReverseGroups(c *Ctx) {
	rid := "R12.d"
	c.rule(rid, "in ZREVRANGE and ZREVRANGEBYSCORE the reply of the handler is reversed with step 2 exactly on the true edge of the WITHSCORES field of the option that was passed to the handler, and with step 1 otherwise")
	execs, _ := c.P.executors()
	for _, e := range execs {
		if e.Name != "ZREVRANGE" && e.Name != "ZREVRANGEBYSCORE" {
			continue
		}
		c.analysed(e.Fn)
		key := "executor:" + e.Name
		n2, n1 := 0, 0
		bad := ""
		var scan func(fn *ssa.Function, isWith, isReply func(v ssa.Value) bool, depth int)
		scan = func(fn *ssa.Function, isWith, isReply func(v ssa.Value) bool, depth int) {
			allInstrs(fn, func(ins ssa.Instruction) {
				call, ok := ins.(*ssa.Call)
				if !ok {
					return
				}
				n := calleeName(call.Common())
				step := int64(0)
				if strings.HasSuffix(n, "proto.Array).ReverseBy") {
					step, _ = constInt(call.Common().Args[1])
				} else if strings.HasSuffix(n, "proto.Array).Reverse") {
					step = 1
				} else {
					// a framework helper handed the reply and the WITHSCORES flag
					callee := staticCallee(call.Common())
					if callee == nil || callee.Blocks == nil || !inFramework(callee) || depth >= 2 {
						return
					}
					withP, replyP := map[ssa.Value]bool{}, map[ssa.Value]bool{}
					for i, a := range call.Common().Args {
						if i >= len(callee.Params) {
							break
						}
						if isWith(strip(a)) {
							withP[callee.Params[i]] = true
						}
						if isReply(strip(a)) {
							replyP[callee.Params[i]] = true
						}
					}
					// ... or the whole option struct: its WITHSCORES field is read inside
					optStruct := false
					for i, a := range call.Common().Args {
						if i >= len(callee.Params) {
							break
						}
						if st, ok := a.Type().Underlying().(*types.Struct); ok {
							for k := 0; k < st.NumFields(); k++ {
								if st.Field(k).Name() == "WITHSCORES" {
									optStruct = true
								}
							}
						}
					}
					if len(withP) > 0 && len(replyP) > 0 {
						scan(callee, func(v ssa.Value) bool { return withP[v] }, func(v ssa.Value) bool { return replyP[v] }, depth+1)
					} else if optStruct && len(replyP) > 0 {
						scan(callee, func(v ssa.Value) bool {
							_, f, _, ok := fieldOf(v)
							return ok && f == "WITHSCORES"
						}, func(v ssa.Value) bool { return replyP[v] }, depth+1)
					}
					return
				}
				with := 0 // 1 true, -1 false
				for _, at := range factsAt(call.Block()) {
					if at.Kind == "val" && isWith(at.X) {
						if at.Pos {
							with = 1
						} else {
							with = -1
						}
					}
				}
				switch {
				case step == 2 && with == 1:
					n2++
				case step == 1 && with == -1:
					n1++
				default:
					bad = fmt.Sprintf("reversal with step %d on the WITHSCORES=%v side at %s: member/score pairs are torn apart or members swapped pairwise", step, with == 1, c.P.instrPos(call))
				}
				// the array reversed is the handler's reply
				arr := strip(call.Common().Args[0])
				if ex, ok := arr.(*ssa.Extract); ok {
					if ac, ok := ex.Tuple.(*ssa.Call); ok && strings.HasSuffix(calleeName(ac.Common()), "Message).Array") {
						if isReply(strip(ac.Common().Args[0])) {
							return
						}
					}
				}
				bad = "the array reversed is not the handler's reply"
			})
		}
		scan(e.Fn, func(v ssa.Value) bool {
			_, f, _, ok := fieldOf(v)
			return ok && f == "WITHSCORES"
		}, func(v ssa.Value) bool {
			if hx, ok := v.(*ssa.Extract); ok {
				if hc, ok := hx.Tuple.(*ssa.Call); ok && hc.Common().IsInvoke() {
					return true
				}
			}
			return false
		}, 0)
		c.check(bad == "" && n2 == 1 && n1 == 1, rid, key, c.P.pos(e.Fn.Pos()), "ReverseBy(2) with scores, Reverse otherwise, on the handler's reply", "reverse-by-groups does not match the shape of the reply: "+bad+fmt.Sprintf(" (step-2 sites=%d, step-1 sites=%d)", n2, n1))
	}
}

func ruleDerivedSignatures(c *Ctx) {
	rid := "R12.e"
	c.rule(rid, "the handler-call signatures (A6) of the commands the framework answers itself or derives from primitives equal their rows in the oracle table: operands and order of the read-modify-write sequence, sign of the decrement, concatenation order of APPEND, request-ordered iteration of MGET/HMGET, constant names of re-dispatched commands, mirrored indexes of ZREVRANGE, swapped bounds and exclusive markers of ZREVRANGEBYSCORE")
	table, err := loadCommandTable(verifRoot)
	if err != nil {
		c.undecided(rid, "table", "", err.Error())
		return
	}
	execs, _ := c.P.executors()
	byName := map[string]Executor{}
	for _, e := range execs {
		byName[e.Name] = e
	}
	n := 0
	for _, name := range derivedCommands {
		e, ok := byName[name]
		if !ok {
			c.bad(rid, "executor:"+name+"/missing", "", "no executor registered for "+name)
			continue
		}
		n++
		sig := extractSignature(c.P, e)
		want := table[name]
		if normSig(sig.String()) == normSig(want) {
			c.ok(rid, "executor:"+name, c.P.pos(e.Fn.Pos()), sig.String())
		} else {
			c.bad(rid, "executor:"+name, c.P.pos(e.Fn.Pos()), "the derived command does not call the primitives as the table says", "extracted: "+sig.String(), "expected:  "+want, firstDiff(sig.String(), want))
		}
	}
	// MSETNX: every Get precedes the first Set
	if e, ok := byName["MSETNX"]; ok {
		var gets, sets []*ssa.Call
		allInstrs(e.Fn, func(ins ssa.Instruction) {
			if call, ok := ins.(*ssa.Call); ok && call.Common().IsInvoke() {
				switch call.Common().Method.Name() {
				case "Get":
					gets = append(gets, call)
				case "Set":
					sets = append(sets, call)
				}
			}
		})
		okOrder := len(gets) > 0 && len(sets) > 0
		for _, s := range sets {
			after := reachableBlocks(s.Block(), nil)
			for _, g := range gets {
				if after[g.Block()] {
					okOrder = false
				}
			}
		}
		c.check(okOrder, rid, "executor:MSETNX/check-before-set", c.P.pos(e.Fn.Pos()), "every existence check precedes the first Set", "MSETNX interleaves existence checks with Sets: it is not all-or-nothing even for a single client")
	}
	c.count("derived-commands", n)
	c.floor("derived-commands", 20)
}

// configKeyUnchanged: in fn the parameter at index k is used as the key of a map update (write)
// or lookup on Config.params, directly or by being passed on unchanged to a framework function
// for which the same holds.
func configKeyUnchanged(fn *ssa.Function, k int, write bool, depth int) (bool, string) {
	if fn == nil || fn.Blocks == nil || k >= len(fn.Params) || depth > 4 {
		return false, "not followed"
	}
	par := fn.Params[k]
	found, bad := false, ""
	allInstrs(fn, func(ins ssa.Instruction) {
		switch x := ins.(type) {
		case *ssa.MapUpdate:
			if write {
				if strip(x.Key) == ssa.Value(par) {
					found = true
				} else if owner, _, _, ok := fieldOf(x.Map); ok && strings.HasSuffix(owner, "Config") {
					bad = "the map is updated under a key other than the parameter"
				}
			}
		case *ssa.Lookup:
			if !write {
				if _, isMap := x.X.Type().Underlying().(*types.Map); isMap {
					if strip(x.Index) == ssa.Value(par) {
						found = true
					} else if owner, _, _, ok := fieldOf(x.X); ok && strings.HasSuffix(owner, "Config") {
						bad = "the map is read under a key other than the parameter"
					}
				}
			}
		case *ssa.Call:
			callee := staticCallee(x.Common())
			if callee == nil || !inFramework(callee) || callee.Blocks == nil {
				return
			}
			for i, a := range x.Common().Args {
				if strip(a) == ssa.Value(par) {
					if ok, _ := configKeyUnchanged(callee, i, write, depth+1); ok {
						found = true
					}
				}
			}
			// the same operation reached with a transformed key
			if (callee.Name() == "SetConfig" && write) || (callee.Name() == "ConfigString" && !write) {
				if len(x.Common().Args) > 1 && strip(x.Common().Args[1]) != ssa.Value(par) {
					bad = "calls " + fnName(callee) + " with a key computed from the parameter"
				}
			}
		}
	})
	if bad != "" {
		return false, bad
	}
	if !found {
		return false, "the parameter never reaches the map as the key"
	}
	return true, ""
}
