package main

// rules_pool.go: an object taken from a sync.Pool is an object some earlier user has written.
// Everything the framework promises about "a new connection starts with defaults" or "a parsed
// value holds what the client sent" then depends on the recycling code overwriting every field —
// a field it forgets (a payload left in place when the null bulk returns early, a per-connection
// map embedded by value) carries one client's state into another client's object. The rule asks,
// per pool and element type, that on every path each field is overwritten with a value that does
// not come from the object itself, either before every Put or after every Get.

import (
	"fmt"
	"go/token"
	"go/types"
	"sort"
	"strings"

	"golang.org/x/tools/go/ssa"
)

type poolSite struct {
	fn   *ssa.Function
	call ssa.Instruction
	obj  ssa.Value // the *T taken from / given to the pool
	pool string
}

func poolName(v ssa.Value) string {
	v = strip(v)
	switch x := v.(type) {
	case *ssa.Global:
		return x.Pkg.Pkg.Path() + "." + x.Name()
	case *ssa.FieldAddr:
		if o, f, _, ok := fieldOf(x); ok {
			return o + "." + f
		}
	}
	return v.String()
}

// poolSites: Get sites (with the *T their result is asserted to) and Put sites of the repository.
func (p *Program) poolSites() (gets, puts []poolSite) {
	for _, fn := range p.RepoFuncs(modPath) {
		if !inProd(fn) {
			continue
		}
		allInstrs(fn, func(ins ssa.Instruction) {
			cc := callCommon(ins)
			if cc == nil {
				return
			}
			switch calleeName(cc) {
			case "(*sync.Pool).Get":
				call, isCall := ins.(*ssa.Call)
				if !isCall || call.Referrers() == nil {
					return
				}
				for _, r := range *call.Referrers() {
					ta, isTA := r.(*ssa.TypeAssert)
					if !isTA {
						continue
					}
					var obj ssa.Value = ta
					if ta.CommaOk && ta.Referrers() != nil {
						for _, rr := range *ta.Referrers() {
							if ex, isEx := rr.(*ssa.Extract); isEx && ex.Index == 0 {
								obj = ex
							}
						}
					}
					if _, isPtr := obj.Type().Underlying().(*types.Pointer); isPtr && derefStruct(obj.Type()) != nil {
						gets = append(gets, poolSite{fn, ins, obj, poolName(cc.Args[0])})
					}
				}
			case "(*sync.Pool).Put":
				if len(cc.Args) < 2 {
					return
				}
				obj := cc.Args[1]
				if mi, isMI := obj.(*ssa.MakeInterface); isMI {
					obj = mi.X
				}
				if _, isPtr := obj.Type().Underlying().(*types.Pointer); isPtr && derefStruct(obj.Type()) != nil {
					puts = append(puts, poolSite{fn, ins, strip(obj), poolName(cc.Args[0])})
				}
			}
		})
	}
	return gets, puts
}

// dependsOnObject: v is computed from something loaded out of obj.
func dependsOnObject(v, obj ssa.Value, d int) bool {
	if d > 6 || v == nil {
		return false
	}
	if ld, ok := v.(*ssa.UnOp); ok && ld.Op == token.MUL {
		if fa, ok := ld.X.(*ssa.FieldAddr); ok && strip(fa.X) == obj {
			return true
		}
	}
	ins, ok := v.(ssa.Instruction)
	if !ok {
		return false
	}
	if _, isCall := v.(*ssa.Call); isCall {
		if cc := callCommon(ins); cc != nil {
			if _, isB := cc.Value.(*ssa.Builtin); !isB {
				return false
			}
		}
	}
	var ops []*ssa.Value
	for _, o := range ins.Operands(ops) {
		if o != nil && *o != nil && dependsOnObject(*o, obj, d+1) {
			return true
		}
	}
	return false
}

// resetOnAllPaths: the fields of obj (bit i = field i) that are overwritten with a value not
// derived from obj — or known to be nil — on every path from `from` (nil: function entry) to
// `to`; for to == nil, to every return whose first result is obj.
func resetOnAllPaths(fn *ssa.Function, obj ssa.Value, from, to ssa.Instruction) (uint64, bool) {
	type st struct {
		Live bool
		Bits uint64
	}
	all := ^uint64(0)
	acc := all
	reached := false
	a := &Auto[st]{Fn: fn, Init: st{Live: from == nil},
		Step: func(s st, ins ssa.Instruction, fail func(string)) []st {
			if ins == from {
				return []st{{Live: true}}
			}
			if !s.Live {
				return []st{s}
			}
			if ins == to && to != nil {
				acc &= s.Bits
				reached = true
				return []st{s}
			}
			if r, ok := ins.(*ssa.Return); ok && to == nil && len(r.Results) > 0 && strip(retOperand(r, 0)) == obj {
				acc &= s.Bits
				reached = true
			}
			if cc := callCommon(ins); cc != nil && !cc.IsInvoke() && strings.HasSuffix(calleeName(cc), ".Reset") && len(cc.Args) > 0 && strip(cc.Args[0]) == obj {
				if f := staticCallee(cc); f != nil && !inRepo(f) {
					s.Bits = all // the Reset method of a library type (bytes.Buffer, strings.Builder, ...)
				}
			}
			if sto, ok := ins.(*ssa.Store); ok {
				if strip(sto.Addr) == obj {
					if !dependsOnObject(sto.Val, obj, 0) {
						s.Bits = all
					}
				} else if fa, ok := sto.Addr.(*ssa.FieldAddr); ok && strip(fa.X) == obj && fa.Field < 64 {
					if dependsOnObject(sto.Val, obj, 0) {
						s.Bits &^= 1 << uint(fa.Field)
					} else {
						s.Bits |= 1 << uint(fa.Field)
					}
				}
			}
			return []st{s}
		},
		Edge: func(s st, b *ssa.BasicBlock, idx int) (st, bool) {
			if !s.Live {
				return s, true
			}
			for _, at := range edgeOnly(b, idx) {
				if at.Kind == "nil" && at.Pos {
					if ld, ok := at.X.(*ssa.UnOp); ok && ld.Op == token.MUL {
						if fa, ok := ld.X.(*ssa.FieldAddr); ok && strip(fa.X) == obj && fa.Field < 64 {
							s.Bits |= 1 << uint(fa.Field)
						}
					}
				}
			}
			return s, true
		}}
	a.Run()
	if !reached {
		return 0, false
	}
	return acc, true
}

func ruleRecycledObjectsReset(c *Ctx, rid string) {
	c.rule(rid, "for every sync.Pool of the repository and element type *T: every field of T (mutexes aside) is, on every path, overwritten with a value that is not computed from the object itself (or is known to be nil) between the function entry and each Put, or between each Get and the return of the object; a field neither side overwrites carries the previous user's state into the next object")
	gets, puts := c.P.poolSites()
	c.count("pool-get-sites", len(gets))
	if len(gets) == 0 {
		c.ok(rid, "pools", "", "no object of the repository is recycled through a sync.Pool")
		return
	}
	type key struct{ pool, typ string }
	byPool := map[key][]poolSite{}
	for _, g := range gets {
		byPool[key{g.pool, typeName(deref(g.obj.Type()))}] = append(byPool[key{g.pool, typeName(deref(g.obj.Type()))}], g)
	}
	var keys []key
	for k := range byPool {
		keys = append(keys, k)
	}
	sort.Slice(keys, func(i, j int) bool { return keys[i].pool+keys[i].typ < keys[j].pool+keys[j].typ })
	for _, k := range keys {
		st := derefStruct(byPool[k][0].obj.Type())
		okey := fmt.Sprintf("pool:%s/%s", k.pool, k.typ)
		if st.NumFields() > 64 {
			c.undecided(rid, okey, "", "more than 64 fields: not tracked")
			continue
		}
		all := ^uint64(0)
		afterGet, beforePut := all, all
		for _, g := range byPool[k] {
			c.analysed(g.fn)
			bits, ok := resetOnAllPaths(g.fn, g.obj, g.call, nil)
			if !ok {
				bits = 0 // the object does not leave through a return here: nothing is known
			}
			afterGet &= bits
		}
		nput := 0
		for _, pt := range puts {
			if pt.pool != k.pool || typeName(deref(pt.obj.Type())) != k.typ {
				continue
			}
			nput++
			c.analysed(pt.fn)
			bits, ok := resetOnAllPaths(pt.fn, pt.obj, nil, pt.call)
			if !ok {
				bits = 0
			}
			beforePut &= bits
		}
		if nput == 0 {
			beforePut = 0
		}
		var kept []string
		for i := 0; i < st.NumFields(); i++ {
			ft := st.Field(i).Type().String()
			if ft == "sync.Mutex" || ft == "sync.RWMutex" {
				continue
			}
			if (afterGet|beforePut)&(1<<uint(i)) == 0 {
				kept = append(kept, st.Field(i).Name())
			}
		}
		pos := c.P.instrPos(byPool[k][0].call)
		if len(kept) == 0 {
			c.ok(rid, okey, pos, fmt.Sprintf("%d Get and %d Put site(s): every field of %s is overwritten on every path before Put or after Get", len(byPool[k]), nput, k.typ))
			continue
		}
		c.bad(rid, okey, pos, fmt.Sprintf("an object of type %s taken from the pool keeps field(s) %s of its previous user: not overwritten on every path, neither before Put nor after Get (or overwritten with a value computed from the old one)", k.typ, strings.Join(kept, ", ")))
	}
}
