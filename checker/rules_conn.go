package main

// rules_conn.go: connection goroutine roots, panic barrier, socket/registry release
// (C07, C19, and the release clause of C11).

import (
	"fmt"
	"go/token"
	"go/types"
	"strings"

	"golang.org/x/tools/go/ssa"
)

// ConnRoot is a goroutine root that does client-driven work.
type ConnRoot struct {
	Fn    *ssa.Function
	Sites []GoSite
	Why   string
}

var clientWorkNames = []string{
	nParserNext, "(*crypto/tls.Conn).Handshake", "(*crypto/tls.Conn).HandshakeContext",
	"(net.Conn).Read", "(*crypto/tls.Conn).Read",
}

// clientWork: does fn (transitively, inside the framework) parse, handshake or read from a client?
func (p *Program) clientWork(fn *ssa.Function) (bool, string) {
	reach := p.repoReach([]*ssa.Function{fn}, inFramework)
	for f := range reach {
		if f.Blocks == nil {
			continue
		}
		found := ""
		allInstrs(f, func(ins ssa.Instruction) {
			if cc := callCommon(ins); cc != nil && nameIn(calleeName(cc), clientWorkNames...) {
				found = calleeName(cc) + " in " + fnName(f)
			}
		})
		if found != "" {
			return true, found
		}
	}
	return false, ""
}

// connRoots: targets of go statements in redis/... that do client-driven work.
func (p *Program) connRoots() (roots []*ConnRoot, others []GoSite) {
	by := map[*ssa.Function]*ConnRoot{}
	for _, gs := range p.goSites(pkgRedis) {
		if gs.Target == nil {
			others = append(others, gs)
			continue
		}
		if ok, why := p.clientWork(gs.Target); ok {
			// accept loops reach client work only through their own go statements: a function
			// whose client work is only behind further `go` sites is not itself client-driven
			if p.clientWorkOnlyViaGo(gs.Target) {
				others = append(others, gs)
				continue
			}
			r := by[gs.Target]
			if r == nil {
				r = &ConnRoot{Fn: gs.Target, Why: why}
				by[gs.Target] = r
				roots = append(roots, r)
			}
			r.Sites = append(r.Sites, gs)
		} else {
			others = append(others, gs)
		}
	}
	return
}

// clientWorkOnlyViaGo: fn does no client work in its own goroutine (only in goroutines it spawns).
func (p *Program) clientWorkOnlyViaGo(fn *ssa.Function) bool {
	// reach without following go statements
	seen := map[*ssa.Function]bool{}
	var st = []*ssa.Function{fn}
	for len(st) > 0 {
		f := st[len(st)-1]
		st = st[:len(st)-1]
		if seen[f] || f.Blocks == nil {
			continue
		}
		seen[f] = true
		direct := false
		allInstrs(f, func(ins ssa.Instruction) {
			if _, isGo := ins.(*ssa.Go); isGo {
				return
			}
			cc := callCommon(ins)
			if cc == nil {
				return
			}
			if nameIn(calleeName(cc), clientWorkNames...) {
				direct = true
			}
			if ci, ok := ins.(ssa.CallInstruction); ok {
				for _, cal := range p.calleesAt(ci) {
					if inFramework(cal) {
						st = append(st, cal)
					}
				}
			}
		})
		if direct {
			return false
		}
	}
	return true
}

func containsDirectRecover(fn *ssa.Function) bool {
	found := false
	if fn == nil || fn.Blocks == nil {
		return false
	}
	allInstrs(fn, func(ins ssa.Instruction) {
		if call, ok := ins.(*ssa.Call); ok {
			if b, ok := call.Common().Value.(*ssa.Builtin); ok && b.Name() == "recover" {
				found = true
			}
		}
	})
	return found
}

func containsPanic(fn *ssa.Function) bool {
	found := false
	allInstrs(fn, func(ins ssa.Instruction) {
		if _, ok := ins.(*ssa.Panic); ok {
			found = true
		}
	})
	return found
}

// rulePanicBarrier: R07.a.
func rulePanicBarrier(c *Ctx, rid string) {
	c.rule(rid, "every goroutine started in redis/... that does client-driven work (parses, handshakes or reads from a client) registers, in its entry block before any other call, a defer whose own function body calls recover() directly and does not re-panic")
	roots, _ := c.P.connRoots()
	c.count("client-driven-roots", len(roots))
	c.floor("client-driven-roots", 2)
	for _, r := range roots {
		c.analysed(r.Fn)
		key := fnName(r.Fn)
		pos := c.P.pos(r.Fn.Pos())
		var barrier *ssa.Defer
		callsBefore := []string{}
		for _, ins := range r.Fn.Blocks[0].Instrs {
			if d, ok := ins.(*ssa.Defer); ok {
				g := staticCallee(d.Common())
				if containsDirectRecover(g) {
					barrier = d
					break
				}
				continue
			}
			if call, ok := ins.(*ssa.Call); ok {
				callsBefore = append(callsBefore, calleeName(call.Common()))
			}
		}
		if barrier == nil {
			// is there a defer that recovers one level too deep?
			deep := ""
			allInstrs(r.Fn, func(ins ssa.Instruction) {
				if d, ok := ins.(*ssa.Defer); ok {
					if g := staticCallee(d.Common()); g != nil && g.Blocks != nil {
						for _, cal := range calleesIn(g) {
							if containsDirectRecover(cal) {
								deep = fmt.Sprintf("the deferred function at %s calls %s, which calls recover(): recover only stops a panic when called directly by the deferred function", c.P.instrPos(d), fnName(cal))
							}
						}
					}
				}
			})
			msg := "the goroutine has no deferred recover() registered in its entry block: a panic while serving one client terminates the whole process (" + r.Why + ")"
			if deep != "" {
				msg += "; " + deep
			}
			c.bad(rid, key+"/barrier", pos, msg)
			continue
		}
		g := staticCallee(barrier.Common())
		switch {
		case len(callsBefore) > 0:
			c.bad(rid, key+"/barrier", c.P.instrPos(barrier), "calls are made before the recover barrier is registered: "+strings.Join(callsBefore, ", "))
		case containsPanic(g):
			c.bad(rid, key+"/barrier", c.P.instrPos(barrier), "the recovering function panics again")
		case r.Fn.Recover == nil:
			c.bad(rid, key+"/barrier", c.P.instrPos(barrier), "no recover block")
		default:
			c.ok(rid, key+"/barrier", c.P.instrPos(barrier), "defer "+fnName(g)+" (calls recover() directly) is the first call of the goroutine")
		}
	}
}

var exitNames = []string{"os.Exit", "log.Fatal", "log.Fatalf", "log.Fatalln", "log.Panic", "log.Panicf", "log.Panicln",
	"(*log.Logger).Fatal", "(*log.Logger).Fatalf", "(*log.Logger).Fatalln", "runtime.Goexit", "syscall.Exit", "syscall.Kill"}

// ruleNoExit: R07.b.
func ruleNoExit(c *Ctx, rid string) {
	c.rule(rid, "no call site located in a repository package and reachable from a connection goroutine ends the process or the goroutine deliberately (os.Exit, log.Fatal*, log.Panic*, runtime.Goexit, syscall.Exit/Kill); thorough tier: also call sites located in the non-standard-library dependencies reached from it")
	roots, _ := c.P.connRoots()
	var from []*ssa.Function
	for _, r := range roots {
		from = append(from, r.Fn)
	}
	in := inProd
	if c.Tier == "thorough" {
		in = func(f *ssa.Function) bool {
			pk := fnPkgPath(f)
			return inProd(f) || strings.HasPrefix(pk, "github.com/cybergarage/go-logger") || strings.HasPrefix(pk, "github.com/cybergarage/go-tracing") || strings.HasPrefix(pk, "github.com/google/uuid")
		}
	}
	reach := c.P.repoReach(from, in)
	n := 0
	for f := range reach {
		if f.Blocks == nil {
			continue
		}
		c.analysed(f)
		allInstrs(f, func(ins ssa.Instruction) {
			if cc := callCommon(ins); cc != nil && nameIn(calleeName(cc), exitNames...) {
				n++
				c.bad(rid, fmt.Sprintf("%s/%s", c.P.key(f), calleeName(cc)), c.P.instrPos(ins), "a call that ends the process/goroutine is reachable from a connection goroutine: one client can stop the server")
			}
		})
	}
	c.count("functions-reachable-from-connection-roots", len(reach))
	c.floor("functions-reachable-from-connection-roots", 100)
	if n == 0 {
		c.ok(rid, "no-exit-sites", "", fmt.Sprintf("0 exit call sites in the %d functions reachable from the connection roots", len(reach)))
	}
}

// AcceptLoop is a loop around net.Listener.Accept.
type AcceptLoop struct {
	Fn     *ssa.Function
	Accept *ssa.Call
	Loop   *Loop
}

func (p *Program) acceptLoops() []*AcceptLoop {
	var out []*AcceptLoop
	for _, fn := range p.RepoFuncs(pkgRedis) {
		allInstrs(fn, func(ins ssa.Instruction) {
			call, ok := isCall(ins, "(net.Listener).Accept", "(*net.TCPListener).Accept")
			if !ok {
				return
			}
			al := &AcceptLoop{Fn: fn, Accept: call}
			for _, l := range naturalLoops(fn) {
				if l.Blocks[call.Block()] && (al.Loop == nil || len(l.Blocks) < len(al.Loop.Blocks)) {
					al.Loop = l
				}
			}
			out = append(out, al)
		})
	}
	return out
}

// ruleAcceptLoops: R07.c / R09.d / R19.c.
func ruleAcceptLoops(c *Ctx, rid string) {
	c.rule(rid, "accept loops: (i) between two Accept calls no call reads from, writes to or handshakes the accepted socket (that work belongs to the per-connection goroutine); (ii) the loop is left only on the error of Accept itself; (iii) every accepted socket is, on every path to the next Accept or to a return, handed to a go statement or closed")
	loops := c.P.acceptLoops()
	// one instance per listener entry: a loop shared by several listeners counts once per caller
	ninst := 0
	for _, al := range loops {
		k := len(c.P.staticCallSites(al.Fn))
		if k < 1 {
			k = 1
		}
		ninst += k
	}
	c.count("accept-loops", ninst)
	c.floor("accept-loops", 2)
	for _, al := range loops {
		c.analysed(al.Fn)
		key := fnName(al.Fn)
		if al.Loop == nil {
			c.bad(rid, key+"/loop", c.P.instrPos(al.Accept), "Accept is not called in a loop")
			continue
		}
		// (i) client work inside the loop in this goroutine
		work := 0
		for _, b := range al.Loop.sortedBlocks() {
			for _, ins := range b.Instrs {
				if _, isGo := ins.(*ssa.Go); isGo {
					continue
				}
				ci, ok := ins.(ssa.CallInstruction)
				if !ok {
					continue
				}
				n := calleeName(ci.Common())
				bad := nameIn(n, clientWorkNames...) || nameIn(n, "(net.Conn).Write", "(*crypto/tls.Conn).Write")
				if !bad {
					for _, cal := range c.P.calleesAt(ci) {
						if inFramework(cal) && !c.P.clientWorkOnlyViaGo(cal) {
							if okW, _ := c.P.clientWork(cal); okW {
								bad = true
							}
						}
					}
				}
				if bad {
					work++
					c.bad(rid, fmt.Sprintf("%s/client-work#%d", key, work), c.P.instrPos(ins), "the accept loop itself performs client-controlled work ("+n+"): a stalled or failing client blocks or ends acceptance for everyone")
				}
			}
		}
		if work == 0 {
			c.ok(rid, key+"/client-work", c.P.instrPos(al.Accept), "no read/write/handshake on the accepted socket inside the accept loop")
		}
		// (ii) exits controlled by Accept's error only
		badExit := 0
		for _, b := range al.Loop.sortedBlocks() {
			for idx, s := range b.Succs {
				if deadEdge(b, idx) {
					continue
				}
				if al.Loop.Blocks[s] {
					continue
				}
				okE := false
				for _, at := range edgeFacts(b, idx) {
					if at.Kind == "nil" && !at.Pos {
						if ex, ok := at.X.(*ssa.Extract); ok && ex.Tuple == al.Accept && ex.Index == 1 {
							okE = true
						}
					}
				}
				if !okE && c.P.exitOnStopSignal(edgeFacts(b, idx)) {
					// the loop is left because a channel that Stop closes has fired
					okE = true
				}
				if !okE {
					badExit++
					c.bad(rid, fmt.Sprintf("%s/exit#%d", key, badExit), c.P.instrPos(b.Instrs[len(b.Instrs)-1]), "the accept loop can be left for a reason other than the error of Accept itself (one client's failure stops acceptance)")
				}
			}
		}
		if badExit == 0 {
			c.ok(rid, key+"/exits", c.P.instrPos(al.Accept), "the loop is left only when Accept fails")
		}
		// (iii) ownership of the accepted socket
		type st struct{ Have int8 }
		accept := al.Accept
		isSock := func(v ssa.Value) bool {
			ex, ok := strip(v).(*ssa.Extract)
			return ok && ex.Tuple == accept && ex.Index == 0
		}
		a := &Auto[st]{Fn: al.Fn, Init: st{},
			Step: func(s st, ins ssa.Instruction, fail func(string)) []st {
				switch x := ins.(type) {
				case *ssa.Call:
					if x == accept {
						if s.Have == 1 {
							fail("the previously accepted socket is neither handed to a goroutine nor closed before the next Accept")
						}
						return []st{{Have: 1}}
					}
					if strings.HasSuffix(calleeName(x.Common()), ".Close") {
						for _, a := range callArgs(x.Common()) {
							if isSock(a) {
								s.Have = 0
							}
						}
					}
				case *ssa.Go:
					for _, a := range callArgs(x.Common()) {
						if isSock(a) {
							s.Have = 0
						}
					}
					if mc, ok := x.Common().Value.(*ssa.MakeClosure); ok {
						for _, a := range mc.Bindings { // the iteration's own variable holding the socket
							if isSock(a) {
								s.Have = 0
							}
							if cell, ok := a.(*ssa.Alloc); ok && al.Loop.Blocks[cell.Block()] {
								for _, r := range *cell.Referrers() {
									if st, ok := r.(*ssa.Store); ok && st.Addr == ssa.Value(cell) && isSock(st.Val) {
										s.Have = 0
									}
								}
							}
						}
					}
				case *ssa.Return:
					if s.Have == 1 {
						fail("the function returns while holding an accepted socket that was neither handed to a goroutine nor closed")
					}
				}
				return []st{s}
			},
			Edge: func(s st, b *ssa.BasicBlock, idx int) (st, bool) {
				for _, at := range edgeOnly(b, idx) {
					if at.Kind == "nil" && !at.Pos {
						if ex, ok := at.X.(*ssa.Extract); ok && ex.Tuple == accept && ex.Index == 1 {
							s.Have = 0 // Accept failed: no socket
						}
					}
				}
				return s, true
			}}
		res := a.Run()
		if len(res.Errs) == 0 {
			c.ok(rid, key+"/ownership", c.P.instrPos(al.Accept), "every accepted socket is handed to a goroutine or closed")
		}
		for i, e := range res.Errs {
			c.bad(rid, fmt.Sprintf("%s/ownership#%d", key, i), c.P.instrPos(e.Ins), e.Msg, e.witness(c.P)...)
		}
	}
}

// edgeOnly: atoms of the branch condition on edge b -> succ idx (no dominating facts).
func edgeOnly(b *ssa.BasicBlock, idx int) []Atom {
	if len(b.Instrs) == 0 || len(b.Succs) != 2 || b.Succs[0] == b.Succs[1] {
		return nil
	}
	if iff, ok := b.Instrs[len(b.Instrs)-1].(*ssa.If); ok {
		return atomsOf(iff.Cond, idx == 0)
	}
	return nil
}

// ---------------------------------------------------------------------------------------
// R19.a close on every exit

// socketAliases: the socket parameter and the values wrapping it (tls.Server(conn), newConnWith(conn)).
func socketAliases(fn *ssa.Function) map[ssa.Value]bool {
	al := map[ssa.Value]bool{}
	for _, p := range fn.Params {
		if p.Type().String() == "net.Conn" {
			al[p] = true
		}
	}
	changed := true
	for changed {
		changed = false
		allInstrs(fn, func(ins ssa.Instruction) {
			call, ok := ins.(*ssa.Call)
			if !ok || al[call] {
				return
			}
			n := calleeName(call.Common())
			wraps := n == "crypto/tls.Server" || wrapsSocket(call)
			if !wraps {
				return
			}
			for _, a := range call.Common().Args {
				if al[strip(a)] {
					al[call] = true
					changed = true
				}
			}
		})
	}
	return al
}

func ruleCloseOnEveryExit(c *Ctx, rid string) {
	c.rule(rid, "in every client-driven goroutine root, every path to a return closes the accepted socket (directly, through the Conn wrapping it, by a registered defer) or hands it to another verified root; Conn.Close closes the embedded socket unless the closed flag is set")
	roots, _ := c.P.connRoots()
	verified := map[*ssa.Function]bool{}
	for _, r := range roots {
		verified[r.Fn] = true
	}
	for _, r := range roots {
		key := fnName(r.Fn)
		al := socketAliases(r.Fn)
		if len(al) == 0 {
			c.undecided(rid, key+"/socket", c.P.pos(r.Fn.Pos()), "no net.Conn parameter: the socket the goroutine owns was not identified")
			continue
		}
		isAlias := func(v ssa.Value) bool { return al[strip(v)] }
		closesAlias := func(cc *ssa.CallCommon, fn *ssa.Function) bool {
			if strings.HasSuffix(calleeName(cc), ".Close") {
				for _, a := range callArgs(cc) {
					if isAlias(a) {
						return true
					}
				}
			}
			return false
		}
		// deferred closure that closes an alias
		deferCloses := func(d *ssa.Defer) bool {
			if closesAlias(d.Common(), r.Fn) {
				return true
			}
			g := staticCallee(d.Common())
			if g == nil || g.Blocks == nil {
				return false
			}
			found := false
			allInstrs(g, func(ins ssa.Instruction) {
				cc := callCommon(ins)
				if cc == nil || !strings.HasSuffix(calleeName(cc), ".Close") {
					return
				}
				for _, a := range callArgs(cc) {
					if al[strip(a)] {
						found = true
					}
				}
			})
			return found
		}
		type st struct{ Closed int8 }
		a := &Auto[st]{Fn: r.Fn, Init: st{},
			Step: func(s st, ins ssa.Instruction, fail func(string)) []st {
				switch x := ins.(type) {
				case *ssa.Defer:
					if deferCloses(x) {
						s.Closed = 1
					}
				case *ssa.Call:
					if closesAlias(x.Common(), r.Fn) {
						s.Closed = 1
					}
					if callee := staticCallee(x.Common()); callee != nil && verified[callee] {
						for _, a := range x.Common().Args {
							if isAlias(a) {
								s.Closed = 1 // ownership transferred to a root that is itself checked
							}
						}
					}
				case *ssa.Return:
					if x.Block() != r.Fn.Recover && s.Closed == 0 {
						fail("the goroutine returns without closing the accepted socket on this path (no Close call and no deferred Close registered yet)")
					}
				}
				return []st{s}
			}}
		res := a.Run()
		if len(res.Errs) == 0 {
			c.ok(rid, key+"/close", c.P.pos(r.Fn.Pos()), "every return is reached with the socket closed, a deferred Close registered, or ownership handed to a checked root")
		}
		for i, e := range res.Errs {
			c.bad(rid, fmt.Sprintf("%s/close#%d", key, i), c.P.instrPos(e.Ins), e.Msg, e.witness(c.P)...)
		}
	}
	// Conn.Close
	cl := c.P.Method(pkgRedis, "Conn", "Close")
	if c.anchor(rid, cl, "redis.(*Conn).Close") {
		type st struct{ Closed int8 }
		// the closed flag: a boolean field of the receiver (plain or atomic.Bool) that Close sets to true
		flagFields := map[string]bool{"isClosed": true}
		allInstrs(cl, func(ins ssa.Instruction) {
			if sto, ok := ins.(*ssa.Store); ok {
				if b, isC := constBool(sto.Val); isC && b {
					if _, f, base, ok := fieldOf(sto.Addr); ok && strip(base) == ssa.Value(cl.Params[0]) {
						flagFields[f] = true
					}
				}
			}
			if cc := callCommon(ins); cc != nil && calleeName(cc) == "(*sync/atomic.Bool).Store" && len(cc.Args) == 2 {
				if b, isC := constBool(cc.Args[1]); isC && b {
					if _, f, base, ok := fieldOf(cc.Args[0]); ok && strip(base) == ssa.Value(cl.Params[0]) {
						flagFields[f] = true
					}
				}
			}
		})
		a := &Auto[st]{Fn: cl, Init: st{},
			Step: func(s st, ins ssa.Instruction, fail func(string)) []st {
				switch x := ins.(type) {
				case *ssa.Call:
					if calleeName(x.Common()) == "(net.Conn).Close" {
						if _, f, _, ok := fieldOf(x.Common().Value); ok && f == "Conn" {
							s.Closed = 1
						}
					}
				case *ssa.Return:
					if x.Block() == cl.Recover {
						break
					}
					if s.Closed == 0 {
						flag := false
						for _, at := range factsAt(x.Block()) {
							if at.Kind == "val" && at.Pos {
								if _, f, _, ok := fieldOf(at.X); ok && flagFields[f] {
									flag = true
								}
							}
							if at.Kind == "call" && at.Pos && at.Call != nil && calleeName(at.Call.Common()) == "(*sync/atomic.Bool).Load" {
								if _, f, _, ok := fieldOf(at.Call.Common().Args[0]); ok && flagFields[f] {
									flag = true
								}
							}
						}
						if !flag {
							fail("Conn.Close returns without closing the socket although the closed flag is not set")
						}
					}
				}
				return []st{s}
			}}
		res := a.Run()
		if len(res.Errs) == 0 {
			c.ok(rid, "Conn.Close", c.P.pos(cl.Pos()), "closes the embedded socket unless already closed")
		}
		for i, e := range res.Errs {
			c.bad(rid, fmt.Sprintf("Conn.Close#%d", i), c.P.instrPos(e.Ins), e.Msg, e.witness(c.P)...)
		}
	}
}

// ruleRegistryBracket: R19.b.
func ruleRegistryBracket(c *Ctx, rid string) {
	c.rule(rid, "registry bracket: after AddConn(c) no path reaches a return before a defer that calls RemoveConn on the same connection is registered; AddConn and RemoveConn use the same key expression (c.UUID()) under the registry's lock")
	nAdd := 0
	for _, fn := range c.P.RepoFuncs(pkgRedis) {
		var adds []*ssa.Call
		allInstrs(fn, func(ins ssa.Instruction) {
			if call, ok := isCall(ins, "(*"+pkgRedis+".ConnManager).AddConn"); ok {
				adds = append(adds, call)
			}
		})
		if len(adds) == 0 {
			continue
		}
		c.analysed(fn)
		for i, add := range adds {
			nAdd++
			key := fmt.Sprintf("%s/AddConn#%d", fnName(fn), i)
			connVal := strip(add.Common().Args[1])
			removes := func(d *ssa.Defer) bool {
				g := staticCallee(d.Common())
				check := func(cc *ssa.CallCommon) bool {
					return calleeName(cc) == "(*"+pkgRedis+".ConnManager).RemoveConn" && len(cc.Args) == 2 && strip(cc.Args[1]) == connVal
				}
				if check(d.Common()) {
					return true
				}
				if g == nil || g.Blocks == nil {
					return false
				}
				found := false
				allInstrs(g, func(ins ssa.Instruction) {
					if cc := callCommon(ins); cc != nil && check(cc) {
						found = true
					}
				})
				return found
			}
			type st struct{ S int8 } // 0 not added, 1 added, 2 remove registered
			a := &Auto[st]{Fn: fn, Init: st{},
				Step: func(s st, ins ssa.Instruction, fail func(string)) []st {
					switch x := ins.(type) {
					case *ssa.Call:
						if x == add {
							s.S = 1
						}
					case *ssa.Defer:
						if s.S == 1 && removes(x) {
							s.S = 2
						}
					case *ssa.Return:
						if s.S == 1 && x.Block() != fn.Recover {
							fail("a path returns after AddConn without a deferred RemoveConn of the same connection: the registry keeps the entry of a connection that is gone")
						}
					}
					return []st{s}
				}}
			res := a.Run()
			// also: a defer RemoveConn must exist at all
			any := false
			allInstrs(fn, func(ins ssa.Instruction) {
				if d, ok := ins.(*ssa.Defer); ok && removes(d) {
					any = true
				}
			})
			if !any {
				c.bad(rid, key, c.P.instrPos(add), "no deferred RemoveConn of the added connection in this function")
				continue
			}
			if len(res.Errs) == 0 {
				c.ok(rid, key, c.P.instrPos(add), "every return after AddConn has the deferred RemoveConn registered")
			}
			for j, e := range res.Errs {
				c.bad(rid, fmt.Sprintf("%s/path#%d", key, j), c.P.instrPos(e.Ins), e.Msg, e.witness(c.P)...)
			}
		}
	}
	c.count("AddConn-sites", nAdd)
	c.floor("AddConn-sites", 1)
	// keys
	add := c.P.Method(pkgRedis, "ConnManager", "AddConn")
	rem := c.P.Method(pkgRedis, "ConnManager", "RemoveConn")
	if c.anchor(rid, add, "ConnManager.AddConn") && c.anchor(rid, rem, "ConnManager.RemoveConn") {
		keyOf := func(v ssa.Value) string {
			if call, ok := strip(v).(*ssa.Call); ok {
				if p, ok := strip(call.Common().Args[0]).(*ssa.Parameter); ok && len(call.Common().Args) == 1 {
					return calleeName(call.Common()) + "(conn parameter #" + fmt.Sprint(paramIndex(p)) + ")"
				}
			}
			return v.String()
		}
		var addKey, remKey string
		allInstrs(add, func(ins ssa.Instruction) {
			if mu, ok := ins.(*ssa.MapUpdate); ok {
				addKey = keyOf(mu.Key)
			}
		})
		allInstrs(rem, func(ins ssa.Instruction) {
			if call, ok := ins.(*ssa.Call); ok {
				if b, ok := call.Common().Value.(*ssa.Builtin); ok && b.Name() == "delete" {
					remKey = keyOf(call.Common().Args[1])
				}
			}
		})
		c.check(addKey != "" && addKey == remKey, rid, "registry-key", c.P.pos(rem.Pos()), "AddConn and RemoveConn key: "+addKey, fmt.Sprintf("AddConn inserts under %q but RemoveConn deletes %q", addKey, remKey))
		// the entry goes on every path: no return of RemoveConn is reached without the delete
		// (the connection loop ignores RemoveConn's result, so an early error return leaks the entry)
		absent := func(b *ssa.BasicBlock) bool {
			// the entry is known to be absent here: `if _, ok := m[key]; !ok { return }`
			for _, at := range factsAt(b) {
				if at.Kind != "val" || at.Pos {
					continue
				}
				if ex, ok := at.X.(*ssa.Extract); ok && ex.Index == 1 {
					if lk, ok := ex.Tuple.(*ssa.Lookup); ok {
						if owner, f, _, ok := fieldOf(lk.X); ok && owner == "redis.ConnManager" && f == "m" {
							return true
						}
					}
				}
			}
			return false
		}
		uncond := mustPassThrough(rem, func(ins ssa.Instruction) bool {
			if cc := callCommon(ins); cc != nil {
				if b, ok := cc.Value.(*ssa.Builtin); ok && b.Name() == "delete" {
					return true
				}
			}
			return ins == ins.Block().Instrs[0] && absent(ins.Block())
		})
		c.check(uncond, rid, "RemoveConn/unconditional", c.P.pos(rem.Pos()), "every path through RemoveConn deletes the entry", "RemoveConn can return without deleting the entry (an early return before the delete): the deferred RemoveConn of the connection loop ignores the result, so the registry keeps a connection that is gone")
	}
}

func paramIndex(p *ssa.Parameter) int {
	for i, q := range p.Parent().Params {
		if q == p {
			return i
		}
	}
	return -1
}

// ruleLoopExitIsFunctionExit: R19.d.
func ruleLoopExitIsFunctionExit(c *Ctx, rid string) {
	c.rule(rid, "every exit of the request loop leads to a return without any further blocking operation (read, accept, channel receive, WaitGroup.Wait, lock)")
	for _, cl := range c.P.connLoops() {
		if cl.Loop == nil {
			continue
		}
		key := fnName(cl.Fn)
		bad := 0
		after := map[*ssa.BasicBlock]bool{}
		for _, b := range cl.Loop.sortedBlocks() {
			for _, s := range b.Succs {
				if !cl.Loop.Blocks[s] {
					for x := range reachableBlocks(s, nil) {
						if !cl.Loop.Blocks[x] {
							after[x] = true
						}
					}
				}
			}
		}
		for b := range after {
			for _, ins := range b.Instrs {
				blocking := false
				switch x := ins.(type) {
				case *ssa.Call:
					n := calleeName(x.Common())
					if nameIn(n, blockingReadNames...) || n == "(*sync.WaitGroup).Wait" || strings.HasSuffix(n, "Mutex).Lock") || n == "time.Sleep" {
						blocking = true
					}
				case *ssa.Select:
					blocking = true
				case *ssa.UnOp:
					if x.Op.String() == "<-" {
						blocking = true
					}
				}
				if blocking {
					bad++
					c.bad(rid, fmt.Sprintf("%s/after-loop#%d", key, bad), c.P.instrPos(ins), "a blocking operation follows the request loop: the goroutine may not terminate when the connection ends")
				}
			}
		}
		if bad == 0 {
			c.ok(rid, key, c.P.instrPos(cl.Next), fmt.Sprintf("%d blocks after the loop, none blocks", len(after)))
		}
	}
}

// ---------------------------------------------------------------------------------------
// property registration

func init() {
	register(&propInfo{ID: "C07", Level: "other", Run: runC07,
		Explanation: "Static rules making process survival independent of what requests and handlers do: R07.a every goroutine root in redis/... that does client-driven work registers, as its first call, a defer whose own body calls recover() (a recover one call deeper is ineffective and is reported); R07.b no call site in repository packages (thorough: nor in the non-stdlib dependencies) reachable from a connection goroutine ends the process; R07.c accept loops do no client-controlled work, are left only on Accept's own error and never leak an accepted socket. With these, any recoverable panic raised by any request ends only the offending connection. Does not decide reply correctness for other clients nor unrecoverable faults (concurrent map access is C14's rule)."})
	register(&propInfo{ID: "C19", Level: "other", Run: runC19,
		Explanation: "Static pairing rules (path automata over the SSA CFG): R19.a every path of every client-driven goroutine root to a return closes the accepted socket (Close, deferred Close, or hand-over to another checked root), and Conn.Close closes the embedded socket unless flagged closed; R19.b AddConn is followed on every path by a registered deferred RemoveConn of the same connection, with matching keys; R19.c accept loops hand every accepted socket to a goroutine or close it; R19.d nothing blocks after the request loop; R19.e Stop closes the listeners and sweeps every registered connection. Decides release on every control-flow path; does not decide descriptor/goroutine counts at run time or a peer that never reads."})
}

// ruleReplyBufferLocal: R07.d — replies are serialized into storage no other connection can touch.
func ruleReplyBufferLocal(c *Ctx, rid string) {
	c.rule(rid, "the serializers build each reply in a buffer allocated by that call (no package-level, pooled or otherwise shared buffer whose bytes another connection's goroutine could overwrite before they are written)")
	for _, name := range [][2]string{{"Message", "RESPBytes"}, {"Array", "RESPBytes"}} {
		fn := c.P.Method(pkgProto, name[0], name[1])
		if !c.anchor(rid, fn, "proto."+name[0]+"."+name[1]) {
			continue
		}
		key := name[0] + "." + name[1] + "/buffer"
		m := serializerModel(c.P, fn, readTypeTables(c.P))
		own := m.Mode == "buffer"
		if m.Mode == "slice" {
			own = true
			for _, pth := range m.Paths {
				if pth.ErrNil != 2 && !pth.AccOK {
					own = false
				}
			}
		}
		shared := ""
		allInstrs(fn, func(ins ssa.Instruction) {
			if call, ok := ins.(*ssa.Call); ok {
				if n := calleeName(call.Common()); strings.HasPrefix(n, "(*sync.Pool).") {
					shared = n
				}
				if cal := staticCallee(call.Common()); cal != nil && inRepo(cal) && c.P.reachesCallNamed(cal, "(*sync.Pool).Get", "(*sync.Pool).Put") {
					shared = "sync.Pool via " + fnName(cal)
				}
			}
			if ld, ok := ins.(*ssa.UnOp); ok {
				if g, ok := ld.X.(*ssa.Global); ok && strings.Contains(g.Type().String(), "bytes.Buffer") {
					shared = "package-level buffer " + g.Name()
				}
			}
		})
		// a pooled scratch whose content is copied out: every result is a fresh slice, and the
		// buffer goes back only through deferred calls (which run after the result was computed)
		copiedOut := shared != "" && strings.HasPrefix(shared, "sync.Pool") || strings.HasPrefix(shared, "(*sync.Pool)")
		if copiedOut {
			for _, r := range returnsOf(fn) {
				if r.Block() == fn.Recover || len(r.Results) == 0 {
					continue
				}
				if !c.P.freshBytes(retOperand(r, 0), 0) {
					copiedOut = false
				}
			}
			allInstrs(fn, func(ins ssa.Instruction) {
				call, ok := ins.(*ssa.Call)
				if !ok {
					return
				}
				if calleeName(call.Common()) == "(*sync.Pool).Put" {
					copiedOut = false
				}
				if cal := staticCallee(call.Common()); cal != nil && inRepo(cal) && c.P.reachesCallNamed(cal, "(*sync.Pool).Put") && !c.P.reachesCallNamed(cal, "(*sync.Pool).Get") {
					copiedOut = false // given back by an ordinary call: before or after the copy is not decided
				}
			})
		}
		switch {
		case shared != "" && copiedOut:
			c.ok(rid, key, c.P.pos(fn.Pos()), "reply composed in a pooled buffer that is given back by deferred calls only; every result is a copy made by this call")
		case shared != "":
			c.bad(rid, key, c.P.pos(fn.Pos()), "the reply is built in shared storage ("+shared+"): the bytes handed to the connection can be overwritten by another connection's reply before they are written")
		case !own:
			c.undecided(rid, key, c.P.pos(fn.Pos()), "the output of the serializer is neither a local bytes.Buffer nor a []byte appended to from empty within the call: its ownership was not established")
		default:
			c.ok(rid, key, c.P.pos(fn.Pos()), "reply built in a buffer allocated by this call")
		}
	}
}

func runC07(c *Ctx) {
	rulePanicBarrier(c, "R07.a")
	ruleNoExit(c, "R07.b")
	ruleAcceptLoops(c, "R07.c")
	ruleGoroutineOwnsItsIteration(c, "R07.c")
	ruleStdlibPreconditions(c, "R07.i")
	ruleAdmissionBalanced(c, "R07.j")
	ruleReplyBufferLocal(c, "R07.d")
	ruleNoConcurrentMapAccess(c, "R07.l")
	// a registry entry that is never removed counts against any admission limit for ever
	ruleRegistryBracket(c, "R07.m")
	// a panic in the example store is confined to the offender only if no lock of the store is held at that point: index safety of the store
	ruleStoreIndexSafety(c, "R07.n")
	ruleNilNilDeref(c, "R07.e")
	ruleNoReentrantLock(c, buildSyncModel(c), "R07.f")
	ruleNoWriteUnderReadLock(c, "R07.g")
	ruleClientSizedAllocations(c, "R07.h")
	// a panic in the connection goroutine is confined to the offender only if no lock is held without defer at that point
	ruleConnLoopIndexSafety(c, "R07.o")
	c.assume("handlers do not call os.Exit themselves; stack exhaustion and out-of-memory are not recoverable and not decided")
}

func runC19(c *Ctx) {
	ruleCloseOnEveryExit(c, "R19.a")
	ruleGoroutineOwnsItsIteration(c, "R19.a")
	ruleAdmissionBalanced(c, "R19.i")
	ruleNoWaitInExecutors(c, "R19.j")
	ruleRegistryBracket(c, "R19.b")
	ruleConnKeyUnique(c, "R19.b")
	ruleAcceptLoops(c, "R19.c")
	ruleLoopExitIsFunctionExit(c, "R19.d")
	ruleStopSweep(c, "R19.e")
	ruleNoLockAcrossBlocking(c, buildSyncModel(c), "R19.f")
	ruleAcceptLoopEndsWithListener(c, "R19.g")
	ruleAcceptLoopWaits(c, "R19.k")
	ruleNoAliasedSnapshots(c, "R19.l")
	// a loop that can spin keeps its goroutine, socket and registry entry for ever
	ruleLoopProgress(c, "R19.h")
	// a goroutine that writes to another connection's socket can be parked there for as long as that peer does not read: its own socket, registry entry and goroutine are then never released (R8C19-m1)
	ruleSingleWriteSiteAs(c, "R19.m")
	c.assume("a peer that stops reading keeps the goroutine blocked in Write until it goes away (no write deadline exists); not a leak once the peer is gone")
}

// reachesCallNamed: fn (transitively, static calls inside the framework) contains a call named n.
func (p *Program) reachesCallNamed(fn *ssa.Function, names ...string) bool {
	seen := map[*ssa.Function]bool{}
	var st = []*ssa.Function{fn}
	for len(st) > 0 {
		f := st[len(st)-1]
		st = st[:len(st)-1]
		if f == nil || seen[f] || f.Blocks == nil {
			continue
		}
		seen[f] = true
		hit := false
		allInstrs(f, func(ins ssa.Instruction) {
			cc := callCommon(ins)
			if cc == nil {
				return
			}
			if nameIn(calleeName(cc), names...) {
				hit = true
			}
			if cal := staticCallee(cc); cal != nil && inFramework(cal) {
				st = append(st, cal)
			}
		})
		if hit {
			return true
		}
	}
	return false
}

// ruleStopSweep: R15.c / R19.e.
func ruleStopSweep(c *Ctx, rid string) {
	c.rule(rid, "Stop: on every path the listeners are closed before the registered connections are swept; the sweep iterates a snapshot of the registry and closes every element synchronously (or joins the goroutines it starts: WaitGroup.Add before each go, Wait after the loop), and a failing Close does not end the sweep; the registry map is assigned only by its constructor, inserted into only by AddConn and deleted from only by RemoveConn")
	stop := c.P.Method(pkgRedis, "Server", "Stop")
	nConnClose := "(*" + pkgRedis + ".Conn).Close"
	if c.anchor(rid, stop, "redis.(*Server).Stop") {
		type st struct{ L, S int8 }
		a := &Auto[st]{Fn: stop, Init: st{},
			Step: func(s st, ins ssa.Instruction, fail func(string)) []st {
				switch x := ins.(type) {
				case *ssa.Call:
					cal := staticCallee(x.Common())
					if cal == nil || !inFramework(cal) {
						break
					}
					if c.P.reachesCallNamed(cal, "(net.Listener).Close") {
						s.L = 1
					}
					if c.P.reachesCallNamed(cal, nConnClose) {
						if s.L == 0 {
							fail("the registered connections are swept before the listeners are closed: a client accepted in between is never closed")
						}
						s.S = 1
					}
				case *ssa.Return:
					if len(x.Results) == 1 && isNilConst(retOperand(x, 0)) && (s.L == 0 || s.S == 0) {
						fail("Stop returns success without having closed the listeners and swept the connections")
					}
				}
				return []st{s}
			}}
		res := a.Run()
		if len(res.Errs) == 0 {
			c.ok(rid, "Server.Stop/order", c.P.pos(stop.Pos()), "listeners closed, then connections swept, on every success path")
		}
		for i, e := range res.Errs {
			c.bad(rid, fmt.Sprintf("Server.Stop/order#%d", i), c.P.instrPos(e.Ins), e.Msg, e.witness(c.P)...)
		}
	}
	// the sweep function: a loop whose body closes a *Conn taken from a Conns() snapshot
	nsweep := 0
	for _, fn := range c.P.RepoFuncs(pkgRedis) {
		for k, l := range naturalLoops(fn) {
			var closeCall ssa.Instruction
			hasGo := false
			for b := range l.Blocks {
				for _, ins := range b.Instrs {
					if cc := callCommon(ins); cc != nil && calleeName(cc) == nConnClose {
						closeCall = ins
					}
					// a helper that closes the connection it is given on every path
					if call, ok := ins.(*ssa.Call); ok && closeCall == nil {
						if h := staticCallee(call.Common()); h != nil && inFramework(h) && h.Blocks != nil {
							if mustPassCall(h, func(cc *ssa.CallCommon) bool {
								if calleeName(cc) != nConnClose || len(cc.Args) == 0 {
									return false
								}
								_, isPar := strip(cc.Args[0]).(*ssa.Parameter)
								return isPar
							}) {
								closeCall = ins
							}
						}
					}
					if g, ok := ins.(*ssa.Go); ok {
						if t := staticCallee(g.Common()); t != nil && c.P.reachesCallNamed(t, nConnClose) {
							hasGo = true
							closeCall = ins
						}
					}
				}
			}
			if closeCall == nil || !c.P.reachesFromStop(fn) {
				continue
			}
			nsweep++
			key := fmt.Sprintf("%s/sweep#%d", fnName(fn), k)
			problems := []string{}
			// every body path header->header passes the close
			removed := map[*ssa.BasicBlock]bool{closeCall.Block(): true}
			if cyc := l.cycleAvoiding(removed); cyc != nil {
				problems = append(problems, "an iteration of the sweep can skip closing its connection")
			}
			// exits: only the header's counter test
			for _, b := range l.sortedBlocks() {
				for _, s := range b.Succs {
					if !l.Blocks[s] && b != l.Header {
						problems = append(problems, fmt.Sprintf("the sweep can be left early at %s (a failing Close must not stop the sweep)", c.P.instrPos(b.Instrs[len(b.Instrs)-1])))
					}
				}
			}
			if hasGo {
				// Add before go (in loop), Wait after loop, not Add inside the goroutine
				addBefore, waitAfter := false, false
				allInstrs(fn, func(ins ssa.Instruction) {
					if call, ok := ins.(*ssa.Call); ok {
						switch calleeName(call.Common()) {
						case "(*sync.WaitGroup).Add":
							if l.Blocks[call.Block()] && (call.Block() == closeCall.Block() || call.Block().Dominates(closeCall.Block())) {
								addBefore = true
							}
						case "(*sync.WaitGroup).Wait":
							if !l.Blocks[call.Block()] && l.Header.Dominates(call.Block()) {
								waitAfter = true
							}
						}
					}
				})
				if !addBefore || !waitAfter {
					problems = append(problems, "connections are closed in goroutines that Stop does not provably join (WaitGroup.Add must precede each go statement and Wait must follow the loop): Stop can return with connections still open")
				}
			}
			// what is swept is the whole snapshot, not a part of it
			for _, b := range l.sortedBlocks() {
				for _, ins := range b.Instrs {
					ia, ok := ins.(*ssa.IndexAddr)
					if !ok {
						continue
					}
					if sl, isSl := ia.X.Type().Underlying().(*types.Slice); !isSl || !strings.HasSuffix(sl.Elem().String(), "redis.Conn") {
						continue
					}
					if why := c.P.partOfSnapshot(ia.X, 0, map[ssa.Value]bool{}); why != "" {
						problems = append(problems, why)
					}
					if why := c.P.indexRangeCovers(l, ia); why != "" {
						problems = append(problems, why)
					}
				}
			}
			if len(problems) == 0 {
				c.ok(rid, key, c.P.instrPos(closeCall), "every snapshot element is closed; only the end of the snapshot ends the sweep")
			} else {
				c.bad(rid, key, c.P.instrPos(closeCall), strings.Join(problems, "; "))
			}
		}
	}
	c.count("sweep-loops", nsweep)
	c.floor("sweep-loops", 1)
	// Round 8 (R8C15-m1): every function between Stop and the sweep reaches the sweep on each of its
	// success paths, unless what sends it elsewhere is a test of the registry itself (an empty
	// snapshot). A counter, a gauge, a flag or the configuration may say "nothing to close" while
	// connections are registered.
	{
		sweepFns := map[*ssa.Function][]*Loop{}
		for _, fn := range c.P.RepoFuncs(pkgRedis) {
			if !c.P.reachesFromStop(fn) {
				continue
			}
			for _, l := range naturalLoops(fn) {
				for b := range l.Blocks {
					for _, ins := range b.Instrs {
						if cc := callCommon(ins); cc != nil {
							if calleeName(cc) == nConnClose {
								sweepFns[fn] = append(sweepFns[fn], l)
							} else if cal := staticCallee(cc); cal != nil && inFramework(cal) && cal != fn && c.P.reachesCallNamed(cal, nConnClose) && len(naturalLoops(cal)) == 0 {
								sweepFns[fn] = append(sweepFns[fn], l)
							}
						}
					}
				}
			}
		}
		reachesSweep := func(f *ssa.Function) bool {
			seen := map[*ssa.Function]bool{}
			st := []*ssa.Function{f}
			for len(st) > 0 {
				x := st[len(st)-1]
				st = st[:len(st)-1]
				if x == nil || seen[x] || x.Blocks == nil {
					continue
				}
				seen[x] = true
				if _, ok := sweepFns[x]; ok {
					return true
				}
				for _, cal := range calleesIn(x) {
					if inFramework(cal) {
						st = append(st, cal)
					}
				}
			}
			return false
		}
		sm := &syncModel{p: c.P}
		nchain := 0
		for _, fn := range c.P.RepoFuncs(pkgRedis) {
			if !inFramework(fn) || fn == stop || !c.P.reachesFromStop(fn) || !reachesSweep(fn) {
				continue
			}
			nchain++
			loops := sweepFns[fn]
			inSweepHeader := func(b *ssa.BasicBlock) bool {
				for _, l := range loops {
					if l.Header == b {
						return true
					}
				}
				return false
			}
			var sweepBlocks []*ssa.BasicBlock
			for _, l := range loops {
				sweepBlocks = append(sweepBlocks, l.Header)
			}
			allInstrs(fn, func(ins ssa.Instruction) {
				if call, ok := ins.(*ssa.Call); ok {
					if cal := staticCallee(call.Common()); cal != nil && inFramework(cal) && cal != fn && reachesSweep(cal) {
						sweepBlocks = append(sweepBlocks, call.Block())
					}
				}
			})
			a := &Auto[int8]{Fn: fn, Init: 0,
				Step: func(s int8, ins ssa.Instruction, fail func(string)) []int8 {
					if inSweepHeader(ins.Block()) {
						s = 1
					}
					switch x := ins.(type) {
					case *ssa.Call:
						if cal := staticCallee(x.Common()); cal != nil && inFramework(cal) && cal != fn && reachesSweep(cal) {
							s = 1
						}
					case *ssa.Return:
						if s == 0 && (len(x.Results) == 0 || isNilConst(retOperand(x, len(x.Results)-1))) {
							// which tests send this path past the sweep?
							atSweep := map[string]bool{}
							for _, sb := range sweepBlocks {
								for _, at := range factsAt(sb) {
									atSweep[fmt.Sprintf("%s|%v|%v|%v", at.Kind, at.X, at.Y, at.Pos)] = true
								}
							}
							for _, at := range factsAt(x.Block()) {
								if atSweep[fmt.Sprintf("%s|%v|%v|%v", at.Kind, at.X, at.Y, at.Pos)] {
									continue
								}
								aboutRegistry := false
								for _, v := range []ssa.Value{at.X, at.Y} {
									if v == nil {
										continue
									}
									v = strip(v)
									if call, isC := v.(*ssa.Call); isC {
										if bi, isB := call.Common().Value.(*ssa.Builtin); isB && bi.Name() == "len" && len(call.Common().Args) == 1 {
											v = strip(call.Common().Args[0])
										}
									}
									if sm.fromRegistry(v, 0, map[ssa.Value]bool{}) {
										aboutRegistry = true
									}
									if owner, f, _, ok := fieldOf(v); ok && owner == "redis.ConnManager" && f == "m" {
										aboutRegistry = true
									}
									if u, isU := v.(*ssa.UnOp); isU {
										if owner, f, _, ok := fieldOf(u.X); ok && owner == "redis.ConnManager" && f == "m" {
											aboutRegistry = true
										}
									}
								}
								if isErrorType(at.X.Type()) {
									continue
								}
								if !aboutRegistry {
									fail("a success return that skips the sweep of the registered connections, decided by something other than the registry itself (a counter, flag or configuration can say \"nothing to close\" while connections are registered): Stop returns nil with clients still served")
									break
								}
							}
						}
					}
					return []int8{s}
				}}
			res := a.Run()
			if len(res.Errs) == 0 {
				c.ok(rid, fnName(fn)+"/reaches-sweep", c.P.pos(fn.Pos()), "every success path reaches the sweep, or an empty registry was observed")
			}
			for i, e := range res.Errs {
				c.bad(rid, fmt.Sprintf("%s/reaches-sweep#%d", fnName(fn), i), c.P.instrPos(e.Ins), e.Msg, e.witness(c.P)...)
			}
		}
		c.count("stop-to-sweep-chain-functions", nchain)
		c.floor("stop-to-sweep-chain-functions", 1)
	}
	// who may write the registry
	nw := 0
	for _, fn := range c.P.RepoFuncs(pkgRedis) {
		allInstrs(fn, func(ins ssa.Instruction) {
			switch x := ins.(type) {
			case *ssa.Store:
				if owner, f, _, ok := fieldOf(x.Addr); ok && owner == "redis.ConnManager" && f == "m" {
					nw++
					if _, isAlloc := strip(x.Addr.(*ssa.FieldAddr).X).(*ssa.Alloc); isAlloc && fn.Signature.Recv() == nil {
						c.ok(rid, "registry-writer/"+fnName(fn), c.P.instrPos(x), "registry map assigned by its constructor")
					} else {
						c.bad(rid, "registry-writer/"+fnName(fn), c.P.instrPos(x), "the registry map is replaced outside its constructor: connections being served drop out of the registry and are never closed by Stop")
					}
				}
			case *ssa.MapUpdate:
				if owner, f, _, ok := fieldOf(x.Map); ok && owner == "redis.ConnManager" && f == "m" {
					nw++
					// an inserter is a method of the registry that files the connection it is
					// handed under that connection's own key (AddConn, and variants of it such as
					// an insert with an admission limit)
					isMgrMethod := fn.Signature.Recv() != nil && typeName(fn.Signature.Recv().Type()) == "redis.ConnManager"
					par, valIsParam := strip(x.Value).(*ssa.Parameter)
					ownKey := false
					if valIsParam {
						ownKey = derivedFromParam(x.Key, par, 0)
					}
					c.check(isMgrMethod && valIsParam && ownKey, rid, "registry-writer/"+fnName(fn), c.P.instrPos(x), "insert of the connection handed in, under its own key, by a method of the registry", "the registry is inserted into outside a registry method that files the connection it was handed under that connection's own key")
				}
			case *ssa.Call:
				if b, ok := x.Common().Value.(*ssa.Builtin); ok && (b.Name() == "delete" || b.Name() == "clear") {
					if owner, f, _, ok := fieldOf(x.Common().Args[0]); ok && owner == "redis.ConnManager" && f == "m" {
						nw++
						c.check(strings.HasSuffix(fnName(fn), "ConnManager).RemoveConn") && b.Name() == "delete", rid, "registry-writer/"+fnName(fn), c.P.instrPos(x), "delete by RemoveConn", "the registry is deleted from outside RemoveConn")
					}
				}
			}
		})
	}
	c.count("registry-writers", nw)
	c.floor("registry-writers", 3)
}

// reachesFromStop: fn is reachable from Server.Stop by static calls in the framework.
func (p *Program) reachesFromStop(fn *ssa.Function) bool {
	stop := p.Method(pkgRedis, "Server", "Stop")
	if stop == nil {
		return false
	}
	seen := map[*ssa.Function]bool{}
	st := []*ssa.Function{stop}
	for len(st) > 0 {
		f := st[len(st)-1]
		st = st[:len(st)-1]
		if f == nil || seen[f] || f.Blocks == nil {
			continue
		}
		seen[f] = true
		if f == fn {
			return true
		}
		for _, cal := range calleesIn(f) {
			if inFramework(cal) {
				st = append(st, cal)
			}
		}
	}
	return false
}

// wrapsSocket: a repository function taking a net.Conn and returning a value that embeds it
// (*redis.Conn): the connection constructor, whatever its name.
func wrapsSocket(call *ssa.Call) bool {
	callee := staticCallee(call.Common())
	if callee == nil || !inFramework(callee) {
		return false
	}
	if !strings.HasSuffix(call.Type().String(), "redis.Conn") {
		return false
	}
	for _, p := range callee.Params {
		if p.Type().String() == "net.Conn" {
			return true
		}
	}
	return false
}

// ruleNilNilDeref: a function that can return (nil, nil) — Array.Next at the end of the request
// array, Parser.Next at end of stream — hands its caller a nil pointer with no error. In the
// framework every dereference of such a result (field access, method call on it) must be under
// a non-nil test of that very value (directly, or of the loop phi that carries it). Otherwise a
// request such as an empty command array panics inside the request loop: the connection is
// dropped without a reply and the root span of the request stays open (C07, C20).
func ruleNilNilDeref(c *Ctx, rid string) {
	c.rule(rid, "every dereference (field access, method call) in redis/... of the pointer result of a function that can return (nil, nil) is dominated by a non-nil test of that value or of the phi carrying it")
	var all []*ssa.Function
	all = append(all, c.P.RepoFuncs(pkgProto)...)
	all = append(all, c.P.RepoFuncs(pkgRedis)...)
	prod := nilNilProducers(all)
	nsites := 0
	for _, f := range c.P.RepoFuncs(pkgRedis) {
		if !inFramework(f) {
			continue
		}
		ord := 0
		allInstrs(f, func(ins ssa.Instruction) {
			call, ok := ins.(*ssa.Call)
			if !ok || call.Referrers() == nil {
				return
			}
			callee := staticCallee(call.Common())
			if callee == nil || prod[callee] == nil {
				return
			}
			ord++
			nsites++
			key := fmt.Sprintf("%s/nilnil#%d:%s", c.P.key(f), ord, fnName(callee))
			bad := ""
			for _, r := range *call.Referrers() {
				ex, ok := r.(*ssa.Extract)
				if !ok || ex.Index != 0 {
					continue
				}
				if b := unguardedDeref(c, ex, map[ssa.Value]bool{}); b != "" {
					bad = b
				}
			}
			if bad == "" {
				c.ok(rid, key, c.P.instrPos(call), "dereferenced only under a non-nil test")
			} else {
				c.bad(rid, key, c.P.instrPos(call), bad)
			}
		})
	}
	c.count("nil-nil-result-sites", nsites)
	c.floor("nil-nil-result-sites", 8)
}

func unguardedDeref(c *Ctx, v ssa.Value, seen map[ssa.Value]bool) string {
	if seen[v] || v.Referrers() == nil {
		return ""
	}
	seen[v] = true
	nonNilAt := func(b *ssa.BasicBlock) bool {
		for _, at := range factsAt(b) {
			if at.Kind == "nil" && !at.Pos && at.X == v {
				return true
			}
		}
		return false
	}
	for _, u := range *v.Referrers() {
		deref := false
		switch x := u.(type) {
		case *ssa.Phi:
			if b := unguardedDeref(c, x, seen); b != "" {
				return b
			}
		case *ssa.FieldAddr:
			deref = x.X == v
		case *ssa.UnOp:
			deref = x.Op == token.MUL && x.X == v
		case ssa.CallInstruction:
			cc := x.Common()
			if cc.IsInvoke() {
				deref = cc.Value == v
			} else if cal := staticCallee(cc); cal != nil && cal.Signature.Recv() != nil && len(cc.Args) > 0 && cc.Args[0] == v {
				deref = true
			}
		}
		if deref && !nonNilAt(u.Block()) {
			return fmt.Sprintf("the result may be nil with a nil error (end of the array / of the stream) and is dereferenced at %s (%s) without a non-nil test: the request panics inside the connection loop", c.P.instrPos(u), u.String())
		}
	}
	return ""
}

// ruleClientSizedAllocations: R07.h — a slice or map sized by an integer that came from the
// client (a count, an index, a limit handed to a handler) must be bounded by a constant or by
// the length of existing data first: `make([]T, 0, count)` with count = 2^43 is not a panic a
// recover can stop, it is a fatal out-of-memory error that takes the process down.
func ruleClientSizedAllocations(c *Ctx, rid string) {
	c.rule(rid, "in the framework's executors/helpers and in the example store, every make([]T, n[, m]) / make(map, n) whose size derives from an integer parameter (not from the length of existing data) is dominated by a constant upper bound on that size")
	n, bad := 0, 0
	fromParam := func(v ssa.Value) bool {
		seen := map[ssa.Value]bool{}
		var walk func(v ssa.Value, d int) bool
		walk = func(v ssa.Value, d int) bool {
			if v == nil || d > 8 || seen[v] {
				return false
			}
			seen[v] = true
			switch x := v.(type) {
			case *ssa.Parameter:
				return isIntType(x.Type())
			case *ssa.BinOp:
				return walk(x.X, d+1) || walk(x.Y, d+1)
			case *ssa.Convert:
				return walk(x.X, d+1)
			case *ssa.ChangeType:
				return walk(x.X, d+1)
			case *ssa.Phi:
				for _, e := range x.Edges {
					if walk(e, d+1) {
						return true
					}
				}
			case *ssa.UnOp:
				if x.Op == token.SUB {
					return walk(x.X, d+1)
				}
			}
			return false
		}
		return walk(v, 0)
	}
	var fns []*ssa.Function
	fns = append(fns, c.P.RepoFuncs(pkgExSrv)...)
	for _, f := range c.P.RepoFuncs(pkgRedis) {
		if inFramework(f) && fnPkgPath(f) == pkgRedis {
			fns = append(fns, f)
		}
	}
	for _, f := range fns {
		if !inProd(f) || f.Blocks == nil {
			continue
		}
		ord := 0
		allInstrs(f, func(ins ssa.Instruction) {
			var sizes []ssa.Value
			switch x := ins.(type) {
			case *ssa.MakeSlice:
				sizes = []ssa.Value{x.Len, x.Cap}
			case *ssa.MakeMap:
				if x.Reserve != nil {
					sizes = []ssa.Value{x.Reserve}
				}
			default:
				return
			}
			for _, sz := range sizes {
				if sz == nil || !fromParam(sz) {
					continue
				}
				ord++
				n++
				key := fmt.Sprintf("%s/sized-by-parameter#%d", c.P.key(f), ord)
				_, hi, _, hasHi := constBounds(sz, factsAt(ins.Block()), 0)
				if hasHi && hi <= 1<<26 {
					c.ok(rid, key, c.P.instrPos(ins), fmt.Sprintf("size <= %d", hi))
				} else if mk, isMk := ins.(*ssa.MakeSlice); isMk && func() bool {
					okD, _ := boundedByExistingData(newProver(c.P.GOARCH), mk, factsAt(ins.Block()))
					return okD
				}() {
					c.ok(rid, key, c.P.instrPos(ins), "the size is non-negative and at most the length of data that already exists (+1)")
				} else {
					bad++
					c.bad(rid, key, c.P.instrPos(ins), "an allocation is sized by an integer parameter with no constant upper bound dominating it: a client-supplied count of 2^43 ends the process with an out-of-memory error no recover can stop")
				}
			}
		})
	}
	c.count("parameter-sized-allocations", n)
	if bad == 0 {
		c.ok(rid, "no-unbounded-client-sized-allocation", "", fmt.Sprintf("%d allocations sized by parameters, all bounded", n))
	}
}

// ruleConnKeyUnique: the registry is a map keyed by the connection's id. Two live connections
// with the same id share one slot: the second replaces the first, either one ending
// unregisters the survivor, and Stop leaves the orphan open. The id must therefore be unique
// by construction: a fresh random UUID, not something derived from the peer's address.
func ruleConnKeyUnique(c *Ctx, rid string) {
	c.rule(rid, "the id under which a connection is registered is assigned once, in the Conn constructor, from uuid.New()/uuid.NewRandom() (unique by construction), and AddConn/RemoveConn key the registry by that id")
	ctor := c.P.connConstructor()
	if !c.anchor(rid, ctor, "the *redis.Conn constructor") {
		return
	}
	var src ssa.Value
	allInstrs(ctor, func(ins ssa.Instruction) {
		st, ok := ins.(*ssa.Store)
		if !ok {
			return
		}
		if owner, f, _, ok := fieldOf(st.Addr); ok && owner == "redis.Conn" && strings.Contains(strings.ToLower(f), "uuid") {
			src = st.Val
		}
	})
	okU := false
	why := "the connection id is not assigned in the constructor"
	if src != nil {
		why = "the connection id is " + describeValue(strip(src)) + ", not a fresh random UUID: two live connections can get the same id and share one registry slot"
		if call, ok := strip(src).(*ssa.Call); ok {
			n := calleeName(call.Common())
			if n == "github.com/google/uuid.New" || n == "github.com/google/uuid.NewRandom" || n == "github.com/google/uuid.Must" {
				okU = true
			}
		}
		if ex, ok := strip(src).(*ssa.Extract); ok {
			if call, ok := ex.Tuple.(*ssa.Call); ok && calleeName(call.Common()) == "github.com/google/uuid.NewRandom" {
				okU = true
			}
		}
	}
	c.check(okU, rid, "Conn/id", c.P.pos(ctor.Pos()), "id = fresh random UUID", why)
	// no other store to the id
	n := 0
	for _, fn := range c.P.RepoFuncs(pkgRedis) {
		if fn == ctor {
			continue
		}
		allInstrs(fn, func(ins ssa.Instruction) {
			if st, ok := ins.(*ssa.Store); ok {
				if owner, f, _, ok := fieldOf(st.Addr); ok && owner == "redis.Conn" && strings.Contains(strings.ToLower(f), "uuid") {
					n++
					c.bad(rid, fmt.Sprintf("%s/id-store", fnName(fn)), c.P.instrPos(st), "the connection id is changed after construction: the registry entry can no longer be found under it")
				}
			}
		})
	}
}

// ruleGoroutineOwnsItsIteration: a goroutine started inside a loop must receive what the
// iteration produced by value. A closure that captures a variable declared outside the loop
// and assigned inside it shares one cell with every other goroutine the loop starts: the next
// Accept overwrites the socket before (or while) the previous goroutine reads it, so a request
// is served — and its connection state kept — on somebody else's connection.
func ruleGoroutineOwnsItsIteration(c *Ctx, rid string) {
	c.rule(rid, "every go statement inside a loop of the production packages hands the goroutine per-iteration values: no closure binding (and no argument) is the address of a variable allocated outside the loop and stored to inside it")
	n, bad := 0, 0
	for _, fn := range c.P.RepoFuncs(modPath) {
		if !inProd(fn) || fn.Blocks == nil {
			continue
		}
		loops := naturalLoops(fn)
		if len(loops) == 0 {
			continue
		}
		allInstrs(fn, func(ins ssa.Instruction) {
			g, ok := ins.(*ssa.Go)
			if !ok {
				return
			}
			for _, l := range loops {
				if !l.Blocks[g.Block()] {
					continue
				}
				n++
				c.analysed(fn)
				var cells []ssa.Value
				if mc, ok := g.Common().Value.(*ssa.MakeClosure); ok {
					cells = append(cells, mc.Bindings...)
				}
				cells = append(cells, g.Common().Args...)
				for _, cell := range cells {
					al, ok := cell.(*ssa.Alloc)
					if !ok || l.Blocks[al.Block()] {
						continue
					}
					storedInLoop := false
					for _, r := range *al.Referrers() {
						if st, ok := r.(*ssa.Store); ok && st.Addr == ssa.Value(al) && l.Blocks[st.Block()] {
							storedInLoop = true
						}
					}
					if storedInLoop {
						bad++
						c.bad(rid, fmt.Sprintf("%s/go-shares-loop-variable:%s", fnName(fn), al.Comment), c.P.instrPos(g), fmt.Sprintf("the goroutine captures variable %q by reference; it is declared outside the loop and reassigned by every iteration, so concurrent goroutines read each other's value", al.Comment))
					}
				}
			}
		})
	}
	c.count("go-in-loop-sites", n)
	if bad == 0 {
		c.ok(rid, "go-sites-per-iteration", "", fmt.Sprintf("%d go statements inside loops; all receive per-iteration values", n))
	}
}

// derivedFromParam: v is computed from par only (method calls on it, field loads, conversions).
func derivedFromParam(v ssa.Value, par *ssa.Parameter, d int) bool {
	if d > 5 {
		return false
	}
	switch x := strip(v).(type) {
	case *ssa.Parameter:
		return x == par
	case *ssa.Call:
		args := callArgs(x.Common())
		if x.Common().IsInvoke() {
			args = append([]ssa.Value{x.Common().Value}, args...)
		}
		if len(args) == 0 {
			return false
		}
		for _, a := range args {
			if !derivedFromParam(a, par, d+1) {
				return false
			}
		}
		return true
	case *ssa.UnOp:
		return derivedFromParam(x.X, par, d+1)
	case *ssa.FieldAddr:
		return derivedFromParam(x.X, par, d+1)
	case *ssa.Field:
		return derivedFromParam(x.X, par, d+1)
	case *ssa.Convert:
		return derivedFromParam(x.X, par, d+1)
	}
	return false
}

// ruleStdlibPreconditions: some standard-library functions panic when an argument is not
// positive (a ticker interval, the bound of rand.Intn) or negative (a repeat count). Where such
// an argument is computed from configuration or from a client's number, the panic may be raised
// in a goroutine that has no recover barrier (a background sweep of the example store): the
// whole process dies, for every client.
func ruleStdlibPreconditions(c *Ctx, rid string) {
	c.rule(rid, "every call in production code of time.NewTicker / (*time.Ticker).Reset / time.Tick / math/rand Intn-style functions has its argument proven >= 1, and of strings.Repeat / bytes.Repeat its count proven >= 0, by constant bounds from the dominating tests (A8)")
	type pre struct {
		arg int
		min int64
	}
	table := map[string]pre{
		"time.NewTicker": {0, 1}, "(*time.Ticker).Reset": {1, 1}, "time.Tick": {0, 1},
		"math/rand.Intn": {0, 1}, "math/rand.Int31n": {0, 1}, "math/rand.Int63n": {0, 1},
		"(*math/rand.Rand).Intn": {1, 1}, "(*math/rand.Rand).Int31n": {1, 1}, "(*math/rand.Rand).Int63n": {1, 1},
		"math/rand/v2.IntN": {0, 1}, "math/rand/v2.Int64N": {0, 1}, "math/rand/v2.Int32N": {0, 1},
		"strings.Repeat": {1, 0}, "bytes.Repeat": {1, 0},
	}
	n, bad := 0, 0
	for _, fn := range c.P.RepoFuncs(modPath) {
		if !inProd(fn) {
			continue
		}
		allInstrs(fn, func(ins ssa.Instruction) {
			cc := callCommon(ins)
			if cc == nil {
				return
			}
			pr, ok := table[calleeName(cc)]
			if !ok || pr.arg >= len(cc.Args) {
				return
			}
			n++
			c.analysed(fn)
			lo, _, hasLo, _ := constBounds(cc.Args[pr.arg], factsAt(ins.Block()), 0)
			key := fmt.Sprintf("%s/%s#%d", fnName(fn), calleeName(cc), n)
			if hasLo && lo >= pr.min {
				c.ok(rid, key, c.P.instrPos(ins), fmt.Sprintf("argument >= %d", lo))
			} else {
				bad++
				c.bad(rid, key, c.P.instrPos(ins), fmt.Sprintf("%s panics unless its argument is >= %d, and no dominating test establishes that: a value a client or the configuration can choose reaches it", calleeName(cc), pr.min))
			}
		})
	}
	c.count("stdlib-precondition-sites", n)
	if n == 0 {
		c.ok(rid, "no-precondition-sites", "", "no call of a standard-library function with a positivity precondition in production code")
	}
}

// partOfSnapshot: "" when the slice is a whole snapshot (the result of a call, or a parameter
// that every static caller hands a whole snapshot, or parts cut by the stepping idiom
// lo := 0; lo < len(s); lo += n with hi = min(lo+n, len(s))); otherwise what was found.
func (p *Program) partOfSnapshot(v ssa.Value, d int, seen map[ssa.Value]bool) string {
	v = strip(v)
	if d > 6 || seen[v] {
		return ""
	}
	seen[v] = true
	switch x := v.(type) {
	case *ssa.Slice:
		if x.Low == nil && x.High == nil {
			return p.partOfSnapshot(x.X, d+1, seen)
		}
		if steppingCut(x) {
			return p.partOfSnapshot(x.X, d+1, seen)
		}
		return fmt.Sprintf("the sweep runs over a part of the snapshot cut at %s; that the parts cover the snapshot is not established (only lo := 0; lo < len(s); lo += n with hi = min(lo+n, len(s)) is read)", p.instrPos(x))
	case *ssa.Phi:
		for _, e := range x.Edges {
			if why := p.partOfSnapshot(e, d+1, seen); why != "" {
				return why
			}
		}
	case *ssa.Parameter:
		fn := x.Parent()
		idx := -1
		for i, q := range fn.Params {
			if q == x {
				idx = i
			}
		}
		for _, ci := range p.staticCallSites(fn) {
			if idx >= 0 && idx < len(ci.Common().Args) {
				if why := p.partOfSnapshot(ci.Common().Args[idx], d+1, seen); why != "" {
					return why
				}
			}
		}
	case *ssa.FreeVar:
		fn := x.Parent()
		for i, fv := range fn.FreeVars {
			if fv != x || fn.Parent() == nil {
				continue
			}
			var why string
			allInstrs(fn.Parent(), func(ins ssa.Instruction) {
				if mc, ok := ins.(*ssa.MakeClosure); ok && mc.Fn == ssa.Value(fn) && i < len(mc.Bindings) && why == "" {
					why = p.partOfSnapshot(mc.Bindings[i], d+1, seen)
				}
			})
			return why
		}
	case *ssa.UnOp:
		if a, ok := x.X.(*ssa.Alloc); ok && x.Op == token.MUL {
			for _, st := range allocStores(a) {
				if why := p.partOfSnapshot(st.Val, d+1, seen); why != "" {
					return why
				}
			}
		}
		if fv, ok := x.X.(*ssa.FreeVar); ok && x.Op == token.MUL {
			return p.partOfSnapshot(fv, d+1, seen)
		}
	}
	return ""
}

// steppingCut: s[lo:hi] with lo a loop counter from 0 stepped by n and hi = min(lo+n, len(s)).
func steppingCut(sl *ssa.Slice) bool {
	if sl.Low == nil || sl.High == nil {
		return false
	}
	return steppingPair(sl.Low, sl.High, sl.X)
}

// steppingPair: lo is a loop counter from 0 stepped by n and hi = min(lo+n, len(x)) (x == nil: of any slice).
func steppingPair(low, high, x ssa.Value) bool {
	lo, ok := strip(low).(*ssa.Phi)
	if !ok {
		return false
	}
	var step ssa.Value
	zero := false
	for _, e := range lo.Edges {
		if k, isK := constInt(e); isK && k == 0 {
			zero = true
			continue
		}
		if bo, isBO := strip(e).(*ssa.BinOp); isBO && bo.Op == token.ADD && strip(bo.X) == ssa.Value(lo) {
			step = strip(bo.Y)
		}
	}
	if !zero || step == nil {
		return false
	}
	call, ok := strip(high).(*ssa.Call)
	if !ok {
		return false
	}
	b, isB := call.Call.Value.(*ssa.Builtin)
	if !isB || b.Name() != "min" || len(call.Call.Args) != 2 {
		return false
	}
	sum, ln := false, false
	for _, a := range call.Call.Args {
		a = strip(a)
		if bo, isBO := a.(*ssa.BinOp); isBO && bo.Op == token.ADD && ((strip(bo.X) == ssa.Value(lo) && sameValue(strip(bo.Y), step)) || (strip(bo.Y) == ssa.Value(lo) && sameValue(strip(bo.X), step))) {
			sum = true
		}
		if lc, isC := a.(*ssa.Call); isC {
			if lb, isLB := lc.Call.Value.(*ssa.Builtin); isLB && lb.Name() == "len" && len(lc.Call.Args) == 1 && (x == nil || strip(lc.Call.Args[0]) == strip(x) || canonLoad(strip(lc.Call.Args[0])) == canonLoad(strip(x))) {
				ln = true
			}
		}
	}
	return sum && ln
}

// sameValue: the same SSA value, or two integer constants of equal value (go/ssa does not share them).
func sameValue(a, b ssa.Value) bool {
	if a == b {
		return true
	}
	ka, okA := constInt(a)
	kb, okB := constInt(b)
	return okA && okB && ka == kb
}

// indexRangeCovers: the sweep loop's index runs over the whole slice: from 0 (or the range
// form's -1) up to len(slice); or its bounds are parameters that every static caller fills with
// the stepping idiom (lo from 0 by n, hi = min(lo+n, len)). "" when it does.
func (p *Program) indexRangeCovers(l *Loop, ia *ssa.IndexAddr) string {
	lin := linOf(ia.Index)
	idx, ok := lin.base.(*ssa.Phi)
	if !ok || !l.Blocks[idx.Block()] {
		return ""
	}
	var init ssa.Value
	for i, e := range idx.Edges {
		if !l.Blocks[idx.Block().Preds[i]] {
			init = strip(e)
		}
	}
	var bound ssa.Value
	for _, b := range l.sortedBlocks() {
		iff, ok := b.Instrs[len(b.Instrs)-1].(*ssa.If)
		if !ok {
			continue
		}
		leaves := false
		for _, s := range b.Succs {
			if !l.Blocks[s] {
				leaves = true
			}
		}
		if !leaves {
			continue
		}
		for _, at := range atomsOf(iff.Cond, true) {
			if at.Kind == "lt" && linOf(at.X).base == ssa.Value(idx) {
				bound = strip(at.Y)
			}
		}
	}
	if init == nil || bound == nil {
		return ""
	}
	k, isK := constInt(init)
	wholeLow := isK && (k == 0 || k == -1)
	bl := linOf(bound)
	wholeHigh := bl.isLen && bl.off == 0
	if wholeLow && wholeHigh {
		return ""
	}
	// bounds handed in: parameters of a helper or closure
	lp, okL := init.(*ssa.Parameter)
	hp, okH := bound.(*ssa.Parameter)
	if okL && okH && lp.Parent() == hp.Parent() {
		fn := lp.Parent()
		li, hi := -1, -1
		for i, q := range fn.Params {
			if q == lp {
				li = i
			}
			if q == hp {
				hi = i
			}
		}
		sites := p.staticCallSites(fn)
		if len(sites) == 0 && fn.Parent() != nil {
			// an anonymous function called or started where it is written
			allInstrs(fn.Parent(), func(ins ssa.Instruction) {
				if ci, ok := ins.(ssa.CallInstruction); ok {
					if mc, ok := ci.Common().Value.(*ssa.MakeClosure); ok && mc.Fn == ssa.Value(fn) {
						sites = append(sites, ci)
					}
				}
			})
		}
		if len(sites) == 0 {
			return fmt.Sprintf("the sweep in %s runs over an index range handed in by callers that cannot be enumerated", fnName(fn))
		}
		for _, ci := range sites {
			args := ci.Common().Args
			if li >= len(args) || hi >= len(args) || !steppingPair(args[li], args[hi], nil) {
				return fmt.Sprintf("the sweep runs over the index range [%s, %s) handed in at %s; that such ranges cover the snapshot is not established (only lo := 0; lo < len(s); lo += n with hi = min(lo+n, len(s)) is read)", lp.Name(), hp.Name(), p.instrPos(ci))
			}
		}
		return ""
	}
	return fmt.Sprintf("the sweep runs over indexes from %s up to %s, not over the whole snapshot", init.Name(), bound.Name())
}

// freshBytes: the []byte is nil or memory allocated by this call chain: append to nil/empty fresh,
// bytes.Clone/slices.Clone, make, a conversion from a string, the result of a repository function
// all of whose results are fresh, or of the serializers themselves.
func (p *Program) freshBytes(v ssa.Value, d int) bool {
	if d > 5 {
		return false
	}
	v = strip(v)
	switch x := v.(type) {
	case *ssa.Const:
		return x.IsNil()
	case *ssa.MakeSlice:
		return true
	case *ssa.Convert:
		_, fromString := x.X.Type().Underlying().(*types.Basic)
		return fromString
	case *ssa.Phi:
		for _, e := range x.Edges {
			if !p.freshBytes(e, d+1) {
				return false
			}
		}
		return true
	case *ssa.Extract:
		return p.freshBytes(x.Tuple, d+1)
	case *ssa.Call:
		cc := x.Common()
		if b, ok := cc.Value.(*ssa.Builtin); ok {
			if b.Name() == "append" && len(cc.Args) > 0 {
				a0 := strip(cc.Args[0])
				if k, isK := a0.(*ssa.Const); isK && k.IsNil() {
					return true
				}
				if cv, isCv := a0.(*ssa.Convert); isCv {
					if k, isK := cv.X.(*ssa.Const); isK && k.IsNil() {
						return true
					}
				}
				return p.freshBytes(a0, d+1) && !isNilConst(a0)
			}
			return false
		}
		switch calleeName(cc) {
		case "bytes.Clone", "slices.Clone":
			return true
		}
		if n := calleeName(cc); strings.HasSuffix(n, ".RESPBytes") {
			return true
		}
		if f := staticCallee(cc); f != nil && f.Blocks != nil && inRepo(f) {
			rets := returnsOf(f)
			if len(rets) == 0 {
				return false
			}
			for _, r := range rets {
				if len(r.Results) == 0 || !p.freshBytes(retOperand(r, 0), d+1) {
					return false
				}
			}
			return true
		}
	}
	return false
}
