package main

// rules_valuerej.go: "the handler is called with exactly the arguments the client sent" and "an
// argument is rejected only when it is ill-formed" both fail quietly when a well-formed value is
// refused because of its size: a limit in the wrong unit (milliseconds checked against a bound in
// seconds), a length limit that counts the sign. Such a refusal is a comparison of a decoded
// number — or of the length of a payload — with a constant, one side of which returns an error.
// The unchanged tree has a handful of them (positive expiry, bulk and array limits, counts >= 1);
// they are enumerated, confirmed by reading and kept in tables/value_rejections.json. A
// comparison that is not in the table is a value some client may legitimately send and no longer
// can.

import (
	"encoding/json"
	"fmt"
	"go/token"
	"os"
	"path/filepath"
	"sort"
	"strings"

	"golang.org/x/tools/go/ssa"
)

// errorExit: the block (following unconditional jumps, at most 3) ends in a return whose last
// result is a non-nil error.
func errorExit(b *ssa.BasicBlock) bool {
	for k := 0; k < 3 && b != nil; k++ {
		if len(b.Instrs) == 0 {
			return false
		}
		switch x := b.Instrs[len(b.Instrs)-1].(type) {
		case *ssa.Return:
			if len(x.Results) == 0 {
				return false
			}
			last := x.Results[len(x.Results)-1]
			if !isErrorType(last.Type()) || isNilConst(last) {
				return false
			}
			// an error made here (errors.New, fmt.Errorf, a constructor of the repository, a
			// sentinel) — not the error result of the operation the function goes on to perform
			switch y := strip(last).(type) {
			case *ssa.Call, *ssa.MakeInterface:
				return true
			case *ssa.UnOp:
				_, isG := y.X.(*ssa.Global)
				return isG
			}
			return false
		case *ssa.Jump:
			b = b.Succs[0]
		default:
			return false
		}
	}
	return false
}

func valueRejectionSites(p *Program, only []string) map[string][]string {
	out := map[string][]string{}
	var fns []*ssa.Function
	// code reached by the commands of the oracle table: a command added after the table was
	// written brings its own validation, which the inventory cannot judge
	scope := executorScope(p)
	inScope := scopeSet(scope)
	if table, _ := loadCommandTable(verifRoot); table != nil {
		execs, _ := p.executors()
		var roots []*ssa.Function
		for _, e := range execs {
			if _, inTable := table[e.Name]; inTable && (only == nil || nameIn(e.Name, only...)) {
				roots = append(roots, e.Fn)
			}
		}
		reach := p.repoReach(roots, func(g *ssa.Function) bool { return inScope[g] })
		for _, f := range scope {
			if reach[f] {
				fns = append(fns, f)
				continue
			}
			for q := f.Parent(); q != nil; q = q.Parent() {
				if reach[q] && !strings.HasPrefix(roleKey(p, f), "executor:") {
					fns = append(fns, f)
					break
				}
			}
		}
	} else {
		fns = append(fns, scope...)
	}
	for _, f := range p.RepoFuncs(pkgProto) {
		if f.Signature.Recv() != nil && strings.HasSuffix(f.Signature.Recv().Type().String(), "proto.Message") && f.Signature.Results().Len() == 2 {
			fns = append(fns, f)
		}
	}
	for _, f := range fns {
		allInstrs(f, func(ins ssa.Instruction) {
			iff, ok := ins.(*ssa.If)
			if !ok {
				return
			}
			cmp, ok := iff.Cond.(*ssa.BinOp)
			if !ok {
				return
			}
			switch cmp.Op {
			case token.LSS, token.LEQ, token.GTR, token.GEQ:
			default:
				return
			}
			var k int64
			var other ssa.Value
			side := ""
			if c, isC := constInt(cmp.Y); isC {
				k, other, side = c, cmp.X, "x"
			} else if c, isC := constInt(cmp.X); isC {
				k, other, side = c, cmp.Y, "y"
			} else {
				return
			}
			if !isIntType(other.Type()) {
				return
			}
			b := iff.Block()
			if len(b.Succs) != 2 || !(errorExit(b.Succs[0]) != errorExit(b.Succs[1])) {
				return
			}
			kind := "int"
			if linOf(other).isLen || mentionsLen(other, 0) {
				kind = "len"
			}
			onTrue := errorExit(b.Succs[0])
			// the shape of the comparison, written with the value on the left: moving a check
			// into a helper, or writing `1 > n` for `n < 1`, is the same refusal
			op := cmp.Op
			if side == "y" {
				op = map[token.Token]token.Token{token.LSS: token.GTR, token.LEQ: token.GEQ, token.GTR: token.LSS, token.GEQ: token.LEQ}[op]
			}
			if !onTrue {
				op = map[token.Token]token.Token{token.LSS: token.GEQ, token.LEQ: token.GTR, token.GTR: token.LEQ, token.GEQ: token.LSS}[op]
			}
			key := fmt.Sprintf("%s %s %d is refused", kind, op, k)
			out[key] = append(out[key], fnName(f)+" "+p.instrPos(iff))
		})
	}
	return out
}

func ruleValueRejections(c *Ctx, rid string, only ...string) {
	c.rule(rid, "inventory of value-conditioned rejections: every comparison of an integer (a decoded argument, a count, the length of a payload) with a constant, in the executors, the argument readers and the numeric accessors, one side of which returns an error, has a shape (kind of value, direction, constant — wherever the check is written) listed in /verif/tables/value_rejections.json (each confirmed by reading to refuse only values Redis refuses too); a comparison not in the table refuses values a client may legitimately send")
	table := map[string]string{}
	if b, err := os.ReadFile(filepath.Join(verifRoot, "tables", "value_rejections.json")); err == nil {
		_ = json.Unmarshal(b, &table)
	}
	if len(table) == 0 {
		c.undecided(rid, "table", "", "cannot read tables/value_rejections.json")
		return
	}
	sites := valueRejectionSites(c.P, only)
	n := 0
	for _, k := range sortedKeys(sites) {
		sort.Strings(sites[k])
		n += len(sites[k])
		where := strings.Join(sites[k], "; ")
		if _, ok := table[k]; ok {
			c.ok(rid, "value-rejection/"+k, "", fmt.Sprintf("listed (%s): at %s", table[k], where))
		} else {
			c.bad(rid, "value-rejection/"+k, "", "a rejection conditioned on the size of a well-formed value, of a shape the inventory does not list: values on the refused side no longer reach the handler (or are no longer decoded): at "+where)
		}
	}
	var gone []string
	for k := range table {
		if _, ok := sites[k]; !ok {
			gone = append(gone, k)
		}
	}
	sort.Strings(gone)
	for _, k := range gone {
		c.note("value rejection of the inventory not found any more (not an obligation): %s", k)
	}
	c.count("value-rejection-sites", n)
	if only == nil {
		c.floor("value-rejection-sites", 3)
	} else if n == 0 {
		c.ok(rid, "value-rejection/none", "", fmt.Sprintf("no value-conditioned rejection in the code reached by %s (and the numeric accessors)", strings.Join(only, ", ")))
	}
}

func dumpValueRejections(p *Program) {
	sites := valueRejectionSites(p, nil)
	for _, k := range sortedKeys(sites) {
		fmt.Printf("%s\t%s\n", k, strings.Join(sites[k], "; "))
	}
}
