package main

// rules_auth.go: C08 (password gate) and C09 (TLS client-certificate gate).

import (
	"fmt"
	"go/token"
	"go/types"
	"os"
	"sort"
	"strings"

	"golang.org/x/tools/go/ssa"
)

const (
	nIsAuthrized  = "(*" + pkgRedis + ".Conn).IsAuthrized"
	nSetAuthrized = "(*" + pkgRedis + ".Conn).SetAuthrized"
	nAuthenticate = "(*" + pkgAuth + ".AuthManager).Authenticate"
)

func init() {
	register(&propInfo{ID: "C08", Level: "other", Run: runC08,
		Explanation: "Static gate rules: R08.a in the dispatcher every path to the call of the looked-up executor crosses the true edge of IsAuthrized() on the same connection or the equality of the lookup key with the constant name of the AUTH executor (path automaton with branch-edge events); executors are invoked from nowhere else; R08.b the authorisation flag is written only by the constructor (false) and SetAuthrized, which is called only before the request loop with the negated presence of requirepass and, with true, after Authenticate returned ok && err==nil on the same connection; R08.c the credentials tested are the ones presented (SetUserName/SetPassword with the parameters dominate Authenticate; the AUTH executor passes its own connection and values of its own activation); R08.d presence of a password does not depend on its content; R08.e every path of the password authenticator to `true` crosses absence-of-credential or exact string equality with the configured field, and the manager returns true only if no authenticator returned false; R08.f Start registers an authenticator built from the configured password before listening. Not decided: requirepass set at run time without Restart; timing channels; application-supplied handlers."})
	register(&propInfo{ID: "C09", Level: "other", Run: runC09,
		Explanation: "Static rules: R09.a the generated tls.Config demands RequireAndVerifyClientCert against a fresh pool holding only the configured CA, TLS>=1.2, no verification bypass; R09.b the request loop is entered on a TLS connection only after Handshake()==nil, ConnectionState taken after it, and Authenticate(conn) returned ok && err==nil (path automaton with phi-edge pruning); R09.c the common name compared belongs to PeerCertificates[0] (constant index), never to a ranged-over chain element; R09.d accept loops do no handshake/read work, end only on Accept's own error, hand every socket to a goroutine or close it; R09.e an accept loop closes only the listener it accepts from; R19.a the socket is closed on every failing path. X.509 path validation itself is crypto/tls (trusted); an application-supplied tls.Config bypasses R09.a (assumption)."})
}

// ---------------------------------------------------------------------------------------
// C08

func runC08(c *Ctx) {
	ruleGateBeforeExecutor(c, "R08.a")
	ruleWhoMayAuthorise(c, "R08.b")
	ruleCredentialsPresented(c, "R08.c")
	rulePresenceNotContent(c, "R08.d")
	ruleEqualityForSuccess(c, "R08.e")
	ruleStartRegistersSecret(c, "R08.f")
	ruleNoSharedCapture(c, "R08.g")
	ruleAuthenticatorListOwnership(c, "R08.h")
	ruleAuthenticatorsReadOnly(c, "R08.i")
	ruleRecycledObjectsReset(c, "R08.p")
	ruleManagerConsultsAll(c, "R08.k")
	c.assume("string == compares all bytes; the authenticator registry may be extended by the application")
}

// dispatchInfo: the dynamic executor call in the dispatcher.
type dispatchInfo struct {
	Fn      *ssa.Function
	Lookup  *ssa.Lookup
	Key     ssa.Value // the lookup key as a value of Fn
	KeyExpr ssa.Value // the index expression of the lookup (in the function holding it)
	Call    *ssa.Call
	OkValue ssa.Value
}

func (p *Program) dispatchers() []*dispatchInfo {
	var out []*dispatchInfo
	for _, fn := range p.RepoFuncs(pkgRedis) {
		allInstrs(fn, func(ins ssa.Instruction) {
			lk, ok := ins.(*ssa.Lookup)
			if !ok {
				return
			}
			if owner, f, _, ok := fieldOf(lk.X); !ok || owner != "redis.Server" || f != "commandExecutors" {
				return
			}
			di := &dispatchInfo{Fn: fn, Lookup: lk, Key: strip(lk.Index), KeyExpr: strip(lk.Index)}
			// the call through the looked-up value
			allInstrs(fn, func(i2 ssa.Instruction) {
				call, ok := i2.(*ssa.Call)
				if !ok || call.Common().IsInvoke() {
					return
				}
				v := strip(call.Common().Value)
				if ex, ok := v.(*ssa.Extract); ok && ex.Tuple == ssa.Value(lk) && ex.Index == 0 {
					di.Call = call
				}
				if v == ssa.Value(lk) {
					di.Call = call
				}
			})
			if lk.Referrers() != nil {
				for _, r := range *lk.Referrers() {
					if ex, ok := r.(*ssa.Extract); ok && ex.Index == 1 {
						di.OkValue = ex
					}
				}
			}
			if di.Call == nil {
				// the executor is handed to a wrapper that calls it (a timing or counting helper:
				// executeTimed(executor, conn, cmd, args)) and returns what it returned: the
				// wrapper call stands for the executor call in the dispatcher
				allInstrs(fn, func(i2 ssa.Instruction) {
					call, ok := i2.(*ssa.Call)
					if !ok || di.Call != nil {
						return
					}
					h := staticCallee(call.Common())
					if h == nil || !inFramework(h) || h.Blocks == nil {
						return
					}
					for ai, a := range call.Common().Args {
						v := strip(a)
						ex, isEx := v.(*ssa.Extract)
						if !(isEx && ex.Tuple == ssa.Value(lk) && ex.Index == 0) && v != ssa.Value(lk) {
							continue
						}
						if ai >= len(h.Params) {
							continue
						}
						par := h.Params[ai]
						calls, other := 0, 0
						if par.Referrers() != nil {
							for _, r := range *par.Referrers() {
								if hc, isC := r.(*ssa.Call); isC && hc.Common().Value == ssa.Value(par) {
									calls++
								} else if _, isD := r.(*ssa.DebugRef); !isD {
									other++
								}
							}
						}
						if calls > 0 && other == 0 {
							di.Call = call
						}
					}
				})
			}
			if di.Call == nil {
				// a lookup helper returning (executor, found[, key]): the dispatcher is each
				// function that calls the helper and then the executor it returned
				if via := p.dispatchersVia(fn, di); len(via) > 0 {
					out = append(out, via...)
					return
				}
			}
			out = append(out, di)
		})
	}
	return out
}

func (p *Program) dispatchersVia(helper *ssa.Function, di *dispatchInfo) []*dispatchInfo {
	rets := returnsOf(helper)
	if len(rets) != 1 {
		return nil
	}
	iExec, iOk, iKey := -1, -1, -1
	for i := range rets[0].Results {
		v := strip(retOperand(rets[0], i))
		if ex, ok := v.(*ssa.Extract); ok && ex.Tuple == ssa.Value(di.Lookup) {
			if ex.Index == 0 {
				iExec = i
			} else {
				iOk = i
			}
		}
		if v == di.Key {
			iKey = i
		}
	}
	sites, only := p.onlyStaticallyCalled(helper)
	if os.Getenv("DBGDISP") != "" {
		fmt.Fprintln(os.Stderr, "dispatchersVia", fnName(helper), len(rets), iExec, iOk, iKey, len(sites), only)
	}
	if iExec < 0 || iOk < 0 || !only {
		return nil
	}
	var out []*dispatchInfo
	for _, site := range sites {
		g := site.Parent()
		nd := &dispatchInfo{Fn: g, Lookup: di.Lookup, KeyExpr: di.KeyExpr}
		if site.Referrers() != nil {
			for _, r := range *site.Referrers() {
				ex, ok := r.(*ssa.Extract)
				if !ok {
					continue
				}
				switch ex.Index {
				case iOk:
					nd.OkValue = ex
				case iKey:
					nd.Key = ex
				case iExec:
					allInstrs(g, func(i2 ssa.Instruction) {
						if call, ok := i2.(*ssa.Call); ok && !call.Common().IsInvoke() && strip(call.Common().Value) == ssa.Value(ex) {
							nd.Call = call
						}
					})
				}
			}
		}
		out = append(out, nd)
	}
	return out
}

func ruleGateBeforeExecutor(c *Ctx, rid string) {
	c.rule(rid, "A1 with branch-edge events in the dispatcher: every path from entry to the call of the executor loaded from Server.commandExecutors crosses the true edge of (*Conn).IsAuthrized() on the connection passed to the executor, or the edge on which the lookup key equals the constant name under which the AUTH executor (the one calling AuthCommandHandler.Auth) is registered; the executor table is read nowhere else")
	ds := c.P.dispatchers()
	c.count("dispatchers", len(ds))
	c.floor("dispatchers", 1)
	// the name of the executor that calls .Auth
	authName := ""
	execs, unres := c.P.executors()
	for _, u := range unres {
		c.undecided(rid, "executor-table/unresolved", c.P.instrPos(u), "an executor is registered with a non-constant name or a value that is not a function literal")
	}
	for _, e := range execs {
		calls := false
		allInstrs(e.Fn, func(ins ssa.Instruction) {
			if cc := callCommon(ins); cc != nil && cc.IsInvoke() && cc.Method.Name() == "Auth" && strings.HasSuffix(cc.Value.Type().String(), "AuthCommandHandler") {
				calls = true
			}
		})
		if calls {
			if authName != "" {
				c.bad(rid, "auth-executor/"+e.Name, c.P.pos(e.Fn.Pos()), "more than one executor calls AuthCommandHandler.Auth")
			}
			authName = e.Name
		}
	}
	if authName == "" {
		c.bad(rid, "auth-executor", "", "no registered executor calls AuthCommandHandler.Auth")
	}
	if len(ds) != 1 {
		for _, d := range ds {
			c.bad(rid, "executor-table-reader/"+fnName(d.Fn), c.P.instrPos(d.Lookup), "the executor table is looked up in more than one place: a second dispatch path bypasses the gate")
		}
	}
	for _, d := range ds {
		c.analysed(d.Fn)
		key := fnName(d.Fn)
		if d.Call == nil {
			c.undecided(rid, key+"/call", c.P.instrPos(d.Lookup), "the looked-up executor is not called in this function")
			continue
		}
		connArg := strip(d.connArg())
		// lookup key must be strings.ToUpper(cmd) — R05.b; here: remember the key value
		type st struct{ OK int8 }
		a := &Auto[st]{Fn: d.Fn, Init: st{},
			Step: func(s st, ins ssa.Instruction, fail func(string)) []st {
				if ins == ssa.Instruction(d.Call) && s.OK == 0 {
					fail("a path reaches the executor call without having crossed IsAuthrized()==true or key==" + fmt.Sprintf("%q", authName))
				}
				return []st{s}
			},
			Edge: func(s st, b *ssa.BasicBlock, idx int) (st, bool) {
				for _, at := range edgeOnly(b, idx) {
					switch at.Kind {
					case "call":
						if at.Pos && calleeName(at.Call.Common()) == nIsAuthrized && strip(at.Call.Common().Args[0]) == connArg {
							s.OK = 1
						}
					case "eq":
						if at.Pos {
							for _, pr := range [][2]ssa.Value{{at.X, at.Y}, {at.Y, at.X}} {
								if pr[0] == d.Key {
									if k, ok := constString(pr[1]); ok && k == authName && authName != "" {
										s.OK = 1
									}
								}
							}
						}
					}
				}
				return s, true
			}}
		res := a.Run()
		if len(res.Errs) == 0 {
			c.ok(rid, key+"/gate", c.P.instrPos(d.Call), fmt.Sprintf("every path to the executor call is authorised or is the %q command", authName))
		}
		for i, e := range res.Errs {
			c.bad(rid, fmt.Sprintf("%s/gate#%d", key, i), c.P.instrPos(e.Ins), e.Msg, e.witness(c.P)...)
		}
		// the executor call is on the ok side of the lookup (unknown command => no executor): R05.c
		okSide := false
		for _, at := range factsAt(d.Call.Block()) {
			if at.Kind == "val" && at.Pos && at.X == d.OkValue {
				okSide = true
			}
		}
		c.check(okSide, rid, key+"/lookup-ok", c.P.instrPos(d.Call), "the executor call is dominated by the ok result of the table lookup", "the executor call is not dominated by the ok result of the lookup (a nil executor would be called for an unknown command)")
	}
	// handler interface methods are called only from executors (or functions they call)
	var execFns []*ssa.Function
	for _, e := range execs {
		execFns = append(execFns, e.Fn)
	}
	behind := c.P.repoReach(execFns, inFramework)
	nh := 0
	for _, fn := range c.P.RepoFuncs(pkgRedis) {
		allInstrs(fn, func(ins ssa.Instruction) {
			cc := callCommon(ins)
			if cc == nil || !cc.IsInvoke() {
				return
			}
			t := cc.Value.Type().String()
			if !(strings.HasSuffix(t, "redis.UserCommandHandler") || strings.HasSuffix(t, "redis.SystemCommandHandler") || strings.HasSuffix(t, "redis.AuthCommandHandler")) {
				return
			}
			nh++
			if !behind[fn] {
				c.bad(rid, fmt.Sprintf("handler-call-outside-executor/%s/%s", c.P.key(fn), cc.Method.Name()), c.P.instrPos(ins), "a command handler method is called from a function that is not an executor behind the gate")
			}
		})
	}
	c.count("handler-call-sites", nh)
	c.floor("handler-call-sites", 45)
	if nh > 0 {
		c.ok(rid, "handler-calls-behind-gate", "", fmt.Sprintf("all %d handler-interface call sites are in executors or functions only they reach", nh))
	}
}

func ruleWhoMayAuthorise(c *Ctx, rid string) {
	c.rule(rid, "A3: the authorisation flag is stored only by the connection constructor (constant false) and SetAuthrized; SetAuthrized is called only (i) in the connection loop function before the loop, with the negation of the presence result of ConfigRequirePass(), or (ii) with constant true where Authenticate on the same connection returned ok==true and err==nil")
	// stores to the field
	ns := 0
	for _, fn := range c.P.RepoFuncs(modPath) {
		if !inProd(fn) {
			continue
		}
		allInstrs(fn, func(ins ssa.Instruction) {
			st, ok := ins.(*ssa.Store)
			if !ok {
				return
			}
			owner, f, _, ok := fieldOf(st.Addr)
			if !ok || owner != "redis.Conn" || f != "authrized" {
				return
			}
			ns++
			key := "flag-store/" + fnName(fn)
			switch {
			case strings.HasSuffix(fnName(fn), "redis.Conn).SetAuthrized"):
				c.ok(rid, key, c.P.instrPos(st), "setter")
			case fn == c.P.connConstructor():
				b, isC := constBool(st.Val)
				c.check(isC && !b, rid, key, c.P.instrPos(st), "constructor stores false", "the connection constructor does not initialise the flag to false")
			default:
				c.bad(rid, key, c.P.instrPos(st), "the authorisation flag is written outside its constructor and setter")
			}
		})
	}
	c.count("flag-stores", ns)
	c.floor("flag-stores", 2)
	loops := c.P.connLoops()
	n := 0
	for _, fn := range c.P.RepoFuncs(modPath) {
		if !inProd(fn) {
			continue
		}
		ord := 0
		allInstrs(fn, func(ins ssa.Instruction) {
			call, ok := isCall(ins, nSetAuthrized)
			if !ok {
				return
			}
			ord++
			n++
			key := fmt.Sprintf("%s/SetAuthrized#%d", c.P.key(fn), ord)
			arg := call.Common().Args[1]
			recv := strip(call.Common().Args[0])
			// (i)
			for _, cl := range loops {
				if cl.Fn == fn {
					neg, isNot := arg.(*ssa.UnOp)
					okI := isNot && neg.Op == token.NOT
					if okI {
						ex, isEx := strip(neg.X).(*ssa.Extract)
						okI = isEx && ex.Index == 1
						if okI {
							cl2, isCall := ex.Tuple.(*ssa.Call)
							okI = isCall && strings.HasSuffix(calleeName(cl2.Common()), "ServerConfig).ConfigRequirePass")
						}
					}
					before := cl.Loop != nil && !cl.Loop.Blocks[call.Block()] && call.Block().Dominates(cl.Loop.Header)
					c.check(okI && before, rid, key, c.P.instrPos(call), "initial state = !requirepass-present, set once before the request loop", "the connection's initial authorisation is not the negated presence of the configured password, set before the loop")
					return
				}
			}
			// (ii)
			b, isC := constBool(arg)
			if !isC || !b {
				if isC && !b {
					c.ok(rid, key, c.P.instrPos(call), "revokes authorisation (false)")
					return
				}
				c.bad(rid, key, c.P.instrPos(call), "authorisation is set from a value that is neither constant true after a successful Authenticate nor the initial state")
				return
			}
			okTrue, errNil := false, false
			for _, at := range closeFacts(factsAt(call.Block())) {
				ex, isEx := at.X.(*ssa.Extract)
				if !isEx {
					continue
				}
				ac, isCall := ex.Tuple.(*ssa.Call)
				if !isCall || calleeName(ac.Common()) != nAuthenticate {
					continue
				}
				if strip(ac.Common().Args[1]) != recv {
					continue
				}
				if at.Kind == "val" && at.Pos && ex.Index == 0 {
					okTrue = true
				}
				if at.Kind == "nil" && at.Pos && ex.Index == 1 {
					errNil = true
				}
			}
			c.check(okTrue && errNil, rid, key, c.P.instrPos(call), "SetAuthrized(true) only after Authenticate(conn) returned ok && err == nil on the same connection",
				fmt.Sprintf("SetAuthrized(true) is reachable without Authenticate on the same connection having returned ok==true (%v) and err==nil (%v)", okTrue, errNil))
		})
	}
	c.count("SetAuthrized-sites", n)
	c.floor("SetAuthrized-sites", 2)
}

// closeFacts adds what follows from nil(phi) when all but one incoming edge are definitely non-nil.
func closeFacts(facts []Atom) []Atom {
	out := append([]Atom{}, facts...)
	for _, at := range facts {
		if at.Kind != "nil" || !at.Pos {
			continue
		}
		phi, ok := at.X.(*ssa.Phi)
		if !ok {
			continue
		}
		feasible := -1
		n := 0
		for i, e := range phi.Edges {
			if definitelyNonNil(e) {
				continue
			}
			feasible = i
			n++
		}
		if n == 1 {
			pred := phi.Block().Preds[feasible]
			out = append(out, edgeFacts(pred, succIndex(pred, phi.Block()))...)
			out = append(out, Atom{Kind: "nil", X: strip(phi.Edges[feasible]), Pos: true})
		}
	}
	return out
}

func definitelyNonNil(v ssa.Value) bool {
	if call, ok := v.(*ssa.Call); ok {
		switch calleeName(call.Common()) {
		case "errors.New", "fmt.Errorf":
			return true
		}
	}
	if mi, ok := v.(*ssa.MakeInterface); ok {
		_ = mi
		return true
	}
	// a sentinel: a package-level error variable of the repository that only its package
	// initialiser assigns, from errors.New / fmt.Errorf (var ErrX = errors.New("..."))
	if u, ok := v.(*ssa.UnOp); ok && u.Op == token.MUL {
		if g, isG := u.X.(*ssa.Global); isG && sentinelError(g) {
			return true
		}
	}
	return false
}

var sentinelCache = map[*ssa.Global]bool{}

func sentinelError(g *ssa.Global) bool {
	if r, ok := sentinelCache[g]; ok {
		return r
	}
	res := false
	if theProgram != nil && g.Pkg != nil && pkgHasPrefix(g.Pkg.Pkg.Path(), modPath) && isErrorType(deref(g.Type())) {
		stores, good := 0, 0
		for _, fn := range theProgram.RepoFuncs(modPath) {
			allInstrs(fn, func(ins ssa.Instruction) {
				st, ok := ins.(*ssa.Store)
				if !ok || st.Addr != ssa.Value(g) {
					return
				}
				stores++
				if fn.Name() == "init" && fn.Pkg == g.Pkg {
					if call, isC := st.Val.(*ssa.Call); isC && nameIn(calleeName(call.Common()), "errors.New", "fmt.Errorf") {
						good++
					}
				}
			})
		}
		if init := g.Pkg.Func("init"); init != nil && stores == 0 {
			allInstrs(init, func(ins ssa.Instruction) {
				st, ok := ins.(*ssa.Store)
				if !ok || st.Addr != ssa.Value(g) {
					return
				}
				stores++
				if call, isC := st.Val.(*ssa.Call); isC && nameIn(calleeName(call.Common()), "errors.New", "fmt.Errorf") {
					good++
				}
			})
		}
		res = stores == 1 && good == 1
	}
	sentinelCache[g] = res
	return res
}

func ruleCredentialsPresented(c *Ctx, rid string) {
	c.rule(rid, "in every function that calls AuthManager.Authenticate(conn) and then SetAuthrized(true): SetPassword(conn, password-parameter) and SetUserName(conn, username-parameter) on the same connection dominate the Authenticate call; the AUTH executor passes its own connection parameter to the handler")
	for _, fn := range c.P.RepoFuncs(pkgRedis) {
		var auth *ssa.Call
		setsTrue := false
		allInstrs(fn, func(ins ssa.Instruction) {
			if call, ok := isCall(ins, nAuthenticate); ok {
				auth = call
			}
			if call, ok := isCall(ins, nSetAuthrized); ok {
				if b, isC := constBool(call.Common().Args[1]); isC && b {
					setsTrue = true
				}
			}
		})
		if auth == nil || !setsTrue {
			continue
		}
		c.analysed(fn)
		key := fnName(fn)
		conn := strip(auth.Common().Args[1])
		for _, setter := range []string{"SetPassword", "SetUserName"} {
			found := false
			allInstrs(fn, func(ins ssa.Instruction) {
				call, ok := isCall(ins, "(*"+pkgRedis+".Conn)."+setter)
				if !ok || strip(call.Common().Args[0]) != conn {
					return
				}
				if _, isPar := strip(call.Common().Args[1]).(*ssa.Parameter); !isPar {
					return
				}
				if call.Block() == auth.Block() || call.Block().Dominates(auth.Block()) {
					// same block: must precede
					if call.Block() == auth.Block() {
						for _, i2 := range call.Block().Instrs {
							if i2 == ssa.Instruction(call) {
								found = true
								break
							}
							if i2 == ssa.Instruction(auth) {
								break
							}
						}
					} else {
						found = true
					}
				}
			})
			c.check(found, rid, key+"/"+setter, c.P.instrPos(auth), setter+"(parameter) precedes Authenticate on the same connection", "Authenticate is called without "+setter+" having stored the presented credential on that connection first: stale or no credentials are tested")
		}
	}
	// the setters themselves store what they are given on every path: a guard such as "ignore an
	// empty user name" leaves the credential of an earlier AUTH on the connection, and the next
	// AUTH is judged against it
	for _, setter := range []string{"SetPassword", "SetUserName"} {
		fn := c.P.Method(pkgRedis, "Conn", setter)
		if fn == nil || fn.Blocks == nil || len(fn.Params) < 2 {
			c.undecided(rid, "Conn."+setter, "", "setter not found")
			continue
		}
		par := fn.Params[1]
		stores := map[*ssa.BasicBlock]bool{}
		allInstrs(fn, func(ins ssa.Instruction) {
			if st, ok := ins.(*ssa.Store); ok && strip(st.Val) == ssa.Value(par) {
				if _, _, base, ok := fieldOf(st.Addr); ok && strip(base) == ssa.Value(fn.Params[0]) {
					stores[st.Block()] = true
				}
			}
		})
		// every return is reached only through a storing block
		uncond := len(stores) > 0
		seen := map[*ssa.BasicBlock]bool{}
		stack := []*ssa.BasicBlock{fn.Blocks[0]}
		for len(stack) > 0 && uncond {
			b := stack[len(stack)-1]
			stack = stack[:len(stack)-1]
			if seen[b] || stores[b] {
				continue
			}
			seen[b] = true
			for _, ins := range b.Instrs {
				if _, isRet := ins.(*ssa.Return); isRet {
					uncond = false
				}
			}
			stack = append(stack, b.Succs...)
		}
		c.check(uncond, rid, "Conn."+setter+"/unconditional", c.P.pos(fn.Pos()), "stores its argument on every path", "the setter can return without storing its argument: the credential of an earlier AUTH stays on the connection and the next AUTH is judged against it")
	}
	execs, _ := c.P.executors()
	for _, e := range execs {
		allInstrs(e.Fn, func(ins ssa.Instruction) {
			cc := callCommon(ins)
			if cc == nil || !cc.IsInvoke() || cc.Method.Name() != "Auth" || !strings.HasSuffix(cc.Value.Type().String(), "AuthCommandHandler") {
				return
			}
			own := len(cc.Args) > 0 && strip(cc.Args[0]) == ssa.Value(e.Fn.Params[0])
			c.check(own, rid, "executor:"+e.Name+"/conn", c.P.instrPos(ins), "Auth is called with the executor's own connection", "Auth is called with a connection other than the one the request arrived on")
		})
	}
}

func rulePresenceNotContent(c *Ctx, rid string) {
	c.rule(rid, "the presence result of Conn.Password() is not data-dependent on the password string (no len(), no comparison of the field in its backward slice); it is a flag that SetPassword sets to constant true on every path")
	pw := c.P.Method(pkgRedis, "Conn", "Password")
	sp := c.P.Method(pkgRedis, "Conn", "SetPassword")
	if !c.anchor(rid, pw, "redis.(*Conn).Password") || !c.anchor(rid, sp, "redis.(*Conn).SetPassword") {
		return
	}
	flagField := ""
	okAll := true
	for _, r := range returnsOf(pw) {
		if len(r.Results) != 2 {
			continue
		}
		v := retOperand(r, 1)
		// backward slice
		dep := false
		seen := map[ssa.Value]bool{}
		var walk func(x ssa.Value, d int)
		walk = func(x ssa.Value, d int) {
			if x == nil || seen[x] || d > 10 {
				return
			}
			seen[x] = true
			if _, f, _, ok := fieldOf(x); ok {
				if f == "password" {
					dep = true
				}
				if x.Type().String() == "bool" {
					flagField = f
				}
				return
			}
			if ins, ok := x.(ssa.Instruction); ok {
				var ops []*ssa.Value
				for _, o := range ins.Operands(ops) {
					if o != nil && *o != nil {
						walk(*o, d+1)
					}
				}
			}
		}
		walk(v, 0)
		if dep {
			okAll = false
			c.bad(rid, "Conn.Password/presence", c.P.instrPos(r), "whether a password was presented is inferred from the password's content (e.g. its length): AUTH \"\" counts as 'no password presented' and the comparison is skipped")
		}
	}
	if okAll && flagField == "" {
		c.undecided(rid, "Conn.Password/presence", c.P.pos(pw.Pos()), "the presence result is not a boolean field of the connection")
		return
	}
	if okAll {
		c.ok(rid, "Conn.Password/presence", c.P.pos(pw.Pos()), "presence is the flag field "+flagField)
		// SetPassword sets the flag to true on every path
		setOn := mustPassStore(sp, flagField, true)
		c.check(setOn, rid, "Conn.SetPassword/flag", c.P.pos(sp.Pos()), "SetPassword stores true into "+flagField+" on every path", "SetPassword does not set the presence flag on every path: a presented password can be treated as absent")
		// and nothing else stores true / SetPassword is the only writer besides the constructor
		for _, fn := range c.P.RepoFuncs(pkgRedis) {
			allInstrs(fn, func(ins ssa.Instruction) {
				st, ok := ins.(*ssa.Store)
				if !ok {
					return
				}
				if owner, f, _, ok := fieldOf(st.Addr); ok && owner == "redis.Conn" && f == flagField && fn != sp {
					b, isC := constBool(st.Val)
					if !(isC && !b) {
						c.bad(rid, "flag-writer/"+fnName(fn), c.P.instrPos(st), "the password-presence flag is written outside SetPassword")
					}
				}
			})
		}
	}
}

// mustPassStore: every path entry->return stores the constant into the receiver's field.
func mustPassStore(fn *ssa.Function, field string, val bool) bool {
	hit := map[*ssa.BasicBlock]bool{}
	allInstrs(fn, func(ins ssa.Instruction) {
		if st, ok := ins.(*ssa.Store); ok {
			if _, f, _, ok := fieldOf(st.Addr); ok && f == field {
				if b, isC := constBool(st.Val); isC && b == val {
					hit[st.Block()] = true
				}
			}
		}
	})
	seen := map[*ssa.BasicBlock]bool{}
	st := []*ssa.BasicBlock{fn.Blocks[0]}
	for len(st) > 0 {
		b := st[len(st)-1]
		st = st[:len(st)-1]
		if seen[b] || hit[b] {
			continue
		}
		seen[b] = true
		for _, ins := range b.Instrs {
			if _, ok := ins.(*ssa.Return); ok {
				return false
			}
		}
		st = append(st, b.Succs...)
	}
	return true
}

func ruleEqualityForSuccess(c *Ctx, rid string) {
	c.rule(rid, "in every Authenticator of the repository that reads conn.Password()/conn.UserName(): each path to a `true` result crosses, for each credential it reads, the presence==false edge or the equal edge of an exact comparison (== / != on strings, or subtle.ConstantTimeCompare(...)==1) between the presented value and the configured field of the receiver; AuthManager.Authenticate returns true on no path on which an authenticator returned false")
	n := 0
	for _, fn := range c.P.RepoFuncs(pkgAuth) {
		if fn.Name() != "Authenticate" || fn.Signature.Recv() == nil || fnName(fn) == "(*auth.AuthManager).Authenticate" {
			continue
		}
		// credential reads
		var creds []*ssa.Call
		allInstrs(fn, func(ins ssa.Instruction) {
			if call, ok := ins.(*ssa.Call); ok && call.Common().IsInvoke() && (call.Common().Method.Name() == "Password" || call.Common().Method.Name() == "UserName") {
				creds = append(creds, call)
			}
		})
		if len(creds) == 0 {
			continue
		}
		n++
		c.analysed(fn)
		key := fnName(fn)
		if len(creds) > 4 {
			c.undecided(rid, key, c.P.pos(fn.Pos()), "too many credential reads to track")
			continue
		}
		type st struct{ Done [4]bool }
		a := &Auto[st]{Fn: fn, Init: st{},
			Step: func(s st, ins ssa.Instruction, fail func(string)) []st {
				if r, ok := ins.(*ssa.Return); ok && len(r.Results) >= 1 {
					if b, isC := constBool(retOperand(r, 0)); isC && b {
						for i, cr := range creds {
							if !s.Done[i] {
								fail(fmt.Sprintf("the authenticator returns true on a path on which the presented %s was neither absent nor compared for exact equality with the configured one", strings.ToLower(cr.Common().Method.Name())))
							}
						}
					} else if !isC {
						fail("the authenticator's result is not a constant on this path: not modelled")
					}
				}
				return []st{s}
			},
			Edge: func(s st, b *ssa.BasicBlock, idx int) (st, bool) {
				for _, at := range edgeOnly(b, idx) {
					for i, cr := range creds {
						switch at.Kind {
						case "val":
							if ex, ok := at.X.(*ssa.Extract); ok && ex.Tuple == ssa.Value(cr) && ex.Index == 1 && !at.Pos {
								s.Done[i] = true
							}
							// the presented value is the key of a successful lookup in a map of the
							// receiver: equal to a configured name by the map's own comparison
							if ex, ok := at.X.(*ssa.Extract); ok && ex.Index == 1 && at.Pos {
								if lk, ok := ex.Tuple.(*ssa.Lookup); ok && lk.CommaOk {
									if kx, ok := strip(lk.Index).(*ssa.Extract); ok && kx.Tuple == ssa.Value(cr) && kx.Index == 0 {
										if _, _, base, ok := fieldOf(lk.X); ok && strip(base) == ssa.Value(fn.Params[0]) {
											s.Done[i] = true
										}
									}
								}
							}
						case "call":
							// an equality helper of the repository: exact (or constant-time) comparison
							// of its two operands and nothing else
							if at.Pos && at.Call != nil {
								if h := staticCallee(at.Call.Common()); h != nil && isExactEqualityHelper(h) {
									args := at.Call.Common().Args
									if len(args) == 2 {
										for _, pr := range [][2]ssa.Value{{args[0], args[1]}, {args[1], args[0]}} {
											ex, ok := strip(pr[0]).(*ssa.Extract)
											if !ok || ex.Tuple != ssa.Value(cr) || ex.Index != 0 {
												continue
											}
											if _, _, base, ok := fieldOf(strip(pr[1])); ok && strip(base) == ssa.Value(fn.Params[0]) {
												s.Done[i] = true
											}
										}
									}
								}
							}
						case "eq":
							if !at.Pos {
								continue
							}
							for _, pr := range [][2]ssa.Value{{at.X, at.Y}, {at.Y, at.X}} {
								ex, ok := pr[0].(*ssa.Extract)
								if !ok || ex.Tuple != ssa.Value(cr) || ex.Index != 0 {
									continue
								}
								if _, _, base, ok := fieldOf(pr[1]); ok && strip(base) == ssa.Value(fn.Params[0]) {
									s.Done[i] = true
								}
							}
							// subtle.ConstantTimeCompare(a, b) == 1
							for _, pr := range [][2]ssa.Value{{at.X, at.Y}, {at.Y, at.X}} {
								call, ok := pr[0].(*ssa.Call)
								one, isOne := constInt(pr[1])
								if ok && isOne && one == 1 && calleeName(call.Common()) == "crypto/subtle.ConstantTimeCompare" {
									for _, arg := range call.Common().Args {
										if cv, ok := arg.(*ssa.Convert); ok {
											if ex, ok := cv.X.(*ssa.Extract); ok && ex.Tuple == ssa.Value(cr) && ex.Index == 0 {
												s.Done[i] = true
											}
										}
									}
								}
							}
						}
					}
				}
				return s, true
			}}
		res := a.Run()
		if len(res.Errs) == 0 {
			c.ok(rid, key, c.P.pos(fn.Pos()), fmt.Sprintf("every path to true crosses absence or exact equality for each of the %d credentials read", len(creds)))
		}
		for i, e := range res.Errs {
			c.bad(rid, fmt.Sprintf("%s/path#%d", key, i), c.P.instrPos(e.Ins), e.Msg, e.witness(c.P)...)
		}
	}
	c.count("credential-authenticators", n)
	c.floor("credential-authenticators", 1)
	// manager
	mgr := c.P.Method(pkgAuth, "AuthManager", "Authenticate")
	if c.anchor(rid, mgr, "auth.(*AuthManager).Authenticate") {
		type st struct{ Failed int8 }
		a := &Auto[st]{Fn: mgr, Init: st{},
			Step: func(s st, ins ssa.Instruction, fail func(string)) []st {
				if call, ok := ins.(*ssa.Call); ok && call.Common().IsInvoke() && call.Common().Method.Name() == "Authenticate" {
					s.Failed = 0
				}
				if r, ok := ins.(*ssa.Return); ok && r.Block() != mgr.Recover && len(r.Results) >= 1 {
					if b, isC := constBool(retOperand(r, 0)); s.Failed == 1 && (!isC || b) {
						fail("the manager can return true although an authenticator returned false")
					}
				}
				return []st{s}
			},
			Edge: func(s st, b *ssa.BasicBlock, idx int) (st, bool) {
				for _, at := range edgeOnly(b, idx) {
					if at.Kind == "val" && !at.Pos {
						if ex, ok := at.X.(*ssa.Extract); ok && ex.Index == 0 {
							if call, ok := ex.Tuple.(*ssa.Call); ok && call.Common().IsInvoke() && call.Common().Method.Name() == "Authenticate" {
								s.Failed = 1
							}
						}
					}
				}
				return s, true
			}}
		res := a.Run()
		// every authenticator result must be tested
		tested := false
		allInstrs(mgr, func(ins ssa.Instruction) {
			if iff, ok := ins.(*ssa.If); ok {
				for _, at := range atomsOf(iff.Cond, true) {
					if ex, ok := at.X.(*ssa.Extract); ok && ex.Index == 0 {
						if call, ok := ex.Tuple.(*ssa.Call); ok && call.Common().IsInvoke() && call.Common().Method.Name() == "Authenticate" {
							tested = true
						}
					}
				}
			}
		})
		if !tested {
			c.bad(rid, "AuthManager.Authenticate/tested", c.P.pos(mgr.Pos()), "the result of the authenticators is never tested")
		}
		if len(res.Errs) == 0 && tested {
			c.ok(rid, "AuthManager.Authenticate", c.P.pos(mgr.Pos()), "false from any authenticator leads to false")
		}
		for i, e := range res.Errs {
			c.bad(rid, fmt.Sprintf("AuthManager.Authenticate/path#%d", i), c.P.instrPos(e.Ins), e.Msg, e.witness(c.P)...)
		}
	}
}

func ruleStartRegistersSecret(c *Ctx, rid string) {
	c.rule(rid, "in Start, on every path on which ConfigRequirePass() reports a password and that reaches the opening of the listeners, an authenticator constructed from that password value was added, or one equal to it was found present")
	start := c.P.Method(pkgRedis, "Server", "Start")
	if !c.anchor(rid, start, "redis.(*Server).Start") {
		return
	}
	var cfg *ssa.Call
	allInstrs(start, func(ins ssa.Instruction) {
		if call, ok := ins.(*ssa.Call); ok && strings.HasSuffix(calleeName(call.Common()), "ServerConfig).ConfigRequirePass") {
			cfg = call
		}
	})
	if cfg == nil {
		c.bad(rid, "Server.Start/requirepass", c.P.pos(start.Pos()), "Start does not read the configured password: no authenticator is registered for it")
		return
	}
	isPw := func(v ssa.Value) bool {
		ex, ok := strip(v).(*ssa.Extract)
		return ok && ex.Tuple == ssa.Value(cfg) && ex.Index == 0
	}
	type st struct{ Need, Reg int8 }
	a := &Auto[st]{Fn: start, Init: st{},
		Step: func(s st, ins ssa.Instruction, fail func(string)) []st {
			call, ok := ins.(*ssa.Call)
			if !ok {
				return []st{s}
			}
			n := calleeName(call.Common())
			if strings.HasSuffix(n, "AuthManager).AddAuthenticator") {
				arg := strip(call.Common().Args[1])
				if mk, ok := arg.(*ssa.Call); ok && strings.Contains(calleeName(mk.Common()), "NewClearTextPasswordAuthenticatorWith") && len(mk.Common().Args) == 2 && isPw(mk.Common().Args[1]) {
					s.Reg = 1
				}
			}
			if callee := staticCallee(call.Common()); callee != nil && inFramework(callee) && c.P.reachesCallNamed(callee, "net.Listen", "crypto/tls.Listen") {
				if s.Need == 1 && s.Reg == 0 {
					fail("the listeners are opened while a password is configured and no authenticator for it has been registered: every AUTH succeeds")
				}
			}
			return []st{s}
		},
		Edge: func(s st, b *ssa.BasicBlock, idx int) (st, bool) {
			for _, at := range edgeOnly(b, idx) {
				if at.Kind == "val" {
					if ex, ok := at.X.(*ssa.Extract); ok && ex.Tuple == ssa.Value(cfg) && ex.Index == 1 {
						if at.Pos {
							s.Need = 1
						} else {
							s.Need = 0
						}
					}
				}
				if at.Kind == "call" && at.Pos && strings.HasSuffix(calleeName(at.Call.Common()), "HasClearTextPasswordAuthenticator") {
					args := at.Call.Common().Args
					if len(args) == 3 && isPw(args[2]) {
						s.Reg = 1
					}
				}
			}
			return s, true
		}}
	res := a.Run()
	if len(res.Errs) == 0 {
		c.ok(rid, "Server.Start/registers", c.P.instrPos(cfg), "an authenticator for the configured password is present before the listeners open")
	}
	for i, e := range res.Errs {
		c.bad(rid, fmt.Sprintf("Server.Start/registers#%d", i), c.P.instrPos(e.Ins), e.Msg, e.witness(c.P)...)
	}
}

// ruleNoSharedCapture: executors must not write variables captured from the registering function
// (one cell shared by all connections).
func ruleNoSharedCapture(c *Ctx, rid string) {
	c.rule(rid, "per-connection: executor closures (and closures nested in them) do not store into variables captured from the function that registers them — such a cell is shared by every connection's goroutine — and do not read captured cells that any executor writes")
	execs, _ := c.P.executors()
	written := map[ssa.Value]string{}
	n := 0
	regFns := map[*ssa.Function]bool{}
	for _, e := range execs {
		if e.Fn.Parent() != nil {
			regFns[e.Fn.Parent()] = true
		}
	}
	// closures defined in the registering functions (executors and helpers they capture)
	var cls []*ssa.Function
	for rf := range regFns {
		for _, a := range rf.AnonFuncs {
			cls = append(cls, closuresOf(a)...)
		}
	}
	outerCell := func(fv *ssa.FreeVar) ssa.Value {
		// resolve a free variable up to the binding in a registering function
		cur := fv
		for {
			fn := cur.Parent()
			par := fn.Parent()
			if par == nil {
				return nil
			}
			idx := -1
			for i, f := range fn.FreeVars {
				if f == cur {
					idx = i
				}
			}
			var bound ssa.Value
			allInstrs(par, func(ins ssa.Instruction) {
				if mc, ok := ins.(*ssa.MakeClosure); ok && mc.Fn == fn && idx >= 0 && idx < len(mc.Bindings) {
					bound = mc.Bindings[idx]
				}
			})
			if bound == nil {
				return nil
			}
			if regFns[par] {
				return bound
			}
			next, ok := bound.(*ssa.FreeVar)
			if !ok {
				return nil // bound to a local of an executor activation: per call
			}
			cur = next
		}
	}
	for _, f := range cls {
		allInstrs(f, func(ins ssa.Instruction) {
			st, ok := ins.(*ssa.Store)
			if !ok {
				return
			}
			// the captured variable itself, or a field/element of it
			var fv *ssa.FreeVar
			for a, d := st.Addr, 0; a != nil && d < 4; d++ {
				switch x := a.(type) {
				case *ssa.FreeVar:
					fv = x
					a = nil
				case *ssa.FieldAddr:
					a = x.X
				case *ssa.IndexAddr:
					a = x.X
				default:
					a = nil
				}
			}
			if fv == nil {
				return
			}
			if cell := outerCell(fv); cell != nil {
				n++
				written[cell] = c.P.instrPos(st)
				c.bad(rid, fmt.Sprintf("%s/captured-store:%s", c.P.key(f), fv.Name()), c.P.instrPos(st), "an executor writes the variable '"+fv.Name()+"' captured from the registering function: the cell is shared by all connections, so one connection's request data (credentials, arguments) can be used for another's")
			}
		})
	}
	c.count("executor-closures", len(cls))
	c.floor("executor-closures", 50)
	if n == 0 {
		c.ok(rid, "no-shared-captured-writes", "", fmt.Sprintf("%d closures examined; none stores into a variable captured from the registering function", len(cls)))
	}
}

// ---------------------------------------------------------------------------------------
// C09

func runC09(c *Ctx) {
	ruleTLSConfig(c, "R09.a")
	ruleTLSGateBeforeLoop(c, "R09.b")
	ruleLeafCommonName(c, "R09.c")
	ruleAcceptLoops(c, "R09.d")
	ruleGoroutineOwnsItsIteration(c, "R09.d")
	// a failed handshake leaves nothing behind: not even a reserved client slot
	ruleAdmissionBalanced(c, "R09.h")
	ruleOwnListenerOnly(c, "R09.e")
	ruleAuthenticatorListOwnership(c, "R09.f")
	// a certificate rule's refusal must not be overridden by a later authenticator's acceptance
	ruleEqualityForSuccess(c, "R09.g")
	ruleCertificateSuccess(c, "R09.i")
	ruleNoSlotAcrossHandshake(c, "R09.j")
	ruleManagerConsultsAll(c, "R09.k")
	ruleCloseOnEveryExit(c, "R19.a")
	c.assume("crypto/tls performs X.509 path validation and expiry checks for RequireAndVerifyClientCert; an application-supplied tls.Config (ConfigTLSConfig) replaces the generated one")
}

func ruleTLSConfig(c *Ctx, rid string) {
	c.rule(rid, "NewTLSConfigFrom builds a tls.Config with ClientAuth == RequireAndVerifyClientCert, ClientCAs = a pool created by x509.NewCertPool() into which exactly the configured CA bytes are appended, MinVersion >= TLS1.2, and no InsecureSkipVerify/VerifyPeerCertificate/VerifyConnection override; connections of the TLS listener are wrapped with tls.Server before anything else is done with them")
	fn := c.P.PkgFunc(pkgRedis, "NewTLSConfigFrom")
	if !c.anchor(rid, fn, "redis.NewTLSConfigFrom") {
		return
	}
	fields := map[string]ssa.Value{}
	var cfgAlloc *ssa.Alloc
	allInstrs(fn, func(ins ssa.Instruction) {
		if a, ok := ins.(*ssa.Alloc); ok && deref(a.Type()).String() == "crypto/tls.Config" {
			cfgAlloc = a
		}
	})
	if cfgAlloc == nil {
		c.undecided(rid, "tls.Config/literal", c.P.pos(fn.Pos()), "no tls.Config literal found")
		return
	}
	allInstrs(fn, func(ins ssa.Instruction) {
		st, ok := ins.(*ssa.Store)
		if !ok {
			return
		}
		if fa, ok := st.Addr.(*ssa.FieldAddr); ok && fa.X == ssa.Value(cfgAlloc) {
			fields[derefStruct(fa.X.Type()).Field(fa.Field).Name()] = st.Val
		}
	})
	pos := c.P.instrPos(cfgAlloc)
	ca, _ := constInt(fields["ClientAuth"])
	c.check(fields["ClientAuth"] != nil && ca == 4, rid, "tls.Config/ClientAuth", pos, "RequireAndVerifyClientCert", fmt.Sprintf("ClientAuth is %d, not RequireAndVerifyClientCert(4): clients without a certificate chaining to the CA complete the handshake", ca))
	mv, _ := constInt(fields["MinVersion"])
	c.check(mv >= 0x0303, rid, "tls.Config/MinVersion", pos, "TLS >= 1.2", "MinVersion below TLS 1.2 or unset")
	for _, f := range []string{"InsecureSkipVerify", "VerifyPeerCertificate", "VerifyConnection", "GetConfigForClient"} {
		if v, ok := fields[f]; ok {
			if b, isC := constBool(v); isC && !b {
				continue
			}
			c.bad(rid, "tls.Config/"+f, pos, f+" is set: it can accept a peer the CA check would refuse")
		}
	}
	fresh, okAppend, extra, why := caPoolProvenance(strip(fields["ClientCAs"]), 0)
	if !fresh {
		c.bad(rid, "tls.Config/ClientCAs", pos, "ClientCAs is not a pool freshly created with x509.NewCertPool(): CAs other than the configured one (e.g. the system roots) are trusted for client certificates"+why)
	} else {
		c.check(okAppend && !extra, rid, "tls.Config/ClientCAs", pos, "fresh pool holding the configured CA only", "the client CA pool does not consist of exactly the configured CA certificate(s)")
	}
	// tls.Server wrapping in the TLS connection root
	wrapped := 0
	seenRoot := map[*ssa.Function]bool{}
	for _, gs := range c.P.goSites(pkgRedis) {
		{
			{
				// the goroutine root serving the TLS listener: it receives the socket and the TLS
				// configuration (possibly through a forwarding closure, which goSites looks through)
				t := gs.Target
				if t == nil || seenRoot[t] {
					continue
				}
				hasCfg, hasSock := false, false
				for _, p := range t.Params {
					if strings.Contains(p.Type().String(), "tls.Config") {
						hasCfg = true
					}
					if p.Type().String() == "net.Conn" {
						hasSock = true
					}
				}
				if !hasCfg || !hasSock {
					continue
				}
				seenRoot[t] = true
				// in t: first use of the socket parameter is tls.Server(conn, cfg)
				var sock, cfgp *ssa.Parameter
				for _, p := range t.Params {
					if p.Type().String() == "net.Conn" {
						sock = p
					}
					if strings.Contains(p.Type().String(), "tls.Config") {
						cfgp = p
					}
				}
				okWrap := false
				allInstrs(t, func(i2 ssa.Instruction) {
					if call, ok := i2.(*ssa.Call); ok && calleeName(call.Common()) == "crypto/tls.Server" && sock != nil && cfgp != nil {
						if strip(call.Common().Args[0]) == ssa.Value(sock) && strip(call.Common().Args[1]) == ssa.Value(cfgp) {
							okWrap = true
						}
					}
				})
				// no read/parse on the raw socket
				raw := false
				if sock != nil && sock.Referrers() != nil {
					for _, r := range *sock.Referrers() {
						if call, ok := r.(*ssa.Call); ok {
							n := calleeName(call.Common())
							// Close and the address accessors neither read nor write the stream (a log line naming the peer)
							if n != "crypto/tls.Server" && !strings.HasSuffix(n, ".Close") && !strings.HasSuffix(n, ".RemoteAddr") && !strings.HasSuffix(n, ".LocalAddr") && !onlyLooksAtAddress(call, sock) {
								raw = true
							}
						}
					}
				}
				wrapped++
				c.check(okWrap && !raw, rid, fnName(t)+"/tls.Server", c.P.pos(t.Pos()), "the accepted socket is used only through tls.Server(conn, config) (and Close)", "the TLS listener's socket is used without (or besides) the tls.Server wrapper: plain-text bytes could be parsed as commands")
			}
		}
	}
	c.count("tls-wrapped-roots", wrapped)
	c.floor("tls-wrapped-roots", 1)
}

func ruleTLSGateBeforeLoop(c *Ctx, rid string) {
	c.rule(rid, "A1: (i) the connection loop function is called with a TLS state only where Handshake() on the wrapped connection returned nil and ConnectionState() was taken after it; (ii) inside it, every path that reaches the request loop with a non-nil TLS state crossed ok==true and err==nil of AuthManager.Authenticate on this connection (phi edges carrying a freshly constructed error are infeasible on the err==nil side)")
	for _, cl := range c.P.connLoops() {
		fn := cl.Fn
		key := fnName(fn)
		var tlsPar *ssa.Parameter
		for _, p := range fn.Params {
			if strings.Contains(p.Type().String(), "tls.ConnectionState") {
				tlsPar = p
			}
		}
		if tlsPar == nil {
			c.undecided(rid, key+"/tls-state", c.P.pos(fn.Pos()), "the connection loop function has no TLS state parameter")
			continue
		}
		var auth *ssa.Call
		var authHelper *ssa.Call // a call of a helper whose nil error means "authenticated"
		allInstrs(fn, func(ins ssa.Instruction) {
			if call, ok := isCall(ins, nAuthenticate); ok {
				auth = call
			}
		})
		if auth == nil {
			allInstrs(fn, func(ins ssa.Instruction) {
				call, ok := ins.(*ssa.Call)
				if !ok || authHelper != nil {
					return
				}
				if callee := staticCallee(call.Common()); callee != nil && inFramework(callee) && nilMeansAuthenticated(callee) {
					authHelper = call
				}
			})
		}
		if auth == nil && authHelper == nil {
			c.bad(rid, key+"/authenticate", c.P.pos(fn.Pos()), "TLS connections are never authenticated before the request loop")
			continue
		}
		if auth == nil {
			// helper form: the loop is entered on a TLS connection only across nil(helper error)
			type st2 struct{ Need, OK int8 }
			a2 := &Auto[st2]{Fn: fn, Init: st2{Need: 1},
				Step: func(s st2, ins ssa.Instruction, fail func(string)) []st2 {
					if ins == ssa.Instruction(cl.Next) && s.Need == 1 && s.OK == 0 {
						fail("the request loop is reachable on a TLS connection without the authentication helper having returned nil")
					}
					return []st2{s}
				},
				Edge: func(s st2, b *ssa.BasicBlock, idx int) (st2, bool) {
					for _, at := range edgeOnly(b, idx) {
						if at.Kind == "nil" {
							if at.X == ssa.Value(tlsPar) {
								if at.Pos {
									s.Need = 0
								} else {
									s.Need = 1
								}
							}
							if at.X == ssa.Value(authHelper) && at.Pos {
								s.OK = 1
							}
						}
					}
					return s, true
				}}
			res2 := a2.Run()
			if len(res2.Errs) == 0 {
				c.ok(rid, key+"/authenticated-before-loop", c.P.instrPos(authHelper), "every path into the request loop with a TLS state crossed the nil result of "+fnName(staticCallee(authHelper.Common()))+", which returns nil only after Authenticate ok && err == nil")
			}
			for i, e := range res2.Errs {
				c.bad(rid, fmt.Sprintf("%s/authenticated-before-loop#%d", key, i), c.P.instrPos(e.Ins), e.Msg, e.witness(c.P)...)
			}
			servedOK := false
			for _, a := range authHelper.Common().Args {
				if call, ok := strip(a).(*ssa.Call); ok && c.P.isConnConstructorCall(call.Common()) {
					servedOK = true
				}
			}
			c.check(servedOK, rid, key+"/authenticated-conn", c.P.instrPos(authHelper), "the helper is given the connection object constructed for this socket", "the authentication helper is not called on this connection's object")
		}
		if auth != nil {
			func() {
				var errPhi *ssa.Phi
				allInstrs(fn, func(ins ssa.Instruction) {
					if phi, ok := ins.(*ssa.Phi); ok {
						for _, e := range phi.Edges {
							if ex, ok := e.(*ssa.Extract); ok && ex.Tuple == ssa.Value(auth) && ex.Index == 1 {
								errPhi = phi
							}
						}
					}
				})
				type st struct {
					Need, OK, ErrNil int8
					PhiIn            int8
				}
				a := &Auto[st]{Fn: fn, Init: st{Need: 1, PhiIn: -1},
					Step: func(s st, ins ssa.Instruction, fail func(string)) []st {
						if ins == ssa.Instruction(cl.Next) && s.Need == 1 && !(s.OK == 1 && s.ErrNil == 1) {
							fail(fmt.Sprintf("the request loop is reachable on a TLS connection without Authenticate having returned ok==true (%v) and err==nil (%v)", s.OK == 1, s.ErrNil == 1))
						}
						return []st{s}
					},
					Edge: func(s st, b *ssa.BasicBlock, idx int) (st, bool) {
						succ := b.Succs[idx]
						for _, at := range edgeOnly(b, idx) {
							switch at.Kind {
							case "nil":
								if at.X == ssa.Value(tlsPar) {
									if at.Pos {
										s.Need = 0
									} else {
										s.Need = 1
									}
								}
								if ex, ok := at.X.(*ssa.Extract); ok && ex.Tuple == ssa.Value(auth) && ex.Index == 1 && at.Pos {
									s.ErrNil = 1
								}
								if errPhi != nil && at.X == ssa.Value(errPhi) && at.Pos {
									if s.PhiIn >= 0 && int(s.PhiIn) < len(errPhi.Edges) {
										e := errPhi.Edges[s.PhiIn]
										if definitelyNonNil(e) {
											return s, false // infeasible
										}
										if ex, ok := e.(*ssa.Extract); ok && ex.Tuple == ssa.Value(auth) && ex.Index == 1 {
											s.ErrNil = 1
										}
									}
								}
							case "val":
								if ex, ok := at.X.(*ssa.Extract); ok && ex.Tuple == ssa.Value(auth) && ex.Index == 0 {
									if at.Pos {
										s.OK = 1
									} else {
										s.OK = 0
									}
								}
							}
						}
						if errPhi != nil && succ == errPhi.Block() {
							for i, p := range succ.Preds {
								if p == b {
									s.PhiIn = int8(i)
								}
							}
						}
						return s, true
					}}
				res := a.Run()
				if len(res.Errs) == 0 {
					c.ok(rid, key+"/authenticated-before-loop", c.P.instrPos(auth), "every path into the request loop with a TLS state crossed Authenticate ok && err == nil")
				}
				for i, e := range res.Errs {
					c.bad(rid, fmt.Sprintf("%s/authenticated-before-loop#%d", key, i), c.P.instrPos(e.Ins), e.Msg, e.witness(c.P)...)
				}
				// the connection authenticated is the one served
				servedConn := strip(auth.Common().Args[1])
				isOwn := false
				if call, ok := servedConn.(*ssa.Call); ok && c.P.isConnConstructorCall(call.Common()) {
					for _, a2 := range call.Common().Args {
						if strip(a2) == ssa.Value(tlsPar) {
							isOwn = true
						}
					}
				}
				c.check(isOwn, rid, key+"/authenticated-conn", c.P.instrPos(auth), "Authenticate is given the connection object carrying this TLS state", "Authenticate is not called on the connection object that carries this connection's TLS state")
			}()
		}
		// (i) callers passing a non-nil TLS state
		for i, site := range c.P.staticCallSites(fn) {
			if !inFramework(site.Parent()) {
				continue
			}
			idx := paramIndex(tlsPar)
			arg := site.Common().Args[idx]
			if isNilConst(arg) {
				continue
			}
			skey := fmt.Sprintf("%s/caller#%d:%s", key, i, fnName(site.Parent()))
			// arg = &state where state = ConnectionState() called after Handshake()==nil
			caller := site.Parent()
			var hs, cs *ssa.Call
			allInstrs(caller, func(ins ssa.Instruction) {
				if call, ok := ins.(*ssa.Call); ok {
					switch calleeName(call.Common()) {
					case "(*crypto/tls.Conn).Handshake", "(*crypto/tls.Conn).HandshakeContext":
						hs = call
					case "(*crypto/tls.Conn).ConnectionState":
						cs = call
					}
				}
			})
			okH := false
			if hs != nil {
				siteIns := site.(ssa.Instruction)
				for _, at := range factsAt(siteIns.Block()) {
					if at.Kind == "nil" && at.Pos && at.X == ssa.Value(hs) {
						okH = true
					}
				}
			}
			okC := false
			if cs != nil && hs != nil {
				for _, at := range factsAt(cs.Block()) {
					if at.Kind == "nil" && at.Pos && at.X == ssa.Value(hs) {
						okC = true
					}
				}
				// the state passed is the one taken
				if al, ok := strip(arg).(*ssa.Alloc); ok {
					if sv := singleStore(al); sv != ssa.Value(cs) {
						okC = false
					}
				} else {
					okC = false
				}
				// same tls.Conn for handshake, state and the served connection
				if strip(hs.Common().Args[0]) != strip(cs.Common().Args[0]) {
					okC = false
				}
			}
			c.check(okH && okC, rid, skey, c.P.instrPos(site.(ssa.Instruction)), "called only after Handshake()==nil with the ConnectionState taken after it", fmt.Sprintf("the connection loop is entered with a TLS state without a completed handshake (handshake-nil-dominates=%v, state-taken-after=%v)", okH, okC))
		}
	}
}

func ruleLeafCommonName(c *Ctx, rid string) {
	c.rule(rid, "the Subject.CommonName compared with the configured name belongs to PeerCertificates[0] or VerifiedChains[i][0] (constant index 0); a comparison fed by a range/index variable over the chain is a violation")
	n := 0
	for _, fn := range c.P.RepoFuncs(pkgAuth) {
		allInstrs(fn, func(ins ssa.Instruction) {
			bo, ok := ins.(*ssa.BinOp)
			if !ok || (bo.Op != token.EQL && bo.Op != token.NEQ) {
				return
			}
			for _, side := range []ssa.Value{bo.X, bo.Y} {
				_, f, base, ok := fieldOf(side)
				if !ok || f != "CommonName" {
					continue
				}
				// base = &cert.Subject ; cert = load of IndexAddr(chain, idx)
				_, f2, certV, ok := fieldOf(base)
				if !ok || f2 != "Subject" {
					continue
				}
				n++
				key := fmt.Sprintf("%s/common-name-compare#%d", fnName(fn), n)
				cert := strip(certV)
				okLeaf := false
				why := "the certificate compared is " + cert.String()
				if ld, ok := cert.(*ssa.UnOp); ok && ld.Op == token.MUL {
					if ia, ok := ld.X.(*ssa.IndexAddr); ok {
						if k, isC := constInt(ia.Index); isC && k == 0 {
							if _, cf, _, ok := fieldOf(ia.X); ok && (cf == "PeerCertificates") {
								okLeaf = true
							}
							// VerifiedChains[i][0]
							if l2, ok := strip(ia.X).(*ssa.UnOp); ok {
								if ia2, ok := l2.X.(*ssa.IndexAddr); ok {
									if _, cf, _, ok := fieldOf(ia2.X); ok && cf == "VerifiedChains" {
										okLeaf = true
									}
								}
							}
						} else {
							why = "the certificate is selected by a variable index over the chain"
						}
					}
				}
				c.check(okLeaf, rid, key, c.P.instrPos(bo), "common name of the leaf certificate (index 0)", "the common name is compared on a certificate that is not provably the client's own (leaf): "+why+" — an intermediate carrying the name would satisfy the rule")
			}
		})
	}
	c.count("common-name-comparisons", n)
	c.floor("common-name-comparisons", 1)
}

// ruleOwnListenerOnly: R09.e / R15.b.
func ruleOwnListenerOnly(c *Ctx, rid string) {
	c.rule(rid, "an accept-loop goroutine accepts from and closes exactly one listener value, received as a parameter or read once before the loop; nothing reachable from a goroutine root stores the server's listener fields or closes a listener loaded from them")
	for _, al := range c.P.acceptLoops() {
		key := fnName(al.Fn)
		l := strip(al.Accept.Common().Value)
		_, isPar := l.(*ssa.Parameter)
		okVal := isPar
		if ld, ok := l.(*ssa.UnOp); ok && al.Loop != nil && !al.Loop.Blocks[ld.Block()] {
			okVal = false // reading a server field in the goroutine is a race with Start/Stop (R14) — must be a parameter
		}
		c.check(okVal, rid, key+"/listener-value", c.P.instrPos(al.Accept), "the listener is a parameter of the accept loop", "the accept loop takes its listener from shared server state instead of receiving it: after Restart an old loop can pick up (and later close) the new listener")
		bad := 0
		check := func(f *ssa.Function) {
			allInstrs(f, func(ins ssa.Instruction) {
				cc := callCommon(ins)
				if cc == nil {
					return
				}
				if calleeName(cc) == "(net.Listener).Close" {
					if strip(cc.Value) != l {
						bad++
						c.bad(rid, fmt.Sprintf("%s/closes-other-listener#%d", key, bad), c.P.instrPos(ins), "the accept loop closes a listener other than the one it accepts from")
					}
				}
				if cal := staticCallee(cc); cal != nil && inFramework(cal) && cal != f {
					if _, isGo := ins.(*ssa.Go); !isGo && c.P.reachesCallNamed(cal, "(net.Listener).Close") {
						bad++
						c.bad(rid, fmt.Sprintf("%s/closes-server-listeners#%d", key, bad), c.P.instrPos(ins), "the accept loop calls "+fnName(cal)+", which closes whatever listeners the server currently holds — after Restart those are the new ones")
					}
				}
			})
		}
		for _, f := range closuresOf(al.Fn) {
			check(f)
		}
		if bad == 0 {
			c.ok(rid, key+"/closes-own-only", c.P.instrPos(al.Accept), "only the accepted-from listener is closed")
		}
	}
	// listener fields: stored only by functions not reachable from goroutine roots
	roots, others := c.P.connRoots()
	var from []*ssa.Function
	for _, r := range roots {
		from = append(from, r.Fn)
	}
	for _, g := range others {
		if g.Target != nil {
			from = append(from, g.Target)
		}
	}
	reach := c.P.repoReach(from, inFramework)
	nst := 0
	for _, fn := range c.P.RepoFuncs(pkgRedis) {
		allInstrs(fn, func(ins ssa.Instruction) {
			st, ok := ins.(*ssa.Store)
			if !ok {
				return
			}
			owner, f, _, ok := fieldOf(st.Addr)
			if !ok {
				// a store through a pointer taken from a table of the listener fields
				// (`*ep.listener = l` with ep from {listener: &server.portListener}, ...)
				if _, isFA := st.Addr.(*ssa.FieldAddr); !isFA {
					if fs, okT := pointerTargets(st.Addr); okT {
						for _, t := range fs {
							if t == "redis.Server.portListener" || t == "redis.Server.tlsPortListener" {
								owner, f, ok = "redis.Server", strings.TrimPrefix(t, "redis.Server."), true
							}
						}
					}
				}
			}
			if !ok || owner != "redis.Server" || (f != "portListener" && f != "tlsPortListener" && f != "tlsConfig") {
				return
			}
			if fa, isFA := st.Addr.(*ssa.FieldAddr); isFA {
				if _, isAlloc := strip(fa.X).(*ssa.Alloc); isAlloc {
					return
				}
			}
			nst++
			if reach[fn] {
				c.bad(rid, "listener-field-writer/"+fnName(fn)+"/"+f, c.P.instrPos(st), "a function reachable from a goroutine root writes the server's "+f+" field: it races with Start/Stop and can clobber the listeners of a restarted server")
			} else {
				c.ok(rid, "listener-field-writer/"+fnName(fn)+"/"+f, c.P.instrPos(st), "written from the lifecycle API only")
			}
		})
	}
	c.count("listener-field-stores", nst)
	c.floor("listener-field-stores", 1)
}

// nilMeansAuthenticated: h takes a connection, calls AuthManager.Authenticate on it, and returns
// a nil error only on paths where that call returned ok == true and err == nil.
func nilMeansAuthenticated(h *ssa.Function) bool {
	if h.Blocks == nil {
		return false
	}
	res := h.Signature.Results()
	if res.Len() != 1 || !isErrorType(res.At(0).Type()) {
		return false
	}
	var auth *ssa.Call
	allInstrs(h, func(ins ssa.Instruction) {
		if call, ok := isCall(ins, nAuthenticate); ok {
			auth = call
		}
	})
	if auth == nil {
		return false
	}
	if _, isPar := strip(auth.Common().Args[1]).(*ssa.Parameter); !isPar {
		return false
	}
	any := false
	for _, r := range returnsOf(h) {
		v := retOperand(r, 0)
		mayNil := isNilConst(v)
		if !mayNil {
			// a returned error value: may be nil unless known non-nil
			if definitelyNonNil(strip(v)) || errNonNilAt(r, 0) {
				continue
			}
			// returning Authenticate's own error under err != nil is an error path
			mayNil = true
		}
		any = true
		okTrue, errNil := false, false
		// returning Authenticate's own error: the result is nil exactly when that error is
		if ex, isEx := strip(v).(*ssa.Extract); isEx && ex.Tuple == ssa.Value(auth) && ex.Index == 1 {
			errNil = true
		}
		for _, at := range closeFacts(factsAt(r.Block())) {
			ex, isEx := at.X.(*ssa.Extract)
			if !isEx || ex.Tuple != ssa.Value(auth) {
				continue
			}
			if at.Kind == "val" && at.Pos && ex.Index == 0 {
				okTrue = true
			}
			if at.Kind == "nil" && at.Pos && ex.Index == 1 {
				errNil = true
			}
		}
		if !okTrue || !errNil {
			return false
		}
	}
	return any
}

// ruleAuthenticatorListOwnership: the certificate rules and password rules the application
// registers live in one list. The framework itself must only ever add to it: a framework
// function that clears or replaces the list (say, on Start or Restart) silently drops the
// certificate rule, after which the TLS gate admits any certificate of the right CA.
func ruleAuthenticatorListOwnership(c *Ctx, rid string) {
	c.rule(rid, "who-may-write: the authenticator list of auth.AuthManager is stored to only by its constructor, by AddAuthenticator (append of the old list and the argument) and by ClearAuthenticators; no framework function calls ClearAuthenticators or otherwise shrinks the list")
	clearName := "(*" + pkgAuth + ".AuthManager).ClearAuthenticators"
	n, bad := 0, 0
	for _, fn := range c.P.RepoFuncs(modPath) {
		if !inProd(fn) || !inFramework(fn) {
			continue
		}
		allInstrs(fn, func(ins ssa.Instruction) {
			if cc := callCommon(ins); cc != nil {
				nme := calleeName(cc)
				if nme == clearName || (cc.IsInvoke() && cc.Method.Name() == "ClearAuthenticators") {
					n++
					bad++
					c.bad(rid, fmt.Sprintf("%s/clears-authenticators", c.P.key(fn)), c.P.instrPos(ins), "the framework clears the authenticator list: rules registered by the application (client-certificate common names) are dropped and the TLS gate admits every certificate of the CA")
				}
			}
			// the list published through an atomic.Pointer: its Store is the write
			if cc := callCommon(ins); cc != nil && strings.HasPrefix(calleeName(cc), "(*sync/atomic.Pointer[") && strings.HasSuffix(calleeName(cc), ").Store") && len(cc.Args) == 2 {
				if owner, f, _, ok := fieldOf(cc.Args[0]); ok && owner == "auth.AuthManager" && f == "authenticators" {
					n++
					okStore := false
					switch {
					case fn.Name() == "ClearAuthenticators" && fnPkgPath(fn) == pkgAuth:
						okStore = true
					case fn.Signature.Recv() == nil && fnPkgPath(fn) == pkgAuth:
						okStore = true
					default:
						// a new slice one longer than the old list, the old list copied into it
						if al, isAl := strip(cc.Args[1]).(*ssa.Alloc); isAl {
							for _, st := range allocStores(al) {
								if grownCopyOf(fn, strip(st.Val)) {
									okStore = true
								}
							}
						}
					}
					if !okStore {
						bad++
						c.bad(rid, fmt.Sprintf("%s/authenticators-store", c.P.key(fn)), c.P.instrPos(ins), "the authenticator list is replaced outside AddAuthenticator/ClearAuthenticators/the constructor, or by something other than the old list plus one element")
					}
				}
				return
			}
			st, ok := ins.(*ssa.Store)
			if !ok {
				return
			}
			owner, f, _, ok := fieldOf(st.Addr)
			if !ok || owner != "auth.AuthManager" || f != "authenticators" {
				return
			}
			n++
			okStore := false
			switch {
			case fn.Name() == "ClearAuthenticators" && fnPkgPath(fn) == pkgAuth:
				okStore = true
			case fn.Signature.Recv() == nil && fnPkgPath(fn) == pkgAuth:
				okStore = true // constructor
			default:
				// append(old list, parameter)
				if call, ok := strip(st.Val).(*ssa.Call); ok {
					if b, ok := call.Common().Value.(*ssa.Builtin); ok && b.Name() == "append" && len(call.Common().Args) == 2 {
						if _, f2, _, ok := fieldOf(call.Common().Args[0]); ok && f2 == "authenticators" {
							okStore = true
						}
					}
				}
			}
			if !okStore {
				bad++
				c.bad(rid, fmt.Sprintf("%s/authenticators-store", c.P.key(fn)), c.P.instrPos(st), "the authenticator list is replaced outside AddAuthenticator/ClearAuthenticators/the constructor")
			}
		})
	}
	c.count("authenticator-list-writes", n)
	c.floor("authenticator-list-writes", 2)
	if bad == 0 {
		c.ok(rid, "authenticator-list", "", "the list is only appended to by AddAuthenticator; nothing in the framework clears it")
	}
}

// ruleAuthenticatorsReadOnly: AuthManager.Authenticate runs the registered authenticators under
// its read lock, so the AUTH commands (and TLS admissions) of different connections execute them
// concurrently. An authenticator therefore must not keep per-request scratch state in itself:
// no store to a field of its receiver, and no state-changing method invoked on a value held in
// one of its fields (a shared hash.Hash, buffer, scanner, ...), anywhere below Authenticate.
func ruleAuthenticatorsReadOnly(c *Ctx, rid string) {
	c.rule(rid, "every Authenticate method of package auth, and every method of the same receiver it calls, neither stores into a field of the receiver nor invokes a mutating method (Write, Reset, Read, Set*, Add*, Store, Delete, ...) on a value loaded from a receiver field: concurrent authentications share the authenticator object")
	mutating := func(name string) bool {
		for _, p := range []string{"Write", "Reset", "Read", "Set", "Add", "Store", "Delete", "Push", "Pop", "Seek", "Scan", "Next", "Grow", "Truncate", "Swap", "Insert", "Remove", "Append"} {
			if strings.HasPrefix(name, p) {
				return true
			}
		}
		return false
	}
	n := 0
	for _, fn := range c.P.RepoFuncs(pkgAuth) {
		if fnPkgPath(fn) != pkgAuth || fn.Name() != "Authenticate" || fn.Signature.Recv() == nil || fn.Blocks == nil {
			continue
		}
		if strings.HasSuffix(fn.Signature.Recv().Type().String(), "AuthManager") {
			continue // the manager itself: its list is guarded by the lock (R08.h, C14)
		}
		n++
		c.analysed(fn)
		key := fnName(fn) + "/read-only"
		bad := ""
		seen := map[*ssa.Function]bool{}
		var scan func(f *ssa.Function, recv *ssa.Parameter, depth int)
		scan = func(f *ssa.Function, recv *ssa.Parameter, depth int) {
			if seen[f] || depth > 4 || f.Blocks == nil || recv == nil {
				return
			}
			seen[f] = true
			fromRecv := func(v ssa.Value) bool {
				// an address or value reached from the receiver through field selections/loads
				for d := 0; d < 6 && v != nil; d++ {
					switch x := v.(type) {
					case *ssa.Parameter:
						return x == recv
					case *ssa.FieldAddr:
						v = x.X
					case *ssa.UnOp:
						v = x.X
					case *ssa.IndexAddr:
						v = x.X
					default:
						return false
					}
				}
				return false
			}
			allInstrs(f, func(ins ssa.Instruction) {
				switch x := ins.(type) {
				case *ssa.Store:
					if fromRecv(x.Addr) {
						bad = fmt.Sprintf("%s stores into its authenticator at %s", fnName(f), c.P.instrPos(x))
					}
				case *ssa.MapUpdate:
					if fromRecv(x.Map) {
						bad = fmt.Sprintf("%s updates a map of its authenticator at %s", fnName(f), c.P.instrPos(x))
					}
				case ssa.CallInstruction:
					cc := x.Common()
					if cc.IsInvoke() {
						if fromRecv(cc.Value) && mutating(cc.Method.Name()) {
							bad = fmt.Sprintf("%s calls %s on a value kept in the authenticator at %s: that state is shared by all connections authenticating at the same time", fnName(f), cc.Method.Name(), c.P.instrPos(ins))
						}
						return
					}
					cal := staticCallee(cc)
					if cal == nil || len(cc.Args) == 0 {
						return
					}
					if cal.Signature.Recv() != nil && fromRecv(cc.Args[0]) {
						if inRepo(cal) && len(cal.Params) > 0 {
							// a method of the authenticator itself (or of an object it holds)
							scan(cal, cal.Params[0], depth+1)
						} else if mutating(cal.Name()) {
							if _, isPtr := cal.Signature.Recv().Type().Underlying().(*types.Pointer); isPtr {
								bad = fmt.Sprintf("%s calls %s on a value kept in the authenticator at %s", fnName(f), fnName(cal), c.P.instrPos(ins))
							}
						}
					}
				}
			})
		}
		scan(fn, fn.Params[0], 0)
		c.check(bad == "", rid, key, c.P.pos(fn.Pos()), "the authenticator is only read while authenticating", bad)
	}
	c.count("authenticator-implementations", n)
	c.floor("authenticator-implementations", 2)
}

// caPoolProvenance: v is a pool created by x509.NewCertPool() in this call chain (directly, or
// as the result of repository helpers every pool-returning path of which creates it that way);
// okAppend: the configured CA bytes (ConfigTLSCACert()#0) are appended to it; extra: anything
// else is added (AddCert, bytes of another origin).
func caPoolProvenance(v ssa.Value, depth int) (fresh, okAppend, extra bool, why string) {
	if v == nil || depth > 3 {
		return false, false, false, ""
	}
	switch x := v.(type) {
	case *ssa.Extract:
		if x.Index != 0 {
			return false, false, false, ""
		}
		return caPoolProvenance(x.Tuple, depth)
	case *ssa.Call:
		n := calleeName(x.Common())
		if n == "crypto/x509.NewCertPool" {
			okA, ex := poolAdditions(x, depth)
			return true, okA, ex, ""
		}
		h := staticCallee(x.Common())
		if h == nil || !inRepo(h) || h.Blocks == nil {
			return false, false, false, " (obtained from " + n + ")"
		}
		any := false
		fresh, okAppend = true, true
		for _, r := range returnsOf(h) {
			if len(r.Results) == 0 {
				continue
			}
			rv := strip(retOperand(r, 0))
			if cst, isC := rv.(*ssa.Const); isC && cst.IsNil() {
				continue
			}
			any = true
			f, a, e, w := caPoolProvenance(rv, depth+1)
			if !f {
				return false, false, false, w
			}
			okAppend = okAppend && a
			extra = extra || e
		}
		if !any {
			return false, false, false, ""
		}
		// additions made by the caller to the returned pool
		okA2, ex2 := poolAdditions(v, depth)
		return true, okAppend || okA2, extra || ex2, ""
	case *ssa.Phi:
		fresh, okAppend = true, true
		for _, e := range x.Edges {
			f, a, ex, w := caPoolProvenance(strip(e), depth+1)
			if !f {
				return false, false, false, w
			}
			okAppend = okAppend && a
			extra = extra || ex
		}
		return fresh, okAppend, extra, ""
	}
	return false, false, false, ""
}

// poolAdditions: what is added to the pool value v by its users (and by repository helpers it
// is handed to).
func poolAdditions(v ssa.Value, depth int) (okAppend, extra bool) {
	if v.Referrers() == nil || depth > 3 {
		return false, false
	}
	for _, r := range *v.Referrers() {
		if ex, ok := r.(*ssa.Extract); ok && ex.Index == 0 {
			a, e := poolAdditions(ex, depth)
			okAppend, extra = okAppend || a, extra || e
			continue
		}
		call, ok := r.(*ssa.Call)
		if !ok {
			continue
		}
		switch calleeName(call.Common()) {
		case "(*crypto/x509.CertPool).AppendCertsFromPEM":
			src := strip(call.Common().Args[1])
			if ex, ok := src.(*ssa.Extract); ok && ex.Index == 0 {
				if cl, ok := ex.Tuple.(*ssa.Call); ok && strings.HasSuffix(calleeName(cl.Common()), "ConfigTLSCACert") {
					okAppend = true
					continue
				}
			}
			extra = true
		case "(*crypto/x509.CertPool).AddCert", "(*crypto/x509.CertPool).AddCertWithConstraint":
			extra = true
		default:
			if h := staticCallee(call.Common()); h != nil && inRepo(h) && h.Blocks != nil {
				for i, a := range call.Common().Args {
					if strip(a) == v && i < len(h.Params) {
						a2, e2 := poolAdditions(h.Params[i], depth+1)
						okAppend, extra = okAppend || a2, extra || e2
					}
				}
			}
		}
	}
	return okAppend, extra
}

// isExactEqualityHelper: func(a, b string|[]byte) bool whose every return is a == b or
// subtle.ConstantTimeCompare(bytes of a, bytes of b) == 1 (no truncation, padding, folding).
func isExactEqualityHelper(h *ssa.Function) bool {
	if h == nil || h.Blocks == nil || !inRepo(h) || len(h.Params) != 2 || h.Signature.Results().Len() != 1 {
		return false
	}
	isParam := func(v ssa.Value, k int) bool {
		v = strip(v)
		if cv, ok := v.(*ssa.Convert); ok {
			v = strip(cv.X)
		}
		return v == ssa.Value(h.Params[k])
	}
	rets := returnsOf(h)
	if len(rets) == 0 {
		return false
	}
	for _, r := range rets {
		bo, ok := strip(r.Results[0]).(*ssa.BinOp)
		if !ok || bo.Op != token.EQL {
			return false
		}
		if (isParam(bo.X, 0) && isParam(bo.Y, 1)) || (isParam(bo.X, 1) && isParam(bo.Y, 0)) {
			continue
		}
		call, isCall := strip(bo.X).(*ssa.Call)
		one, isOne := constInt(bo.Y)
		if !isCall || !isOne || one != 1 || calleeName(call.Common()) != "crypto/subtle.ConstantTimeCompare" {
			return false
		}
		a := call.Common().Args
		if !((isParam(a[0], 0) && isParam(a[1], 1)) || (isParam(a[0], 1) && isParam(a[1], 0))) {
			return false
		}
	}
	// nothing else happens in it
	clean := true
	allInstrs(h, func(ins ssa.Instruction) {
		if c, ok := ins.(*ssa.Call); ok && calleeName(c.Common()) != "crypto/subtle.ConstantTimeCompare" {
			clean = false
		}
	})
	return clean
}

// ruleCertificateSuccess: an authenticator that reads the TLS connection state says yes only
// for the configured subject. A session that was resumed, a chain that verified, a certificate
// that is merely present are not the comparison.
func ruleCertificateSuccess(c *Ctx, rid string) {
	c.rule(rid, "in every Authenticator of package auth that reads conn.TLSConnectionState(): each path to a `true` result crosses the equal edge of an exact comparison between a certificate's Subject.CommonName and a field of the receiver, or the result is that comparison itself")
	n := 0
	isCNCompare := func(x, y ssa.Value, recv ssa.Value) bool {
		for _, pr := range [][2]ssa.Value{{x, y}, {y, x}} {
			_, f, _, ok := fieldOf(strip(pr[0]))
			if !ok || f != "CommonName" {
				continue
			}
			if _, _, base, ok := fieldOf(strip(pr[1])); ok && strip(base) == recv {
				return true
			}
		}
		return false
	}
	for _, fn := range c.P.RepoFuncs(pkgAuth) {
		if fn.Name() != "Authenticate" || fn.Signature.Recv() == nil || fnName(fn) == "(*auth.AuthManager).Authenticate" {
			continue
		}
		reads := false
		allInstrs(fn, func(ins ssa.Instruction) {
			if call, ok := ins.(*ssa.Call); ok && call.Common().IsInvoke() && call.Common().Method.Name() == "TLSConnectionState" {
				reads = true
			}
		})
		if !reads {
			continue
		}
		n++
		c.analysed(fn)
		key := fnName(fn) + "/true-only-for-the-subject"
		recv := ssa.Value(fn.Params[0])
		type st struct{ Done bool }
		a := &Auto[st]{Fn: fn, Init: st{},
			Step: func(s st, ins ssa.Instruction, fail func(string)) []st {
				if r, ok := ins.(*ssa.Return); ok && len(r.Results) >= 1 {
					res := retOperand(r, 0)
					if b, isC := constBool(res); isC {
						if b && !s.Done {
							fail("the authenticator returns true on a path that has not compared the certificate's common name with the configured one")
						}
					} else if bo, isBO := strip(res).(*ssa.BinOp); isBO && bo.Op == token.EQL && isCNCompare(bo.X, bo.Y, recv) {
						// the result is the comparison
					} else if !s.Done {
						fail("the authenticator's result on this path is neither a constant nor the common-name comparison: not modelled")
					}
				}
				return []st{s}
			},
			Edge: func(s st, b *ssa.BasicBlock, idx int) (st, bool) {
				for _, at := range edgeOnly(b, idx) {
					if at.Kind == "eq" && at.Pos && isCNCompare(at.X, at.Y, recv) {
						s.Done = true
					}
				}
				return s, true
			}}
		res := a.Run()
		if len(res.Errs) == 0 {
			c.ok(rid, key, c.P.pos(fn.Pos()), "every path to true crosses the equal edge of the common-name comparison")
		}
		for i, e := range res.Errs {
			c.bad(rid, fmt.Sprintf("%s/path#%d", key, i), c.P.instrPos(e.Ins), e.Msg, e.witness(c.P)...)
		}
	}
	c.count("certificate-authenticators", n)
	c.floor("certificate-authenticators", 1)
}

// ruleManagerConsultsAll: the manager's yes is the conjunction of its authenticators. A yes
// that is reachable without running the loop over the list (a memo of credentials seen before,
// a fast path), or from inside the loop (the first authenticator that agrees), is a yes some
// authenticator — the certificate check of this very connection — was never asked for.
func ruleManagerConsultsAll(c *Ctx, rid string) {
	c.rule(rid, "in AuthManager.Authenticate every return whose result can be true lies outside the loop over the authenticator list, is reachable from the entry only through that loop's header, and is reached from the loop only through the exit of the header (the list exhausted), never from an exit inside the loop body")
	mgr := c.P.Method(pkgAuth, "AuthManager", "Authenticate")
	if !c.anchor(rid, mgr, "auth.(*AuthManager).Authenticate") {
		return
	}
	c.analysed(mgr)
	var inv *ssa.Call
	allInstrs(mgr, func(ins ssa.Instruction) {
		if call, ok := ins.(*ssa.Call); ok && call.Common().IsInvoke() && call.Common().Method.Name() == "Authenticate" {
			inv = call
		}
	})
	key := "AuthManager.Authenticate/consults-all"
	if inv == nil {
		c.undecided(rid, key, c.P.pos(mgr.Pos()), "no call of an authenticator's Authenticate in the manager: the conjunction is not in a form the rule reads")
		return
	}
	var loop *Loop
	for _, l := range naturalLoops(mgr) {
		if l.Blocks[inv.Block()] && (loop == nil || len(l.Blocks) < len(loop.Blocks)) {
			loop = l
		}
	}
	if loop == nil {
		c.undecided(rid, key, c.P.instrPos(inv), "the authenticators are not consulted in a loop over the list: not modelled")
		return
	}
	// the list the loop ranges over (the interface value invoked is an element of it)
	var ranged ssa.Value
	if ld, ok := strip(inv.Call.Value).(*ssa.UnOp); ok && ld.Op == token.MUL {
		if ia, ok := ld.X.(*ssa.IndexAddr); ok {
			ranged = strip(ia.X)
		}
	}
	reachAvoidingHeader := func(from []*ssa.BasicBlock) map[*ssa.BasicBlock]bool {
		seen := map[*ssa.BasicBlock]bool{}
		st := append([]*ssa.BasicBlock{}, from...)
		for len(st) > 0 {
			x := st[len(st)-1]
			st = st[:len(st)-1]
			if seen[x] || x == loop.Header {
				continue
			}
			seen[x] = true
			st = append(st, x.Succs...)
		}
		return seen
	}
	fromEntry := reachAvoidingHeader([]*ssa.BasicBlock{mgr.Blocks[0]})
	var bodyExits []*ssa.BasicBlock
	for b := range loop.Blocks {
		if b == loop.Header {
			continue
		}
		for _, s := range b.Succs {
			if !loop.Blocks[s] {
				bodyExits = append(bodyExits, s)
			}
		}
	}
	fromBody := reachAvoidingHeader(bodyExits)
	var bad []string
	for _, r := range returnsOf(mgr) {
		if r.Block() == mgr.Recover || len(r.Results) == 0 {
			continue
		}
		if b, isC := constBool(retOperand(r, 0)); isC && !b {
			continue
		}
		switch {
		case loop.Blocks[r.Block()]:
			bad = append(bad, fmt.Sprintf("%s: a result that can be true is returned from inside the loop over the authenticators", c.P.instrPos(r)))
		case fromEntry[r.Block()] && emptyListFact(factsAt(r.Block()), mgr.Params[0], ranged):
			// nothing to ask: the list is empty on this path
		case fromEntry[r.Block()]:
			bad = append(bad, fmt.Sprintf("%s: a result that can be true is reachable without entering the loop over the authenticators", c.P.instrPos(r)))
		case fromBody[r.Block()]:
			bad = append(bad, fmt.Sprintf("%s: a result that can be true is reachable from an exit inside the loop body (before the list is exhausted)", c.P.instrPos(r)))
		}
	}
	sort.Strings(bad)
	if len(bad) > 0 {
		c.bad(rid, key, c.P.instrPos(inv), "the manager can say yes without having asked every authenticator", bad...)
		return
	}
	c.ok(rid, key, c.P.instrPos(inv), "every result that can be true follows the exhaustion of the authenticator list")
}

// emptyListFact: the facts say that len(recv.<slice field>) == 0.
func emptyListFact(facts []Atom, recv ssa.Value, ranged ssa.Value) bool {
	for _, at := range facts {
		if !(at.Kind == "eq" && at.Pos) && !(at.Kind == "lt" && !at.Pos) && !(at.Kind == "le" && at.Pos) {
			continue
		}
		for _, pr := range [][2]ssa.Value{{at.X, at.Y}, {at.Y, at.X}} {
			call, ok := pr[0].(*ssa.Call)
			if !ok {
				continue
			}
			b, isB := call.Call.Value.(*ssa.Builtin)
			if !isB || b.Name() != "len" || len(call.Call.Args) != 1 {
				continue
			}
			if k, isK := constInt(pr[1]); !isK || k != 0 {
				continue
			}
			if at.Kind == "lt" && pr[0] != at.Y { // !(0 < len)
				continue
			}
			if at.Kind == "le" && pr[0] != at.X { // len <= 0
				continue
			}
			if _, _, base, ok := fieldOf(strip(call.Call.Args[0])); ok && strip(base) == recv {
				return true
			}
			if ranged != nil && strip(call.Call.Args[0]) == ranged {
				return true // the very list the loop then ranges over
			}
		}
	}
	return false
}

// grownCopyOf: v is make([]T, len(old)+1) (possibly resliced) into which old is copied in fn.
func grownCopyOf(fn *ssa.Function, v ssa.Value) bool {
	for k := 0; k < 3; k++ {
		if sl, ok := v.(*ssa.Slice); ok {
			v = strip(sl.X)
		}
	}
	mk, ok := v.(*ssa.MakeSlice)
	if !ok {
		return false
	}
	bo, ok := strip(mk.Len).(*ssa.BinOp)
	if !ok || bo.Op != token.ADD {
		return false
	}
	one, isOne := constInt(bo.Y)
	ln, isLen := strip(bo.X).(*ssa.Call)
	if !isOne || one != 1 || !isLen {
		return false
	}
	if b, isB := ln.Call.Value.(*ssa.Builtin); !isB || b.Name() != "len" {
		return false
	}
	old := strip(ln.Call.Args[0])
	copied := false
	allInstrs(fn, func(ins ssa.Instruction) {
		if call, ok := ins.(*ssa.Call); ok {
			if b, isB := call.Call.Value.(*ssa.Builtin); isB && b.Name() == "copy" && len(call.Call.Args) == 2 {
				dst := strip(call.Call.Args[0])
				for k := 0; k < 3; k++ {
					if sl, ok := dst.(*ssa.Slice); ok {
						dst = strip(sl.X)
					}
				}
				if dst == ssa.Value(mk) && strip(call.Call.Args[1]) == old {
					copied = true
				}
			}
		}
	})
	return copied
}

// connArg: the connection the executor call (or the wrapper call standing for it) is given.
func (d *dispatchInfo) connArg() ssa.Value {
	for _, a := range d.Call.Common().Args {
		if strings.HasSuffix(a.Type().String(), "redis.Conn") {
			return a
		}
	}
	return d.Call.Common().Args[0]
}

// onlyLooksAtAddress: the call hands the socket to a repository helper that does nothing with it
// but test it against nil and ask for its addresses (peerAddrString(conn) for a log line).
func onlyLooksAtAddress(call *ssa.Call, sock ssa.Value) bool {
	h := staticCallee(call.Common())
	if h == nil || !inRepo(h) || h.Blocks == nil {
		return false
	}
	for i, a := range call.Common().Args {
		if strip(a) != sock && a != sock {
			continue
		}
		if i >= len(h.Params) || h.Params[i].Referrers() == nil {
			return false
		}
		for _, r := range *h.Params[i].Referrers() {
			switch x := r.(type) {
			case *ssa.DebugRef:
			case *ssa.BinOp:
				if x.Op != token.EQL && x.Op != token.NEQ {
					return false
				}
			case *ssa.Call:
				n := calleeName(x.Common())
				if !strings.HasSuffix(n, ".RemoteAddr") && !strings.HasSuffix(n, ".LocalAddr") {
					return false
				}
			default:
				return false
			}
		}
	}
	return true
}
