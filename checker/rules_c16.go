package main

import (
	"fmt"
	"sort"
	"strings"

	"golang.org/x/tools/go/ssa"
)

func init() {
	register(&propInfo{ID: "C16", Level: "other", Run: runC16,
		Explanation: "Narrow claim — one structural necessary condition of linearizability: R16.a a command whose executor can make more than one handler call (derived commands: read-modify-write, multi-key loops) must run inside a critical section common to all connections, otherwise two clients interleave between the calls; R16.b an example-store handler whose path performs more than one operation on the shared record map, or reads a record and then mutates its contents, must do so under a store-wide lock. The unchanged tree has no such lock anywhere (the property text says so): each existing instance is a recorded known finding keyed by command / handler path signature, so that a NEW non-atomic composite (or the removal of a lock once one exists) is still reported. Sufficiency (actual linearizability of histories) is not decided."})
}

func isHandlerIface(t string) bool {
	return strings.HasSuffix(t, "redis.UserCommandHandler") || strings.HasSuffix(t, "redis.SystemCommandHandler") || strings.HasSuffix(t, "redis.AuthCommandHandler")
}

// handlerCalls summarises the maximal sequence length (capped at 2) of handler-interface calls on
// any path of fn, with the method names seen.
type hcSummary struct {
	Max   int
	Names map[string]bool
}

func handlerCalls(p *Program, fn *ssa.Function, execByName map[string]*ssa.Function, memo map[*ssa.Function]*hcSummary, depth int) *hcSummary {
	if s, ok := memo[fn]; ok {
		return s
	}
	s := &hcSummary{Names: map[string]bool{}}
	memo[fn] = s
	if fn.Blocks == nil || depth > 8 {
		return s
	}
	inLoop := map[*ssa.BasicBlock]bool{}
	for _, l := range naturalLoops(fn) {
		for b := range l.Blocks {
			inLoop[b] = true
		}
	}
	weight := func(ins ssa.Instruction) int {
		cc := callCommon(ins)
		if cc == nil {
			return 0
		}
		if _, isGo := ins.(*ssa.Go); isGo {
			return 0
		}
		w := 0
		if cc.IsInvoke() && isHandlerIface(cc.Value.Type().String()) {
			w = 1
			s.Names[cc.Method.Name()] = true
		} else if callee := staticCallee(cc); callee != nil && inFramework(callee) {
			if p.isDispatcherCall(cc) && len(cc.Args) >= 3 {
				if name, ok := constString(cc.Args[2]); ok {
					if ef := execByName[strings.ToUpper(name)]; ef != nil {
						sub := handlerCalls(p, ef, execByName, memo, depth+1)
						w = sub.Max
						for n := range sub.Names {
							s.Names[n] = true
						}
					}
				}
			} else {
				sub := handlerCalls(p, callee, execByName, memo, depth+1)
				w = sub.Max
				for n := range sub.Names {
					s.Names[n] = true
				}
			}
		}
		if w > 0 && inLoop[ins.Block()] {
			w = 2
		}
		return w
	}
	a := &Auto[int8]{Fn: fn, Init: 0,
		Step: func(st int8, ins ssa.Instruction, fail func(string)) []int8 {
			w := weight(ins)
			n := int(st) + w
			if n > 2 {
				n = 2
			}
			if n > s.Max {
				s.Max = n
			}
			return []int8{int8(n)}
		}}
	a.Run()
	return s
}

func runC16(c *Ctx) {
	rid := "R16.a"
	c.rule(rid, "every executor that can make two or more handler-interface calls on one path (directly, through framework helpers, through re-entering the dispatcher, or one call inside a loop) runs them inside a critical section common to all connections (an exclusive server-wide mutex held from the first to the last call)")
	execs, _ := c.P.executors()
	byName := map[string]*ssa.Function{}
	for _, e := range execs {
		byName[e.Name] = e.Fn
	}
	memo := map[*ssa.Function]*hcSummary{}
	m := buildSyncModel(c)
	n := 0
	for _, e := range execs {
		s := handlerCalls(c.P, e.Fn, byName, memo, 0)
		c.analysed(e.Fn)
		key := "executor:" + e.Name
		if s.Max < 2 {
			c.ok(rid, key, c.P.pos(e.Fn.Pos()), fmt.Sprintf("at most %d handler call per request", s.Max))
			continue
		}
		n++
		var names []string
		for k := range s.Names {
			names = append(names, k)
		}
		sort.Strings(names)
		// is an exclusive lock held at every handler call of this executor's own body?
		locked := true
		any := false
		for _, f := range closuresOf(e.Fn) {
			allInstrs(f, func(ins ssa.Instruction) {
				cc := callCommon(ins)
				if cc == nil || !cc.IsInvoke() || !isHandlerIface(cc.Value.Type().String()) {
					return
				}
				any = true
				ex := false
				for k := range m.locks.names {
					if m.lockAt[ins].mode(k) == 2 {
						ex = true
					}
				}
				if !ex {
					locked = false
				}
			})
		}
		if any && locked {
			c.ok(rid, key, c.P.pos(e.Fn.Pos()), "several handler calls, all under an exclusive lock")
		} else {
			c.bad(rid, key, c.P.pos(e.Fn.Pos()), fmt.Sprintf("the command makes several handler calls (%s) with no lock held across them: two clients can interleave between the calls (lost update, two winners, partial multi-key effect)", strings.Join(names, ", ")))
		}
	}
	c.count("executors", len(execs))
	c.floor("executors", 60)
	c.count("multi-call-executors", n)
	ruleStoreAtomicity(c)
	// a reply serialized into storage shared between connections can be overwritten by another
	// client's reply before it is written: the value a client reads is then one nobody stored
	ruleReplyBufferLocal(c, "R16.c")
	// a history is judged on the commands the clients sent: the arguments executed are owned copies of them
	ruleOwnedBytes(c, "R16.f")
	// options built in a variable shared by all connections: another client's command can
	// replace them between their assignment and the handler call
	ruleNoSharedCapture(c, "R16.d")
	// MSETNX is all-or-nothing only if "the key is absent" and "the key holds an empty value" are told apart
	ruleIsNilMeansNull(c, "R16.e")
	rulePayloadStores(c, "R16.e")
	c.assume("each single handler call is atomic only if the handler makes it so (R16.b checks the bundled example store)")
}

// ---------------------------------------------------------------------------------------
// R16.b example store

type opSig []string

// storeOps computes the set of operation signatures (sequences of shared-map operations and
// record-content mutations) over the paths of fn.
func storeOps(p *Program, fn *ssa.Function, memo map[*ssa.Function][]string, depth int) []string {
	if s, ok := memo[fn]; ok {
		return s
	}
	memo[fn] = []string{""}
	if fn.Blocks == nil || depth > 6 {
		return memo[fn]
	}
	tokOf := func(ins ssa.Instruction) [][]string {
		switch x := ins.(type) {
		case *ssa.Call:
			cc := x.Common()
			n := calleeName(cc)
			if strings.HasPrefix(n, "(*sync.Map).") && len(cc.Args) > 0 {
				owner := "?"
				if fa, ok := cc.Args[0].(*ssa.FieldAddr); ok {
					owner = typeName(deref(fa.X.Type()))
				}
				switch {
				case strings.HasSuffix(owner, "Records"):
					owner = "R"
				case strings.HasSuffix(owner, "Databases"):
					owner = "D"
				case owner == "redis.Conn":
					return nil // per-connection user data
				}
				op := strings.TrimPrefix(n, "(*sync.Map).")
				// optimistic update: the CAS compares with the value a Load of this map produced
				if (op == "CompareAndDelete" || op == "CompareAndSwap") && len(cc.Args) >= 3 && casOldIsLoaded(p, x, cc.Args[2], 0) {
					op += "(loaded)"
				}
				return [][]string{{owner + "." + op}}
			}
			if callee := staticCallee(cc); callee != nil && strings.HasPrefix(fnPkgPath(callee), pkgExSrv) {
				var out [][]string
				for _, s := range storeOps(p, callee, memo, depth+1) {
					if s == "" {
						out = append(out, nil)
					} else {
						out = append(out, strings.Split(s, " "))
					}
				}
				return out
			}
		case *ssa.Store:
			if owner, f, base, ok := fieldOf(x.Addr); ok && strings.HasPrefix(owner, "server.") {
				if _, isAlloc := strip(base).(*ssa.Alloc); !isAlloc {
					return [][]string{{"mutate(" + strings.TrimPrefix(owner, "server.") + "." + f + ")"}}
				}
			}
		case *ssa.MapUpdate:
			if owner, f, _, ok := fieldOf(x.Map); ok && strings.HasPrefix(owner, "server.") {
				return [][]string{{"mutate(" + strings.TrimPrefix(owner, "server.") + "." + f + ")"}}
			}
		}
		return nil
	}
	sigs := map[string]bool{}
	type edge struct{ a, b *ssa.BasicBlock }
	count := 0
	// annotate a step with the lock acquisitions held when it executes: step@acq;acq
	annotate := func(tok string, held []string, site string) string {
		var acqs []string
		if i := strings.Index(tok, "@"); i >= 0 {
			// acquisitions made inside the callee: made distinct per call site
			for _, a := range strings.Split(tok[i+1:], ";") {
				acqs = append(acqs, a+"~"+site)
			}
			tok = tok[:i]
		}
		acqs = append(acqs, held...)
		if len(acqs) == 0 {
			return tok
		}
		sort.Strings(acqs)
		return tok + "@" + strings.Join(acqs, ";")
	}
	var walk func(b *ssa.BasicBlock, cur []string, used map[edge]bool, held []string)
	walk = func(b *ssa.BasicBlock, cur []string, used map[edge]bool, held []string) {
		if count > 3000 {
			return
		}
		curs := [][]string{cur}
		for _, ins := range b.Instrs {
			if call, ok := ins.(*ssa.Call); ok {
				if name, kind := lockEvent(call.Common()); kind != "" {
					switch kind {
					case "lock", "rlock":
						pre := "W:"
						if kind == "rlock" {
							pre = "R:"
						}
						held = append(append([]string{}, held...), pre+name+"#"+p.instrPos(call))
					case "unlock", "runlock":
						for i := len(held) - 1; i >= 0; i-- {
							if strings.HasPrefix(held[i][2:], name+"#") {
								held = append(append([]string{}, held[:i]...), held[i+1:]...)
								break
							}
						}
					}
					continue
				}
			}
			alts := tokOf(ins)
			if len(alts) > 0 {
				site := p.instrPos(ins)
				for ai, alt := range alts {
					na := make([]string, len(alt))
					for k, t := range alt {
						na[k] = annotate(t, held, site)
					}
					alts[ai] = na
				}
				var next [][]string
				for _, c0 := range curs {
					for _, alt := range alts {
						n := append(append([]string{}, c0...), alt...)
						if len(n) > 10 {
							n = n[:10]
						}
						next = append(next, n)
					}
				}
				if len(next) > 24 {
					next = next[:24]
				}
				curs = next
			}
			if _, ok := ins.(*ssa.Return); ok {
				for _, c0 := range curs {
					count++
					sigs[strings.Join(collapse(c0), " ")] = true
				}
				return
			}
		}
		for _, s := range b.Succs {
			e := edge{b, s}
			if used[e] {
				continue
			}
			used[e] = true
			for _, c0 := range curs {
				walk(s, c0, used, held)
			}
			delete(used, e)
		}
	}
	walk(fn.Blocks[0], nil, map[edge]bool{}, nil)
	var out []string
	for s := range sigs {
		out = append(out, s)
	}
	sort.Strings(out)
	if len(out) > 40 {
		out = out[:40]
	}
	memo[fn] = out
	return out
}

func collapse(s []string) []string {
	var out []string
	for _, x := range s {
		if len(out) > 0 && out[len(out)-1] == x {
			continue
		}
		out = append(out, x)
	}
	// collapse immediate repetitions of a pair (loop bodies taken twice)
	for changed := true; changed; {
		changed = false
		for i := 0; i+3 < len(out); i++ {
			if out[i] == out[i+2] && out[i+1] == out[i+3] {
				out = append(out[:i+2], out[i+4:]...)
				changed = true
				break
			}
		}
	}
	return out
}

func ruleStoreAtomicity(c *Ctx) {
	rid := "R16.b"
	c.rule(rid, "example store: for every command handler method, every path signature (sequence of operations on the shared record map R / database map D and of mutations of record contents) with more than one such step must execute under a store-wide lock; single-step paths (one Load, one Store) are atomic by sync.Map")
	memo := map[*ssa.Function][]string{}
	hasLock := false
	nh, nsig, nLocked := 0, 0, 0
	for _, fn := range c.P.RepoFuncs(pkgExSrv) {
		allInstrs(fn, func(ins ssa.Instruction) {
			if cc := callCommon(ins); cc != nil {
				if _, k := lockEvent(cc); k != "" {
					hasLock = true
				}
			}
		})
	}
	for _, fn := range c.P.RepoFuncs(pkgExSrv) {
		if fn.Signature.Recv() == nil || fn.Signature.Params().Len() < 1 || !strings.HasSuffix(fn.Signature.Params().At(0).Type().String(), "redis.Conn") {
			continue
		}
		if fn.Object() == nil || !fn.Object().Exported() || !strings.HasSuffix(fn.Signature.Recv().Type().String(), "server.Server") {
			continue
		}
		nh++
		c.analysed(fn)
		multi := map[string]bool{}
		for _, sig := range storeOps(c.P, fn, memo, 0) {
			var steps []string
			var acqs []map[string]bool
			if sig != "" {
				for _, t := range strings.Split(sig, " ") {
					name, held := t, map[string]bool{}
					if i := strings.Index(t, "@"); i >= 0 {
						name = t[:i]
						for _, a := range strings.Split(t[i+1:], ";") {
							held[a] = true
						}
					}
					if strings.HasPrefix(name, "D.") {
						continue
					}
					// a mutation of state that is not the record store (statistics, counters) made
					// under a write lock is a guarded step of its own, not part of the command's
					// critical section over the store
					if strings.HasPrefix(name, "mutate(") && !storeState(name) {
						guarded := false
						for a := range held {
							if strings.HasPrefix(a, "W:") {
								guarded = true
							}
						}
						if guarded {
							continue
						}
					}
					if len(steps) > 0 && steps[len(steps)-1] == name {
						// repeated step: both executions must be covered
						for a := range acqs[len(acqs)-1] {
							if !held[a] {
								delete(acqs[len(acqs)-1], a)
							}
						}
						continue
					}
					steps = append(steps, name)
					acqs = append(acqs, held)
				}
			}
			if len(collapse(steps)) < 2 {
				continue
			}
			// load, then compare-and-delete/swap against what was loaded: linearizes at the CAS
			if cs := collapse(steps); len(cs) == 2 && strings.HasSuffix(cs[0], ".Load") && strings.HasSuffix(cs[1], "(loaded)") && cs[0][:2] == cs[1][:2] {
				nLocked++
				continue
			}
			// one acquisition held over every step (a write lock as soon as a step writes)
			writes := false
			for _, st := range steps {
				if strings.HasPrefix(st, "mutate(") || strings.HasSuffix(st, ".Store") || strings.HasSuffix(st, ".Delete") || strings.Contains(st, "Swap") || strings.Contains(st, "LoadOrStore") || strings.Contains(st, "LoadAndDelete") || strings.Contains(st, "CompareAnd") {
					writes = true
				}
			}
			atomic := false
			for a := range acqs[0] {
				if writes && !strings.HasPrefix(a, "W:") {
					continue
				}
				all := true
				for _, h := range acqs[1:] {
					if !h[a] {
						all = false
					}
				}
				if all {
					atomic = true
				}
			}
			if atomic {
				nLocked++
				continue
			}
			multi["["+strings.Join(collapse(steps), " ")+"]"] = true
		}
		if len(multi) == 0 {
			c.ok(rid, "ex."+fn.Name(), c.P.pos(fn.Pos()), "every path makes at most one step on shared store state")
			continue
		}
		nsig += len(multi)
		// one obligation per handler and multi-step path: "this sequence of steps of this handler
		// is not atomic". A path is keyed by its steps with record contents named by container
		// type only (an index or a counter added beside a container's data is the same step), so
		// that a known finding stays the same finding under such additions, while a path with
		// other steps — a Delete opened before the Store of a plain SET — is a different
		// violation of the same handler and is reported as such.
		_ = hasLock
		keyed := map[string][]string{}
		for sig := range multi {
			k := keySignature(sig)
			keyed[k] = append(keyed[k], sig)
		}
		for _, k := range sortedKeys(keyed) {
			sort.Strings(keyed[k])
			c.bad(rid, fmt.Sprintf("ex.%s %s", fn.Name(), k), c.P.pos(fn.Pos()), "multi-step path(s) "+strings.Join(keyed[k], "")+" on shared store state that no single lock acquisition covers from the first step to the last: concurrent clients can interleave between the steps (check-then-act, lost update, or a data race on record contents)")
		}
		// database creation: check-then-create
	}
	c.count("example-handlers", nh)
	c.floor("example-handlers", 24)
	c.count("multi-step-handler-paths", nsig)
	c.count("multi-step-paths-under-one-lock", nLocked)
}

// keySignature: "[R.Load mutate(Set.members) mutate(Set.index)]" -> "[R.Load mutate(Set)]".
func keySignature(sig string) string {
	var out []string
	for _, st := range strings.Fields(strings.Trim(sig, "[]")) {
		if strings.HasPrefix(st, "mutate(") {
			if i := strings.Index(st, "."); i > 0 {
				st = st[:i] + ")"
			}
		}
		if len(out) > 0 && out[len(out)-1] == st {
			continue
		}
		out = append(out, st)
	}
	return "[" + strings.Join(collapse(out), " ") + "]"
}

// storeState: the mutated field belongs to the record store (records and their containers).
func storeState(step string) bool {
	for _, t := range []string{"Record.", "Records.", "Database.", "Databases.", "List.", "Set.", "ZSet.", "ZSetMember.", "Hash.", "String."} {
		if strings.HasPrefix(step, "mutate("+t) {
			return true
		}
	}
	return false
}

// casOldIsLoaded: the "old" operand of a CompareAndDelete/CompareAndSwap is a value obtained from
// a Load of a sync.Map (directly, or through helpers: a parameter whose every caller passes such
// a value; the result of a helper that loads).
func casOldIsLoaded(p *Program, at ssa.Instruction, v ssa.Value, depth int) bool {
	if depth > 3 {
		return false
	}
	v = strip(v)
	switch x := v.(type) {
	case *ssa.Extract:
		return casOldIsLoaded(p, at, x.Tuple, depth)
	case *ssa.Call:
		n := calleeName(x.Common())
		if n == "(*sync.Map).Load" || n == "(*sync.Map).LoadOrStore" {
			return true
		}
		if h := staticCallee(x.Common()); h != nil && h.Blocks != nil && inRepo(h) {
			okAll, any := true, false
			for _, r := range returnsOf(h) {
				if len(r.Results) == 0 {
					continue
				}
				res := strip(r.Results[0])
				if c, isC := res.(*ssa.Const); isC && c.IsNil() {
					continue
				}
				any = true
				if !casOldIsLoaded(p, r, res, depth+1) {
					okAll = false
				}
			}
			return any && okAll
		}
	case *ssa.TypeAssert:
		return casOldIsLoaded(p, at, x.X, depth)
	case *ssa.Phi:
		for _, e := range x.Edges {
			if c, isC := e.(*ssa.Const); isC && c.IsNil() {
				continue
			}
			if !casOldIsLoaded(p, at, e, depth+1) {
				return false
			}
		}
		return len(x.Edges) > 0
	case *ssa.Parameter:
		fn := x.Parent()
		idx := -1
		for i, q := range fn.Params {
			if q == x {
				idx = i
			}
		}
		sites := p.staticCallSites(fn)
		if len(sites) == 0 || idx < 0 {
			return false
		}
		for _, s := range sites {
			if idx >= len(s.Common().Args) || !casOldIsLoaded(p, s, s.Common().Args[idx], depth+1) {
				return false
			}
		}
		return true
	}
	return false
}
