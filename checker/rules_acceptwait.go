package main

// rules_acceptwait.go: Stop ends an accept goroutine by closing its listener — which wakes the
// goroutine only while it is blocked in Accept. A wait on a channel between two Accept calls (an
// admission semaphore, a hand-off queue) is a place where the goroutine does not notice Stop: it
// sits there holding the socket it has just accepted, outlives Stop, and serves that client
// afterwards (or never closes it). Such a wait is accepted only as one alternative of a select
// whose other alternative Stop can fire: a receive from a channel that a function reachable from
// Stop closes, a cancellation channel (Done()), or a timer.

import (
	"fmt"
	"go/token"
	"go/types"
	"sort"
	"strings"

	"golang.org/x/tools/go/ssa"
)

// chanOrigins: where a channel value comes from: "Owner.field" for a field load, "local" for a
// channel made in the function, "done" for a Done() call, "clock" for timer channels; ok is false
// when some origin is not understood.
func (p *Program) chanOrigins(v ssa.Value) (origins []string, ok bool) {
	seen := map[ssa.Value]bool{}
	ok = true
	var walk func(v ssa.Value, d int)
	walk = func(v ssa.Value, d int) {
		if d > 8 {
			ok = false
			return
		}
		if seen[v] {
			return
		}
		seen[v] = true
		if isClockChannel(v) {
			origins = append(origins, "clock")
			return
		}
		switch x := v.(type) {
		case *ssa.ChangeType:
			walk(x.X, d+1)
		case *ssa.MakeInterface:
			walk(x.X, d+1)
		case *ssa.Phi:
			for _, e := range x.Edges {
				walk(e, d+1)
			}
		case *ssa.MakeChan:
			origins = append(origins, "local")
		case *ssa.Const:
			origins = append(origins, "nil")
		case *ssa.UnOp:
			if x.Op == token.MUL {
				if owner, f, _, isF := fieldOf(x); isF {
					origins = append(origins, owner+"."+f)
					return
				}
				if al, isAl := x.X.(*ssa.Alloc); isAl {
					for _, st := range allocStores(al) {
						walk(st.Val, d+1)
					}
					return
				}
				if fv, isFV := x.X.(*ssa.FreeVar); isFV {
					if sv := freeVarSingleStore(fv); sv != nil {
						walk(sv, d+1)
						return
					}
				}
			}
			ok = false
		case *ssa.FreeVar:
			// a channel captured by value: bound at the MakeClosure
			fn := x.Parent()
			idx := -1
			for i, fv := range fn.FreeVars {
				if fv == x {
					idx = i
				}
			}
			n := 0
			if fn.Parent() != nil && idx >= 0 {
				allInstrs(fn.Parent(), func(ins ssa.Instruction) {
					if mc, isMC := ins.(*ssa.MakeClosure); isMC && mc.Fn == ssa.Value(fn) && idx < len(mc.Bindings) {
						n++
						walk(mc.Bindings[idx], d+1)
					}
				})
			}
			if n == 0 {
				ok = false
			}
		case *ssa.Parameter:
			fn := x.Parent()
			idx := -1
			for i, q := range fn.Params {
				if q == x {
					idx = i
				}
			}
			n := 0
			if idx >= 0 && (fn.Object() == nil || !fn.Object().Exported()) {
				for _, ci := range p.staticCallSites(fn) {
					if idx < len(ci.Common().Args) {
						n++
						walk(ci.Common().Args[idx], d+1)
					}
				}
			}
			if n == 0 {
				ok = false
			}
		case *ssa.Call:
			if x.Call.IsInvoke() && x.Call.Method.Name() == "Done" {
				origins = append(origins, "done")
				return
			}
			if n := calleeName(x.Common()); strings.HasSuffix(n, ".Done") {
				origins = append(origins, "done")
				return
			}
			// an accessor returning a channel field
			if cal := staticCallee(x.Common()); cal != nil && cal.Blocks != nil {
				rets := returnsOf(cal)
				if len(rets) > 0 {
					for _, r := range rets {
						if len(r.Results) == 1 {
							walk(r.Results[0], d+1)
						} else {
							ok = false
						}
					}
					return
				}
			}
			ok = false
		default:
			ok = false
		}
	}
	walk(v, 0)
	return origins, ok
}

// closedOnStop: the channel fields closed (builtin close) in functions reachable from Stop.
func (p *Program) closedOnStop() map[string]bool {
	out := map[string]bool{}
	stop := p.Method(pkgRedis, "Server", "Stop")
	if stop == nil {
		return out
	}
	for f := range p.repoReach([]*ssa.Function{stop}, inFramework) {
		if f.Blocks == nil {
			continue
		}
		allInstrs(f, func(ins ssa.Instruction) {
			cc := callCommon(ins)
			if cc == nil {
				return
			}
			if b, isB := cc.Value.(*ssa.Builtin); isB && b.Name() == "close" && len(cc.Args) == 1 {
				if os, _ := p.chanOrigins(cc.Args[0]); len(os) > 0 {
					for _, o := range os {
						out[o] = true
					}
				}
			}
		})
	}
	return out
}

func ruleAcceptLoopWaits(c *Ctx, rid string) {
	c.rule(rid, "between two Accept calls the accept goroutine waits on a channel (send, receive, blocking select; in the loop or in the framework functions it calls there) only in a select that also has a receive from a channel closed by a function reachable from Stop, from a Done() channel or from a timer: closing the listener wakes a goroutine only out of Accept")
	closed := c.P.closedOnStop()
	n := 0
	for _, al := range c.P.acceptLoops() {
		if al.Loop == nil {
			continue
		}
		n++
		c.analysed(al.Fn)
		key := fnName(al.Fn) + "/waits-in-accept-loop"
		// instructions of the loop, and whole bodies of the framework functions called from it
		var instrs []ssa.Instruction
		seenFn := map[*ssa.Function]bool{al.Fn: true}
		var addCallees func(ins ssa.Instruction, d int)
		addCallees = func(ins ssa.Instruction, d int) {
			if _, isGo := ins.(*ssa.Go); isGo || d > 4 {
				return
			}
			cc := callCommon(ins)
			if cc == nil {
				return
			}
			var cals []*ssa.Function
			if cal := staticCallee(cc); cal != nil {
				cals = append(cals, cal)
			} else if ci, isCI := ins.(ssa.CallInstruction); isCI {
				if _, isB := cc.Value.(*ssa.Builtin); !isB {
					cals = c.P.calleesAt(ci)
				}
			}
			for _, cal := range cals {
				if cal == nil || cal.Blocks == nil || !inFramework(cal) || seenFn[cal] {
					continue
				}
				seenFn[cal] = true
				allInstrs(cal, func(i2 ssa.Instruction) {
					instrs = append(instrs, i2)
					addCallees(i2, d+1)
				})
			}
		}
		for _, b := range al.Loop.sortedBlocks() {
			for _, ins := range b.Instrs {
				instrs = append(instrs, ins)
				addCallees(ins, 0)
			}
		}
		wakeable := func(ch ssa.Value) (bool, string) {
			os, ok := c.P.chanOrigins(ch)
			for _, o := range os {
				if o == "clock" || o == "done" || closed[o] {
					return true, o
				}
			}
			if !ok && len(os) == 0 {
				return false, "a channel of unknown origin"
			}
			sort.Strings(os)
			return false, strings.Join(os, ",")
		}
		var bad []string
		nwait := 0
		for _, ins := range instrs {
			switch x := ins.(type) {
			case *ssa.Send:
				nwait++
				_, o := wakeable(x.Chan)
				bad = append(bad, fmt.Sprintf("%s: unconditional send on %s", c.P.instrPos(x), o))
			case *ssa.UnOp:
				if x.Op != token.ARROW {
					continue
				}
				nwait++
				if w, o := wakeable(x.X); !w {
					bad = append(bad, fmt.Sprintf("%s: unconditional receive from %s, which nothing reachable from Stop closes", c.P.instrPos(x), o))
				}
			case *ssa.Select:
				if !x.Blocking {
					continue
				}
				nwait++
				woken := false
				var names []string
				for _, st := range x.States {
					if st.Dir == types.RecvOnly {
						w, o := wakeable(st.Chan)
						names = append(names, "<-"+o)
						if w {
							woken = true
						}
					} else {
						_, o := wakeable(st.Chan)
						names = append(names, o+"<-")
					}
				}
				if !woken {
					bad = append(bad, fmt.Sprintf("%s: blocking select over {%s} has no alternative that Stop fires (no receive from a channel closed on Stop's reach, a Done() channel or a timer)", c.P.instrPos(x), strings.Join(names, ", ")))
				}
			}
		}
		sort.Strings(bad)
		if len(bad) > 0 {
			c.bad(rid, key, c.P.instrPos(al.Accept), "the accept goroutine can wait between two Accept calls where closing its listener does not wake it: it outlives Stop holding an accepted socket", bad...)
			continue
		}
		c.ok(rid, key, c.P.instrPos(al.Accept), fmt.Sprintf("%d channel wait(s) in the loop and the %d framework function(s) it calls, each with an alternative fired by Stop", nwait, len(seenFn)-1))
	}
	c.count("accept-loops-wait-checked", n)
	c.floor("accept-loops-wait-checked", 1)
}

// selectStopCase: the facts place the program point inside the alternative of a select that
// receives from a channel closed on Stop's reach (or a Done() channel).
func (p *Program) selectStopCase(facts []Atom, closed map[string]bool) bool {
	for _, at := range facts {
		if at.Kind != "eq" || !at.Pos {
			continue
		}
		x, y := at.X, at.Y
		if _, isC := x.(*ssa.Const); isC {
			x, y = y, x
		}
		ex, isEx := x.(*ssa.Extract)
		k, isK := constInt(y)
		if !isEx || !isK || ex.Index != 0 {
			continue
		}
		sel, isSel := ex.Tuple.(*ssa.Select)
		if !isSel || k < 0 || int(k) >= len(sel.States) {
			continue
		}
		st := sel.States[k]
		if st.Dir != types.RecvOnly {
			continue
		}
		os, _ := p.chanOrigins(st.Chan)
		for _, o := range os {
			if o == "done" || closed[o] {
				return true
			}
		}
	}
	return false
}

// exitOnStopSignal: the edge is taken only after a stop signal: its facts place it in the stop
// alternative of a select, or say that a framework helper returned the boolean it returns only
// from such an alternative.
func (p *Program) exitOnStopSignal(facts []Atom) bool {
	closed := p.closedOnStop()
	if p.selectStopCase(facts, closed) {
		return true
	}
	for _, at := range facts {
		if at.Kind != "call" {
			continue
		}
		f := staticCallee(at.Call.Common())
		if f == nil || f.Blocks == nil || !inFramework(f) || f.Signature.Results().Len() != 1 {
			continue
		}
		all, n := true, 0
		for _, r := range returnsOf(f) {
			b, isB := constBool(r.Results[0])
			if !isB {
				all = false
				break
			}
			if b != at.Pos {
				continue
			}
			n++
			if !p.selectStopCase(factsAt(r.Block()), closed) {
				all = false
			}
		}
		if all && n > 0 {
			return true
		}
	}
	return false
}

// ruleNoSlotAcrossHandshake: the TLS handshake lasts as long as the (not yet authenticated) peer
// likes. A slot of a semaphore channel shared by all connections that is taken before Handshake
// and given back after it is held for that long: a handful of peers that connect and stay silent
// keep every slot, and no other client gets through the handshake. (A mutex held there is
// R14.f/R19.f.) The rule follows sends and receives on channels that are not local to the
// function, directly and through framework helpers whose body nets to an acquire or a release.
func ruleNoSlotAcrossHandshake(c *Ctx, rid string) {
	c.rule(rid, "at every call of (*tls.Conn).Handshake/HandshakeContext in the framework, on no path from the function's entry has a value been sent on a channel shared beyond the function (a semaphore slot taken) without a matching receive before the call")
	shared := func(ch ssa.Value) bool {
		os, ok := c.P.chanOrigins(ch)
		if !ok && len(os) == 0 {
			return true
		}
		for _, o := range os {
			if o != "local" && o != "nil" && o != "clock" {
				return true
			}
		}
		return false
	}
	net := map[*ssa.Function]int{}
	var netOf func(f *ssa.Function, d int) int
	netOf = func(f *ssa.Function, d int) int {
		if v, ok := net[f]; ok {
			return v
		}
		net[f] = 0
		n := 0
		if f.Blocks != nil && inFramework(f) && d < 3 {
			allInstrs(f, func(ins ssa.Instruction) {
				switch x := ins.(type) {
				case *ssa.Send:
					if shared(x.Chan) {
						n++
					}
				case *ssa.UnOp:
					if x.Op == token.ARROW && shared(x.X) {
						n--
					}
				}
			})
		}
		net[f] = n
		return n
	}
	nsites := 0
	for _, fn := range c.P.RepoFuncs(pkgRedis) {
		var hs []*ssa.Call
		allInstrs(fn, func(ins ssa.Instruction) {
			if call, ok := isCall(ins, "(*crypto/tls.Conn).Handshake", "(*crypto/tls.Conn).HandshakeContext"); ok {
				hs = append(hs, call)
			}
		})
		if len(hs) == 0 {
			continue
		}
		c.analysed(fn)
		type st struct{ Held int8 }
		a := &Auto[st]{Fn: fn, Init: st{},
			Step: func(s st, ins ssa.Instruction, fail func(string)) []st {
				switch x := ins.(type) {
				case *ssa.Send:
					if shared(x.Chan) && s.Held < 3 {
						s.Held++
					}
				case *ssa.UnOp:
					if x.Op == token.ARROW && shared(x.X) && s.Held > 0 {
						s.Held--
					}
				case *ssa.Call:
					for _, h := range hs {
						if h == x && s.Held > 0 {
							fail("the handshake runs while this goroutine holds a slot of a channel shared with other connections: peers that stall in the handshake keep the slots and no other client completes one")
						}
					}
					if f := staticCallee(x.Common()); f != nil && f.Blocks != nil && inFramework(f) {
						if k := netOf(f, 0); k > 0 && s.Held < 3 {
							s.Held++
						} else if k < 0 && s.Held > 0 {
							s.Held--
						}
					}
				}
				return []st{s}
			}}
		res := a.Run()
		for i, h := range hs {
			nsites++
			key := fmt.Sprintf("%s/handshake#%d", fnName(fn), i)
			bad := ""
			for _, e := range res.Errs {
				if e.Ins == ssa.Instruction(h) {
					bad = e.Msg
				}
			}
			c.check(bad == "", rid, key, c.P.instrPos(h), "no shared semaphore slot is held when the handshake starts", bad)
		}
	}
	c.count("handshake-sites", nsites)
	c.floor("handshake-sites", 1)
}
