package main

import (
	"fmt"
	"go/token"
	"go/types"
	"strings"

	"golang.org/x/tools/go/ssa"
)

func init() {
	register(&propInfo{ID: "C13", Level: "other", Run: runC13,
		Explanation: "Static scope/ownership rules: R13.a each accepted socket gets a freshly allocated Conn (no pool, map or server field) initialised to database 0, unauthorised, empty credentials, zero user-data map; R13.b along the call chain from the connection loop to the handlers every hop passes on the very connection it received; R13.c functions reachable from the request handler store only into locals, the connection, or the enumerated shared state (Config.params): no Server/ConnManager/AuthManager field, no package-level variable, no variable captured across connections, no pooled object; R13.d the database id is written only by the constructor, SetDatabase and Select, on their own connection, and never on a path that then returns an error; the SELECT executor stores the decoded argument only when the handler succeeded; R13.e the accessors read their receiver only; R13.f nothing reachable from the lifecycle/registry API mutates a connection's per-connection state. Visibility/ordering under the memory model is C14's rule."})
}

func runC13(c *Ctx) {
	ruleFreshConn(c)
	ruleConnIdentity(c)
	ruleEffectScope(c)
	ruleNoSharedCapture(c, "R13.c")
	ruleSelectScope(c)
	ruleWhoMayAuthorise(c, "R13.d")
	ruleAccessorsReadReceiver(c)
	ruleNoForeignMutation(c)
	ruleRefusalIsAnError(c, "R13.g")
	ruleAuthenticatorsReadOnly(c, "R13.h")
	ruleGoroutineOwnsItsIteration(c, "R13.i")
	rulePresenceNotContent(c, "R13.j")
	ruleRecycledObjectsReset(c, "R13.p")
	ruleManagerConsultsAll(c, "R13.k")
	c.assume("applications do not mutate *Conn values obtained from Server.Conns()")
}

func ruleFreshConn(c *Ctx) {
	rid := "R13.a"
	c.rule(rid, "the Conn served by the connection loop is the result of the constructor called in that activation; the constructor returns a fresh heap allocation whose database id is constant 0, authorisation false, credentials empty and user-data map a zero sync.Map")
	nc := c.P.connConstructor()
	if !c.anchor(rid, nc, "the constructor of redis.Conn") {
		return
	}
	for i, r := range returnsOf(nc) {
		v := strip(retOperand(r, 0))
		al, ok := v.(*ssa.Alloc)
		if !ok || !al.Heap {
			c.bad(rid, fmt.Sprintf("conn-constructor/return#%d", i), c.P.instrPos(r), "the connection object is not a fresh allocation ("+describeValue(v)+"): a recycled or shared object carries another connection's database, authorisation or user data")
			continue
		}
		init := map[string]ssa.Value{}
		if al.Referrers() != nil {
			for _, ref := range *al.Referrers() {
				if fa, ok := ref.(*ssa.FieldAddr); ok && fa.Referrers() != nil {
					name := derefStruct(fa.X.Type()).Field(fa.Field).Name()
					for _, rr := range *fa.Referrers() {
						if st, ok := rr.(*ssa.Store); ok {
							init[name] = st.Val
						}
					}
				}
			}
		}
		okInit := true
		why := ""
		if v, ok := init["id"]; ok {
			if k, isC := constInt(v); !isC || k != 0 {
				okInit, why = false, "database id is not initialised to 0"
			}
		}
		if v, ok := init["authrized"]; ok {
			if b, isC := constBool(v); !isC || b {
				okInit, why = false, "authorisation is not initialised to false"
			}
		}
		for _, f := range []string{"username", "password"} {
			if v, ok := init[f]; ok {
				if s, isC := constString(v); !isC || s != "" {
					okInit, why = false, f+" is not initialised empty"
				}
			}
		}
		c.check(okInit, rid, fmt.Sprintf("conn-constructor/return#%d", i), c.P.instrPos(r), "fresh allocation with default per-connection state", why)
	}
	for _, cl := range c.P.connLoops() {
		if cl.Handle == nil {
			continue
		}
		var connArg ssa.Value
		for _, a := range cl.Handle.Common().Args {
			if strings.HasSuffix(a.Type().String(), "redis.Conn") {
				connArg = strip(a)
			}
		}
		call, ok := connArg.(*ssa.Call)
		okFresh := ok && staticCallee(call.Common()) == nc && !cl.Loop.Blocks[call.Block()]
		c.check(okFresh, rid, fnName(cl.Fn)+"/conn", c.P.instrPos(cl.Handle), "the connection handed to the request handler is the one constructed for this socket, once, before the loop", "the connection handed to the request handler is not the object constructed for this socket in this activation")
	}
}

func ruleConnIdentity(c *Ctx) {
	rid := "R13.b"
	c.rule(rid, "value identity of the connection along the dispatch chain: in every framework function that has a *Conn parameter and is reachable from the request handler, every call that passes a *Conn (to a framework function, an executor, or a handler interface method) passes that parameter itself")
	var roots []*ssa.Function
	for _, cl := range c.P.connLoops() {
		if cl.Handle != nil {
			if f := staticCallee(cl.Handle.Common()); f != nil {
				roots = append(roots, f)
			}
		}
	}
	reach := c.P.repoReach(roots, inFramework)
	n, bad := 0, 0
	for fn := range reach {
		if fn.Blocks == nil {
			continue
		}
		var own *ssa.Parameter
		for _, p := range fn.Params {
			if strings.HasSuffix(p.Type().String(), "redis.Conn") && own == nil {
				own = p
			}
		}
		// closures nested in executors see the executor's conn as a free variable
		isOwn := func(v ssa.Value) bool {
			// a closure of the connection's own function (a deferred or observer callback) sees the
			// connection as a captured variable: the load of a free variable holding a *Conn
			if ld, ok := v.(*ssa.UnOp); ok && ld.Op == token.MUL {
				if fv, ok := ld.X.(*ssa.FreeVar); ok && strings.HasSuffix(deref(fv.Type()).String(), "redis.Conn") {
					return true
				}
			}
			v = strip(v)
			if own != nil && v == ssa.Value(own) {
				return true
			}
			if p, ok := v.(*ssa.Parameter); ok && strings.HasSuffix(p.Type().String(), "redis.Conn") {
				return true // another *Conn parameter of the same activation (helper taking the conn)
			}
			if fv, ok := v.(*ssa.FreeVar); ok && strings.HasSuffix(fv.Type().String(), "redis.Conn") {
				return true
			}
			return false
		}
		allInstrs(fn, func(ins ssa.Instruction) {
			cc := callCommon(ins)
			if cc == nil {
				return
			}
			if _, isBuiltin := cc.Value.(*ssa.Builtin); isBuiltin {
				return // append/len/... over a snapshot of connections dispatch nothing
			}
			for i, a := range cc.Args {
				if a.Type().String() != "*"+pkgRedis+".Conn" {
					continue
				}
				if !cc.IsInvoke() && i == 0 && cc.Signature().Recv() != nil {
					continue // method call on a conn: receiver, checked by the accessor rules
				}
				n++
				if !isOwn(a) {
					bad++
					c.bad(rid, fmt.Sprintf("%s/passes-other-conn#%d", c.P.key(fn), bad), c.P.instrPos(ins), "a connection other than the one the request arrived on is passed down the dispatch chain ("+describeValue(strip(a))+")")
				}
			}
		})
	}
	c.count("conn-passing-calls", n)
	c.floor("conn-passing-calls", 60)
	if bad == 0 {
		c.ok(rid, "conn-identity", "", fmt.Sprintf("%d calls pass a connection; all pass the caller's own", n))
	}
}

func ruleEffectScope(c *Ctx) {
	rid := "R13.c"
	c.rule(rid, "A3 effect scope: in framework functions reachable from the request handler, stores go to locals, to fields of a *Conn, or to the enumerated shared state {Config.params (CONFIG SET)}; any other store to a field of Server/ServerConfig/Config/ConnManager/AuthManager, to a package-level variable, or any use of sync.Pool is a violation (state kept in the wrong scope)")
	var roots []*ssa.Function
	for _, cl := range c.P.connLoops() {
		if cl.Handle != nil {
			if f := staticCallee(cl.Handle.Common()); f != nil {
				roots = append(roots, f)
			}
		}
	}
	reach := c.P.repoReach(roots, inFramework)
	allowed := map[string]string{"redis.Config.params": "CONFIG SET writes the server configuration by design"}
	n, bad := 0, 0
	for fn := range reach {
		if fn.Blocks == nil {
			continue
		}
		allInstrs(fn, func(ins ssa.Instruction) {
			switch x := ins.(type) {
			case *ssa.Store:
				n++
				if g, ok := x.Addr.(*ssa.Global); ok {
					bad++
					c.bad(rid, fmt.Sprintf("%s/global:%s", c.P.key(fn), g.Name()), c.P.instrPos(x), "a request handler path stores into the package-level variable "+g.Name()+": the state is shared by all connections")
					return
				}
				if owner, f, base, ok := fieldOf(x.Addr); ok && sharedStructs[owner] && owner != "redis.Conn" {
					if _, isAlloc := strip(base).(*ssa.Alloc); isAlloc {
						return
					}
					if _, ok := allowed[owner+"."+f]; ok {
						return
					}
					bad++
					c.bad(rid, fmt.Sprintf("%s/store:%s.%s", c.P.key(fn), owner, f), c.P.instrPos(x), "a request handler path stores into server-wide state "+owner+"."+f+": what one connection sets, every connection sees")
				}
			case *ssa.MapUpdate:
				n++
				if owner, f, _, ok := fieldOf(x.Map); ok && sharedStructs[owner] && owner != "redis.Conn" {
					if _, ok := allowed[owner+"."+f]; ok {
						return
					}
					bad++
					c.bad(rid, fmt.Sprintf("%s/mapupdate:%s.%s", c.P.key(fn), owner, f), c.P.instrPos(x), "a request handler path updates the server-wide map "+owner+"."+f)
				}
			}
		})
	}
	// objects recycled through a sync.Pool: decided field by field by ruleRecycledObjectsReset (R13.p)
	c.count("stores-on-request-path", n)
	c.floor("stores-on-request-path", 20)
	if bad == 0 {
		c.ok(rid, "effect-scope", "", fmt.Sprintf("%d stores in %d functions reachable from the request handler; all local, per-connection or allow-listed", n, len(reach)))
	}
}

func ruleSelectScope(c *Ctx) {
	rid := "R13.d"
	c.rule(rid, "the database id field is stored only by the constructor, (*Conn).SetDatabase and the Select handler, each on its own receiver/parameter connection with its own parameter as value; a store of the id is never followed by an error return; the SELECT executor calls SetDatabase with the decoded argument only where the handler's error is nil")
	n := 0
	for _, fn := range c.P.RepoFuncs(pkgRedis) {
		allInstrs(fn, func(ins ssa.Instruction) {
			st, ok := ins.(*ssa.Store)
			if !ok {
				return
			}
			owner, f, base, ok := fieldOf(st.Addr)
			if !ok || owner != "redis.Conn" || f != "id" {
				return
			}
			n++
			key := "id-store/" + fnName(fn)
			if _, isAlloc := strip(base).(*ssa.Alloc); isAlloc {
				c.ok(rid, key, c.P.instrPos(st), "constructor")
				return
			}
			_, basePar := strip(base).(*ssa.Parameter)
			_, valPar := strip(st.Val).(*ssa.Parameter)
			if !basePar || !valPar {
				c.bad(rid, key, c.P.instrPos(st), "the database id is stored on a connection, or from a value, that is not this call's own parameter")
				return
			}
			// no error return after the store
			after := reachableBlocks(st.Block(), nil)
			errAfter := ""
			for _, r := range returnsOf(fn) {
				if !after[r.Block()] || len(r.Results) == 0 {
					continue
				}
				last := retOperand(r, len(r.Results)-1)
				if isErrorType(r.Results[len(r.Results)-1].Type()) && !isNilConst(last) {
					// same block: only if the return comes after the store (always true for a block terminator)
					errAfter = c.P.instrPos(r)
				}
			}
			c.check(errAfter == "", rid, key, c.P.instrPos(st), "stored on the call's own connection; no error return follows the store", "the database id is changed and the function can then return an error at "+errAfter+": a rejected SELECT still moves the connection to another database")
		})
	}
	c.count("id-stores", n)
	c.floor("id-stores", 2)
	c.floor("select-executors", 1)
	execs, _ := c.P.executors()
	for _, e := range execs {
		if e.Name != "SELECT" {
			continue
		}
		c.count("select-executors", 1)
		c.analysed(e.Fn)
		var sel *ssa.Call
		allInstrs(e.Fn, func(ins ssa.Instruction) {
			if call, ok := ins.(*ssa.Call); ok && call.Common().IsInvoke() && call.Common().Method.Name() == "Select" {
				sel = call
			}
		})
		found := false
		allInstrs(e.Fn, func(ins ssa.Instruction) {
			call, ok := isCall(ins, "(*"+pkgRedis+".Conn).SetDatabase")
			if !ok {
				return
			}
			found = true
			okG := false
			if sel != nil {
				for _, at := range factsAt(call.Block()) {
					if at.Kind == "nil" && at.Pos {
						if ex, ok := at.X.(*ssa.Extract); ok && ex.Tuple == ssa.Value(sel) && ex.Index == 1 {
							okG = true
						}
					}
				}
			}
			sameArg := sel != nil && len(sel.Common().Args) == 2 && strip(sel.Common().Args[1]) == strip(call.Common().Args[1])
			ownConn := strip(call.Common().Args[0]) == ssa.Value(e.Fn.Params[0])
			c.check(okG && sameArg && ownConn, rid, "executor:SELECT/SetDatabase", c.P.instrPos(call), "SetDatabase(own conn, decoded id) only where the Select handler returned no error", fmt.Sprintf("SELECT stores the database id without the handler having succeeded, or a different value/connection (guarded=%v same-id=%v own-conn=%v)", okG, sameArg, ownConn))
		})
		if !found {
			c.note("SELECT executor does not call SetDatabase itself (the handler must)")
		}
		// once a call that stores the id has succeeded, the executor answers success
		writers := map[*ssa.Function]bool{}
		for _, fn := range c.P.RepoFuncs(pkgRedis) {
			allInstrs(fn, func(ins ssa.Instruction) {
				if st, ok := ins.(*ssa.Store); ok {
					if owner, f, base, ok := fieldOf(st.Addr); ok && owner == "redis.Conn" && f == "id" {
						if _, isAlloc := strip(base).(*ssa.Alloc); !isAlloc {
							writers[fn] = true
						}
					}
				}
			})
		}
		isWriterCall := func(call *ssa.Call) bool {
			cc := call.Common()
			if cc.IsInvoke() {
				return cc.Method.Name() == "Select"
			}
			f := staticCallee(cc)
			return f != nil && writers[f]
		}
		type st struct {
			Done    bool
			Pending *ssa.Call
			NilOf   *ssa.Call
		}
		a := &Auto[st]{Fn: e.Fn, Init: st{},
			Step: func(s st, ins ssa.Instruction, fail func(string)) []st {
				switch x := ins.(type) {
				case *ssa.Call:
					if isWriterCall(x) {
						res := x.Common().Signature().Results()
						if res.Len() > 0 && isErrorType(res.At(res.Len()-1).Type()) {
							s.Pending = x
						} else {
							s.Done = true
						}
					}
				case *ssa.Return:
					if x.Block() == e.Fn.Recover || len(x.Results) == 0 {
						break
					}
					last := strip(retOperand(x, len(x.Results)-1))
					if !isErrorType(x.Results[len(x.Results)-1].Type()) || isNilConst(last) {
						break
					}
					if ex, ok := last.(*ssa.Extract); ok && s.NilOf != nil && ex.Tuple == ssa.Value(s.NilOf) {
						break // the error of the writer itself, known to be nil on this path
					}
					if s.Done || s.Pending != nil {
						fail("the SELECT executor can return an error after a call that stores the connection's database id has succeeded: the client is told the SELECT failed while its connection has moved")
					}
				}
				return []st{s}
			},
			Edge: func(s st, b *ssa.BasicBlock, idx int) (st, bool) {
				for _, at := range edgeOnly(b, idx) {
					if at.Kind != "nil" {
						continue
					}
					ex, ok := at.X.(*ssa.Extract)
					if !ok {
						// a single error result
						if call, isCall := at.X.(*ssa.Call); isCall && s.Pending == call {
							if at.Pos {
								s.Done, s.NilOf = true, call
							}
							s.Pending = nil
						}
						continue
					}
					if call, isCall := ex.Tuple.(*ssa.Call); isCall && s.Pending == call {
						if at.Pos {
							s.Done, s.NilOf = true, call
						}
						s.Pending = nil
					}
				}
				return s, true
			}}
		res := a.Run()
		if len(res.Errs) == 0 {
			c.ok(rid, "executor:SELECT/no-error-after-the-id-moved", c.P.pos(e.Fn.Pos()), "no error return follows a successful call that stores the database id")
		}
		for i, er := range res.Errs {
			c.bad(rid, fmt.Sprintf("executor:SELECT/no-error-after-the-id-moved#%d", i), c.P.instrPos(er.Ins), er.Msg, er.witness(c.P)...)
		}
	}
}

func ruleAccessorsReadReceiver(c *Ctx) {
	rid := "R13.e"
	c.rule(rid, "Database(), IsAuthrized(), UserName(), Password() return values computed from fields of their receiver only")
	for _, name := range []string{"Database", "IsAuthrized", "UserName", "Password"} {
		fn := c.P.Method(pkgRedis, "Conn", name)
		if fn == nil {
			c.undecided(rid, "Conn."+name, "", "accessor not found")
			continue
		}
		c.analysed(fn)
		okAll := true
		why := ""
		allInstrs(fn, func(ins ssa.Instruction) {
			switch x := ins.(type) {
			case *ssa.UnOp:
				if g, ok := x.X.(*ssa.Global); ok {
					okAll, why = false, "reads package variable "+g.Name()
				}
			case *ssa.FieldAddr:
				if strip(x.X) != ssa.Value(fn.Params[0]) {
					if _, isFA := x.X.(*ssa.FieldAddr); !isFA {
						okAll, why = false, "reads a field of an object other than its receiver"
					}
				}
			case *ssa.Call, *ssa.Defer:
				cc := callCommon(ins)
				if _, isB := cc.Value.(*ssa.Builtin); isB {
					return
				}
				// taking the connection's own state lock around the read
				if _, kind := lockEvent(cc); kind != "" && len(cc.Args) > 0 {
					if _, _, base, ok := fieldOf(cc.Args[0]); ok && strip(base) == ssa.Value(fn.Params[0]) {
						return
					}
					if fa, ok := cc.Args[0].(*ssa.FieldAddr); ok && strip(fa.X) == ssa.Value(fn.Params[0]) {
						return
					}
				}
				okAll, why = false, "calls "+calleeName(cc)
			}
		})
		c.check(okAll, rid, "Conn."+name, c.P.pos(fn.Pos()), "reads receiver fields only", "the accessor does not only read its receiver: "+why)
	}
}

func ruleNoForeignMutation(c *Ctx) {
	rid := "R13.f"
	c.rule(rid, "no function reachable from the lifecycle/registry API (Start, Stop, Restart, Conns, ConnByUUID), without crossing a go statement, calls a per-connection mutator (SetDatabase, SetAuthrized, SetUserName, SetPassword, SetSpanContext, Store, Delete) on a connection")
	m := &syncModel{p: c.P}
	bad := 0
	nfun := 0
	for _, r := range concurrencyRoots(c.P) {
		if r.Goroutine {
			continue
		}
		for fn := range m.reachFrom(r) {
			nfun++
			allInstrs(fn, func(ins ssa.Instruction) {
				cc := callCommon(ins)
				if cc == nil {
					return
				}
				n := calleeName(cc)
				for _, mth := range []string{"SetDatabase", "SetAuthrized", "SetUserName", "SetPassword", "SetSpanContext"} {
					if n == "(*"+pkgRedis+".Conn)."+mth {
						bad++
						c.bad(rid, fmt.Sprintf("%s/%s", fnName(fn), mth), c.P.instrPos(ins), "per-connection state of a connection taken from the registry is mutated from "+r.Name)
					}
				}
			})
		}
	}
	if bad == 0 {
		c.ok(rid, "no-foreign-mutation", "", fmt.Sprintf("%d functions reachable from the API roots; none mutates per-connection state", nfun))
	}
}

// ruleRefusalIsAnError: the executors take a nil error from a handler as "the command succeeded"
// and only then apply its per-connection effect (SELECT stores the database id on err == nil).
// The framework's own handler implementations must therefore never report a refusal through
// the reply alone: a return of (error message, nil) would let the effect happen although the
// client was told the command failed.
func ruleRefusalIsAnError(c *Ctx, rid string) {
	c.rule(rid, "no method of *redis.Server implementing SystemCommandHandler or AuthCommandHandler returns an error-type message together with a nil error; per-connection effects in executors (SetDatabase) are dominated by the nil test of the handler's error")
	sp := c.P.SSAPkgs[pkgRedis]
	methods := map[string]bool{}
	for _, in := range []string{"SystemCommandHandler", "AuthCommandHandler"} {
		if t := sp.Type(in); t != nil {
			if it, ok := t.Type().Underlying().(*types.Interface); ok {
				for i := 0; i < it.NumMethods(); i++ {
					methods[it.Method(i).Name()] = true
				}
			}
		}
	}
	n := 0
	for _, name := range sortedKeys(methods) {
		fn := c.P.Method(pkgRedis, "Server", name)
		if fn == nil || fn.Blocks == nil {
			continue
		}
		n++
		c.analysed(fn)
		bad := ""
		for _, r := range returnsOf(fn) {
			if len(r.Results) != 2 || !isNilConst(retOperand(r, 1)) {
				continue
			}
			if call, ok := strip(retOperand(r, 0)).(*ssa.Call); ok {
				sum := summarizeMsgValue(call, map[*ssa.Parameter]*sval{}, 0)
				isErrMsg := strings.Contains(calleeName(call.Common()), "NewError")
				if sum.OK && sum.Typ != nil && sum.Typ.Kind == "const" {
					if k, ok := constInt(sum.Typ.C); ok {
						tt := readTypeTables(c.P)
						isErrMsg = k == tt.consts["ErrorMessage"]
					}
				}
				if isErrMsg {
					bad = fmt.Sprintf("the handler returns an error reply with a nil error at %s: the executor treats the command as successful and applies its effect on the connection", c.P.instrPos(r))
				}
			}
		}
		c.check(bad == "", rid, "Server."+name+"/refusal", c.P.pos(fn.Pos()), "refusals are signalled by the error result", bad)
	}
	c.count("framework-handler-methods", n)
	c.floor("framework-handler-methods", 4)
	// the executor side: SetDatabase under err == nil of the handler call
	for _, site := range c.P.staticCallSites(c.P.Method(pkgRedis, "Conn", "SetDatabase")) {
		fn := site.Parent()
		if !inFramework(fn) {
			continue
		}
		// the clause is about executors, which apply the effect after asking a handler; a handler
		// implementation that stores the id itself is judged by R13.d (no store on a path that
		// then returns an error)
		callsHandler := false
		allInstrs(fn, func(ins ssa.Instruction) {
			if cc := callCommon(ins); cc != nil && cc.IsInvoke() && isHandlerIface(cc.Value.Type().String()) {
				callsHandler = true
			}
		})
		if !callsHandler {
			continue
		}
		okDom := false
		for _, at := range factsAt(site.Block()) {
			if ex, ok := at.X.(*ssa.Extract); ok && at.Kind == "nil" && at.Pos && ex.Index == 1 {
				if hc, ok := ex.Tuple.(*ssa.Call); ok && hc.Common().IsInvoke() {
					okDom = true
				}
			}
		}
		c.check(okDom, rid, c.P.key(fn)+"/SetDatabase", c.P.instrPos(site), "the database id is stored only where the handler's error is nil", "the database id is stored on the connection without the handler's error having been tested nil")
	}
}
