package main

// loads.go: value numbering for loads of struct fields, for the inequality prover (A8).
// Two loads of the same field of the same object yield the same value when no write of that
// field can happen between them; a load that follows a store of that field (same object) with
// nothing in between yields the stored value. "Between" is decided on the CFG: L1 dominates
// L2, and no killing instruction lies on any path from L1 to L2 that does not pass L1 again.
// A killing instruction is a store to that field of any object of the type, or a call that may
// execute one (a dynamic call, or a repository function that — transitively through static
// calls, depth 4 — contains such a store).

import (
	"go/token"
	"go/types"

	"golang.org/x/tools/go/ssa"
)

type fieldKey struct {
	st  *types.Struct
	idx int
}

func loadKey(v ssa.Value) (fa *ssa.FieldAddr, k fieldKey, ok bool) {
	ld, isLd := v.(*ssa.UnOp)
	if !isLd || ld.Op != token.MUL {
		return nil, fieldKey{}, false
	}
	fa, isFA := ld.X.(*ssa.FieldAddr)
	if !isFA {
		return nil, fieldKey{}, false
	}
	st := derefStruct(fa.X.Type())
	if st == nil {
		return nil, fieldKey{}, false
	}
	return fa, fieldKey{st, fa.Field}, true
}

var mayWriteMemo = map[*ssa.Function]map[fieldKey]bool{}

// mayWriteField: fn (or a static callee, depth <= 4) stores to the field, or makes a dynamic call.
func mayWriteField(fn *ssa.Function, k fieldKey, depth int) bool {
	if fn == nil {
		return true
	}
	if fn.Blocks == nil {
		return false // external or builtin: cannot name an unexported field; exported ones are not tracked
	}
	if m, ok := mayWriteMemo[fn]; ok {
		if r, ok := m[k]; ok {
			return r
		}
	} else {
		mayWriteMemo[fn] = map[fieldKey]bool{}
	}
	mayWriteMemo[fn][k] = true // recursion: assume the worst while in progress
	if depth > 4 {
		return true
	}
	res := false
	allInstrs(fn, func(ins ssa.Instruction) {
		if res {
			return
		}
		if killsField(ins, k, depth) {
			res = true
		}
	})
	mayWriteMemo[fn][k] = res
	return res
}

func killsField(ins ssa.Instruction, k fieldKey, depth int) bool {
	switch x := ins.(type) {
	case *ssa.Store:
		if fa, ok := x.Addr.(*ssa.FieldAddr); ok {
			if st := derefStruct(fa.X.Type()); st != nil && types.Identical(st, k.st) && fa.Field == k.idx {
				return true
			}
		}
	case ssa.CallInstruction:
		cc := x.Common()
		if _, isB := cc.Value.(*ssa.Builtin); isB {
			return false
		}
		if cc.IsInvoke() {
			return true
		}
		callee := staticCallee(cc)
		if callee == nil {
			return true // a function value
		}
		if !inRepo(callee) {
			return false
		}
		return mayWriteField(callee, k, depth+1)
	}
	return false
}

var canonLoadMemo = map[ssa.Value]ssa.Value{}

// canonLoad returns the representative of a field load: the stored value it must observe, or
// the earliest equivalent load; v itself when nothing is known.
func canonLoad(v ssa.Value) ssa.Value {
	if r, ok := canonLoadMemo[v]; ok {
		return r
	}
	canonLoadMemo[v] = v
	fa, k, ok := loadKey(v)
	if !ok {
		return v
	}
	ld := v.(*ssa.UnOp)
	fn := ld.Parent()
	base := strip(fa.X)
	best := ssa.Value(v)
	var bestIns ssa.Instruction
	// closest dominating source wins: iterate all candidates, keep the one dominated by all other valid ones
	var cands []struct {
		ins ssa.Instruction
		val ssa.Value
	}
	allInstrs(fn, func(ins ssa.Instruction) {
		switch x := ins.(type) {
		case *ssa.UnOp:
			if x == ld {
				return
			}
			if fa2, k2, ok := loadKey(x); ok && k2.idx == k.idx && types.Identical(k2.st, k.st) && strip(fa2.X) == base {
				cands = append(cands, struct {
					ins ssa.Instruction
					val ssa.Value
				}{x, x})
			}
		case *ssa.Store:
			if fa2, ok := x.Addr.(*ssa.FieldAddr); ok && fa2.Field == k.idx && strip(fa2.X) == base {
				if st := derefStruct(fa2.X.Type()); st != nil && types.Identical(st, k.st) {
					cands = append(cands, struct {
						ins ssa.Instruction
						val ssa.Value
					}{x, x.Val})
				}
			}
		}
	})
	for _, c := range cands {
		if !instrDominates(c.ins, ld) || !noKillBetween(c.ins, ld, k) {
			continue
		}
		// a store forwards its value; a load forwards its own representative
		val := c.val
		if _, isSt := c.ins.(*ssa.Store); !isSt {
			val = canonLoad(c.val)
		}
		// prefer a store (gives the value's shape), else the earliest load
		if bestIns == nil {
			best, bestIns = val, c.ins
			continue
		}
		_, bestIsStore := bestIns.(*ssa.Store)
		_, curIsStore := c.ins.(*ssa.Store)
		switch {
		case curIsStore && !bestIsStore:
			best, bestIns = val, c.ins
		case curIsStore == bestIsStore && instrDominates(c.ins, bestIns) && !curIsStore:
			best, bestIns = val, c.ins
		case curIsStore && bestIsStore && instrDominates(bestIns, c.ins):
			best, bestIns = val, c.ins // the later store
		}
	}
	canonLoadMemo[v] = best
	return best
}

// instrDominates: a is executed before b on every path to b.
func instrDominates(a, b ssa.Instruction) bool {
	if a.Block() == b.Block() {
		return instrIndex(a) < instrIndex(b)
	}
	return a.Block().Dominates(b.Block())
}

// noKillBetween: no instruction that may write field k lies on a path from src to dst that
// does not execute src again (src dominates dst).
func noKillBetween(src, dst ssa.Instruction, k fieldKey) bool {
	b1, b2 := src.Block(), dst.Block()
	i1, i2 := instrIndex(src), instrIndex(dst)
	killIn := func(b *ssa.BasicBlock, from, to int) bool {
		for i := from; i < to && i < len(b.Instrs); i++ {
			if b.Instrs[i] == src {
				continue
			}
			if killsField(b.Instrs[i], k, 0) {
				return true
			}
		}
		return false
	}
	if b1 == b2 {
		return !killIn(b1, i1+1, i2)
	}
	// forward from b1 (after src) without re-entering b1; backward from b2 without entering b1
	fwd := map[*ssa.BasicBlock]bool{}
	stack := append([]*ssa.BasicBlock{}, b1.Succs...)
	for len(stack) > 0 {
		b := stack[len(stack)-1]
		stack = stack[:len(stack)-1]
		if b == b1 || fwd[b] {
			continue
		}
		fwd[b] = true
		stack = append(stack, b.Succs...)
	}
	bwd := map[*ssa.BasicBlock]bool{}
	stack = append(stack[:0], b2.Preds...)
	for len(stack) > 0 {
		b := stack[len(stack)-1]
		stack = stack[:len(stack)-1]
		if b == b1 || bwd[b] {
			continue
		}
		bwd[b] = true
		stack = append(stack, b.Preds...)
	}
	if killIn(b1, i1+1, len(b1.Instrs)) {
		return false
	}
	if killIn(b2, 0, i2) {
		return false
	}
	if bwd[b2] && fwd[b2] && killIn(b2, i2+1, len(b2.Instrs)) {
		return false // b2 lies on a cycle that avoids b1: its tail precedes dst on the next lap
	}
	for b := range fwd {
		if b != b2 && bwd[b] && killIn(b, 0, len(b.Instrs)) {
			return false
		}
	}
	return true
}
